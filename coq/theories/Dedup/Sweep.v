(* The housekeeping sweep of the response cache as the code runs it: NOT one atomic step.
   pkg/cache.Cache.CheckExpirations walks the map with Range, which fetches one (key, element) pair under the
   read lock and calls the callback WITHOUT the lock; the callback looks at the element it was given
   (IsExpired(now)) and, if it is expired, removes the key in a second critical section.  Between "fetched",
   "found expired" and "removed" the reader loop can process requests: in particular a request that uses the
   message ID again after EXCHANGE_LIFETIME misses the expired entry, runs the handler and stores the fresh reply
   under the same key (cache_store replaces an expired element).

   The only step of a sweep that touches the shared state is the removal; it is modelled as an item of its own,
   [SDel k e] = "a sweep that examined element [e] under key [k] at some earlier time now removes it", interleaved
   in any way with the events of a history:

     DCas same : the code -- ReplaceWithFunc removes the key only if it still holds the examined element
                 ([same cur e]: the pointer comparison [oldValue == value]) and that element is expired;
     DKey      : the variant that removes by key (LoadAndDelete(key)), whatever the key holds by now.

   Theorems: under DCas -- for EVERY pointer comparison [same], every placement of removal steps (any number of
   sweeps, stale examinations, keys that are gone) -- no observation of the history changes, now or later
   ([sweep_unobservable]); so every theorem about [run] holds with sweeps in flight.  Under DKey there is a history
   in which the handler runs again for a copy of a request well inside its lifetime ([key_delete_refuted], with a
   removal step that is justified by a real examination: [examined_ok]). *)
From Coq Require Import ZArith List Bool Lia.
From GoCoap Require Import Base.Bytes NoResp.Model Dedup.Model Dedup.Proofs.
Import ListNotations.
Open Scope Z_scope.

Inductive delmode :=
| DCas (same : entry -> entry -> bool)
| DKey.

Definition sweep_del (m : delmode) (k : Z) (e : entry) (c : list (Z * entry)) : list (Z * entry) :=
  match m with
  | DCas same =>
      match lookup c k with
      | Some cur => if same cur e && expired cur then remove c k else c
      | None => c
      end
  | DKey => remove c k
  end.

Inductive sitem :=
| SEv (e : ev)                  (* an event of the history: one whole [step] *)
| SDel (k : Z) (e : entry).     (* the removal step of a sweep that examined [e] under [k] *)

Definition sstep (m : delmode) (s : st) (i : sitem) : st * list obs :=
  match i with
  | SEv e => let '(s1, o) := step s e in (s1, [o])
  | SDel k e => ({| cache := sweep_del m k e (cache s); own := own s |}, [])
  end.

(* the observations are those of the events, in order *)
Fixpoint srun (m : delmode) (s : st) (l : list sitem) : st * list obs :=
  match l with
  | [] => (s, [])
  | i :: r => let '(s1, o) := sstep m s i in let '(s2, os) := srun m s1 r in (s2, o ++ os)
  end.

Fixpoint evs_of (l : list sitem) : list ev :=
  match l with [] => [] | SEv e :: r => e :: evs_of r | SDel _ _ :: r => evs_of r end.

(* a removal step is justified when the sweep really saw that element, expired, under that key at some earlier
   point of the execution (only needed to show that the refuting execution is a real one) *)
Fixpoint examined_ok (m : delmode) (s : st) (seen : list (Z * entry)) (l : list sitem) : bool :=
  match l with
  | [] => true
  | i :: r =>
      let seen' := filter (fun '(_, en) => expired en) (cache s) ++ seen in
      (match i with
       | SEv _ => true
       | SDel k e => existsb (fun '(k', e') => (k' =? k) && (e_left e' =? e_left e) && (w_mid (e_reply e') =? w_mid (e_reply e))
                                             && (w_code (e_reply e') =? w_code (e_reply e))) seen'
       end) && examined_ok m (fst (sstep m s i)) seen' r
  end.

(* ---------- keys are unique in every reachable cache ---------- *)

Definition nodupk (c : list (Z * entry)) : Prop := NoDup (map fst c).

Lemma in_keys_remove c k x : In x (map fst (remove c k)) -> In x (map fst c) /\ x <> k.
Proof.
  induction c as [|[k0 e0] c IH]; cbn [remove map fst In]; [tauto|].
  destruct (Z.eqb_spec k k0) as [->|Hne].
  - intros H. destruct (IH H). split; [right; assumption|assumption].
  - cbn [map fst In]. intros [<-|H]; [split; [left; reflexivity|congruence]|].
    destruct (IH H). split; [right; assumption|assumption].
Qed.

Lemma nodupk_remove c k : nodupk c -> nodupk (remove c k).
Proof.
  unfold nodupk. induction c as [|[k0 e0] c IH]; cbn [remove map fst]; [intros; constructor|].
  intros H. inversion H as [|? ? Hn Hd]; subst.
  destruct (k =? k0); [auto|]. cbn [map fst]. constructor; [|auto].
  intros Hin. apply in_keys_remove in Hin. tauto.
Qed.

Lemma lookup_notin c k : ~ In k (map fst c) -> lookup c k = None.
Proof.
  induction c as [|[k0 e0] c IH]; cbn [lookup map fst In]; [reflexivity|].
  intros H. destruct (Z.eqb_spec k k0) as [->|_]; [exfalso; apply H; left; reflexivity|].
  apply IH. intros Hin. apply H. right. assumption.
Qed.

Lemma lookup_remove_same c k : lookup (remove c k) k = None.
Proof. apply lookup_notin. intros H. apply in_keys_remove in H. destruct H as [_ H]. congruence. Qed.

Lemma nodupk_store c k r : nodupk c -> nodupk (cache_store c k r).
Proof.
  intros H. unfold cache_store. destruct (cache_load c k); [assumption|].
  unfold nodupk. cbn [map fst]. constructor; [|apply nodupk_remove; assumption].
  intros Hin. apply in_keys_remove in Hin. destruct Hin as [_ Hin]. congruence.
Qed.

Lemma keys_age (c : list (Z * entry)) d :
  map fst (map (fun '(k0, en) => (k0, {| e_reply := e_reply en; e_left := e_left en - d |})) c) = map fst c.
Proof. induction c as [|[k0 e0] c IH]; cbn [map fst]; [reflexivity|]. rewrite IH. reflexivity. Qed.

Lemma in_keys_filter (p : Z * entry -> bool) c x : In x (map fst (filter p c)) -> In x (map fst c).
Proof.
  induction c as [|a c IH]; cbn [filter map In]; [tauto|].
  destruct (p a); cbn [map In]; intros H; [destruct H as [H|H]; [left; assumption|right; auto]|right; auto].
Qed.

Lemma nodupk_filter (p : Z * entry -> bool) c : nodupk c -> nodupk (filter p c).
Proof.
  unfold nodupk. induction c as [|a c IH]; cbn [filter map]; [intros; constructor|].
  intros H. inversion H as [|? ? Hn Hd]; subst.
  destruct (p a); [|auto]. cbn [map]. constructor; [|auto].
  intros Hin. apply Hn. eapply in_keys_filter. eassumption.
Qed.

Lemma nodupk_req_store mid h c : nodupk c -> nodupk (req_store mid h c).
Proof.
  intros H. destruct (req_store_cases mid h c) as [->|[r ->]]; [assumption|apply nodupk_store; assumption].
Qed.

Lemma step_nodupk s e : nodupk (cache s) -> nodupk (cache (fst (step s e))).
Proof.
  intros H. destruct e as [typ mid tok code ro b|ms| |typ mid|mid|typ tok code o p]; cbn [step].
  - destruct (req_lookup typ mid (cache s)); cbn [fst cache]; [assumption|apply nodupk_req_store; assumption].
  - cbn [fst cache]. unfold nodupk. rewrite keys_age. assumption.
  - cbn [fst cache]. apply nodupk_filter. assumption.
  - cbn [fst cache]. assumption.
  - cbn [fst cache]. assumption.
  - cbn [fst cache]. assumption.
Qed.

Lemma run_nodupk evs : forall s, nodupk (cache s) -> nodupk (cache (final s evs)).
Proof.
  induction evs as [|e r IH]; intros s H; [rewrite final_nil; assumption|].
  rewrite final_cons. apply IH. apply step_nodupk. assumption.
Qed.

Lemma init_nodupk own0 : nodupk (cache (init own0)).
Proof. constructor. Qed.

(* ---------- caches that a request cannot tell apart ---------- *)

(* requests read the cache through [cache_load] only: an expired element is as good as none *)
Definition ceq (c1 c2 : list (Z * entry)) : Prop := forall k, cache_load c1 k = cache_load c2 k.

Lemma ceq_store c1 c2 k r : ceq c1 c2 -> ceq (cache_store c1 k r) (cache_store c2 k r).
Proof.
  intros H k'. unfold cache_store. rewrite <- (H k).
  destruct (cache_load c1 k) eqn:E; [apply H|].
  unfold cache_load. cbn [lookup]. destruct (Z.eqb_spec k' k) as [->|Hne]; [reflexivity|].
  rewrite !lookup_remove_other by assumption. exact (H k').
Qed.

Lemma ceq_age c1 c2 d : 0 <= d -> ceq c1 c2 ->
  ceq (map (fun '(k0, en) => (k0, {| e_reply := e_reply en; e_left := e_left en - d |})) c1)
      (map (fun '(k0, en) => (k0, {| e_reply := e_reply en; e_left := e_left en - d |})) c2).
Proof.
  intros Hd H k. specialize (H k). unfold cache_load in *. rewrite !lookup_age.
  unfold expired in *.
  destruct (lookup c1 k) as [e1|]; destruct (lookup c2 k) as [e2|]; cbn [e_left].
  - destruct (e_left e1 <? 0) eqn:E1; destruct (e_left e2 <? 0) eqn:E2; try discriminate.
    + assert (e_left e1 - d <? 0 = true) as -> by lia. assert (e_left e2 - d <? 0 = true) as -> by lia. reflexivity.
    + injection H as ->. reflexivity.
  - destruct (e_left e1 <? 0) eqn:E1; [|discriminate].
    assert (e_left e1 - d <? 0 = true) as -> by lia. reflexivity.
  - destruct (e_left e2 <? 0) eqn:E2; [|discriminate].
    assert (e_left e2 - d <? 0 = true) as -> by lia. reflexivity.
  - reflexivity.
Qed.

Lemma load_tick c k : nodupk c -> cache_load (filter (fun '(_, en) => negb (expired en)) c) k = cache_load c k.
Proof.
  unfold nodupk. induction c as [|[k0 e0] c IH]; cbn [filter map fst]; [reflexivity|].
  intros H. inversion H as [|? ? Hn Hd]; subst. specialize (IH Hd).
  destruct (expired e0) eqn:E0; cbn [negb].
  - unfold cache_load at 2. cbn [lookup]. destruct (Z.eqb_spec k k0) as [->|Hne].
    + rewrite E0. rewrite IH. unfold cache_load. rewrite (lookup_notin c k0 Hn). reflexivity.
    + exact IH.
  - unfold cache_load in *. cbn [lookup]. destruct (Z.eqb_spec k k0); [reflexivity|exact IH].
Qed.

Lemma ceq_tick c1 c2 : nodupk c1 -> nodupk c2 -> ceq c1 c2 ->
  ceq (filter (fun '(_, en) => negb (expired en)) c1) (filter (fun '(_, en) => negb (expired en)) c2).
Proof. intros H1 H2 H k. rewrite !load_tick by assumption. apply H. Qed.

(* removing a key that holds an expired element (or nothing) is invisible *)
Lemma ceq_remove_expired c k : (forall cur, lookup c k = Some cur -> expired cur = true) -> ceq (remove c k) c.
Proof.
  intros H k'. unfold cache_load. destruct (Z.eq_dec k' k) as [->|Hne].
  - rewrite lookup_remove_same. destruct (lookup c k) as [cur|] eqn:E; [|reflexivity].
    rewrite (H cur eq_refl). reflexivity.
  - rewrite lookup_remove_other by assumption. reflexivity.
Qed.

(* the removal step of the code: whatever the pointer comparison says *)
Lemma ceq_del_cas same k e c : ceq (sweep_del (DCas same) k e c) c.
Proof.
  cbn [sweep_del]. destruct (lookup c k) as [cur|] eqn:E; [|intros k'; reflexivity].
  destruct (same cur e && expired cur) eqn:B; [|intros k'; reflexivity].
  apply andb_prop in B. destruct B as [_ B].
  apply ceq_remove_expired. intros cur' E'. rewrite E in E'. injection E' as <-. assumption.
Qed.

Lemma nodupk_del_cas same k e c : nodupk c -> nodupk (sweep_del (DCas same) k e c).
Proof.
  intros H. cbn [sweep_del]. destruct (lookup c k); [|assumption].
  destruct (_ && _); [apply nodupk_remove|]; assumption.
Qed.

(* ---------- simulation ---------- *)

Definition R (s1 s2 : st) : Prop :=
  own s1 = own s2 /\ ceq (cache s1) (cache s2) /\ nodupk (cache s1) /\ nodupk (cache s2).

Lemma R_refl s : nodupk (cache s) -> R s s.
Proof. intros H. repeat split; try assumption. Qed.

Lemma ceq_req_store mid h c1 c2 : ceq c1 c2 -> ceq (req_store mid h c1) (req_store mid h c2).
Proof.
  intros H. unfold req_store, store_reply. destruct (hd_store h); [|assumption].
  destruct (hd_reply h); [apply ceq_store|]; assumption.
Qed.

Lemma step_R s1 s2 e : R s1 s2 -> age_ok e ->
  R (fst (step s1 e)) (fst (step s2 e)) /\ snd (step s1 e) = snd (step s2 e).
Proof.
  intros (Ho & Hc & N1 & N2) Ha.
  assert (N1' := step_nodupk s1 e N1). assert (N2' := step_nodupk s2 e N2).
  destruct e as [typ mid tok code ro b|ms| |typ mid|mid|typ tok code o p]; cbn [step] in *.
  - assert (req_lookup typ mid (cache s1) = req_lookup typ mid (cache s2)) as EL.
    { unfold req_lookup. destruct (is_cacheable_typ typ); [apply Hc|reflexivity]. }
    rewrite <- EL in *. rewrite <- Ho in *.
    destruct (req_lookup typ mid (cache s1)); cbn [fst snd cache own] in *.
    + split; [|reflexivity]. repeat split; assumption.
    + split; [|reflexivity]. repeat split; try assumption. apply ceq_req_store. assumption.
  - cbn [fst snd cache own] in *. split; [|reflexivity]. repeat split; try assumption.
    apply ceq_age; assumption.
  - cbn [fst snd cache own] in *. split; [|reflexivity]. repeat split; try assumption.
    apply ceq_tick; assumption.
  - cbn [fst snd cache own] in *. rewrite <- Ho. split; [|reflexivity]. repeat split; assumption.
  - cbn [fst snd cache own] in *. rewrite <- Ho. split; [|reflexivity]. repeat split; assumption.
  - cbn [fst snd cache own] in *. rewrite <- Ho. split; [|reflexivity]. repeat split; assumption.
Qed.

Lemma run_R evs : forall s1 s2, R s1 s2 -> ages_ok evs ->
  R (final s1 evs) (final s2 evs) /\ snd (run s1 evs) = snd (run s2 evs).
Proof.
  induction evs as [|e r IH]; intros s1 s2 HR Ha; [split; [assumption|reflexivity]|].
  inversion Ha as [|? ? He Hr]; subst.
  destruct (step_R s1 s2 e HR He) as [HR1 Ho].
  rewrite !final_cons. destruct (IH _ _ HR1 Hr) as [HR2 Hos]. split; [assumption|].
  cbn [run]. destruct (step s1 e) as [t1 o1]. destruct (step s2 e) as [t2 o2]. cbn [fst snd] in *.
  destruct (run t1 r) as [u1 os1]. destruct (run t2 r) as [u2 os2]. cbn [snd] in *. congruence.
Qed.

(* the interleaved execution simulates the history without the removal steps *)
Lemma srun_R same l : forall s1 s2, R s1 s2 -> ages_ok (evs_of l) ->
  R (fst (srun (DCas same) s1 l)) (final s2 (evs_of l)) /\ snd (srun (DCas same) s1 l) = snd (run s2 (evs_of l)).
Proof.
  induction l as [|i r IH]; intros s1 s2 HR Ha; [split; [assumption|reflexivity]|].
  destruct i as [e|k en]; cbn [srun sstep evs_of] in *.
  - inversion Ha as [|? ? He Hr]; subst.
    destruct (step_R s1 s2 e HR He) as [HR1 Ho].
    rewrite final_cons. destruct (IH _ _ HR1 Hr) as [HR2 Hos].
    cbn [run]. destruct (step s1 e) as [t1 o1]. destruct (step s2 e) as [t2 o2]. cbn [fst snd] in *.
    destruct (srun (DCas same) t1 r) as [u1 os1]. destruct (run t2 (evs_of r)) as [u2 os2]. cbn [fst snd app] in *.
    split; [assumption|congruence].
  - destruct HR as (Ho & Hc & N1 & N2).
    assert (R {| cache := sweep_del (DCas same) k en (cache s1); own := own s1 |} s2) as HR1.
    { repeat split; cbn [cache own]; try assumption.
      - intros k'. rewrite (ceq_del_cas same k en (cache s1) k'). apply Hc.
      - apply nodupk_del_cas. assumption. }
    destruct (IH _ _ HR1 Ha) as [HR2 Hos].
    destruct (srun (DCas same) _ r) as [u1 os1]. cbn [fst snd app] in *. split; assumption.
Qed.

(* Sweeps in flight are unobservable.  For every pointer comparison, every state with unique keys (every
   reachable one: [run_nodupk]), every interleaving [l] of events and removal steps, every continuation [rest]:
   the events of [l] observe what they observe in the history without the removal steps, and so does everything
   that comes afterwards. *)
Theorem sweep_unobservable : forall same s l rest,
  nodupk (cache s) -> ages_ok (evs_of l) -> ages_ok rest ->
  snd (srun (DCas same) s l) = snd (run s (evs_of l)) /\
  snd (run (fst (srun (DCas same) s l)) rest) = snd (run (final s (evs_of l)) rest).
Proof.
  intros same s l rest N Ha Hr.
  destruct (srun_R same l s s (R_refl s N) Ha) as [HR Ho]. split; [assumption|].
  apply (run_R rest _ _ HR Hr).
Qed.

(* the same from the initial state, after any prefix *)
Corollary sweep_unobservable_reachable : forall same own0 pre l rest,
  ages_ok (evs_of l) -> ages_ok rest ->
  let s := final (init own0) pre in
  snd (srun (DCas same) s l) = snd (run s (evs_of l)) /\
  snd (run (fst (srun (DCas same) s l)) rest) = snd (run (final s (evs_of l)) rest).
Proof.
  intros same own0 pre l rest Ha Hr s. apply sweep_unobservable; try assumption.
  apply run_nodupk. apply init_nodupk.
Qed.

(* The property with sweeps in flight, stated directly: a cacheable request is handled, then ANY interleaving of
   events and removal steps whose events take at most the lifetime, then a copy: the copy does not reach the
   handler and gets a reply of the same content, with the copy's message ID. *)
Theorem dedup_once_sweeps : forall same s typ mid tok code ro b s1 o1 l typ2 tok2 code2 ro2 b2,
  nodupk (cache s) ->
  step s (Req typ mid tok code ro b) = (s1, o1) ->
  is_cacheable_typ typ = true -> o_called o1 = true -> (typ = CON \/ o_out o1 <> []) ->
  ages_ok (evs_of l) -> total_age (evs_of l) <= LIFETIME ->
  is_cacheable_typ typ2 = true ->
  let o2 := snd (step (fst (srun (DCas same) s1 l)) (Req typ2 mid tok2 code2 ro2 b2)) in
  o_called o2 = false /\
  exists r1 r2, o_out o1 = [r1] /\ o_out o2 = [r2] /\ same_content r2 r1 /\ w_mid r2 = mid /\
                w_typ r2 = (if typ2 =? CON then ACK else NON).
Proof.
  intros same s typ mid tok code ro b s1 o1 l typ2 tok2 code2 ro2 b2 N St Ct Cal Hc Ha Hage Ct2.
  assert (nodupk (cache s1)) as N1.
  { replace s1 with (fst (step s (Req typ mid tok code ro b))) by (rewrite St; reflexivity). apply step_nodupk. assumption. }
  destruct (srun_R same l s1 s1 (R_refl s1 N1) Ha) as [HR _].
  assert (age_ok (Req typ2 mid tok2 code2 ro2 b2)) as Hq by (unfold age_ok; cbn; lia).
  destruct (step_R _ _ (Req typ2 mid tok2 code2 ro2 b2) HR Hq) as [_ Ho].
  cbv zeta. rewrite Ho.
  exact (dedup_once s typ mid tok code ro b s1 o1 (evs_of l) typ2 tok2 code2 ro2 b2 St Ct Cal Hc Ha Hage Ct2).
Qed.

(* ---------- removal by key: refuted ---------- *)

Definition demo_r1 : ev := Req CON 9029 [1; 2; 3] 1 [] (BResp 69 [] [114; 49]).
Definition demo_r2 : ev := Req CON 9029 [4; 5] 2 [] (BResp 68 [] [114; 50]).
Definition demo_old : entry :=
  {| e_reply := {| w_typ := ACK; w_code := 69; w_mid := 9029; w_tok := [1; 2; 3]; w_opts := [(12, [])]; w_pay := [114; 49] |};
     e_left := LIFETIME - 248000 |}.

(* first use of ID 9029 and a copy; 248 s pass; a sweep finds the old reply expired (it is [demo_old]); the ID is
   used again (handler runs, fresh reply stored); the sweep removes what it examined; a copy of the NEW request *)
Definition demo_items : list sitem :=
  [SEv demo_r1; SEv demo_r1; SEv (Age 248000); SEv demo_r2; SDel 9029 demo_old; SEv demo_r2; SEv (Age 246000); SEv demo_r2].

Definition calls (m : delmode) : list bool := map o_called (snd (srun m (init 4096) demo_items)).

Definition entry_same (a b : entry) : bool :=
  (e_left a =? e_left b) && (w_mid (e_reply a) =? w_mid (e_reply b)) && (w_code (e_reply a) =? w_code (e_reply b)).

Theorem key_delete_refuted :
  examined_ok DKey (init 4096) [] demo_items = true /\
  (* the code: handler for the first use and for the second use only *)
  calls (DCas entry_same) = [true; false; false; true; false; false; false] /\
  calls (DCas (fun _ _ => true)) = [true; false; false; true; false; false; false] /\
  (* removal by key: the copy of the second use reaches the handler again, 0 s after the first copy *)
  calls DKey = [true; false; false; true; true; false; false].
Proof. repeat split; vm_compute; reflexivity. Qed.

(* in general: from any state, if the ID's reply is expired and a request re-uses the ID (stored under DKey as
   under the code), the removal by key leaves nothing for the copy: it is handled again *)
Theorem key_delete_reexecutes : forall s typ mid tok code ro b e tok2 code2 ro2 b2,
  is_cacheable_typ typ = true ->
  req_lookup typ mid (cache s) = None ->
  forall s1 os, srun DKey s [SEv (Req typ mid tok code ro b); SDel mid e; SEv (Req typ mid tok2 code2 ro2 b2)] = (s1, os) ->
  map o_called os = [true; true].
Proof.
  intros s typ mid tok code ro b e tok2 code2 ro2 b2 Hc Hmiss s1 os Hrun.
  cbn [srun sstep step] in Hrun. rewrite Hmiss in Hrun. cbn [cache own sweep_del] in Hrun.
  assert (req_lookup typ mid (remove (req_store mid (req_handle typ mid tok ro b (req_check typ mid (own s))) (cache s)) mid) = None) as E.
  { unfold req_lookup. rewrite Hc. unfold cache_load. rewrite lookup_remove_same. reflexivity. }
  rewrite E in Hrun. injection Hrun as _ <-. reflexivity.
Qed.
