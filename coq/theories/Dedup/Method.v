(* The method code of the request.  handleReq / processResponse never look at the code of the received message:
   whatever reaches them as a confirmable or non-confirmable message (the pings are gone by then) is remembered
   by its message ID -- which is why [Dedup.Model.step] ignores the [code] field of [Req].  This file makes the
   dependency explicit: [step_g gate] is the step of one copy with processResponse's decision to remember the reply
   additionally gated by a predicate on the request's code.

     gate_all   : the code (no gate);
     gate_range : "code >= GET && code <= DELETE", the range prepareWriteMessage uses for another purpose.

   RFC 7252 section 5.2 / 12.1.1: every code of class 0 other than 0.00 is a request method (0.01-0.31); RFC 8132
   assigns FETCH 0.05, PATCH 0.06, iPATCH 0.07. *)
From Coq Require Import ZArith List Bool Lia.
From GoCoap Require Import Base.Bytes NoResp.Model Dedup.Model Dedup.Proofs.
Import ListNotations.
Open Scope Z_scope.

Definition is_method_code (c : Z) : bool := (1 <=? c) && (c <=? 31).
Definition FETCH := 5. Definition PATCH := 6. Definition IPATCH := 7.

Definition gate_all (_ : Z) : bool := true.
Definition gate_range (c : Z) : bool := (1 <=? c) && (c <=? 4).

Definition step_g (gate : Z -> bool) (s : st) (typ mid : Z) (tok : list Z) (code : Z) (reqopts : opts_t) (b : behaviour)
  : st * obs :=
  let own1 := req_check typ mid (own s) in
  match req_lookup typ mid (cache s) with
  | Some en =>
      let r' := retarget typ mid (e_reply en) in
      ({| cache := cache s; own := own_after_write (Some r') own1 |}, obs_of_reply false (Some r'))
  | None =>
      let h := req_handle typ mid tok reqopts b own1 in
      ({| cache := store_reply mid (hd_store h && gate code) (hd_reply h) (cache s);
          own := own_after_write (hd_reply h) (hd_own h) |},
       obs_of_reply true (hd_reply h))
  end.

(* the code: no gate *)
Theorem step_g_all : forall s typ mid tok code ro b,
  step_g gate_all s typ mid tok code ro b = step s (Req typ mid tok code ro b).
Proof.
  intros. unfold step_g, gate_all. cbn [step]. destruct (req_lookup typ mid (cache s)); [reflexivity|].
  rewrite andb_true_r. reflexivity.
Qed.

(* a gate is invisible on the codes it lets through: GET..DELETE under [gate_range] -- why no existing test notices *)
Theorem step_g_covered : forall gate s typ mid tok code ro b, gate code = true ->
  step_g gate s typ mid tok code ro b = step s (Req typ mid tok code ro b).
Proof.
  intros gate s typ mid tok code ro b G. unfold step_g. cbn [step]. destruct (req_lookup typ mid (cache s)); [reflexivity|].
  rewrite G, andb_true_r. reflexivity.
Qed.

(* C05 for every method code, FETCH / PATCH / iPATCH included: the statement of [dedup_once] does not constrain the
   code; spelled out for the request methods *)
Theorem dedup_once_every_method : forall s typ mid tok code ro b s1 o1 evs typ2 tok2 code2 ro2 b2,
  is_method_code code = true -> is_method_code code2 = true ->
  step_g gate_all s typ mid tok code ro b = (s1, o1) ->
  is_cacheable_typ typ = true -> o_called o1 = true -> (typ = CON \/ o_out o1 <> []) ->
  ages_ok evs -> total_age evs <= LIFETIME ->
  is_cacheable_typ typ2 = true ->
  let o2 := snd (step_g gate_all (final s1 evs) typ2 mid tok2 code2 ro2 b2) in
  o_called o2 = false /\
  exists r1 r2, o_out o1 = [r1] /\ o_out o2 = [r2] /\ same_content r2 r1 /\ w_mid r2 = mid /\
                w_typ r2 = (if typ2 =? CON then ACK else NON).
Proof.
  intros s typ mid tok code ro b s1 o1 evs typ2 tok2 code2 ro2 b2 _ _ St. rewrite step_g_all in St. rewrite step_g_all.
  exact (dedup_once s typ mid tok code ro b s1 o1 evs typ2 tok2 code2 ro2 b2 St).
Qed.

(* a code outside the gate: the first copy leaves the cache as it was, so -- from ANY state in which the ID is fresh --
   every further copy (either type, at once, no time in between) is handed to the handler again *)
Theorem gate_reexecutes : forall gate s typ mid tok code ro b typ2 tok2 ro2 b2,
  gate code = false ->
  cache_load (cache s) mid = None ->
  let '(s1, o1) := step_g gate s typ mid tok code ro b in
  let '(s2, o2) := step_g gate s1 typ2 mid tok2 code ro2 b2 in
  o_called o1 = true /\ o_called o2 = true /\ cache s2 = cache s.
Proof.
  intros gate s typ mid tok code ro b typ2 tok2 ro2 b2 G Hm.
  assert (forall t c, cache_load c mid = None -> req_lookup t mid c = None) as RL.
  { intros t c H. unfold req_lookup. destruct (is_cacheable_typ t); [assumption|reflexivity]. }
  unfold step_g at 1. rewrite (RL typ _ Hm). rewrite G, andb_false_r. cbn [store_reply].
  unfold step_g. cbn [cache own]. rewrite (RL typ2 _ Hm). rewrite G, andb_false_r. cbn [store_reply cache obs_of_reply o_called].
  repeat split; reflexivity.
Qed.

(* which request methods the range leaves out: exactly 0.05 .. 0.31 *)
Theorem range_misses : forall c, is_method_code c = true -> (gate_range c = false <-> 5 <= c <= 31).
Proof. intros c H. unfold is_method_code, gate_range in *. lia. Qed.

(* concrete: CON FETCH, message ID 16645, answered 2.05; the same datagram again *)
Definition demo_calls (gate : Z -> bool) (code : Z) : list bool :=
  let '(s1, o1) := step_g gate (init 4096) CON 16645 [192; 5] code [] (BResp 69 [] [114; 49]) in
  let '(_, o2) := step_g gate s1 CON 16645 [192; 5] code [] (BResp 69 [] [114; 50]) in
  [o_called o1; o_called o2].

Theorem method_range_refuted :
  is_method_code FETCH = true /\ is_method_code PATCH = true /\ is_method_code IPATCH = true /\
  demo_calls gate_all FETCH = [true; false] /\ demo_calls gate_all PATCH = [true; false] /\ demo_calls gate_all IPATCH = [true; false] /\
  demo_calls gate_range 1 = [true; false] /\ demo_calls gate_range 4 = [true; false] /\
  demo_calls gate_range FETCH = [true; true] /\ demo_calls gate_range PATCH = [true; true] /\ demo_calls gate_range IPATCH = [true; true].
Proof. repeat split; vm_compute; reflexivity. Qed.
