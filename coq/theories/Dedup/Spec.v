(* C05 as a predicate over an OBSERVED history, written from the property text:
   a confirmable request -- or a non-confirmable request for which a reply was
   produced -- that arrives again with the same message ID before the exchange
   lifetime (247 s) has elapsed is not handed to the handler again and is
   answered with a reply of the same code, token, options and payload, matched
   to the duplicate's message ID; after the lifetime the ID is fresh again. *)
From Coq Require Import ZArith NArith List Bool.
From GoCoap Require Import Base.Bytes.
Import ListNotations.
Open Scope Z_scope.

(* observed wire message: payload as (length, checksum) *)
Record owire := OW { ow_typ : Z; ow_code : Z; ow_mid : Z; ow_tok : list Z; ow_opts : list (Z * list Z);
                     ow_plen : Z; ow_pcs : Z }.

(* KOther: something that is neither a request reaching the connection's request handling nor time:
   a message withheld by the application's request monitor, a CoAP ping, a message the application
   sends on its own (e.g. a separate response) *)
Inductive okind := KReq | KAge | KTick | KOther.
Record oev := { k : okind; typ : Z; mid : Z; ms : Z; called : bool; out : list owire }.

(* EXCHANGE_LIFETIME of RFC 7252 section 4.8.2 with the default transmission parameters, in ms *)
Definition SPEC_LIFETIME : Z := 247000.
Definition MARGIN : Z := 300.

Definition opts_eqb (a b : list (Z * list Z)) : bool :=
  list_eqb (fun x y => (fst x =? fst y) && bytes_eqb (snd x) (snd y)) a b.

Definition same_content (a b : owire) : bool :=
  (ow_code a =? ow_code b) && bytes_eqb (ow_tok a) (ow_tok b) && opts_eqb (ow_opts a) (ow_opts b)
  && (ow_plen a =? ow_plen b) && (ow_pcs a =? ow_pcs b).

(* walking back from a request with message ID m through the reversed prefix:
   the most recent copy that was handed to the handler, with the time elapsed since *)
Fixpoint first_copy (m : Z) (rev_prefix : list oev) (elapsed : Z) : option (oev * Z) :=
  match rev_prefix with
  | [] => None
  | e :: r =>
      match k e with
      | KAge => first_copy m r (elapsed + ms e)
      | KTick | KOther => first_copy m r elapsed
      | KReq => if (mid e =? m) && called e then Some (e, elapsed) else first_copy m r elapsed
      end
  end.

Definition is_req_typ (t : Z) : bool := (t =? 0) || (t =? 1).

(* 0 ok; 1 handler re-executed for a duplicate; 2 duplicate not answered with the first reply;
   3 message ID not treated as fresh after the lifetime *)
Definition judge (rev_prefix : list oev) (e : oev) : N :=
  match k e with
  | KReq =>
      if negb (is_req_typ (typ e)) then 0%N else
      match first_copy (mid e) rev_prefix 0 with
      | None => if called e then 0%N else 3%N
      | Some (f, elapsed) =>
          let cacheable := (typ f =? 0) || negb (match out f with [] => true | _ => false end) in
          if cacheable && (elapsed <? SPEC_LIFETIME - MARGIN) then
            if called e then 1%N
            else match out f, out e with
                 | r0 :: _, [r] => if same_content r0 r && (ow_mid r =? mid e) then 0%N else 2%N
                 | [], _ => 0%N       (* first copy got nothing: nothing to compare with *)
                 | _, _ => 2%N
                 end
          else if SPEC_LIFETIME + MARGIN <? elapsed then (if called e then 0%N else 3%N)
          else 0%N   (* non-cacheable first copy, or inside the timing margin: unconstrained *)
      end
  | _ => 0%N
  end.

Fixpoint judge_all (rev_prefix : list oev) (h : list oev) : N :=
  match h with
  | [] => 0%N
  | e :: r => let c := judge rev_prefix e in if N.eqb c 0 then judge_all (e :: rev_prefix) r else c
  end.

Definition c05_class (h : list oev) : N := judge_all [] h.
