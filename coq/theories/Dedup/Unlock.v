(* Dedup/Unlock.v -- where the per-message-ID lock is released (C05, seeded regression C05-11).

   handleReq holds the lock of the request's message ID around check - handle - store:

       Lock(mid); checkResponseCache; handler; processResponse (builds the reply and STORES it); Unlock

   (threads of Dedup/Conc.v: pc 1 Lock, pc 2 lookup, pc 3 handler, pc 4 store, pc 5 Unlock, pc 6 write).
   The store may take long - the response cache can be one supplied by the application
   (client.WithResponseMessageCache) - which in the thread model is nothing but a schedule that runs
   other threads between pc 3 and pc 4 of this one; every schedule is covered.

   Here the place of the Unlock is made a parameter of the thread:

       UAfterStore   the code:     ... handler (3); store (4); Unlock (5); write (6)
       UBeforeStore  the variant:  ... handler (3); Unlock (4); store (5); write (6)
                     (a copy answered from the cache: lookup (2); Unlock (4); nothing to store (5); write (6))

   and it is proved that
     - store_in_section:        the code, every number of threads, programs, schedule: while a copy is between
                                 its Lock and its Unlock - in particular when its handler has returned and its
                                 reply is not stored yet (pc 4) - no other copy with that message ID is past its
                                 Lock and before the end of its Unlock (none is looking into the cache);
     - unlock_code:             [act_u UAfterStore] is the thread of Dedup/Conc.v, so all of its theorems
                                 (sections_serialise, once_concurrent) are about it;
     - early_unlock_solo:       a copy that runs alone performs exactly Dedup.Model.step under BOTH orders
                                 (sequential processing - every existing test - cannot tell them apart);
     - early_unlock_reexecutes: under UBeforeStore, from ANY state in which the message ID is free and has no
                                 valid reply, for every request: the schedule "first copy up to and including its
                                 Unlock; second copy completely; rest of the first copy" is executable and BOTH
                                 copies run the handler (at different positions of the lock order); under the
                                 code the same schedule is not executable: the second copy cannot take the lock;
     - early_unlock_refuted:    the complete machine of Base/Interleave.v on two copies of a request and one
                                 schedule: calls [true; false] for the code, [true; true] for the variant. *)
From Coq Require Import ZArith List Bool Lia Arith.
From GoCoap Require Import Base.Bytes Base.Interleave NoResp.Model Dedup.Model Dedup.Proofs Dedup.Conc.
Import ListNotations.
Local Open Scope Z_scope.

(* ------------------------------------------------------------------ *)
(* 1. the code: no other copy inside the section while the reply is being stored *)

Theorem store_in_section : forall s0 progs sched t1 t2 th1 th2 ty1 m tk1 cd1 ro1 b1 l1 ty2 tk2 cd2 ro2 b2 l2,
  let c := cexec sched (cinit s0 progs) in
  nth_error (threads c) t1 = Some th1 -> nth_error (threads c) t2 = Some th2 -> t1 <> t2 ->
  cur th1 = Running (Req ty1 m tk1 cd1 ro1 b1) l1 -> (2 <= pc l1 <= 5)%nat ->
  cur th2 = Running (Req ty2 m tk2 cd2 ro2 b2) l2 ->
  (pc l2 <= 1 \/ 6 <= pc l2)%nat.
Proof.
  intros s0 progs sched t1 t2 th1 th2 ty1 m tk1 cd1 ro1 b1 l1 ty2 tk2 cd2 ro2 b2 l2 c H1 H2 Hne Hc1 Hp1 Hc2.
  destruct (sections_serialise s0 progs sched) as [_ [_ Hex]]. fold c in Hex.
  destruct (le_lt_dec (pc l2) 1) as [Hle|Hgt]; [left; exact Hle|].
  destruct (le_lt_dec 6 (pc l2)) as [Hge|Hlt]; [right; exact Hge|].
  exfalso. apply Hne. apply (Hex t1 t2 th1 th2 m H1 H2).
  - rewrite Hc1. cbn [insec]. split; [reflexivity|exact Hp1].
  - rewrite Hc2. cbn [insec]. split; [reflexivity|lia].
Qed.

(* ------------------------------------------------------------------ *)
(* 2. the place of the Unlock as a parameter                           *)

Inductive uorder := UAfterStore | UBeforeStore.

Definition act_u (u : uorder) (o : ev) (l : loc) (s : sh) : option (loc * sh * option res) :=
  match u with
  | UAfterStore => act o l s
  | UBeforeStore =>
      match o with
      | Req typ mid tok code ro b =>
          match pc l with
          | 2%nat => match req_lookup typ mid (cache (g s)) with
                     | Some en => Some ({| pc := 4; pos := pos l; l_called := false;
                                           l_reply := Some (retarget typ mid (e_reply en)); l_store := false |}, s, None)
                     | None => Some (at_pc 3 l, s, None)
                     end
          | 4%nat => Some (at_pc 5 l, {| g := g s; held := remz mid (held s); acq := acq s |}, None)
          | 5%nat => Some (at_pc 6 l, with_cache s (store_reply mid (l_store l) (l_reply l) (cache (g s))), None)
          | _ => act o l s
          end
      | _ => None
      end
  end.

Theorem unlock_code : forall o l s, act_u UAfterStore o l s = act o l s.
Proof. reflexivity. Qed.

(* n actions of one copy / all actions of one copy up to its return *)
Fixpoint iter_u (u : uorder) (n : nat) (o : ev) (l : loc) (s : sh) : option (loc * sh) :=
  match n with
  | O => Some (l, s)
  | S k => match act_u u o l s with
           | Some (l', s', None) => iter_u u k o l' s'
           | _ => None
           end
  end.

Fixpoint run_u (u : uorder) (fuel : nat) (o : ev) (l : loc) (s : sh) : option (sh * res) :=
  match fuel with
  | O => None
  | S f => match act_u u o l s with
           | None => None
           | Some (l', s', Some r) => Some (s', r)
           | Some (l', s', None) => run_u u f o l' s'
           end
  end.

Lemma memz_false x l : ~ In x l -> memz x l = false.
Proof. intro H. destruct (memz x l) eqn:E; [|reflexivity]. apply memz_in in E. contradiction. Qed.

Lemma remz_head x l : ~ In x l -> remz x (x :: l) = l.
Proof. intro H. cbn [remz]. rewrite Z.eqb_refl. apply remz_notin. exact H. Qed.

(* sequential processing does not see where the Unlock is *)
Theorem early_unlock_solo : forall u typ mid tok code ro b s,
  ~ In mid (held s) ->
  let o := Req typ mid tok code ro b in
  run_u u 7 o (init_loc o) s =
  Some ({| g := fst (step (g s) o); held := held s; acq := o :: acq s |}, (snd (step (g s) o), length (acq s))).
Proof.
  intros u typ mid tok code ro b s Hh o. subst o.
  pose proof (memz_false _ _ Hh) as Hm. pose proof (remz_head _ _ Hh) as Hr.
  destruct u.
  - cbn [run_u act_u act init_loc pc at_pc with_own g held acq cache own]. rewrite Hm.
    cbn [run_u act_u act pc g cache step].
    destruct (req_lookup typ mid (cache (g s))) as [en|].
    + cbn [run_u act_u act pc at_pc pos l_called l_reply l_store with_own g held acq cache own fst snd].
      rewrite Hr. reflexivity.
    + cbn [run_u act_u act pc at_pc pos l_called l_reply l_store with_own with_cache g held acq cache own fst snd].
      rewrite Hr. unfold req_store. reflexivity.
  - cbn [run_u act_u act init_loc pc at_pc with_own g held acq cache own]. rewrite Hm.
    cbn [run_u act_u act pc g cache step].
    destruct (req_lookup typ mid (cache (g s))) as [en|].
    + cbn [run_u act_u act pc at_pc pos l_called l_reply l_store with_own with_cache g held acq cache own fst snd store_reply].
      rewrite Hr. reflexivity.
    + cbn [run_u act_u act pc at_pc pos l_called l_reply l_store with_own with_cache g held acq cache own fst snd].
      rewrite Hr. unfold req_store. reflexivity.
Qed.

(* ------------------------------------------------------------------ *)
(* 3. the unlock_window between the Unlock and the store                      *)

(* the schedule: the first copy up to and including its 5th action (own-ID check, Lock, lookup, handler and
   - UBeforeStore - Unlock / - UAfterStore - store), the second copy completely, the rest of the first copy;
   the results of the first and of the second copy; None = not executable (some action was not enabled) *)
Definition unlock_window (u : uorder) (o : ev) (s : sh) : option (res * res) :=
  match iter_u u 5 o (init_loc o) s with
  | Some (l1, s1) =>
      match run_u u 7 o (init_loc o) s1 with
      | Some (s2, r2) => match run_u u 2 o l1 s2 with
                         | Some (_, r1) => Some (r1, r2)
                         | None => None
                         end
      | None => None
      end
  | None => None
  end.

Theorem early_unlock_reexecutes : forall typ mid tok code ro b s,
  ~ In mid (held s) -> req_lookup typ mid (cache (g s)) = None ->
  let o := Req typ mid tok code ro b in
  (exists r1 r2, unlock_window UBeforeStore o s = Some (r1, r2) /\
                 o_called (fst r1) = true /\ o_called (fst r2) = true /\ snd r1 <> snd r2) /\
  unlock_window UAfterStore o s = None.
Proof.
  intros typ mid tok code ro b s Hh Hl o. subst o.
  pose proof (memz_false _ _ Hh) as Hm. pose proof (remz_head _ _ Hh) as Hr.
  assert (Hin : memz mid (mid :: held s) = true) by (cbn [memz]; rewrite Z.eqb_refl; reflexivity).
  split.
  - unfold unlock_window.
    repeat first [ rewrite Hm | rewrite Hr | rewrite Hl
                 | progress cbn [iter_u run_u act_u act init_loc pc at_pc pos l_called l_reply l_store
                                 with_own with_cache g held acq cache own] ].
    eexists. eexists. split; [reflexivity|].
    cbn [fst snd obs_of_reply o_called length]. repeat split. lia.
  - unfold unlock_window.
    repeat first [ rewrite Hm | rewrite Hin | rewrite Hl
                 | progress cbn [iter_u run_u act_u act init_loc pc at_pc pos l_called l_reply l_store
                                 with_own with_cache g held acq cache own] ].
    reflexivity.
Qed.

(* ------------------------------------------------------------------ *)
(* 4. the complete machine                                             *)

Definition cexec_u (u : uorder) : list nat -> config -> config :=
  Interleave.exec sh ev loc res init_loc (act_u u) no_lp.

(* which returned calls ran the handler, by thread, oldest first *)
Definition calls_of (c : config) : list (nat * bool) :=
  rev (flat_map (fun e => match e with Interleave.ERes t _ _ (ob, _) => [(t, o_called ob)] | _ => [] end) (rhist c)).

(* two copies of CON GET mid 17185 answered 2.05; thread 0 runs up to and including its 5th action, thread 1 tries
   nine times, thread 0 finishes, thread 1 gets nine more turns *)
Definition unlock_demo_req : ev := Req CON 17185 [10; 11; 12] 1 [] (BResp 69 [] [35; 49]).
Definition unlock_demo_sched : list nat :=
  (repeat 0 6 ++ repeat 1 9 ++ repeat 0 4 ++ repeat 1 9)%nat.
Definition unlock_demo_calls (u : uorder) : list (nat * bool) :=
  calls_of (cexec_u u unlock_demo_sched (cinit (init 4096) [[unlock_demo_req]; [unlock_demo_req]])).

Theorem early_unlock_refuted :
  unlock_demo_calls UAfterStore = [(0%nat, true); (1%nat, false)] /\
  unlock_demo_calls UBeforeStore = [(1%nat, true); (0%nat, true)].
Proof. split; vm_compute; reflexivity. Qed.

(* the code's machine is the one of Dedup/Conc.v *)
Lemma cexec_u_code : forall sched c, cexec_u UAfterStore sched c = cexec sched c.
Proof. reflexivity. Qed.
