From Coq Require Import ZArith List Bool Lia.
From GoCoap Require Import Base.Bytes NoResp.Model Gen.DedupConsts Dedup.Model.
From GoCoap Require Dedup.Spec.
Import ListNotations.
Open Scope Z_scope.

(* ---------- the generated lifetime is the RFC's ---------- *)

(* udp/client.ExchangeLifetime (Gen/DedupConsts.v, regenerated from the source on every check) is the
   247 s that the specification is written with; an edit of the constant breaks this proof *)
Theorem lifetime_is_rfc : LIFETIME = Spec.SPEC_LIFETIME /\ ExchangeLifetime = Spec.SPEC_LIFETIME * 1000000.
Proof. split; reflexivity. Qed.

Lemma lifetime_nonneg : 0 <= LIFETIME.
Proof. destruct lifetime_is_rfc as [-> _]. unfold Spec.SPEC_LIFETIME. lia. Qed.

(* ---------- histories ---------- *)

Definition age_of (e : ev) : Z := match e with Age ms => ms | _ => 0 end.
Definition age_ok (e : ev) : Prop := 0 <= age_of e.
Fixpoint total_age (evs : list ev) : Z :=
  match evs with [] => 0 | e :: r => age_of e + total_age r end.
Definition ages_ok (evs : list ev) : Prop := Forall age_ok evs.

Definition final (s : st) (evs : list ev) : st := fst (run s evs).

Lemma final_nil s : final s [] = s.
Proof. reflexivity. Qed.

Lemma final_cons s e evs : final s (e :: evs) = final (fst (step s e)) evs.
Proof.
  unfold final. cbn [run]. destruct (step s e) as [s1 o]. cbn [fst].
  destruct (run s1 evs) as [s2 os]. reflexivity.
Qed.

Lemma total_age_nonneg evs : ages_ok evs -> 0 <= total_age evs.
Proof.
  induction 1 as [|e r He _ IH]; cbn [total_age]; [lia|]. unfold age_ok in He. lia.
Qed.

(* ---------- association-list facts ---------- *)

Lemma lookup_remove_other c k k' : k <> k' -> lookup (remove c k') k = lookup c k.
Proof.
  intros Hne. induction c as [|[k0 e0] c IH]; cbn [remove lookup]; [reflexivity|].
  destruct (Z.eqb_spec k' k0) as [->|Hn0].
  - destruct (Z.eqb_spec k k0) as [->|_]; [contradiction|]. exact IH.
  - cbn [lookup]. destruct (Z.eqb_spec k k0); [reflexivity|exact IH].
Qed.

Lemma lookup_store_other c k k' r : k <> k' -> lookup (cache_store c k' r) k = lookup c k.
Proof.
  intros Hne. unfold cache_store. destruct (cache_load c k'); [reflexivity|].
  cbn [lookup]. destruct (Z.eqb_spec k k'); [contradiction|]. apply lookup_remove_other; assumption.
Qed.

Lemma lookup_store_same_miss c k r : cache_load c k = None ->
  lookup (cache_store c k r) k = Some {| e_reply := r; e_left := LIFETIME |}.
Proof.
  intros H. unfold cache_store. rewrite H. cbn [lookup]. rewrite Z.eqb_refl. reflexivity.
Qed.

Lemma lookup_store_same_hit c k r en : cache_load c k = Some en -> cache_store c k r = c.
Proof. intros H. unfold cache_store. rewrite H. reflexivity. Qed.

Lemma cache_load_some c k en : cache_load c k = Some en -> lookup c k = Some en /\ 0 <= e_left en.
Proof.
  unfold cache_load, expired. destruct (lookup c k) as [e|]; [|discriminate].
  destruct (e_left e <? 0) eqn:E; [discriminate|]. intros H; injection H as <-. split; [reflexivity|lia].
Qed.

Lemma cache_load_of_lookup c k en : lookup c k = Some en -> 0 <= e_left en -> cache_load c k = Some en.
Proof.
  intros H Hl. unfold cache_load, expired. rewrite H. destruct (e_left en <? 0) eqn:E; [lia|reflexivity].
Qed.

Lemma lookup_age c k d :
  lookup (map (fun '(k0, en) => (k0, {| e_reply := e_reply en; e_left := e_left en - d |})) c) k =
  match lookup c k with Some en => Some {| e_reply := e_reply en; e_left := e_left en - d |} | None => None end.
Proof.
  induction c as [|[k0 e0] c IH]; cbn [map lookup]; [reflexivity|].
  destruct (k =? k0); [reflexivity|exact IH].
Qed.

Lemma lookup_tick_keep c k en : lookup c k = Some en -> expired en = false ->
  lookup (filter (fun '(_, en) => negb (expired en)) c) k = Some en.
Proof.
  induction c as [|[k0 e0] c IH]; cbn [filter lookup]; [discriminate|].
  destruct (Z.eqb_spec k k0) as [->|Hne]; intros H E.
  - injection H as ->. rewrite E. cbn [negb lookup]. rewrite Z.eqb_refl. reflexivity.
  - destruct (negb (expired e0)); cbn [lookup].
    + destruct (Z.eqb_spec k k0); [contradiction|]. auto.
    + auto.
Qed.

(* ---------- the handler / processResponse piece ---------- *)

Lemma plain_not_special tok ro b h : plain_beh b = true -> handler_result tok ro b = Some h -> is_special h = false.
Proof.
  destruct b as [|c o p|c t o p|]; cbn [plain_beh handler_result]; intros Hp Hh; try discriminate.
  - destruct (rw_refuses ro c); [discriminate|]. injection Hh as <-. unfold is_special; cbn.
    destruct (c =? 0); [discriminate|reflexivity].
  - injection Hh as <-. unfold is_special; cbn. destruct (c =? 0); [discriminate|reflexivity].
Qed.

Lemma req_store_cases mid h c : req_store mid h c = c \/ exists r, req_store mid h c = cache_store c mid r.
Proof.
  unfold req_store, store_reply. destruct (hd_store h); [|left; reflexivity].
  destruct (hd_reply h) as [r|]; [right; exists r; reflexivity|left; reflexivity].
Qed.

(* only confirmable and non-confirmable requests ever store *)
Lemma handle_store_cacheable typ mid tok ro b own1 :
  hd_store (req_handle typ mid tok ro b own1) = true -> is_cacheable_typ typ = true.
Proof.
  unfold req_handle, is_cacheable_typ.
  destruct (handler_result tok ro b) as [h|]; [destruct (is_special h)|];
    destruct (typ =? CON); cbn [hd_store orb]; auto; discriminate.
Qed.

Lemma req_store_noncacheable typ mid tok ro b own1 c :
  is_cacheable_typ typ = false -> req_store mid (req_handle typ mid tok ro b own1) c = c.
Proof.
  intros Ct. unfold req_store, store_reply.
  destruct (hd_store (req_handle typ mid tok ro b own1)) eqn:E; [|reflexivity].
  apply handle_store_cacheable in E. congruence.
Qed.

(* a confirmable request always leaves a reply, and every reply to a cacheable request is stored *)
Lemma handle_stores typ mid tok ro b own1 :
  is_cacheable_typ typ = true ->
  (typ = CON \/ hd_reply (req_handle typ mid tok ro b own1) <> None) ->
  exists r, hd_reply (req_handle typ mid tok ro b own1) = Some r /\ hd_store (req_handle typ mid tok ro b own1) = true.
Proof.
  unfold req_handle, is_cacheable_typ. intros Ct Hc.
  destruct (handler_result tok ro b) as [h|]; [destruct (is_special h)|];
    destruct (typ =? CON) eqn:E; cbn [orb] in Ct; cbn [hd_reply hd_store] in *; try rewrite Ct;
    try (eexists; split; reflexivity).
  destruct Hc as [->|Hc]; [discriminate|contradiction].
Qed.

(* ---------- a stored reply persists, unchanged, while it is valid ---------- *)

Definition is_req_on (m : Z) (e : ev) : bool :=
  match e with Req _ mid _ _ _ _ => mid =? m | _ => false end.

Lemma step_keeps_entry s e m en :
  lookup (cache s) m = Some en -> age_ok e -> 0 <= e_left en - age_of e ->
  lookup (cache (fst (step s e))) m = Some {| e_reply := e_reply en; e_left := e_left en - age_of e |}.
Proof.
  intros L Ha Hl. destruct en as [r l]. cbn [e_reply e_left] in *.
  destruct e as [typ mid tok code ro b | ms | | typ mid | mid | typ tok code o p]; cbn [age_of] in *.
  - (* Req *) rewrite Z.sub_0_r in *.
    cbn [step]. destruct (Z.eqb_spec mid m) as [->|Hne].
    + (* same message ID: either a hit (cache untouched) or a type that never stores *)
      unfold req_lookup. destruct (is_cacheable_typ typ) eqn:Ct.
      * rewrite (cache_load_of_lookup _ _ _ L) by (cbn [e_left]; lia). cbn [fst cache]. exact L.
      * cbn [fst cache]. rewrite req_store_noncacheable by exact Ct. exact L.
    + destruct (req_lookup typ mid (cache s)) as [en0|]; cbn [fst cache]; [exact L|].
      destruct (req_store_cases mid (req_handle typ mid tok ro b (req_check typ mid (own s))) (cache s)) as [->|[r0 ->]];
        [exact L|]. rewrite lookup_store_other by congruence. exact L.
  - (* Age *) cbn [step fst cache]. rewrite lookup_age, L. reflexivity.
  - (* Tick *) rewrite Z.sub_0_r in *. cbn [step fst cache].
    apply lookup_tick_keep; [exact L|]. unfold expired; cbn [e_left]. apply Z.ltb_ge. lia.
  - (* Drop *) rewrite Z.sub_0_r. exact L.
  - (* Ping *) rewrite Z.sub_0_r. exact L.
  - (* Send *) rewrite Z.sub_0_r. exact L.
Qed.

Lemma run_keeps_entry evs : forall s m en,
  lookup (cache s) m = Some en -> ages_ok evs -> 0 <= e_left en - total_age evs ->
  lookup (cache (final s evs)) m = Some {| e_reply := e_reply en; e_left := e_left en - total_age evs |}.
Proof.
  induction evs as [|e evs IH]; intros s m en L Ha Hl.
  - rewrite final_nil. cbn [total_age]. rewrite Z.sub_0_r. destruct en; exact L.
  - inversion Ha as [|? ? He Hr]; subst. cbn [total_age] in *.
    pose proof (total_age_nonneg _ Hr) as Hn.
    rewrite final_cons.
    pose proof (step_keeps_entry s e m en L He ltac:(lia)) as L1.
    specialize (IH _ _ _ L1 Hr). cbn [e_reply e_left] in IH.
    rewrite IH by lia. f_equal. f_equal. lia.
Qed.

(* ---------- the first copy stores its reply ---------- *)

Definition same_content (a b : wire) : Prop :=
  w_code a = w_code b /\ w_tok a = w_tok b /\ w_opts a = w_opts b /\ w_pay a = w_pay b.

Lemma first_copy_stores s typ mid tok code ro b s1 o1 :
  step s (Req typ mid tok code ro b) = (s1, o1) ->
  is_cacheable_typ typ = true -> o_called o1 = true -> (typ = CON \/ o_out o1 <> []) ->
  exists r1, o_out o1 = [r1] /\ lookup (cache s1) mid = Some {| e_reply := r1; e_left := LIFETIME |}.
Proof.
  intros St Ct Cal Hc. cbn [step] in St. unfold req_lookup in St. rewrite Ct in St.
  destruct (cache_load (cache s) mid) as [en|] eqn:Ld.
  - injection St as <- <-. cbn in Cal. discriminate.
  - injection St as <- <-. set (h := req_handle typ mid tok ro b (req_check typ mid (own s))) in *.
    assert (Hc' : typ = CON \/ hd_reply h <> None).
    { destruct Hc as [Hc|Hc]; [left; exact Hc|right]. intros E. apply Hc. cbn [obs_of_reply o_out]. rewrite E. reflexivity. }
    destruct (handle_stores typ mid tok ro b _ Ct Hc') as [r [Hr Hs]]. fold h in Hr, Hs.
    exists r. cbn [obs_of_reply o_out cache]. rewrite Hr. split; [reflexivity|].
    unfold req_store, store_reply. rewrite Hs, Hr. apply lookup_store_same_miss; exact Ld.
Qed.

(* ---------- a copy that finds a valid entry is answered from it, handler not called ---------- *)

Lemma duplicate_hits s typ mid tok code ro b en :
  lookup (cache s) mid = Some en -> 0 <= e_left en -> is_cacheable_typ typ = true ->
  let o := snd (step s (Req typ mid tok code ro b)) in
  o_called o = false /\
  exists r, o_out o = [r] /\ same_content r (e_reply en) /\ w_mid r = mid /\
            w_typ r = (if typ =? CON then ACK else NON).
Proof.
  intros L Hl Ct. cbn [step]. unfold req_lookup. rewrite Ct. rewrite (cache_load_of_lookup _ _ _ L Hl).
  cbn [snd obs_of_reply o_called o_out].
  split; [reflexivity|]. eexists; split; [reflexivity|]. unfold same_content, retarget; cbn. repeat split; reflexivity.
Qed.

(* C05, clause 1 and 2: once per lifetime, same reply *)
Theorem dedup_once : forall s typ mid tok code ro b s1 o1 evs typ2 tok2 code2 ro2 b2,
  step s (Req typ mid tok code ro b) = (s1, o1) ->
  is_cacheable_typ typ = true -> o_called o1 = true -> (typ = CON \/ o_out o1 <> []) ->
  ages_ok evs -> total_age evs <= LIFETIME ->
  is_cacheable_typ typ2 = true ->
  let o2 := snd (step (final s1 evs) (Req typ2 mid tok2 code2 ro2 b2)) in
  o_called o2 = false /\
  exists r1 r2, o_out o1 = [r1] /\ o_out o2 = [r2] /\ same_content r2 r1 /\ w_mid r2 = mid /\
                w_typ r2 = (if typ2 =? CON then ACK else NON).
Proof.
  intros s typ mid tok code ro b s1 o1 evs typ2 tok2 code2 ro2 b2 St Ct Cal Hc Ha Hage Ct2.
  destruct (first_copy_stores _ _ _ _ _ _ _ _ _ St Ct Cal Hc) as [r1 [Ho1 L1]].
  pose proof (run_keeps_entry evs s1 mid _ L1 Ha) as L2. cbn [e_left e_reply] in L2.
  specialize (L2 ltac:(lia)).
  pose proof (duplicate_hits (final s1 evs) typ2 mid tok2 code2 ro2 b2 _ L2 ltac:(cbn [e_left]; lia) Ct2) as [Hc2 [r2 [Ho2 [Hs [Hm Ht]]]]].
  cbv zeta. split; [exact Hc2|]. exists r1, r2. cbn [e_reply] in Hs. repeat split; try assumption; apply Hs.
Qed.

(* a reply was produced: for a request that is not confirmable this is what makes it cacheable *)
Lemma replied_has_reply typ mid tok ro b own1 :
  handler_result tok ro b <> None -> hd_reply (req_handle typ mid tok ro b own1) <> None.
Proof.
  unfold req_handle. destruct (handler_result tok ro b) as [h|]; [|contradiction]. intros _.
  destruct (is_special h); destruct (typ =? CON); cbn [hd_reply]; discriminate.
Qed.

(* [dedup_once] with the cacheability condition stated on the handler: whatever the handler set -- a response, a
   replaced message, a Reset, an Empty code -- the request is handled once *)
Theorem dedup_once_replied : forall s typ mid tok code ro b s1 o1 evs typ2 tok2 code2 ro2 b2,
  step s (Req typ mid tok code ro b) = (s1, o1) ->
  is_cacheable_typ typ = true -> o_called o1 = true -> (typ = CON \/ handler_result tok ro b <> None) ->
  ages_ok evs -> total_age evs <= LIFETIME ->
  is_cacheable_typ typ2 = true ->
  let o2 := snd (step (final s1 evs) (Req typ2 mid tok2 code2 ro2 b2)) in
  o_called o2 = false /\
  exists r1 r2, o_out o1 = [r1] /\ o_out o2 = [r2] /\ same_content r2 r1 /\ w_mid r2 = mid /\
                w_typ r2 = (if typ2 =? CON then ACK else NON).
Proof.
  intros s typ mid tok code ro b s1 o1 evs typ2 tok2 code2 ro2 b2 St Ct Cal Hr Ha Hage Ct2.
  apply (dedup_once s typ mid tok code ro b s1 o1 evs typ2 tok2 code2 ro2 b2 St Ct Cal); try assumption.
  destruct Hr as [Hr|Hr]; [left; exact Hr|right].
  cbn [step] in St. destruct (req_lookup typ mid (cache s)); injection St as _ <-; [cbn in Cal; discriminate|].
  cbn [obs_of_reply o_out]. pose proof (replied_has_reply typ mid tok ro b (req_check typ mid (own s)) Hr) as Hn.
  destruct (hd_reply _); [discriminate|contradiction].
Qed.

(* separate response: the handler of a confirmable request sets nothing; the request is acknowledged with a bare
   ACK, which is what every copy gets for the lifetime -- whatever happens in between, in particular the
   application sending the response itself ([Send]) *)
Theorem separate_response : forall s mid tok code ro b s1 o1 evs tok2 code2 ro2 b2,
  step s (Req CON mid tok code ro b) = (s1, o1) -> o_called o1 = true -> handler_result tok ro b = None ->
  ages_ok evs -> total_age evs <= LIFETIME ->
  let o2 := snd (step (final s1 evs) (Req CON mid tok2 code2 ro2 b2)) in
  o_out o1 = [bare_ack mid] /\ o_called o2 = false /\ o_out o2 = [bare_ack mid].
Proof.
  intros s mid tok code ro b s1 o1 evs tok2 code2 ro2 b2 St Cal Hn Ha Hage.
  assert (Ho1 : o_out o1 = [bare_ack mid]).
  { cbn [step] in St. destruct (req_lookup CON mid (cache s)); injection St as _ <-; [cbn in Cal; discriminate|].
    unfold req_handle. rewrite Hn. reflexivity. }
  pose proof (dedup_once s CON mid tok code ro b s1 o1 evs CON tok2 code2 ro2 b2 St eq_refl Cal (or_introl eq_refl) Ha Hage eq_refl)
    as [Hc2 [r1 [r2 [E1 [E2 [[Sc [Stk [So Sp]]] [Hm Ht]]]]]]].
  cbv zeta. split; [exact Ho1|]. split; [exact Hc2|]. rewrite E2. rewrite Ho1 in E1. injection E1 as <-.
  destruct r2 as [t c i k o p]. cbn in *. subst. reflexivity.
Qed.

(* what the application sends on its own never touches the response cache or the handler *)
Theorem send_is_emission : forall s typ tok code opts pay,
  cache (fst (step s (Send typ tok code opts pay))) = cache s /\
  o_called (snd (step s (Send typ tok code opts pay))) = false /\
  exists r, o_out (snd (step s (Send typ tok code opts pay))) = [r] /\
            w_typ r = typ /\ w_code r = code /\ w_tok r = tok /\ w_opts r = opts /\ w_pay r = pay.
Proof. intros. cbn. split; [reflexivity|]. split; [reflexivity|]. eexists. repeat split. Qed.

(* a message withheld by the request monitor: no handler, nothing on the wire, nothing cached -- the next copy is
   treated exactly as if the withheld one had not arrived *)
Theorem drop_unseen : forall s typ mid,
  cache (fst (step s (Drop typ mid))) = cache s /\ snd (step s (Drop typ mid)) = {| o_called := false; o_out := [] |}.
Proof. intros. cbn. split; reflexivity. Qed.

(* a ping is answered with a Reset carrying its message ID; the handler never sees it and nothing is cached *)
Theorem ping_unseen : forall s mid,
  cache (fst (step s (Ping mid))) = cache s /\ o_called (snd (step s (Ping mid))) = false /\
  o_out (snd (step s (Ping mid))) = [{| w_typ := RST; w_code := 0; w_mid := mid; w_tok := []; w_opts := []; w_pay := [] |}].
Proof. intros. cbn. repeat split. Qed.

(* a handler that replaces the response message: the reply is that message (its own token, no No-Response check),
   acknowledging a confirmable request / with an own message ID otherwise *)
Theorem set_message_reply : forall s typ mid tok code ro rc tok' o p,
  req_lookup typ mid (cache s) = None ->
  let ob := snd (step s (Req typ mid tok code ro (BMsg rc tok' o p))) in
  o_called ob = true /\
  exists r, o_out ob = [r] /\ w_code r = rc /\ w_tok r = tok' /\ w_opts r = o /\ w_pay r = p /\
            (typ = CON -> w_typ r = ACK /\ w_mid r = mid).
Proof.
  intros s typ mid tok code ro rc tok' o p Hl. cbn [step]. rewrite Hl. cbn [snd obs_of_reply o_called o_out].
  split; [reflexivity|]. unfold req_handle. cbn [handler_result].
  destruct (is_special _); destruct (typ =? CON) eqn:E; cbn [hd_reply]; eexists; (split; [reflexivity|]); cbn;
    repeat split; try reflexivity; subst typ; vm_compute in E; discriminate.
Qed.

(* ---------- freshness after the lifetime ---------- *)

(* every entry stored under message ID m has at most B ms of validity left *)
Definition bounded (m B : Z) (c : list (Z * entry)) : Prop :=
  Forall (fun '(k, en) => k = m -> e_left en <= B) c.

Lemma bounded_remove m B c k : bounded m B c -> bounded m B (remove c k).
Proof.
  unfold bounded. induction 1 as [|[k0 e0] c H _ IH]; cbn [remove]; [constructor|].
  destruct (k =? k0); [exact IH|constructor; assumption].
Qed.

Lemma bounded_store_other m B c k r : k <> m -> bounded m B c -> bounded m B (cache_store c k r).
Proof.
  intros Hne Hb. unfold cache_store. destruct (cache_load c k); [exact Hb|].
  constructor; [intros ->; contradiction|apply bounded_remove; exact Hb].
Qed.

Lemma bounded_weaken m B B' c : B <= B' -> bounded m B c -> bounded m B' c.
Proof.
  intros Hle. unfold bounded. induction 1 as [|[k0 e0] c H _ IH]; constructor; [|exact IH].
  intros E. specialize (H E). lia.
Qed.

Lemma bounded_lookup m B c en : bounded m B c -> lookup c m = Some en -> e_left en <= B.
Proof.
  unfold bounded. induction 1 as [|[k0 e0] c H _ IH]; cbn [lookup]; [discriminate|].
  destruct (Z.eqb_spec m k0) as [->|Hne]; [|exact IH]. intros E; injection E as <-. auto.
Qed.

Lemma step_bounded s e m B :
  bounded m B (cache s) -> is_req_on m e = false -> age_ok e ->
  bounded m (B - age_of e) (cache (fst (step s e))).
Proof.
  intros Hb Hr Ha. destruct e as [typ mid tok code ro b | ms | | typ mid | mid | typ tok code o p]; cbn [age_of] in *;
    try (rewrite Z.sub_0_r; exact Hb).
  - rewrite Z.sub_0_r. cbn [is_req_on] in Hr. apply Z.eqb_neq in Hr. cbn [step].
    destruct (req_lookup typ mid (cache s)) as [en0|]; cbn [fst cache]; [exact Hb|].
    destruct (req_store_cases mid (req_handle typ mid tok ro b (req_check typ mid (own s))) (cache s)) as [->|[r0 ->]];
      [exact Hb|apply bounded_store_other; assumption].
  - cbn [step fst cache]. unfold bounded in *. induction Hb as [|[k0 e0] c H _ IH]; cbn [map]; constructor; [|exact IH].
    cbn [e_left]. intros E. specialize (H E). lia.
  - rewrite Z.sub_0_r. cbn [step fst cache]. unfold bounded in *.
    induction Hb as [|[k0 e0] c H _ IH]; cbn [filter]; [constructor|].
    destruct (negb (expired e0)); [constructor; assumption|exact IH].
Qed.

Lemma run_bounded evs : forall s m B,
  bounded m B (cache s) ->
  (forall e, In e evs -> is_req_on m e = false) -> ages_ok evs ->
  bounded m (B - total_age evs) (cache (final s evs)).
Proof.
  induction evs as [|e evs IH]; intros s m B Hb Hno Ha.
  - rewrite final_nil. cbn [total_age]. rewrite Z.sub_0_r. exact Hb.
  - inversion Ha as [|? ? He Hr]; subst. rewrite final_cons. cbn [total_age].
    replace (B - (age_of e + total_age evs)) with ((B - age_of e) - total_age evs) by lia.
    apply IH; [| |exact Hr].
    + apply step_bounded; [exact Hb| |exact He]. apply Hno. left; reflexivity.
    + intros e' Hin. apply Hno. right; exact Hin.
Qed.

(* all entries ever stored have at most LIFETIME left: invariant of every reachable state *)
Definition all_bounded (c : list (Z * entry)) : Prop := Forall (fun '(_, en) => e_left en <= LIFETIME) c.

Lemma all_bounded_remove c k : all_bounded c -> all_bounded (remove c k).
Proof.
  unfold all_bounded. induction 1 as [|[k0 e0] c H _ IH]; cbn [remove]; [constructor|].
  destruct (k =? k0); [exact IH|constructor; assumption].
Qed.

Lemma all_bounded_store c k r : all_bounded c -> all_bounded (cache_store c k r).
Proof.
  intros Hb. unfold cache_store. destruct (cache_load c k); [exact Hb|].
  constructor; [cbn [e_left]; lia|apply all_bounded_remove; exact Hb].
Qed.

Lemma step_all_bounded s e : all_bounded (cache s) -> age_ok e -> all_bounded (cache (fst (step s e))).
Proof.
  intros Hb Ha. destruct e as [typ mid tok code ro b | ms | | typ mid | mid | typ tok code o p]; cbn [age_of] in *;
    try exact Hb.
  - cbn [step].
    destruct (req_lookup typ mid (cache s)) as [en0|]; cbn [fst cache]; [exact Hb|].
    destruct (req_store_cases mid (req_handle typ mid tok ro b (req_check typ mid (own s))) (cache s)) as [->|[r0 ->]];
      [exact Hb|apply all_bounded_store; assumption].
  - cbn [step fst cache]. unfold all_bounded in *. unfold age_ok in Ha. cbn [age_of] in Ha.
    induction Hb as [|[k0 e0] c H _ IH]; cbn [map]; constructor; [cbn [e_left]; lia|exact IH].
  - cbn [step fst cache]. unfold all_bounded in *.
    induction Hb as [|[k0 e0] c H _ IH]; cbn [filter]; [constructor|].
    destruct (negb (expired e0)); [constructor; assumption|exact IH].
Qed.

Lemma run_all_bounded evs : forall s, all_bounded (cache s) -> ages_ok evs -> all_bounded (cache (final s evs)).
Proof.
  induction evs as [|e evs IH]; intros s Hb Ha; [exact Hb|].
  inversion Ha; subst. rewrite final_cons. apply IH; [apply step_all_bounded; assumption|assumption].
Qed.

Lemma all_bounded_bounded m c : all_bounded c -> bounded m LIFETIME c.
Proof.
  unfold all_bounded, bounded. induction 1 as [|[k0 e0] c H _ IH]; constructor; [intros _; exact H|exact IH].
Qed.

(* C05, clause 3: after the lifetime with no copy in between, the ID is fresh: the handler runs *)
Theorem dedup_fresh_after_lifetime : forall own0 pre evs typ mid tok code ro b,
  ages_ok pre -> ages_ok evs ->
  (forall e, In e evs -> is_req_on mid e = false) ->
  LIFETIME < total_age evs ->
  o_called (snd (step (final (final (init own0) pre) evs) (Req typ mid tok code ro b))) = true.
Proof.
  intros own0 pre evs typ mid tok code ro b Hp Ha Hno Hage.
  set (s := final (init own0) pre).
  assert (Hab : all_bounded (cache s)) by (apply run_all_bounded; [constructor|exact Hp]).
  pose proof (run_bounded evs s mid LIFETIME (all_bounded_bounded _ _ Hab) Hno Ha) as Hb.
  assert (Ld : cache_load (cache (final s evs)) mid = None).
  { unfold cache_load. destruct (lookup (cache (final s evs)) mid) as [en|] eqn:L; [|reflexivity].
    pose proof (bounded_lookup _ _ _ _ Hb L) as Hl. unfold expired.
    destruct (e_left en <? 0) eqn:E; [reflexivity|]. apply Z.ltb_ge in E. lia. }
  cbn [step]. unfold req_lookup. rewrite Ld.
  assert (Hn : (if is_cacheable_typ typ then @None entry else None) = None) by (destruct (is_cacheable_typ typ); reflexivity).
  rewrite Hn. reflexivity.
Qed.

(* a copy is never handed to the handler AND answered differently: hit => exactly one datagram *)
Theorem dedup_hit_or_handled : forall s typ mid tok code ro b,
  let o := snd (step s (Req typ mid tok code ro b)) in
  o_called o = true \/ (o_called o = false /\ exists r, o_out o = [r] /\ w_mid r = mid).
Proof.
  intros s typ mid tok code ro b. cbn [step].
  destruct (req_lookup typ mid (cache s)) as [en|].
  - right. cbn. split; [reflexivity|]. eexists; split; reflexivity.
  - left. reflexivity.
Qed.

(* ---------- own message IDs stay away from the peer's ---------- *)
Theorem own_mid_kept_away : forall mid own, 0 <= own ->
  let own' := check_my_mid 4 mid own in
  16383 <= u16 (u16 mid - u16 own').
Proof.
  intros mid own Ho. cbn [check_my_mid].
  unfold u16, u32.
  destruct ((mid mod 65536 - own mod 65536) mod 65536 >=? 16383) eqn:E1; [lia|].
  destruct ((mid mod 65536 - (own + 32767) mod 4294967296 mod 65536) mod 65536 >=? 16383) eqn:E2; [lia|].
  exfalso.
  assert (H : (own + 32767) mod 4294967296 mod 65536 = (own + 32767) mod 65536).
  { rewrite <- Znumtheory.Zmod_div_mod; [reflexivity|lia|lia|]. exists 65536. reflexivity. }
  rewrite H in E2. clear H.
  Local Ltac Zify.zify_post_hook ::= Z.div_mod_to_equations.
  lia.
Qed.

(* ---------- C20 wire clause on the same model ---------- *)

Theorem wire_suppressed : forall s typ mid tok code ro rc o p,
  (if is_cacheable_typ typ then cache_load (cache s) mid else None) = None ->
  rw_refuses ro rc = true ->
  o_out (snd (step s (Req typ mid tok code ro (BResp rc o p)))) = (if typ =? CON then [bare_ack mid] else []).
Proof.
  intros s typ mid tok code ro rc o p Hm Hr. cbn [step]. unfold req_lookup. rewrite Hm.
  unfold req_handle. cbn [handler_result]. rewrite Hr.
  destruct (typ =? CON); reflexivity.
Qed.

Theorem wire_passed : forall s typ mid tok code ro rc o p,
  (if is_cacheable_typ typ then cache_load (cache s) mid else None) = None ->
  rw_refuses ro rc = false ->
  exists r, o_out (snd (step s (Req typ mid tok code ro (BResp rc o p)))) = [r] /\ w_code r = rc /\ w_tok r = tok /\ w_pay r = p.
Proof.
  intros s typ mid tok code ro rc o p Hm Hr. cbn [step]. unfold req_lookup. rewrite Hm.
  unfold req_handle. cbn [handler_result]. rewrite Hr.
  destruct (is_special _); destruct (typ =? CON); eexists; split; try reflexivity; repeat split.
Qed.

(* ================= the request message is the handler's while it runs ================= *)
(* handleReq (the code, [RBefore]) takes the request's type and message ID before it calls the handler; whatever the
   handler then does with the message object -- re-labels it to forward it, hijacks it and releases it to the pool --
   the copy is processed exactly as if it had been left alone. *)
Theorem req_use_irrelevant : forall s u typ mid tok code ro b,
  step_u RBefore s u typ mid tok code ro b = step s (Req typ mid tok code ro b).
Proof. intros. unfold step_u. cbn [step label_read r_typ r_mid]. reflexivity. Qed.

Lemma ustep_erase s e : ustep RBefore s e = step s (erase_use e).
Proof. destruct e as [u typ mid tok code ro b|e]; cbn [ustep erase_use]; [apply req_use_irrelevant|reflexivity]. Qed.

Theorem urun_erase : forall evs s, urun RBefore s evs = run s (map erase_use evs).
Proof.
  induction evs as [|e evs IH]; intros s; [reflexivity|].
  cbn [urun run map]. rewrite ustep_erase. destruct (step s (erase_use e)) as [s1 o]. rewrite IH. reflexivity.
Qed.

(* the acknowledgement of a handled confirmable request carries the request's message ID *)
Lemma con_reply_matched s mid tok code ro b :
  req_lookup CON mid (cache s) = None ->
  exists r, o_out (snd (step s (Req CON mid tok code ro b))) = [r] /\ w_typ r = ACK /\ w_mid r = mid.
Proof.
  intros L. cbn [step]. rewrite L. cbn [snd obs_of_reply o_out]. unfold req_handle.
  destruct (handler_result tok ro b) as [h|]; [destruct (is_special h)|]; cbn [Z.eqb CON hd_reply];
    eexists; (split; [reflexivity|split; reflexivity]).
Qed.

(* C05 over histories in which every handler may use its request in any of these ways: the first copy (handled),
   any history of at most the lifetime, another copy with the same message ID -- not handled again, same reply,
   matched to the copy's ID; and the first acknowledgement carries the request's ID. *)
Theorem dedup_once_any_use : forall s u typ mid tok code ro b s1 o1 evs u2 typ2 tok2 code2 ro2 b2,
  step_u RBefore s u typ mid tok code ro b = (s1, o1) ->
  is_cacheable_typ typ = true -> o_called o1 = true -> (typ = CON \/ o_out o1 <> []) ->
  ages_ok (map erase_use evs) -> total_age (map erase_use evs) <= LIFETIME ->
  is_cacheable_typ typ2 = true ->
  let o2 := snd (step_u RBefore (fst (urun RBefore s1 evs)) u2 typ2 mid tok2 code2 ro2 b2) in
  o_called o2 = false /\
  exists r1 r2, o_out o1 = [r1] /\ o_out o2 = [r2] /\ same_content r2 r1 /\ w_mid r2 = mid /\
                w_typ r2 = (if typ2 =? CON then ACK else NON) /\
                (typ = CON -> w_typ r1 = ACK /\ w_mid r1 = mid).
Proof.
  intros s u typ mid tok code ro b s1 o1 evs u2 typ2 tok2 code2 ro2 b2 St Ct Cal Hc Ha Hage Ct2.
  rewrite req_use_irrelevant in St. rewrite urun_erase, req_use_irrelevant.
  pose proof (dedup_once s typ mid tok code ro b s1 o1 (map erase_use evs) typ2 tok2 code2 ro2 b2 St Ct Cal Hc Ha Hage Ct2)
    as [H1 [r1 [r2 [Ho1 [Ho2 [Hs [Hm Ht]]]]]]].
  cbv zeta. split; [exact H1|]. exists r1, r2.
  split; [exact Ho1|]. split; [exact Ho2|]. split; [exact Hs|]. split; [exact Hm|]. split; [exact Ht|].
  intros ->. cbn [step] in St. destruct (req_lookup CON mid (cache s)) as [en|] eqn:L.
  - injection St as <- <-. cbn in Cal. discriminate.
  - destruct (con_reply_matched s mid tok code ro b L) as [r [Hr [Hty Hmi]]].
    cbn [step] in Hr. rewrite L in Hr. injection St as <- <-. cbn [snd] in Hr. rewrite Hr in Ho1. injection Ho1 as <-.
    split; assumption.
Qed.

(* ---------- the variant that reads the request after the handler returned ---------- *)

(* it is the code as long as the handler keeps the labels *)
Theorem late_read_same_if_kept : forall s u typ mid tok code ro b,
  use_req u {| r_typ := typ; r_mid := mid |} = {| r_typ := typ; r_mid := mid |} ->
  step_u RAfter s u typ mid tok code ro b = step_u RBefore s u typ mid tok code ro b.
Proof. intros s u typ mid tok code ro b E. unfold step_u, label_read. rewrite E. reflexivity. Qed.

Lemma cache_load_of_same_lookup c c' k : lookup c' k = lookup c k -> cache_load c' k = cache_load c k.
Proof. unfold cache_load. intros ->. reflexivity. Qed.

(* ... and otherwise it breaks the property: when the handler of a fresh request leaves the message with another
   message ID (re-labelled for forwarding, or released: -1), the reply is stored under that ID -- or not at all --
   and EVERY later copy of the request is handed to the handler again. *)
Theorem late_read_reexecutes : forall s u typ mid tok code ro b u2 tok2 code2 ro2 b2,
  req_lookup typ mid (cache s) = None ->
  r_mid (use_req u {| r_typ := typ; r_mid := mid |}) <> mid ->
  let s1 := fst (step_u RAfter s u typ mid tok code ro b) in
  o_called (snd (step_u RAfter s1 u2 typ mid tok2 code2 ro2 b2)) = true.
Proof.
  intros s u typ mid tok code ro b u2 tok2 code2 ro2 b2 L Hk. cbv zeta.
  unfold step_u at 2. rewrite L. cbn [fst cache label_read].
  set (k := use_req u {| r_typ := typ; r_mid := mid |}) in *.
  set (h := req_handle (r_typ k) (r_mid k) tok ro b (req_check typ mid (own s))).
  assert (L1 : req_lookup typ mid (req_store (r_mid k) h (cache s)) = None).
  { unfold req_lookup in *. destruct (is_cacheable_typ typ); [|reflexivity].
    rewrite <- L. apply cache_load_of_same_lookup.
    destruct (req_store_cases (r_mid k) h (cache s)) as [->|[r0 ->]]; [reflexivity|].
    apply lookup_store_other. congruence. }
  unfold step_u. cbn [cache]. rewrite L1. reflexivity.
Qed.

(* concrete instances (the seeded regression C05-7): a confirmable GET with ID 4660 whose handler re-labels the
   request with the upstream ID 9 / releases it, then the same datagram again.  The code: handled once, both
   acknowledgements carry 4660.  The late-reading variant: handled twice, and the first reply is an ACK with ID 9,
   resp. a CON with an own ID (the own counter starts at 4096 and is moved away from the peer's ID first). *)
Definition demo_hist (u : ruse) : list uev :=
  [UReq u CON 4660 [1; 2] 1 [] (BResp 69 [] [7]); UReq u CON 4660 [1; 2] 1 [] (BResp 69 [] [8])].
Definition demo_view (rp : readpt) (u : ruse) : list (bool * list (Z * Z)) :=
  map (fun o => (o_called o, map (fun w => (w_typ w, w_mid w)) (o_out o))) (snd (urun rp (init 4096) (demo_hist u))).

Theorem late_read_refuted :
  demo_view RBefore (URelabel CON 9) = [(true, [(ACK, 4660)]); (false, [(ACK, 4660)])] /\
  demo_view RBefore URelease = [(true, [(ACK, 4660)]); (false, [(ACK, 4660)])] /\
  demo_view RAfter (URelabel CON 9) = [(true, [(ACK, 9)]); (true, [(ACK, 9)])] /\
  demo_view RAfter URelease = [(true, [(CON, 36864)]); (true, [(CON, 36866)])] /\
  demo_view RAfter (URelabel NON 4660) = [(true, [(CON, 36864)]); (false, [(ACK, 4660)])].
Proof. vm_compute. repeat split; reflexivity. Qed.
