From Coq Require Import ZArith List Bool Lia.
From GoCoap Require Import Reader.Model Reader.Spec.
Import ListNotations.
Open Scope Z_scope.
Lemma placeholder : True. Proof. exact I. Qed.
