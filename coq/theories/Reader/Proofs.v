(* C11 — proofs about the interleaving model Reader/Model.v, for ALL schedules,
   message lists, queue sizes, handler programs (any nesting depth) and numbers of
   external TryToReplaceLoop callers. *)
From Coq Require Import ZArith List Bool Lia Permutation Arith.
From GoCoap Require Import Reader.Model Reader.Spec.
Import ListNotations.
Open Scope Z_scope.

(* ------------------------------------------------------------------ *)
(* lists: upd *)

Lemma length_upd {A} (i : nat) (x : A) l : length (upd i x l) = length l.
Proof. revert i; induction l as [|y r IH]; intros [|j]; cbn; auto. Qed.

Lemma nth_error_upd_same {A} (i : nat) (x : A) l : (i < length l)%nat -> nth_error (upd i x l) i = Some x.
Proof. revert i; induction l as [|y r IH]; intros [|j] H; cbn in *; try lia; auto. apply IH; lia. Qed.

Lemma nth_error_upd_other {A} (i j : nat) (x : A) l : i <> j -> nth_error (upd i x l) j = nth_error l j.
Proof. revert i j; induction l as [|y r IH]; intros [|i] [|j] H; cbn; auto; try congruence. Qed.

Lemma upd_split {A} (i : nat) (y : A) l :
  nth_error l i = Some y -> exists a b, l = a ++ y :: b /\ forall x, upd i x l = a ++ x :: b.
Proof.
  revert i; induction l as [|z r IH]; intros [|i] H; cbn in *; try discriminate.
  - injection H as ->. exists [], r. split; auto.
  - destruct (IH _ H) as (a & b & E & U). exists (z :: a), b. split.
    + cbn. now rewrite <- E.
    + intro x. cbn. now rewrite U.
Qed.

Lemma nth_error_lt {A} (l : list A) i x : nth_error l i = Some x -> (i < length l)%nat.
Proof. intro H. apply nth_error_Some. congruence. Qed.

(* ------------------------------------------------------------------ *)
(* the step function as a relation with one constructor per action of the code *)

Definition st_q (s : st) q := mkSt q (prod s) (ext s) (closed s) (cur s) (loops s) (commits s) (log s) (sigd s).

Inductive Step (c : cfg) (s : st) : act -> st -> Prop :=
| S_push m r : prod s = m :: r -> (length (queue s) <= cap c)%nat -> sigs_clear c s = true ->
    Step c s APush (mkSt (queue s ++ [m]) r (ext s) (closed s) (cur s) (loops s) (commits s) (log s) (sigd s))
| S_close : closed s = false ->
    Step c s AClose (mkSt (queue s) (prod s) (ext s) true (cur s) (loops s) (commits s) (log s) (sigd s))
| S_ext k : ext s = S k ->
    Step c s AExt (try_replace (mkSt (queue s) (prod s) k (closed s) (cur s) (loops s) (commits s) (log s) (sigd s)))
| S_sig r : sig_enabled c s r = true ->
    Step c s (ASig r) (mkSt (queue s) (prod s) (ext s) (closed s) (cur s) (loops s) (commits s) (log s) (sigd s ++ [r]))
| S_sel_done l lp : nth_error (loops s) l = Some lp -> l_pc lp = PSelect -> l_done lp = true ->
    Step c s (ALoop l AltDone) (set_pc s l lp PExit)
| S_sel_conn l lp : nth_error (loops s) l = Some lp -> l_pc lp = PSelect -> closed s = true ->
    Step c s (ALoop l AltConn) (set_pc s l lp PExit)
| S_sel_queue l lp m q : nth_error (loops s) l = Some lp -> l_pc lp = PSelect -> queue s = m :: q ->
    Step c s (ALoop l AltQueue) (set_pc (st_q s q) l lp (PDeq m))
| S_deq l lp m a : nth_error (loops s) l = Some lp -> l_pc lp = PDeq m ->
    Step c s (ALoop l a) (mkSt (queue s) (prod s) (ext s) (closed s) (cur s)
                               (upd l (mkLoop (l_done lp) false (PBusy m)) (loops s)) (commits s ++ [m]) (log s) (sigd s))
| S_busy l lp m a : nth_error (loops s) l = Some lp -> l_pc lp = PBusy m -> lock_held c s m = false ->
    Step c s (ALoop l a) (mkSt (queue s) (prod s) (ext s) (closed s) (cur s)
                               (upd l (mkLoop (l_done lp) (l_reading lp) (PRun m (hp c m))) (loops s)) (commits s) (log s ++ [(m, l)]) (sigd s))
| S_busy_lock l lp m a : nth_error (loops s) l = Some lp -> l_pc lp = PBusy m -> lock_held c s m = true ->
    Step c s (ALoop l a)
      (if lockfix c
       then try_replace (mkSt (queue s) (prod s) (ext s) (closed s) (cur s)
                              (upd l (mkLoop (l_done lp) (l_reading lp) (PLock m)) (loops s)) (commits s) (log s ++ [(m, l)]) (sigd s))
       else mkSt (queue s) (prod s) (ext s) (closed s) (cur s)
                 (upd l (mkLoop (l_done lp) (l_reading lp) (PLock m)) (loops s)) (commits s) (log s ++ [(m, l)]) (sigd s))
| S_relock l lp m a : nth_error (loops s) l = Some lp -> l_pc lp = PRun m [] ->
    Step c s (ALoop l a) (with_loops s (upd l (mkLoop (l_done lp) true PCheck) (loops s)))
| S_hreplace l lp m ops a : nth_error (loops s) l = Some lp -> l_pc lp = PRun m (HReplace :: ops) ->
    Step c s (ALoop l a) (try_replace (set_pc s l lp (PRun m ops)))
| S_hnested l lp m r ops a : nth_error (loops s) l = Some lp -> l_pc lp = PRun m (HNested r :: ops) ->
    Step c s (ALoop l a) (try_replace (set_pc s l lp (PWait m r ops)))
| S_hack l lp m r ops a : nth_error (loops s) l = Some lp -> l_pc lp = PRun m (HAck r :: ops) ->
    Step c s (ALoop l a) (try_replace (set_pc s l lp (PWaitS m r ops)))
| S_hping l lp m r ops a : nth_error (loops s) l = Some lp -> l_pc lp = PRun m (HPing r :: ops) ->
    Step c s (ALoop l a) (if pingfix c then try_replace (set_pc s l lp (PWaitS m r ops)) else set_pc s l lp (PWaitS m r ops))
| S_wait l lp m r ops a : nth_error (loops s) l = Some lp -> l_pc lp = PWait m r ops -> delivered r s = true ->
    Step c s (ALoop l a) (set_pc s l lp (PRun m ops))
| S_waits l lp m r ops a : nth_error (loops s) l = Some lp -> l_pc lp = PWaitS m r ops -> signalled r s = true ->
    Step c s (ALoop l a) (set_pc s l lp (PRun m ops))
| S_lock_acq l lp m a : nth_error (loops s) l = Some lp -> l_pc lp = PLock m -> lock_held c s m = false ->
    Step c s (ALoop l a) (set_pc s l lp (PRun m (hp c m)))
| S_check l lp a : nth_error (loops s) l = Some lp -> l_pc lp = PCheck ->
    Step c s (ALoop l a) (set_pc s l lp (if fixed c && l_done lp then PExit else PSelect)).

Lemma step_Step c s a s' : step c s a = Some s' -> Step c s a s'.
Proof.
  intro H. destruct a as [| | |r|l a]; cbn in H.
  - destruct (prod s) as [|m r] eqn:Ep; try discriminate.
    unfold reader_free in H.
    destruct (length (queue s) <=? cap c)%nat eqn:El; try discriminate.
    destruct (sigs_clear c s) eqn:Esc; try discriminate.
    injection H as <-. apply S_push; auto. now apply Nat.leb_le.
  - destruct (closed s) eqn:Ec; try discriminate. injection H as <-. now apply S_close.
  - destruct (ext s) as [|k] eqn:Ee; try discriminate. injection H as <-. now apply S_ext.
  - destruct (sig_enabled c s r) eqn:Es; try discriminate. injection H as <-. now apply S_sig.
  - unfold step_loop in H.
    destruct (nth_error (loops s) l) as [lp|] eqn:En; try discriminate.
    destruct (l_pc lp) as [ |m|m|m ops|m r ops|m r ops|m| | ] eqn:Epc; try discriminate.
    + destruct a.
      * destruct (l_done lp) eqn:Ed; try discriminate. injection H as <-. eapply S_sel_done; eauto.
      * destruct (queue s) as [|m q] eqn:Eq; try discriminate. injection H as <-.
        change (mkSt q (prod s) (ext s) (closed s) (cur s) (loops s) (commits s) (log s) (sigd s)) with (st_q s q).
        eapply S_sel_queue; eauto.
      * destruct (closed s) eqn:Ec; try discriminate. injection H as <-. eapply S_sel_conn; eauto.
    + injection H as <-. eapply S_deq; eauto.
    + destruct (lock_held c s m) eqn:Elk; injection H as <-.
      * eapply S_busy_lock; eauto.
      * eapply S_busy; eauto.
    + destruct ops as [|[|r|r|r] ops]; injection H as <-.
      * eapply S_relock; eauto.
      * eapply S_hreplace; eauto.
      * eapply S_hnested; eauto.
      * eapply S_hack; eauto.
      * eapply S_hping; eauto.
    + destruct (delivered r s) eqn:Ed; try discriminate. injection H as <-. eapply S_wait; eauto.
    + destruct (signalled r s) eqn:Ed; try discriminate. injection H as <-. eapply S_waits; eauto.
    + destruct (lock_held c s m) eqn:Elk; try discriminate. injection H as <-. eapply S_lock_acq; eauto.
    + injection H as <-. eapply S_check; eauto.
Qed.

(* invariants along runs *)
Lemma run_invariant (c : cfg) (P : st -> Prop) :
  (forall s a s', P s -> step c s a = Some s' -> P s') ->
  forall sched s s', P s -> run c s sched = Some s' -> P s'.
Proof.
  intros HS sched. induction sched as [|a r IH]; intros s s' HP HR; cbn in HR.
  - now injection HR as <-.
  - destruct (step c s a) as [s1|] eqn:E; try discriminate.
    apply (IH s1 s'); [eapply HS; eauto | exact HR].
Qed.

(* invariants that need a side condition on every step of the run *)
Fixpoint all_steps (Q : st -> act -> bool) (c : cfg) (s : st) (sched : list act) : bool :=
  match sched with
  | [] => true
  | a :: r => Q s a && match step c s a with Some s' => all_steps Q c s' r | None => true end
  end.

Lemma run_invariant_cond (c : cfg) (Q : st -> act -> bool) (P : st -> Prop) :
  (forall s a s', P s -> Q s a = true -> step c s a = Some s' -> P s') ->
  forall sched s s', P s -> all_steps Q c s sched = true -> run c s sched = Some s' -> P s'.
Proof.
  intros HS sched. induction sched as [|a r IH]; intros s s' HP HQ HR; cbn in HR, HQ.
  - now injection HR as <-.
  - destruct (step c s a) as [s1|] eqn:E; try discriminate.
    apply andb_true_iff in HQ as [HQ1 HQ2].
    apply (IH s1 s'); [eapply HS; eauto | exact HQ2 | exact HR].
Qed.

(* TryToReplaceLoop: either nothing happens or the current loop is busy and is replaced *)
Lemma try_replace_cases s :
  try_replace s = s \/
  exists lc, nth_error (loops s) (cur s) = Some lc /\ l_reading lc = false /\
    try_replace s = mkSt (queue s) (prod s) (ext s) (closed s) (length (loops s))
                         (upd (cur s) (mkLoop true false (l_pc lc)) (loops s) ++ [mkLoop false true PSelect])
                         (commits s) (log s) (sigd s).
Proof.
  unfold try_replace. destruct (nth_error (loops s) (cur s)) as [lc|] eqn:E; auto.
  destruct (l_reading lc) eqn:Er; auto. right. exists lc. repeat split; auto.
Qed.

(* ------------------------------------------------------------------ *)
(* Invariant I: shape of the loops.
   rd_ok : the readingMessages flag of a loop is false exactly while it is between MarkBusy and the re-lock;
   current loop: not replaced (done open), never blocked in a nested wait, and alive while the connection is open;
   other loops: replaced (done closed); in the repaired code they never stand at the select or hold a dequeued message. *)

Definition rd_ok (lp : loop) : bool :=
  match l_pc lp with
  | PBusy _ | PRun _ _ | PWait _ _ _ | PWaitS _ _ _ | PLock _ => negb (l_reading lp)
  | PSelect | PDeq _ | PCheck => l_reading lp
  | PExit => true
  end.
Definition cur_ok (op : bool) (lp : loop) : bool :=
  negb (l_done lp) && match l_pc lp with PWait _ _ _ | PWaitS _ _ _ | PLock _ => false | PExit => negb op | _ => true end.
Definition old_ok (fx : bool) (lp : loop) : bool :=
  l_done lp && (negb fx || match l_pc lp with PSelect | PDeq _ => false | _ => true end).
Definition okl (fx iscur op : bool) (lp : loop) : bool :=
  rd_ok lp && if iscur then cur_ok op lp else old_ok fx lp.

Definition Iraw (fx : bool) (cu : nat) (ls : list loop) (cl : bool) : Prop :=
  (cu < length ls)%nat /\
  forall i lp, nth_error ls i = Some lp -> okl fx (Nat.eqb i cu) (negb cl) lp = true.
Definition Inv (c : cfg) (s : st) : Prop := Iraw (fixed c) (cur s) (loops s) (closed s).

Lemma Iraw_upd fx cu ls cl l lp x :
  Iraw fx cu ls cl -> nth_error ls l = Some lp -> okl fx (Nat.eqb l cu) (negb cl) x = true ->
  Iraw fx cu (upd l x ls) cl.
Proof.
  intros [Hc Hall] Hn Hx. split.
  - now rewrite length_upd.
  - intros i lq Hi. destruct (Nat.eq_dec l i) as [->|Hne].
    + rewrite nth_error_upd_same in Hi by (eapply nth_error_lt; eauto). now injection Hi as <-.
    + rewrite nth_error_upd_other in Hi by auto. eauto.
Qed.

Lemma Iraw_close fx cu ls : Iraw fx cu ls false -> Iraw fx cu ls true.
Proof.
  intros [Hc Hall]. split; auto. intros i lp Hi. specialize (Hall i lp Hi).
  unfold okl, cur_ok in *. cbn in *. destruct (Nat.eqb i cu); auto.
  destruct (rd_ok lp), (l_done lp), (l_pc lp); cbn in *; auto.
Qed.

(* weaker precondition for TryToReplaceLoop: the calling handler's own loop may already be marked as waiting *)
Definition PreInv (fx : bool) (cu : nat) (ls : list loop) (cl : bool) : Prop :=
  (cu < length ls)%nat /\
  forall i lp, nth_error ls i = Some lp ->
    rd_ok lp = true /\
    if Nat.eqb i cu then (negb (l_done lp) = true /\ (l_reading lp = true -> cur_ok (negb cl) lp = true))
    else old_ok fx lp = true.

Lemma Inv_PreInv fx cu ls cl : Iraw fx cu ls cl -> PreInv fx cu ls cl.
Proof.
  intros [Hc Hall]. split; auto. intros i lp Hi. specialize (Hall _ _ Hi).
  unfold okl in Hall. apply andb_true_iff in Hall as [H1 H2]. split; auto.
  destruct (Nat.eqb i cu); auto. split; auto.
  unfold cur_ok in H2. now apply andb_true_iff in H2 as [H2 _].
Qed.

Lemma PreInv_try_replace c s : PreInv (fixed c) (cur s) (loops s) (closed s) -> Inv c (try_replace s).
Proof.
  intros [Hc Hall]. destruct (try_replace_cases s) as [E|(lc & Hn & Hr & ->)].
  - rewrite E. split; auto. intros i lp Hi. destruct (Hall _ _ Hi) as [H1 H2]. unfold okl. rewrite H1. cbn.
    destruct (Nat.eqb i (cur s)) eqn:Ei; auto.
    apply Nat.eqb_eq in Ei. subst i. destruct H2 as [_ H2]. apply H2.
    unfold try_replace in E. rewrite Hi in E. destruct (l_reading lp) eqn:Er; auto.
    exfalso. apply (f_equal (fun x => length (loops x))) in E. cbn in E. rewrite app_length, length_upd in E. cbn in E. lia.
  - unfold Inv; cbn. split.
    + rewrite app_length, length_upd. cbn. lia.
    + intros i lp Hi.
      destruct (Nat.lt_ge_cases i (length (loops s))) as [Hlt|Hge].
      * rewrite nth_error_app1 in Hi by now rewrite length_upd.
        replace (Nat.eqb i (length (loops s))) with false by (symmetry; apply Nat.eqb_neq; lia).
        destruct (Nat.eq_dec (cur s) i) as [<-|Hne].
        -- rewrite nth_error_upd_same in Hi by auto. injection Hi as <-.
           destruct (Hall _ _ Hn) as [H1 _].
           unfold okl, rd_ok, old_ok in *. cbn in *. rewrite Hr in H1.
           destruct (l_pc lc), (fixed c); cbn in *; auto; discriminate.
        -- rewrite nth_error_upd_other in Hi by auto. destruct (Hall _ _ Hi) as [H1 H2].
           replace (Nat.eqb i (cur s)) with false in H2 by (symmetry; apply Nat.eqb_neq; lia).
           unfold okl. now rewrite H1, H2.
      * rewrite nth_error_app2 in Hi by now rewrite length_upd.
        rewrite length_upd in Hi.
        destruct (i - length (loops s))%nat as [|k] eqn:Ek; cbn in Hi.
        -- injection Hi as <-. replace i with (length (loops s)) by lia. rewrite Nat.eqb_refl. reflexivity.
        -- destruct k; discriminate.
Qed.

Lemma Inv_try_replace c s : Inv c s -> Inv c (try_replace s).
Proof. intro H. apply PreInv_try_replace. now apply Inv_PreInv. Qed.

Lemma PreInv_upd fx cu ls cl l lp x :
  PreInv fx cu ls cl -> nth_error ls l = Some lp ->
  (rd_ok x = true /\ if Nat.eqb l cu then (negb (l_done x) = true /\ (l_reading x = true -> cur_ok (negb cl) x = true))
                     else old_ok fx x = true) ->
  PreInv fx cu (upd l x ls) cl.
Proof.
  intros [Hc Hall] Hn Hx. split.
  - now rewrite length_upd.
  - intros i lq Hi. destruct (Nat.eq_dec l i) as [->|Hne].
    + rewrite nth_error_upd_same in Hi by (eapply nth_error_lt; eauto). now injection Hi as <-.
    + rewrite nth_error_upd_other in Hi by auto. eauto.
Qed.

Ltac okl_crush :=
  unfold okl, rd_ok, cur_ok, old_ok in *; cbn in *;
  repeat match goal with
  | H : l_pc ?lp = _ |- _ => rewrite H in *
  | H : l_done ?lp = _ |- _ => rewrite H in *
  | H : l_reading ?lp = _ |- _ => rewrite H in *
  end; cbn in *.

Ltac okl_fin c s l lp :=
  okl_crush;
  destruct (Nat.eqb l (cur s)), (l_done lp), (l_reading lp), (fixed c), (closed s);
  cbn in *; try reflexivity; try discriminate.

Lemma Inv_step c s a s' : repaired_waits c = true -> Inv c s -> step c s a = Some s' -> Inv c s'.
Proof.
  intros Hrw HI HS. apply andb_true_iff in Hrw as [Hpf Hlf]. apply step_Step in HS.
  destruct HS as [m r Hp Hl Hsc | Hc | k He | r Hse | l lp Hn Hpc Hd | l lp Hn Hpc Hcl | l lp m q Hn Hpc Hq
                 | l lp m a Hn Hpc | l lp m a Hn Hpc Hlk | l lp m a Hn Hpc Hlk | l lp m a Hn Hpc | l lp m ops a Hn Hpc
                 | l lp m r ops a Hn Hpc | l lp m r ops a Hn Hpc | l lp m r ops a Hn Hpc
                 | l lp m r ops a Hn Hpc Hdl | l lp m r ops a Hn Hpc Hdl | l lp m a Hn Hpc Hlk | l lp a Hn Hpc];
    try rewrite Hpf; try rewrite Hlf;
    try (apply Inv_try_replace; unfold Inv in *; cbn; auto;
         eapply Iraw_upd; eauto; pose proof (proj2 HI _ _ Hn) as Ho; okl_fin c s l lp; fail);
    unfold Inv in *; cbn; auto;
    try (eapply Iraw_upd; eauto; pose proof (proj2 HI _ _ Hn) as Ho; okl_fin c s l lp; fail).
  - rewrite Hc in HI. now apply Iraw_close.
  - (* the message-ID lock is taken: the loop is marked waiting, then TryToReplaceLoop runs *)
    apply PreInv_try_replace. cbn. eapply PreInv_upd; eauto using Inv_PreInv.
    pose proof (proj2 HI _ _ Hn) as Ho. okl_crush.
    destruct (Nat.eqb l (cur s)), (l_done lp), (l_reading lp), (fixed c), (closed s);
      cbn in *; try discriminate; repeat split; auto; try discriminate.
  - (* nested request: the handler's own loop is marked waiting, then TryToReplaceLoop runs *)
    apply PreInv_try_replace. cbn. eapply PreInv_upd; eauto using Inv_PreInv.
    pose proof (proj2 HI _ _ Hn) as Ho. okl_crush.
    destruct (Nat.eqb l (cur s)), (l_done lp), (l_reading lp), (fixed c), (closed s);
      cbn in *; try discriminate; repeat split; auto; try discriminate.
  - (* confirmable nested request waiting for its acknowledgement: the same *)
    apply PreInv_try_replace. cbn. eapply PreInv_upd; eauto using Inv_PreInv.
    pose proof (proj2 HI _ _ Hn) as Ho. okl_crush.
    destruct (Nat.eqb l (cur s)), (l_done lp), (l_reading lp), (fixed c), (closed s);
      cbn in *; try discriminate; repeat split; auto; try discriminate.
  - (* ping (repaired code): the same *)
    apply PreInv_try_replace. cbn. eapply PreInv_upd; eauto using Inv_PreInv.
    pose proof (proj2 HI _ _ Hn) as Ho. okl_crush.
    destruct (Nat.eqb l (cur s)), (l_done lp), (l_reading lp), (fixed c), (closed s);
      cbn in *; try discriminate; repeat split; auto; try discriminate.
Qed.

(* ------------------------------------------------------------------ *)
(* Invariant G: conservation of messages.  Every message handed to the producer is in exactly one
   place: still to be pushed, in the queue, held by a loop between dequeue and dispatch, or in the log. *)

Definition held_of (lp : loop) : list Z :=
  match l_pc lp with PDeq m | PBusy m => [m] | _ => [] end.
Definition held (ls : list loop) : list Z := flat_map held_of ls.
Arguments held : simpl never.

Definition Graw (msgs : list Z) (q p : list Z) (ls : list loop) (lg : list (Z * nat)) : Prop :=
  Permutation msgs (map fst lg ++ held ls ++ q ++ p).
Definition GInv (msgs : list Z) (s : st) : Prop := Graw msgs (queue s) (prod s) (loops s) (log s).

Lemma held_app a b : held (a ++ b) = held a ++ held b.
Proof. unfold held. apply flat_map_app. Qed.

Lemma held_cons x l : held (x :: l) = held_of x ++ held l.
Proof. reflexivity. Qed.

Lemma held_upd_same l lp x ls :
  nth_error ls l = Some lp -> held_of x = held_of lp -> held (upd l x ls) = held ls.
Proof.
  intros Hn Hh. destruct (upd_split _ _ _ Hn) as (a & b & E & U).
  rewrite U, E. rewrite !held_app, !held_cons. now rewrite Hh.
Qed.

Lemma held_upd l lp x ls :
  nth_error ls l = Some lp ->
  exists a b, held ls = a ++ held_of lp ++ b /\ held (upd l x ls) = a ++ held_of x ++ b.
Proof.
  intros Hn. destruct (upd_split _ _ _ Hn) as (a & b & E & U).
  exists (held a), (held b). rewrite U, E. rewrite !held_app, !held_cons. auto.
Qed.

Lemma held_try_replace s : held (loops (try_replace s)) = held (loops s).
Proof.
  destruct (try_replace_cases s) as [->|(lc & Hn & Hr & ->)]; auto.
  cbn. rewrite held_app. change (held [mkLoop false true PSelect]) with (@nil Z). rewrite app_nil_r. eapply held_upd_same; eauto.
Qed.

Lemma try_replace_fields s :
  queue (try_replace s) = queue s /\ prod (try_replace s) = prod s /\ log (try_replace s) = log s /\
  commits (try_replace s) = commits s /\ closed (try_replace s) = closed s /\ ext (try_replace s) = ext s.
Proof. destruct (try_replace_cases s) as [->|(lc & Hn & Hr & ->)]; cbn; auto 10. Qed.

Lemma GInv_try_replace msgs s : GInv msgs s -> GInv msgs (try_replace s).
Proof.
  unfold GInv, Graw. destruct (try_replace_fields s) as (-> & -> & -> & _). now rewrite held_try_replace.
Qed.

Lemma GInv_step c msgs s a s' : GInv msgs s -> step c s a = Some s' -> GInv msgs s'.
Proof.
  intros HG HS. apply step_Step in HS.
  assert (Hdisp : forall l lp m p, nth_error (loops s) l = Some lp -> l_pc lp = PBusy m -> held_of (mkLoop (l_done lp) (l_reading lp) p) = [] ->
            Graw msgs (queue s) (prod s) (upd l (mkLoop (l_done lp) (l_reading lp) p) (loops s)) (log s ++ [(m, l)])).
  { intros l lp m p Hn Hpc Hp. unfold GInv, Graw in *.
    destruct (held_upd l lp (mkLoop (l_done lp) (l_reading lp) p) _ Hn) as (a0 & b & E & U).
    rewrite U. rewrite E in HG. rewrite Hp. unfold held_of in HG. rewrite Hpc in HG. cbn in *. rewrite map_app. cbn.
    eapply Permutation_trans; [exact HG|].
    rewrite <- !app_assoc. apply Permutation_app_head. cbn.
    apply Permutation_sym, Permutation_middle. }
  destruct HS as [m r Hp Hl Hsc | Hc | k He | r Hse | l lp Hn Hpc Hd | l lp Hn Hpc Hcl | l lp m q Hn Hpc Hq
                 | l lp m a Hn Hpc | l lp m a Hn Hpc Hlk | l lp m a Hn Hpc Hlk | l lp m a Hn Hpc | l lp m ops a Hn Hpc
                 | l lp m r ops a Hn Hpc | l lp m r ops a Hn Hpc | l lp m r ops a Hn Hpc
                 | l lp m r ops a Hn Hpc Hdl | l lp m r ops a Hn Hpc Hdl | l lp m a Hn Hpc Hlk | l lp a Hn Hpc];
    try match goal with |- context [if pingfix c then _ else _] => destruct (pingfix c) end;
    try match goal with |- context [if lockfix c then _ else _] => destruct (lockfix c) end;
    try apply GInv_try_replace; unfold GInv in *; cbn;
    try (apply Hdisp; auto; fail);
    unfold Graw in *;
    try (erewrite held_upd_same; [exact HG | exact Hn | unfold held_of; cbn; rewrite Hpc; reflexivity]).
  - (* push *) rewrite Hp in HG. rewrite <- !app_assoc. cbn. exact HG.
  - exact HG.
  - exact HG.
  - exact HG.
  - (* select: queue -> held *)
    rewrite Hq in HG. destruct (held_upd l lp (mkLoop (l_done lp) (l_reading lp) (PDeq m)) _ Hn) as (a & b & E & U).
    rewrite U. rewrite E in HG. unfold held_of in *. rewrite Hpc in HG. cbn in *.
    eapply Permutation_trans; [exact HG|].
    apply Permutation_app_head. rewrite <- !app_assoc. apply Permutation_app_head. cbn.
    apply Permutation_sym, Permutation_middle.
  - erewrite held_upd_same; [exact HG | exact Hn |].
    unfold held_of; cbn; rewrite Hpc. now destruct (fixed c && l_done lp).
Qed.

(* ------------------------------------------------------------------ *)
(* reachable states *)

Lemma Inv_init c msgs k : Inv c (init msgs k).
Proof.
  split; cbn; [lia|]. intros [|[|i]] lp H; cbn in H; try discriminate. now injection H as <-.
Qed.

Lemma GInv_init msgs k : GInv msgs (init msgs k).
Proof. unfold GInv, Graw, held. cbn. apply Permutation_refl. Qed.

Lemma Inv_run c msgs k sched s : repaired_waits c = true -> run c (init msgs k) sched = Some s -> Inv c s.
Proof. intro Hpf. apply (run_invariant c (Inv c)); [intros; eapply Inv_step; eauto | apply Inv_init]. Qed.

Lemma GInv_run c msgs k sched s : run c (init msgs k) sched = Some s -> GInv msgs s.
Proof. apply (run_invariant c (GInv msgs)); [apply GInv_step | apply GInv_init]. Qed.

(* ------------------------------------------------------------------ *)
(* Invariant Q: the single producer.  The model has ONE producer ([prod], action [APush]): the socket reader of
   the connection, which hands the messages over one after the other (tcp: Session.Run -> processBuffer ->
   pushToReceivedMessageQueue; udp: the datagram reader -> Conn.Process), each hand-over completing before the
   next begins.  Consequence, for every queue capacity and every schedule of the consumer loops, external callers
   and the closer: at any moment the messages that have left the queue (in whatever state the loops hold them),
   the queue content and the messages still to be pushed, in this order, are the arrival sequence; in particular
   the queue is always a contiguous segment of the arrival sequence, in arrival order. *)

Definition QInv (msgs : list Z) (s : st) : Prop := exists taken, msgs = taken ++ queue s ++ prod s.

Lemma QInv_try_replace msgs s : QInv msgs s -> QInv msgs (try_replace s).
Proof. unfold QInv. destruct (try_replace_fields s) as (-> & -> & _). auto. Qed.

Lemma QInv_step c msgs s a s' : QInv msgs s -> step c s a = Some s' -> QInv msgs s'.
Proof.
  intros (taken & HQ) HS. apply step_Step in HS.
  destruct HS as [m r Hp Hl Hsc | Hc | k He | r Hse | l lp Hn Hpc Hd | l lp Hn Hpc Hcl | l lp m q Hn Hpc Hq
                 | l lp m a Hn Hpc | l lp m a Hn Hpc Hlk | l lp m a Hn Hpc Hlk | l lp m a Hn Hpc | l lp m ops a Hn Hpc
                 | l lp m r ops a Hn Hpc | l lp m r ops a Hn Hpc | l lp m r ops a Hn Hpc
                 | l lp m r ops a Hn Hpc Hdl | l lp m r ops a Hn Hpc Hdl | l lp m a Hn Hpc Hlk | l lp a Hn Hpc];
    try match goal with |- context [if pingfix c then _ else _] => destruct (pingfix c) end;
    try match goal with |- context [if lockfix c then _ else _] => destruct (lockfix c) end;
    try apply QInv_try_replace; unfold QInv; cbn; try (exists taken; exact HQ).
  - (* push: the head of [prod] becomes the tail of the queue *)
    exists taken. rewrite HQ, Hp, <- app_assoc. reflexivity.
  - (* dequeue: the head of the queue joins [taken] *)
    exists (taken ++ [m]). rewrite HQ, Hq, <- app_assoc. reflexivity.
Qed.

Lemma QInv_init msgs k : QInv msgs (init msgs k).
Proof. exists []. reflexivity. Qed.

Lemma QInv_run c msgs k sched s : run c (init msgs k) sched = Some s -> QInv msgs s.
Proof. apply (run_invariant c (QInv msgs)); [apply QInv_step | apply QInv_init]. Qed.

Theorem enqueue_in_order c msgs k sched s :
  run c (init msgs k) sched = Some s ->
  exists taken, msgs = taken ++ queue s ++ prod s /\
                Permutation taken (map fst (log s) ++ held (loops s)).
Proof.
  intro HR. destruct (QInv_run _ _ _ _ _ HR) as (taken & HQ). exists taken. split; [exact HQ|].
  pose proof (GInv_run _ _ _ _ _ HR) as HG. unfold GInv, Graw in HG. rewrite HQ in HG at 1.
  rewrite (app_assoc (map fst (log s))) in HG.
  eapply Permutation_app_inv_r. exact HG.
Qed.

(* a complete run: no thread can move (closing the connection, which is always possible, is not a move) *)
Definition terminal (c : cfg) (s : st) : Prop := forall a, a <> AClose -> step c s a = None.

Lemma NoDup_app_l {A} (a b : list A) : NoDup (a ++ b) -> NoDup a.
Proof.
  induction a as [|x a IH]; intro H; [constructor|]. cbn in H. inversion H as [|? ? Hni Hnd]; subst.
  constructor; auto. intro Hin. apply Hni. apply in_or_app. now left.
Qed.

(* ---- at most once (both shapes of the code) ---- *)
Theorem run_at_most_once c msgs k sched s :
  NoDup msgs -> run c (init msgs k) sched = Some s ->
  NoDup (map fst (log s)) /\ incl (map fst (log s)) msgs.
Proof.
  intros Hnd HR. pose proof (GInv_run _ _ _ _ _ HR) as HG. unfold GInv, Graw in HG. split.
  - eapply NoDup_app_l. eapply Permutation_NoDup; eauto.
  - intros x Hx. eapply Permutation_in; [apply Permutation_sym; exact HG|]. apply in_or_app. now left.
Qed.

(* ---- exactly once in complete runs with the connection open (both shapes) ---- *)
Lemma terminal_pcs c s l lp :
  terminal c s -> nth_error (loops s) l = Some lp ->
  l_pc lp = PSelect \/ (exists m r ops, l_pc lp = PWait m r ops) \/ (exists m r ops, l_pc lp = PWaitS m r ops) \/
  (exists m, l_pc lp = PLock m) \/ l_pc lp = PExit.
Proof.
  intros HT Hn. specialize (HT (ALoop l AltQueue) ltac:(discriminate)). cbn in HT. unfold step_loop in HT. rewrite Hn in HT.
  destruct (l_pc lp) as [ |m|m|m ops|m r ops|m r ops|m| | ] eqn:Epc; auto; try discriminate.
  - destruct (lock_held c s m); discriminate.
  - destruct ops as [|[|r|r|r] ops]; discriminate.
  - right. left. eauto.
  - right. right. left. eauto.
  - right. right. right. left. eauto.
Qed.

Lemma held_nil ls : (forall lp, In lp ls -> held_of lp = []) -> held ls = [].
Proof.
  induction ls as [|x r IH]; intro H; auto. rewrite held_cons. rewrite H by now left.
  cbn. apply IH. intros lp Hin. apply H. now right.
Qed.

(* the signals standing at the socket reader's position, when it is not parked, can be handled *)
Lemma sigs_clear_or_enabled c s :
  (length (queue s) <= cap c)%nat -> sigs_clear c s = false -> exists r, step c s (ASig r) <> None.
Proof.
  intros Hq Hc. unfold sigs_clear in Hc.
  assert (He : exists e, In e (sigs c) /\ sig_here s e = true /\ signalled (fst e) s = false).
  { induction (sigs c) as [|e r IH]; cbn in Hc; [discriminate|].
    destruct (sig_here s e) eqn:E1; cbn in Hc.
    - destruct (signalled (fst e) s) eqn:E2; cbn in Hc.
      + destruct (IH Hc) as (e' & Hin & H1 & H2). exists e'. repeat split; auto. now right.
      + exists e. repeat split; auto. now left.
    - destruct (IH Hc) as (e' & Hin & H1 & H2). exists e'. repeat split; auto. now right. }
  destruct He as (e & Hin & H1 & H2). exists (fst e). cbn. unfold sig_enabled, reader_free.
  apply Nat.leb_le in Hq. rewrite Hq, H2. cbn.
  replace (existsb (fun e0 => (fst e0 =? fst e) && sig_here s e0) (sigs c)) with true; [discriminate|].
  symmetry. apply existsb_exists. exists e. split; auto. now rewrite Z.eqb_refl, H1.
Qed.

Lemma terminal_open_empty c s :
  Inv c s -> terminal c s -> closed s = false ->
  queue s = [] /\ prod s = [] /\ held (loops s) = [] /\
  exists lc, nth_error (loops s) (cur s) = Some lc /\ l_pc lc = PSelect /\ l_done lc = false.
Proof.
  intros [Hc Hall] HT Hop.
  destruct (nth_error (loops s) (cur s)) as [lc|] eqn:En; [|apply nth_error_None in En; lia].
  pose proof (Hall _ _ En) as Ho. rewrite Nat.eqb_refl, Hop in Ho.
  assert (Hsel : l_pc lc = PSelect /\ l_done lc = false).
  { destruct (terminal_pcs _ _ _ _ HT En) as [E|[(m & r & ops & E)|[(m & r & ops & E)|[(m & E)|E]]]];
      unfold okl, cur_ok in Ho; rewrite E in Ho; cbn in Ho;
      destruct (rd_ok lc), (l_done lc); cbn in Ho; try discriminate; auto. }
  destruct Hsel as [Hsel Hdone].
  assert (Hq : queue s = []).
  { pose proof (HT (ALoop (cur s) AltQueue) ltac:(discriminate)) as H. cbn in H. unfold step_loop in H. rewrite En, Hsel in H.
    destruct (queue s); auto; discriminate. }
  assert (Hp : prod s = []).
  { pose proof (HT APush ltac:(discriminate)) as H. cbn in H. unfold reader_free in H. rewrite Hq in H.
    destruct (prod s) as [|m r]; auto. cbn in H.
    destruct (sigs_clear c s) eqn:Esc; [discriminate|].
    destruct (sigs_clear_or_enabled c s) as (r0 & Hr0); auto; [rewrite Hq; cbn; lia|].
    exfalso. apply Hr0. apply HT. discriminate. }
  repeat split; auto.
  - apply held_nil. intros lp Hin. apply In_nth_error in Hin as [l Hn].
    destruct (terminal_pcs _ _ _ _ HT Hn) as [E|[(m & r & ops & E)|[(m & r & ops & E)|[(m & E)|E]]]]; unfold held_of; now rewrite E.
  - exists lc. auto.
Qed.

Theorem run_exactly_once c msgs k sched s :
  repaired_waits c = true ->
  run c (init msgs k) sched = Some s -> terminal c s -> closed s = false ->
  Permutation msgs (map fst (log s)).
Proof.
  intros Hpf HR HT Hop. pose proof (GInv_run _ _ _ _ _ HR) as HG. pose proof (Inv_run _ _ _ _ _ Hpf HR) as HI.
  destruct (terminal_open_empty _ _ HI HT Hop) as (Hq & Hp & Hh & _).
  unfold GInv, Graw in HG. rewrite Hq, Hp, Hh in HG. cbn in HG. now rewrite app_nil_r in HG.
Qed.

(* ---- never stalls: whatever the nesting depth (any number of loops blocked in nested requests, in the wait for an
   acknowledgement or in a ping), while the connection is open there is a current loop that is none of the blocked
   ones, has not been told to stop, has not exited, is not itself blocked, and is either at its select (ready for
   the next message) or able to move ---- *)
Definition blocked_pc (p : pc) : bool :=
  match p with PWait _ _ _ | PWaitS _ _ _ | PLock _ => true | _ => false end.

Theorem run_never_stalls c msgs k sched s :
  repaired_waits c = true ->
  run c (init msgs k) sched = Some s -> closed s = false ->
  exists lc, nth_error (loops s) (cur s) = Some lc /\ l_done lc = false /\ l_pc lc <> PExit /\
    blocked_pc (l_pc lc) = false /\
    (l_pc lc = PSelect \/ exists s', step c s (ALoop (cur s) AltQueue) = Some s') /\
    forall l lp, nth_error (loops s) l = Some lp -> blocked_pc (l_pc lp) = true -> l <> cur s.
Proof.
  intros Hpf HR Hop. pose proof (Inv_run _ _ _ _ _ Hpf HR) as [Hc Hall].
  destruct (nth_error (loops s) (cur s)) as [lc|] eqn:En; [|apply nth_error_None in En; lia].
  pose proof (Hall _ _ En) as Ho. rewrite Nat.eqb_refl, Hop in Ho.
  unfold okl, cur_ok in Ho. apply andb_true_iff in Ho as [_ Ho]. apply andb_true_iff in Ho as [Hd Hpc].
  assert (Hnb : blocked_pc (l_pc lc) = false) by (destruct (l_pc lc); cbn in *; auto; discriminate).
  exists lc. split; auto. split; [now destruct (l_done lc)|].
  split; [intro E; rewrite E in Hpc; discriminate|].
  split; [exact Hnb|].
  split.
  - cbn. unfold step_loop. rewrite En.
    destruct (l_pc lc) as [ |m|m|m ops|m r ops|m r ops|m| | ] eqn:Epc; auto; try discriminate; right; eauto.
    + destruct (lock_held c s m); eauto.
    + destruct ops as [|[|r|r|r] ops]; eauto.
  - intros l lp Hn E ->. rewrite En in Hn. injection Hn as <-. congruence.
Qed.

(* ---- Invariant D: a loop that is handling a message (or waits for its message-ID lock) has logged its dispatch ---- *)
Definition dispatched_msg (lp : loop) : option Z :=
  match l_pc lp with PRun m _ | PWait m _ _ | PWaitS m _ _ | PLock m => Some m | _ => None end.
Definition Draw (ls : list loop) (lg : list (Z * nat)) : Prop :=
  forall l lp m, nth_error ls l = Some lp -> dispatched_msg lp = Some m -> In (m, l) lg.
Definition DInv (s : st) : Prop := Draw (loops s) (log s).

Lemma Draw_upd ls lg lg' l lp x :
  Draw ls lg -> nth_error ls l = Some lp -> incl lg lg' ->
  (forall m, dispatched_msg x = Some m -> In (m, l) lg') -> Draw (upd l x ls) lg'.
Proof.
  intros HD Hn Hincl Hx i lq m Hi Hm. destruct (Nat.eq_dec l i) as [->|Hne].
  - rewrite nth_error_upd_same in Hi by (eapply nth_error_lt; eauto). injection Hi as <-. auto.
  - rewrite nth_error_upd_other in Hi by auto. apply Hincl. eapply HD; eauto.
Qed.

Lemma DInv_try_replace s : DInv s -> DInv (try_replace s).
Proof.
  intro HD. destruct (try_replace_cases s) as [->|(lc & Hn & Hr & ->)]; auto.
  unfold DInv, Draw in *. cbn. intros l lp m Hi Hm.
  destruct (Nat.lt_ge_cases l (length (loops s))) as [Hlt|Hge].
  - rewrite nth_error_app1 in Hi by now rewrite length_upd.
    destruct (Nat.eq_dec (cur s) l) as [<-|Hne].
    + rewrite nth_error_upd_same in Hi by (eapply nth_error_lt; eauto). injection Hi as <-.
      eapply HD; eauto.
    + rewrite nth_error_upd_other in Hi by auto. eapply HD; eauto.
  - rewrite nth_error_app2 in Hi by now rewrite length_upd. rewrite length_upd in Hi.
    destruct (l - length (loops s))%nat as [|[|?]]; cbn in Hi; try discriminate. injection Hi as <-. discriminate.
Qed.

Lemma DInv_step c s a s' : DInv s -> step c s a = Some s' -> DInv s'.
Proof.
  intros HD HS. apply step_Step in HS.
  destruct HS as [m r Hp Hl Hsc | Hc | k He | r Hse | l lp Hn Hpc Hd | l lp Hn Hpc Hcl | l lp m q Hn Hpc Hq
                 | l lp m a Hn Hpc | l lp m a Hn Hpc Hlk | l lp m a Hn Hpc Hlk | l lp m a Hn Hpc | l lp m ops a Hn Hpc
                 | l lp m r ops a Hn Hpc | l lp m r ops a Hn Hpc | l lp m r ops a Hn Hpc
                 | l lp m r ops a Hn Hpc Hdl | l lp m r ops a Hn Hpc Hdl | l lp m a Hn Hpc Hlk | l lp a Hn Hpc];
    try match goal with |- context [if pingfix c then _ else _] => destruct (pingfix c) end;
    try match goal with |- context [if lockfix c then _ else _] => destruct (lockfix c) end;
    try apply DInv_try_replace; try exact HD; unfold DInv in *; cbn;
    try (eapply Draw_upd; eauto using incl_refl, incl_appl;
         unfold dispatched_msg; cbn; intros m0 Hm0; try discriminate;
         try (injection Hm0 as <-; first [ apply in_or_app; right; now left
                                         | eapply HD; eauto; unfold dispatched_msg; now rewrite Hpc ]); fail).
  - eapply Draw_upd; eauto using incl_refl. unfold dispatched_msg; cbn.
    destruct (fixed c && l_done lp); cbn; discriminate.
Qed.

Lemma DInv_init msgs k : DInv (init msgs k).
Proof. intros [|[|l]] lp m H; cbn in H; try discriminate. injection H as <-. discriminate. Qed.

Lemma DInv_run c msgs k sched s : run c (init msgs k) sched = Some s -> DInv s.
Proof. apply (run_invariant c DInv); [apply DInv_step | apply DInv_init]. Qed.

Lemma NoDup_fst_inj {A} (lg : list (Z * A)) r a b :
  NoDup (map fst lg) -> In (r, a) lg -> In (r, b) lg -> a = b.
Proof.
  induction lg as [|[x y] lg IH]; cbn; intros Hnd Ha Hb; [contradiction|].
  inversion Hnd as [|? ? Hni Hnd']; subst.
  destruct Ha as [Ha|Ha], Hb as [Hb|Hb].
  - congruence.
  - injection Ha as -> ->. exfalso. apply Hni. apply in_map_iff. exists (r, b). auto.
  - injection Hb as -> ->. exfalso. apply Hni. apply in_map_iff. exists (r, a). auto.
  - auto.
Qed.

(* the response [r] shares its message-ID lock with no other message: the peer does not give two different messages
   the same message ID while one of them is being handled (RFC 7252 4.4), and a reply that carries a message ID of
   our own numbering (ACK, RST) takes no lock in the repaired code *)
Definition own_key (c : cfg) (r : Z) : Prop := forall m, m <> r -> key_eqb (key_of c m) (key_of c r) = false.

(* in a complete run a message does not wait for a lock that only its own handling could hold *)
Lemma not_locked_out c msgs k sched s r :
  NoDup msgs -> run c (init msgs k) sched = Some s -> terminal c s -> own_key c r -> locked_out r s = false.
Proof.
  intros Hnd HR HT Hown. destruct (locked_out r s) eqn:E; auto. exfalso.
  unfold locked_out in E. apply existsb_exists in E as (lp & Hin & Hlp).
  destruct (l_pc lp) as [ | | | | | |m| | ] eqn:Epc; try discriminate. apply Z.eqb_eq in Hlp. subst m.
  apply In_nth_error in Hin as [l Hn].
  pose proof (HT (ALoop l AltQueue) ltac:(discriminate)) as H. cbn in H. unfold step_loop in H. rewrite Hn, Epc in H.
  destruct (lock_held c s r) eqn:Elk; [|discriminate].
  unfold lock_held in Elk. apply existsb_exists in Elk as (lp' & Hin' & Hk).
  destruct (handling lp') as [m'|] eqn:Eh; [|discriminate].
  destruct (Z.eq_dec m' r) as [->|Hne]; [|rewrite (Hown _ Hne) in Hk; discriminate].
  apply In_nth_error in Hin' as [l' Hn'].
  pose proof (DInv_run _ _ _ _ _ HR) as HD.
  assert (H1 : In (r, l) (log s)) by (eapply HD; eauto; unfold dispatched_msg; now rewrite Epc).
  assert (H2 : In (r, l') (log s)).
  { eapply HD; eauto. unfold handling in Eh. unfold dispatched_msg. destruct (l_pc lp'); try discriminate; auto. }
  destruct (run_at_most_once _ _ _ _ _ Hnd HR) as [Hnd2 _].
  pose proof (NoDup_fst_inj _ _ _ _ Hnd2 H1 H2) as ->.
  rewrite Hn in Hn'. injection Hn' as <-. unfold handling in Eh. rewrite Epc in Eh. discriminate.
Qed.

(* consequence for complete runs: every nested request whose response was among the pushed messages has returned *)
Theorem nested_returns c msgs k sched s :
  repaired_waits c = true -> NoDup msgs ->
  run c (init msgs k) sched = Some s -> terminal c s -> closed s = false ->
  forall l lp m r ops, nth_error (loops s) l = Some lp -> l_pc lp = PWait m r ops -> own_key c r -> ~ In r msgs.
Proof.
  intros Hpf Hnd HR HT Hop l lp m r ops Hn Hpc Hown Hin.
  pose proof (run_exactly_once _ _ _ _ _ Hpf HR HT Hop) as HP.
  assert (Hd : delivered r s = true).
  { unfold delivered. apply andb_true_iff. split.
    - apply existsb_exists. eapply Permutation_in in Hin; [|exact HP].
      apply in_map_iff in Hin as (e & E & Hin). exists e. split; auto. rewrite E. apply Z.eqb_refl.
    - apply negb_true_iff. eapply not_locked_out; eauto. }
  pose proof (HT (ALoop l AltQueue) ltac:(discriminate)) as H. cbn in H. unfold step_loop in H. rewrite Hn, Hpc, Hd in H. discriminate.
Qed.

(* a loop that is left waiting for a message-ID lock in a complete run waits for a handler that is itself blocked
   waiting for a reply (which, in the repaired code and under the hypotheses of [nested_returns] /
   [signal_waits_return], the peer never sent): a retransmitted copy waits exactly as long as the first copy's
   handler does *)
Theorem lock_waits_justified c s l lp m :
  terminal c s -> nth_error (loops s) l = Some lp -> l_pc lp = PLock m ->
  exists l' lp' m', nth_error (loops s) l' = Some lp' /\ handling lp' = Some m' /\
    key_eqb (key_of c m') (key_of c m) = true /\
    ((exists r ops, l_pc lp' = PWait m' r ops) \/ (exists r ops, l_pc lp' = PWaitS m' r ops)).
Proof.
  intros HT Hn Hpc.
  pose proof (HT (ALoop l AltQueue) ltac:(discriminate)) as H. cbn in H. unfold step_loop in H. rewrite Hn, Hpc in H.
  destruct (lock_held c s m) eqn:Elk; [|discriminate].
  unfold lock_held in Elk. apply existsb_exists in Elk as (lp' & Hin' & Hk).
  destruct (handling lp') as [m'|] eqn:Eh; [|discriminate].
  apply In_nth_error in Hin' as [l' Hn'].
  exists l', lp', m'. repeat split; auto.
  destruct (terminal_pcs _ _ _ _ HT Hn') as [E|[(m0 & r & ops & E)|[(m0 & r & ops & E)|[(m0 & E)|E]]]];
    unfold handling in Eh; rewrite E in Eh; try discriminate; injection Eh as ->; eauto.
Qed.

(* ---- signals.  Invariant S: the socket reader does not pass a signal without running its handler ---- *)
Definition sigs_wf (c : cfg) (msgs : list Z) : Prop := forall r q, In (r, q) (sigs c) -> (q <= length msgs)%nat.
Definition SInv (c : cfg) (s : st) : Prop :=
  forall r q, In (r, q) (sigs c) -> (length (prod s) < q)%nat -> signalled r s = true.

Lemma signalled_app r s x :
  signalled r s = true ->
  signalled r (mkSt (queue s) (prod s) (ext s) (closed s) (cur s) (loops s) (commits s) (log s) (sigd s ++ [x])) = true.
Proof. unfold signalled, memz. cbn. rewrite existsb_app. intros ->. reflexivity. Qed.

Lemma try_replace_sigd s : sigd (try_replace s) = sigd s.
Proof. destruct (try_replace_cases s) as [->|(lc & Hn & Hr & ->)]; cbn; auto. Qed.

Lemma SInv_try_replace c s : SInv c s -> SInv c (try_replace s).
Proof.
  unfold SInv, signalled. destruct (try_replace_fields s) as (_ & -> & _). now rewrite try_replace_sigd.
Qed.

Lemma SInv_step c s a s' : SInv c s -> step c s a = Some s' -> SInv c s'.
Proof.
  intros HS0 HS. apply step_Step in HS.
  destruct HS as [m r Hp Hl Hsc | Hc | k He | r Hse | l lp Hn Hpc Hd | l lp Hn Hpc Hcl | l lp m q Hn Hpc Hq
                 | l lp m a Hn Hpc | l lp m a Hn Hpc Hlk | l lp m a Hn Hpc Hlk | l lp m a Hn Hpc | l lp m ops a Hn Hpc
                 | l lp m r ops a Hn Hpc | l lp m r ops a Hn Hpc | l lp m r ops a Hn Hpc
                 | l lp m r ops a Hn Hpc Hdl | l lp m r ops a Hn Hpc Hdl | l lp m a Hn Hpc Hlk | l lp a Hn Hpc];
    try match goal with |- context [if pingfix c then _ else _] => destruct (pingfix c) end;
    try match goal with |- context [if lockfix c then _ else _] => destruct (lockfix c) end;
    try apply SInv_try_replace; try exact HS0.
  - (* push: the reader leaves its position, where every signal has been handled *)
    intros r0 q Hin Hlt. cbn in Hlt. unfold signalled. cbn.
    destruct (Nat.eq_dec q (length (prod s))) as [->|Hne].
    + unfold sigs_clear in Hsc. rewrite forallb_forall in Hsc. specialize (Hsc _ Hin).
      unfold sig_here in Hsc. cbn [fst snd] in Hsc. rewrite Nat.eqb_refl in Hsc. exact Hsc.
    + apply (HS0 r0 q Hin). rewrite Hp in *. cbn in *. lia.
  - (* a signal handler has run *)
    intros r0 q Hin Hlt. apply signalled_app. apply (HS0 r0 q Hin Hlt).
Qed.

Lemma SInv_init c msgs k : sigs_wf c msgs -> SInv c (init msgs k).
Proof. intros Hwf r q Hin Hlt. cbn in Hlt. specialize (Hwf _ _ Hin). lia. Qed.

Lemma SInv_run c msgs k sched s : sigs_wf c msgs -> run c (init msgs k) sched = Some s -> SInv c s.
Proof. intro Hwf. apply (run_invariant c (SInv c)); [apply SInv_step | now apply SInv_init]. Qed.

(* complete run, connection open: the socket reader has run the handler of every signal the peer sent, and no
   handler is left waiting for one: a confirmable nested request has been acknowledged, a ping has returned *)
Theorem signals_handled c msgs k sched s :
  repaired_waits c = true -> sigs_wf c msgs ->
  run c (init msgs k) sched = Some s -> terminal c s -> closed s = false ->
  forall r q, In (r, q) (sigs c) -> signalled r s = true.
Proof.
  intros Hpf Hwf HR HT Hop r q Hin.
  pose proof (Inv_run _ _ _ _ _ Hpf HR) as HI. pose proof (SInv_run _ _ _ _ _ Hwf HR) as HS.
  destruct (terminal_open_empty _ _ HI HT Hop) as (Hq & Hp & _).
  destruct q as [|q].
  - destruct (signalled r s) eqn:E; auto. exfalso.
    pose proof (HT (ASig r) ltac:(discriminate)) as H. cbn in H. unfold sig_enabled, reader_free in H.
    rewrite Hq, E in H. cbn in H.
    replace (existsb (fun e => (fst e =? r) && sig_here s e) (sigs c)) with true in H; [discriminate|].
    symmetry. apply existsb_exists. exists (r, O). split; auto. unfold sig_here. cbn. now rewrite Z.eqb_refl, Hp.
  - apply (HS r (S q) Hin). rewrite Hp. cbn. lia.
Qed.

Theorem signal_waits_return c msgs k sched s :
  repaired_waits c = true -> sigs_wf c msgs ->
  run c (init msgs k) sched = Some s -> terminal c s -> closed s = false ->
  forall l lp m r ops, nth_error (loops s) l = Some lp -> l_pc lp = PWaitS m r ops -> forall q, ~ In (r, q) (sigs c).
Proof.
  intros Hpf Hwf HR HT Hop l lp m r ops Hn Hpc q Hin.
  pose proof (signals_handled _ _ _ _ _ Hpf Hwf HR HT Hop _ _ Hin) as Hs.
  pose proof (HT (ALoop l AltQueue) ltac:(discriminate)) as H. cbn in H. unfold step_loop in H. rewrite Hn, Hpc, Hs in H. discriminate.
Qed.

(* ------------------------------------------------------------------ *)
(* Arrival order, for the repaired code ([fixed c = true]).
   Invariant O: the current loop is the only consumer, so
        pushed messages = commits ++ [message dequeued but not yet committed] ++ queue ++ to-push
   Invariant B (runs in which no TryToReplaceLoop executes while the current loop stands between
   readingMessages.Store(false) and the call of the handler, [calm]):
        commits = dispatched ++ [message committed but not yet handed to its handler]           *)

Definition dheld (o : option loop) : list Z :=
  match o with Some lp => match l_pc lp with PDeq m => [m] | _ => [] end | None => [] end.
Definition bheld (o : option loop) : list Z :=
  match o with Some lp => match l_pc lp with PBusy m => [m] | _ => [] end | None => [] end.

Definition OInv (msgs : list Z) (s : st) : Prop :=
  msgs = commits s ++ dheld (nth_error (loops s) (cur s)) ++ queue s ++ prod s.

Lemma fixed_consumer c s l lp :
  fixed c = true -> Inv c s -> nth_error (loops s) l = Some lp ->
  (l_pc lp = PSelect \/ exists m, l_pc lp = PDeq m) -> l = cur s.
Proof.
  intros Hf [_ Hall] Hn Hpc. specialize (Hall _ _ Hn). rewrite Hf in Hall.
  destruct (Nat.eqb l (cur s)) eqn:E; [now apply Nat.eqb_eq in E|].
  unfold okl, old_ok in Hall. apply andb_true_iff in Hall as [_ Hall]. apply andb_true_iff in Hall as [_ Hall].
  cbn in Hall. destruct Hpc as [Hpc|[m Hpc]]; rewrite Hpc in Hall; discriminate.
Qed.

Lemma nth_upd_cur {A} (f : option A -> list Z) l cu (lp x : A) ls :
  nth_error ls l = Some lp -> f (Some lp) = f (Some x) ->
  f (nth_error (upd l x ls) cu) = f (nth_error ls cu).
Proof.
  intros Hn Hf. destruct (Nat.eq_dec l cu) as [->|Hne].
  - rewrite nth_error_upd_same by (eapply nth_error_lt; eauto). now rewrite Hn.
  - now rewrite nth_error_upd_other.
Qed.

Definition cur_rd_ok (s : st) : Prop := forall lc, nth_error (loops s) (cur s) = Some lc -> rd_ok lc = true.

Lemma Inv_cur_rd_ok c s : Inv c s -> cur_rd_ok s.
Proof.
  intros [_ Hall] lc Hn. specialize (Hall _ _ Hn). unfold okl in Hall. now apply andb_true_iff in Hall as [H _].
Qed.

Lemma cur_rd_ok_set_pc s l lp p :
  cur_rd_ok s -> nth_error (loops s) l = Some lp ->
  rd_ok (mkLoop (l_done lp) (l_reading lp) p) = rd_ok lp -> cur_rd_ok (set_pc s l lp p).
Proof.
  intros H Hn Hr lc. unfold set_pc; cbn. destruct (Nat.eq_dec l (cur s)) as [->|Hne].
  - rewrite nth_error_upd_same by (eapply nth_error_lt; eauto). intro E. injection E as <-. rewrite Hr. auto.
  - rewrite nth_error_upd_other by auto. apply H.
Qed.

Lemma nth_new_cur (ls : list loop) cu x y : nth_error (upd cu x ls ++ [y]) (length ls) = Some y.
Proof. rewrite nth_error_app2 by (rewrite length_upd; lia). rewrite length_upd, Nat.sub_diag. reflexivity. Qed.

Lemma OInv_try_replace msgs s : cur_rd_ok s -> OInv msgs s -> OInv msgs (try_replace s).
Proof.
  intros Hrd HO. destruct (try_replace_cases s) as [->|(lc & Hn & Hr & ->)]; auto.
  unfold OInv in *. cbn. rewrite nth_new_cur. cbn. rewrite Hn in HO. cbn in HO.
  specialize (Hrd _ Hn). unfold rd_ok in Hrd. rewrite Hr in Hrd.
  destruct (l_pc lc); cbn in *; auto; discriminate.
Qed.

Lemma OInv_step c msgs s a s' :
  fixed c = true -> Inv c s -> OInv msgs s -> step c s a = Some s' -> OInv msgs s'.
Proof.
  intros Hf HI HO HS. pose proof (Inv_cur_rd_ok _ _ HI) as Hrd. apply step_Step in HS.
  destruct HS as [m r Hp Hl Hsc | Hc | k He | r Hse | l lp Hn Hpc Hd | l lp Hn Hpc Hcl | l lp m q Hn Hpc Hq
                 | l lp m a Hn Hpc | l lp m a Hn Hpc Hlk | l lp m a Hn Hpc Hlk | l lp m a Hn Hpc | l lp m ops a Hn Hpc
                 | l lp m r ops a Hn Hpc | l lp m r ops a Hn Hpc | l lp m r ops a Hn Hpc
                 | l lp m r ops a Hn Hpc Hdl | l lp m r ops a Hn Hpc Hdl | l lp m a Hn Hpc Hlk | l lp a Hn Hpc].
  - unfold OInv in *. cbn. rewrite Hp in HO. rewrite <- !app_assoc. exact HO.
  - exact HO.
  - apply OInv_try_replace; auto.
  - exact HO.
  - unfold OInv in *. cbn. rewrite (nth_upd_cur dheld _ _ lp); auto. cbn. now rewrite Hpc.
  - unfold OInv in *. cbn. rewrite (nth_upd_cur dheld _ _ lp); auto. cbn. now rewrite Hpc.
  - assert (l = cur s) by (eapply fixed_consumer; eauto). subst l.
    unfold OInv in *. cbn. rewrite nth_error_upd_same by (eapply nth_error_lt; eauto).
    rewrite Hn, Hq in HO. cbn in *. rewrite Hpc in HO. exact HO.
  - assert (l = cur s) by (eapply fixed_consumer; eauto). subst l.
    unfold OInv in *. cbn. rewrite nth_error_upd_same by (eapply nth_error_lt; eauto).
    rewrite Hn in HO. cbn in *. rewrite Hpc in HO. rewrite <- !app_assoc. exact HO.
  - unfold OInv in *. cbn. rewrite (nth_upd_cur dheld _ _ lp); auto. cbn. now rewrite Hpc.
  - (* dispatch finds the message-ID lock taken *)
    match goal with |- OInv msgs (if lockfix c then try_replace ?X else ?X) => assert (HO' : OInv msgs X) end.
    { unfold OInv in *. cbn. rewrite (nth_upd_cur dheld _ _ lp); auto. cbn. now rewrite Hpc. }
    destruct (lockfix c); auto. apply OInv_try_replace; auto.
    intro lc. cbn. destruct (Nat.eq_dec l (cur s)) as [->|Hne].
    + rewrite nth_error_upd_same by (eapply nth_error_lt; eauto). intro E. injection E as <-.
      specialize (Hrd _ Hn). unfold rd_ok in *. cbn. now rewrite Hpc in Hrd.
    + rewrite nth_error_upd_other by auto. apply Hrd.
  - unfold OInv in *. cbn. rewrite (nth_upd_cur dheld _ _ lp); auto. cbn. now rewrite Hpc.
  - apply OInv_try_replace.
    + apply cur_rd_ok_set_pc; auto. unfold rd_ok; cbn. now rewrite Hpc.
    + unfold OInv in *. cbn. rewrite (nth_upd_cur dheld _ _ lp); auto. cbn. now rewrite Hpc.
  - apply OInv_try_replace.
    + apply cur_rd_ok_set_pc; auto. unfold rd_ok; cbn. now rewrite Hpc.
    + unfold OInv in *. cbn. rewrite (nth_upd_cur dheld _ _ lp); auto. cbn. now rewrite Hpc.
  - apply OInv_try_replace.
    + apply cur_rd_ok_set_pc; auto. unfold rd_ok; cbn. now rewrite Hpc.
    + unfold OInv in *. cbn. rewrite (nth_upd_cur dheld _ _ lp); auto. cbn. now rewrite Hpc.
  - destruct (pingfix c).
    + apply OInv_try_replace.
      * apply cur_rd_ok_set_pc; auto. unfold rd_ok; cbn. now rewrite Hpc.
      * unfold OInv in *. cbn. rewrite (nth_upd_cur dheld _ _ lp); auto. cbn. now rewrite Hpc.
    + unfold OInv in *. cbn. rewrite (nth_upd_cur dheld _ _ lp); auto. cbn. now rewrite Hpc.
  - unfold OInv in *. cbn. rewrite (nth_upd_cur dheld _ _ lp); auto. cbn. now rewrite Hpc.
  - unfold OInv in *. cbn. rewrite (nth_upd_cur dheld _ _ lp); auto. cbn. now rewrite Hpc.
  - unfold OInv in *. cbn. rewrite (nth_upd_cur dheld _ _ lp); auto. cbn. now rewrite Hpc.
  - unfold OInv in *. cbn. rewrite (nth_upd_cur dheld _ _ lp); auto. cbn. rewrite Hpc.
    now destruct (fixed c && l_done lp).
Qed.

Lemma OInv_init msgs k : OInv msgs (init msgs k).
Proof. reflexivity. Qed.

Lemma InvO_run c msgs k sched s :
  fixed c = true -> repaired_waits c = true -> run c (init msgs k) sched = Some s -> Inv c s /\ OInv msgs s.
Proof.
  intros Hf Hpf. apply (run_invariant c (fun s => Inv c s /\ OInv msgs s)).
  - intros s0 a s' [HI HO] HS. split; [eapply Inv_step; eauto | eapply OInv_step; eauto].
  - split; [apply Inv_init | apply OInv_init].
Qed.

(* the order in which messages are committed to their handlers (MarkBusy) is the arrival order: all schedules *)
Theorem commit_in_order c msgs k sched s :
  fixed c = true -> repaired_waits c = true -> run c (init msgs k) sched = Some s -> exists rest, msgs = commits s ++ rest.
Proof. intros Hf Hpf HR. destruct (InvO_run _ _ _ _ _ Hf Hpf HR) as [_ HO]. eexists. exact HO. Qed.

(* ---- dispatch order ---- *)

(* does the action run TryToReplaceLoop? *)
Definition replaces (s : st) (a : act) : bool :=
  match a with
  | AExt => true
  | ALoop l _ => match nth_error (loops s) l with
                 | Some lp => match l_pc lp with PRun _ (_ :: _) => true | _ => false end
                 | None => false
                 end
  | _ => false
  end.
(* the current loop has stored readingMessages=false and has not yet called the handler *)
Definition cur_in_window (s : st) : bool :=
  match bheld (nth_error (loops s) (cur s)) with [] => false | _ => true end.
Definition calm_step (s : st) (a : act) : bool := negb (replaces s a && cur_in_window s).
Definition calm (c : cfg) (s : st) (sched : list act) : bool := all_steps calm_step c s sched.

Definition BInv (s : st) : Prop :=
  commits s = map fst (log s) ++ bheld (nth_error (loops s) (cur s)) /\
  forall i lp, nth_error (loops s) i = Some lp -> i <> cur s -> bheld (Some lp) = [].

Lemma BInv_try_replace s : cur_in_window s = false -> BInv s -> BInv (try_replace s).
Proof.
  intros Hw [HB1 HB2]. destruct (try_replace_cases s) as [->|(lc & Hn & Hr & ->)]; [split; auto|].
  unfold cur_in_window in Hw. rewrite Hn in *.
  assert (Hb : bheld (Some lc) = []) by (destruct (bheld (Some lc)); auto; discriminate).
  split; cbn.
  - rewrite nth_new_cur. cbn. now rewrite Hb in HB1.
  - intros i lp Hi Hne.
    rewrite nth_error_app1 in Hi.
    2:{ rewrite length_upd. apply nth_error_lt in Hi. rewrite app_length, length_upd in Hi. cbn in Hi. lia. }
    destruct (Nat.eq_dec (cur s) i) as [<-|Hne2].
    + rewrite nth_error_upd_same in Hi by (eapply nth_error_lt; eauto). injection Hi as <-. exact Hb.
    + rewrite nth_error_upd_other in Hi by auto. eauto.
Qed.

Lemma BInv_upd s l lp x cm lg :
  BInv s -> nth_error (loops s) l = Some lp -> bheld (Some x) = [] ->
  cm = map fst lg ++ (if Nat.eqb l (cur s) then [] else bheld (nth_error (loops s) (cur s))) ->
  BInv (mkSt (queue s) (prod s) (ext s) (closed s) (cur s) (upd l x (loops s)) cm lg (sigd s)).
Proof.
  intros [HB1 HB2] Hn Hx Hcm. split; cbn.
  - destruct (Nat.eqb l (cur s)) eqn:E.
    + apply Nat.eqb_eq in E. subst l. rewrite nth_error_upd_same by (eapply nth_error_lt; eauto). now rewrite Hx.
    + apply Nat.eqb_neq in E. now rewrite nth_error_upd_other.
  - intros i lq Hi Hne. destruct (Nat.eq_dec l i) as [->|Hne2].
    + rewrite nth_error_upd_same in Hi by (eapply nth_error_lt; eauto). now injection Hi as <-.
    + rewrite nth_error_upd_other in Hi by auto. eauto.
Qed.

(* a loop whose pc carries no committed message can change pc without affecting B *)
Lemma BInv_set_pc s l lp p :
  BInv s -> nth_error (loops s) l = Some lp -> bheld (Some lp) = [] -> (forall m, p <> PBusy m) ->
  BInv (set_pc s l lp p).
Proof.
  intros HB Hn Hlp Hp. unfold set_pc, with_loops. eapply BInv_upd; eauto.
  - cbn. destruct p; auto. exfalso. eapply Hp; eauto.
  - destruct HB as [HB1 _]. rewrite HB1. f_equal. destruct (Nat.eqb l (cur s)) eqn:E; auto.
    apply Nat.eqb_eq in E. subst l. now rewrite Hn.
Qed.

Lemma window_set_pc s l lp p :
  nth_error (loops s) l = Some lp -> cur_in_window s = false -> (forall m, p <> PBusy m) ->
  cur_in_window (set_pc s l lp p) = false.
Proof.
  intros Hn Hw Hp. unfold cur_in_window in *. cbn.
  destruct (Nat.eq_dec l (cur s)) as [->|Hne].
  - rewrite nth_error_upd_same by (eapply nth_error_lt; eauto). cbn. destruct p; auto. exfalso. eapply Hp; eauto.
  - now rewrite nth_error_upd_other.
Qed.

Lemma BInv_step c s a s' :
  fixed c = true -> Inv c s -> BInv s -> calm_step s a = true -> step c s a = Some s' -> BInv s'.
Proof.
  intros Hf HI HB HQ HS. apply step_Step in HS. unfold calm_step in HQ.
  destruct HS as [m r Hp Hl Hsc | Hc | k He | r Hse | l lp Hn Hpc Hd | l lp Hn Hpc Hcl | l lp m q Hn Hpc Hq
                 | l lp m a Hn Hpc | l lp m a Hn Hpc Hlk | l lp m a Hn Hpc Hlk | l lp m a Hn Hpc | l lp m ops a Hn Hpc
                 | l lp m r ops a Hn Hpc | l lp m r ops a Hn Hpc | l lp m r ops a Hn Hpc
                 | l lp m r ops a Hn Hpc Hdl | l lp m r ops a Hn Hpc Hdl | l lp m a Hn Hpc Hlk | l lp a Hn Hpc].
  - exact HB.
  - exact HB.
  - cbn in HQ. apply BInv_try_replace; [|exact HB]. unfold cur_in_window in *. cbn. now destruct (bheld _).
  - exact HB.
  - apply BInv_set_pc; auto; [cbn; now rewrite Hpc | discriminate].
  - apply BInv_set_pc; auto; [cbn; now rewrite Hpc | discriminate].
  - apply (BInv_set_pc (st_q s q)); auto; [cbn; now rewrite Hpc | discriminate].
  - (* commit *)
    assert (l = cur s) by (eapply fixed_consumer; eauto). subst l.
    destruct HB as [HB1 HB2]. split; cbn.
    + rewrite nth_error_upd_same by (eapply nth_error_lt; eauto). cbn.
      rewrite HB1, Hn. cbn. rewrite Hpc. now rewrite app_nil_r.
    + intros i lq Hi Hne. rewrite nth_error_upd_other in Hi by auto. eauto.
  - (* dispatch *)
    destruct HB as [HB1 HB2].
    assert (l = cur s).
    { destruct (Nat.eq_dec l (cur s)); auto. specialize (HB2 _ _ Hn n). cbn in HB2. rewrite Hpc in HB2. discriminate. }
    subst l. split; cbn.
    + rewrite nth_error_upd_same by (eapply nth_error_lt; eauto). cbn.
      rewrite HB1, Hn. cbn. rewrite Hpc. rewrite map_app. cbn. now rewrite app_nil_r.
    + intros i lq Hi Hne. rewrite nth_error_upd_other in Hi by auto. eauto.
  - (* dispatch finds the message-ID lock taken *)
    destruct HB as [HB1 HB2].
    assert (l = cur s).
    { destruct (Nat.eq_dec l (cur s)); auto. specialize (HB2 _ _ Hn n). cbn in HB2. rewrite Hpc in HB2. discriminate. }
    subst l.
    match goal with |- BInv (if lockfix c then try_replace ?X else ?X) => assert (HX : BInv X) end.
    { split; cbn.
      + rewrite nth_error_upd_same by (eapply nth_error_lt; eauto). cbn.
        rewrite HB1, Hn. cbn. rewrite Hpc. rewrite map_app. cbn. now rewrite app_nil_r.
      + intros i lq Hi Hne. rewrite nth_error_upd_other in Hi by auto. eauto. }
    destruct (lockfix c); auto. apply BInv_try_replace; auto.
    unfold cur_in_window. cbn. rewrite nth_error_upd_same by (eapply nth_error_lt; eauto). reflexivity.
  - eapply BInv_upd; eauto. destruct HB as [HB1 _]. rewrite HB1. f_equal.
    destruct (Nat.eqb l (cur s)) eqn:E; auto. apply Nat.eqb_eq in E. subst l. rewrite Hn. cbn. now rewrite Hpc.
  - cbn in HQ. rewrite Hn, Hpc in HQ. cbn in HQ. apply negb_true_iff in HQ.
    apply BInv_try_replace.
    + apply window_set_pc; auto. discriminate.
    + apply BInv_set_pc; auto; [cbn; now rewrite Hpc | discriminate].
  - cbn in HQ. rewrite Hn, Hpc in HQ. cbn in HQ. apply negb_true_iff in HQ.
    apply BInv_try_replace.
    + apply window_set_pc; auto. discriminate.
    + apply BInv_set_pc; auto; [cbn; now rewrite Hpc | discriminate].
  - cbn in HQ. rewrite Hn, Hpc in HQ. cbn in HQ. apply negb_true_iff in HQ.
    apply BInv_try_replace.
    + apply window_set_pc; auto. discriminate.
    + apply BInv_set_pc; auto; [cbn; now rewrite Hpc | discriminate].
  - cbn in HQ. rewrite Hn, Hpc in HQ. cbn in HQ. apply negb_true_iff in HQ.
    destruct (pingfix c).
    + apply BInv_try_replace.
      * apply window_set_pc; auto. discriminate.
      * apply BInv_set_pc; auto; [cbn; now rewrite Hpc | discriminate].
    + apply BInv_set_pc; auto; [cbn; now rewrite Hpc | discriminate].
  - apply BInv_set_pc; auto; [cbn; now rewrite Hpc | discriminate].
  - apply BInv_set_pc; auto; [cbn; now rewrite Hpc | discriminate].
  - apply BInv_set_pc; auto; [cbn; now rewrite Hpc | discriminate].
  - apply BInv_set_pc; auto; [cbn; now rewrite Hpc | destruct (fixed c && l_done lp); discriminate].
Qed.

Lemma BInv_init msgs k : BInv (init msgs k).
Proof. split; cbn; auto. intros [|[|i]] lp H Hne; cbn in *; try discriminate. congruence. Qed.

(* in the repaired code, when no replacement request races with the hand-over of a message to its handler,
   messages are dispatched in arrival order: every schedule, every handler program (blocking or not) *)
Theorem run_in_order c msgs k sched s :
  fixed c = true -> repaired_waits c = true -> run c (init msgs k) sched = Some s -> calm c (init msgs k) sched = true ->
  exists rest, msgs = map fst (log s) ++ rest.
Proof.
  intros Hf Hpf HR HC.
  assert (H : (Inv c s /\ OInv msgs s) /\ BInv s).
  { apply (run_invariant_cond c calm_step (fun s => (Inv c s /\ OInv msgs s) /\ BInv s)) with (sched := sched) (s := init msgs k); auto.
    - intros s0 a s' [[HI HO] HB] HQ HS. split; [split|].
      + eapply Inv_step; eauto.
      + eapply OInv_step; eauto.
      + eapply BInv_step; eauto.
    - split; [split|]; [apply Inv_init | apply OInv_init | apply BInv_init]. }
  destruct H as [[_ HO] [HB _]]. unfold OInv in HO. rewrite HB in HO. rewrite <- !app_assoc in HO. eexists. exact HO.
Qed.

(* complete run, connection open: the dispatch log IS the arrival sequence *)
Theorem run_in_order_complete c msgs k sched s :
  fixed c = true -> repaired_waits c = true -> run c (init msgs k) sched = Some s -> calm c (init msgs k) sched = true ->
  terminal c s -> closed s = false -> map fst (log s) = msgs.
Proof.
  intros Hf Hpf HR HC HT Hop. destruct (run_in_order _ _ _ _ _ Hf Hpf HR HC) as [rest E].
  pose proof (run_exactly_once _ _ _ _ _ Hpf HR HT Hop) as HP.
  apply Permutation_length in HP. rewrite E in HP at 1. rewrite app_length in HP.
  destruct rest; [now rewrite app_nil_r in E|]. cbn in HP. lia.
Qed.

(* ---- the code before the repair (F14): arrival order is NOT preserved, although no handler blocks and
   the only replacement request comes from the handler of the current loop itself (so the run is calm) ---- *)
Definition f14_cfg : cfg := mkCfg 1 false true true true [(1, [HReplace])] [] [].
Definition f14_sched : list act :=
  let L0 := ALoop 0 AltQueue in let L1 := ALoop 1 AltQueue in
  [APush; L0; L0; L0; L0;      (* loop 0 dispatches message 1, whose handler calls TryToReplaceLoop: loop 1 is started *)
   APush; APush;               (* messages 2 and 3 arrive *)
   L0; L0;                     (* loop 0 returns from the handler, re-locks, goes back to its select *)
   L0;                         (* its loopDone is closed AND the queue is readable: select may take the queue: message 2 *)
   L1; L1; L1;                 (* loop 1 takes message 3 and dispatches it *)
   L0; L0;                     (* loop 0 dispatches message 2 *)
   L1; L1; L0; L0; ALoop 0 AltDone].

Theorem run_in_order_refuted :
  exists c msgs k sched s,
    fixed c = false /\ run c (init msgs k) sched = Some s /\ calm c (init msgs k) sched = true /\
    NoDup msgs /\ (forall m, existsb (fun h => match h with HNested _ => true | _ => false end) (hp c m) = false) /\
    quiescent c s = true /\ closed s = false /\
    map fst (log s) = [1; 3; 2] /\ msgs = [1; 2; 3] /\ commits s = [1; 3; 2].
Proof.
  exists f14_cfg, [1; 2; 3], 0%nat, f14_sched.
  eexists. split; [reflexivity|]. split; [vm_compute; reflexivity|]. split; [vm_compute; reflexivity|].
  split; [repeat constructor; cbn; intuition lia|].
  split.
  { intro m. unfold hp. change (progs f14_cfg) with [(1, [HReplace])]. unfold lookup. destruct (1 =? m); reflexivity. }
  repeat split; vm_compute; reflexivity.
Qed.

(* and the same schedule cannot even be run in the repaired code: after its re-lock the replaced loop exits *)
Lemma f14_sched_fixed_exits :
  run (mkCfg 1 true true true true [(1, [HReplace])] [] []) (init [1; 2; 3] 0) f14_sched = None.
Proof. vm_compute. reflexivity. Qed.

(* ------------------------------------------------------------------ *)
(* The model satisfies the property as written in Reader/Spec.v *)

Definition waiting_list (s : st) : list (Z * Z * bool) :=
  flat_map (fun lp => match l_pc lp with PWait m r _ => [(m, r, false)] | _ => [] end) (loops s).
Definition sigwaiting_list (s : st) : list (Z * Z * bool) :=
  flat_map (fun lp => match l_pc lp with PWaitS m r _ => [(m, r, false)] | _ => [] end) (loops s).

Definition obs_of (msgs : list Z) (s : st) (nb : bool) : obs :=
  mkObs msgs (map fst (log s)) (negb (closed s)) true nb (waiting_list s) (sigd s) (sigwaiting_list s).

Lemma count_notin m l : ~ In m l -> count m l = O.
Proof.
  induction l as [|x r IH]; intro H; auto. cbn. destruct (x =? m) eqn:E.
  - apply Z.eqb_eq in E. subst. exfalso. apply H. now left.
  - apply IH. intro Hin. apply H. now right.
Qed.

Lemma NoDup_count m l : NoDup l -> (count m l <= 1)%nat.
Proof.
  induction 1 as [|x r Hni Hnd IH]; cbn; [lia|]. destruct (x =? m) eqn:E; auto.
  apply Z.eqb_eq in E. subst. rewrite count_notin by auto. lia.
Qed.

Lemma mem_In m l : mem m l = true <-> In m l.
Proof.
  unfold mem. rewrite existsb_exists. split.
  - intros (x & Hin & E). apply Z.eqb_eq in E. now subst.
  - intro H. exists m. split; auto. apply Z.eqb_refl.
Qed.

Lemma subseq_prefix a b : subseq a (a ++ b) = true.
Proof. induction a as [|x a IH]; cbn; [now destruct b|]. now rewrite Z.eqb_refl. Qed.

Theorem model_satisfies_spec c msgs k sched s nb :
  fixed c = true -> repaired_waits c = true -> NoDup msgs ->
  (forall r, In r msgs -> own_key c r) ->
  run c (init msgs k) sched = Some s -> terminal c s -> closed s = false ->
  (nb = true -> calm c (init msgs k) sched = true) ->
  holds (obs_of msgs s nb) = true.
Proof.
  intros Hf Hpf Hnd Hown HR HT Hop Hnb.
  destruct (run_at_most_once _ _ _ _ _ Hnd HR) as [Hnd2 Hincl].
  pose proof (run_exactly_once _ _ _ _ _ Hpf HR HT Hop) as HP.
  unfold holds. repeat (apply andb_true_iff; split).
  - unfold at_most_once. cbn. apply forallb_forall. intros m _. apply Nat.leb_le. now apply NoDup_count.
  - unfold only_accepted. cbn. apply forallb_forall. intros m Hm. apply mem_In. now apply Hincl.
  - unfold none_dropped. cbn. rewrite Hop. cbn. apply forallb_forall. intros m Hm. apply mem_In.
    eapply Permutation_in; eauto.
  - unfold in_order. cbn. destruct nb; auto. cbn.
    destruct (run_in_order _ _ _ _ _ Hf Hpf HR (Hnb eq_refl)) as [rest E]. rewrite E. apply subseq_prefix.
  - unfold never_stalls. cbn. rewrite Hop. cbn. apply andb_true_iff. split.
    + apply forallb_forall. intros [[m r] ret] Hin.
      unfold waiting_list in Hin. apply in_flat_map in Hin as (lp & Hlp & Hin).
      destruct (l_pc lp) as [ | | | |m' r' ops| | | | ] eqn:Epc; cbn in Hin; try contradiction.
      destruct Hin as [Hin|[]]. injection Hin as -> -> <-.
      apply In_nth_error in Hlp as [l Hn].
      apply orb_true_iff. left. apply negb_true_iff.
      destruct (mem r msgs) eqn:Em; auto. apply mem_In in Em.
      exfalso. eapply (nested_returns c msgs k sched s); eauto.
    + (* a handler waiting for a signal that the socket reader has handled can move: not a complete run *)
      apply forallb_forall. intros [[m r] ret] Hin.
      unfold sigwaiting_list in Hin. apply in_flat_map in Hin as (lp & Hlp & Hin).
      destruct (l_pc lp) as [ | | | | |m' r' ops| | | ] eqn:Epc; cbn in Hin; try contradiction.
      destruct Hin as [Hin|[]]. injection Hin as -> -> <-.
      apply In_nth_error in Hlp as [l Hn].
      apply orb_true_iff. left. apply negb_true_iff.
      destruct (mem r (sigd s)) eqn:Em; auto. exfalso.
      pose proof (HT (ALoop l AltQueue) ltac:(discriminate)) as H. cbn in H. unfold step_loop in H.
      rewrite Hn, Epc in H. unfold signalled, memz in H. unfold mem in Em. rewrite Em in H. discriminate.
Qed.

(* ---- the code before the repair of Ping (AsyncPing did not call TryToReplaceLoop): a handler that pings the peer
   leaves the queue without a consumer; with a rendezvous queue the socket reader parks on the next message and
   never reads the pong: nothing can move, message 2 is never dispatched and the ping never returns ---- *)
Definition ping_old_cfg : cfg := mkCfg 0 true false true true [(1, [HPing 9])] [(9, 0%nat)] [].
Definition ping_old_sched : list act :=
  let L0 := ALoop 0 AltQueue in
  [APush; L0; L0; L0;          (* message 1 is dispatched to its handler *)
   L0;                         (* which calls Ping and waits for the pong (signal 9, sent by the peer after message 2) *)
   APush].                     (* the socket reader offers message 2 to the queue: nobody receives *)

Theorem ping_stalls_refuted :
  exists c msgs k sched s,
    fixed c = true /\ pingfix c = false /\ sigs_wf c msgs /\ NoDup msgs /\
    run c (init msgs k) sched = Some s /\ quiescent c s = true /\ closed s = false /\
    msgs = [1; 2] /\ map fst (log s) = [1] /\ queue s = [2] /\ prod s = [] /\
    (exists lp, nth_error (loops s) 0 = Some lp /\ l_pc lp = PWaitS 1 9 []) /\
    In (9, 0%nat) (sigs c) /\ signalled 9 s = false /\
    none_dropped (obs_of msgs s false) = false.
Proof.
  exists ping_old_cfg, [1; 2], 0%nat, ping_old_sched.
  eexists. split; [reflexivity|]. split; [reflexivity|].
  split. { intros r q [H|[]]. injection H as <- <-. cbn. lia. }
  split; [repeat constructor; cbn; intuition lia|].
  split; [vm_compute; reflexivity|].
  split; [vm_compute; reflexivity|]. split; [reflexivity|]. split; [reflexivity|].
  split; [reflexivity|]. split; [reflexivity|]. split; [reflexivity|].
  split; [eexists; split; reflexivity|].
  split; [now left|]. split; reflexivity.
Qed.

(* the same configuration in the repaired code: every complete run dispatches both messages and the ping returns
   ([run_exactly_once], [signals_handled]); the deterministic scheduler's run, for illustration *)
Lemma ping_fixed_completes :
  let c := mkCfg 0 true true true true [(1, [HPing 9])] [(9, 0%nat)] [] in
  let s := run_canon 100 c (init [1; 2] 0) in
  quiescent c s = true /\ map fst (log s) = [1; 2] /\ sigd s = [9] /\ length (loops s) = 2%nat.
Proof. vm_compute. repeat split; reflexivity. Qed.

(* ---- the code before the repair of handleReq (a loop that found the message-ID lock taken just blocked): the peer
   retransmits its confirmable request 1 (message 2, same message ID) while the handler of 1 waits in a nested request
   for message 3; the replacement loop blocks on the lock held by that handler and nobody is left to take the
   response out of the queue ---- *)
Definition dup_old_cfg : cfg := mkCfg 0 true true false true [(1, [HNested 3])] [] [(1, (0, 500)); (2, (0, 500))].
Definition dup_old_sched : list act :=
  let L0 := ALoop 0 AltQueue in let L1 := ALoop 1 AltQueue in
  [APush; L0; L0; L0; L0;      (* request 1 is dispatched, its handler issues a nested request: loop 1 takes over *)
   APush; L1; L1; L1;          (* the retransmitted copy 2 is dispatched by loop 1: the lock of message ID 500 is taken *)
   APush].                     (* the response 3 arrives *)

Theorem dup_stalls_refuted :
  exists c msgs k sched s,
    fixed c = true /\ pingfix c = true /\ ackfix c = true /\ lockfix c = false /\ NoDup msgs /\ own_key c 3 /\
    run c (init msgs k) sched = Some s /\ quiescent c s = true /\ closed s = false /\
    msgs = [1; 2; 3] /\ map fst (log s) = [1; 2] /\ queue s = [3] /\ prod s = [] /\
    (exists lp, nth_error (loops s) 0 = Some lp /\ l_pc lp = PWait 1 3 []) /\
    (exists lp, nth_error (loops s) 1 = Some lp /\ l_pc lp = PLock 2) /\ length (loops s) = 2%nat /\
    none_dropped (obs_of msgs s false) = false.
Proof.
  exists dup_old_cfg, [1; 2; 3], 0%nat, dup_old_sched.
  eexists. split; [reflexivity|]. split; [reflexivity|]. split; [reflexivity|]. split; [reflexivity|].
  split; [repeat constructor; cbn; intuition lia|].
  split. { intros m _. change (key_of dup_old_cfg 3) with (@None Z). destruct (key_of dup_old_cfg m); reflexivity. }
  split; [vm_compute; reflexivity|].
  split; [vm_compute; reflexivity|]. split; [reflexivity|]. split; [reflexivity|].
  split; [reflexivity|]. split; [reflexivity|]. split; [reflexivity|].
  split; [eexists; split; reflexivity|]. split; [eexists; split; reflexivity|].
  split; reflexivity.
Qed.

Lemma dup_fixed_completes :
  let c := mkCfg 0 true true true true [(1, [HNested 3])] [] [(1, (0, 500)); (2, (0, 500))] in
  let s := run_canon 100 c (init [1; 2; 3] 0) in
  quiescent c s = true /\ map fst (log s) = [1; 2; 3] /\ length (loops s) = 3%nat /\
  forallb (fun lp => negb (blocked_pc (l_pc lp))) (loops s) = true.
Proof. vm_compute. repeat split; reflexivity. Qed.

(* ---- the code before the other repair of handleReq (every message took the lock of its message ID): the peer's
   non-confirmable request 1 has message ID 1001; its handler issues a confirmable nested request that draws the
   connection's own next message ID, 1001 as well (checkMyMessageID only looks at confirmable messages of the peer);
   the piggybacked response 2 carries that ID: its acknowledgement part (signal 2) is handled by the socket reader,
   its dispatch blocks on the lock held by the very handler that waits for it ---- *)
Definition ack_old_cfg : cfg :=
  mkCfg 1 true true true false [(1, [HAck 2; HNested 2])] [(2, 1%nat)] [(1, (1, 1001)); (2, (2, 1001))].

Theorem ack_collision_refuted :
  exists c msgs k sched s,
    fixed c = true /\ repaired_waits c = true /\ ackfix c = false /\ NoDup msgs /\ sigs_wf c msgs /\
    run c (init msgs k) sched = Some s /\ quiescent c s = true /\ closed s = false /\
    msgs = [1; 2] /\ map fst (log s) = [1; 2] /\ queue s = [] /\ prod s = [] /\ sigd s = [2] /\
    (exists lp, nth_error (loops s) 0 = Some lp /\ l_pc lp = PWait 1 2 []) /\
    (exists l lp, nth_error (loops s) l = Some lp /\ l_pc lp = PLock 2) /\
    never_stalls (obs_of msgs s false) = false.
Proof.
  exists ack_old_cfg, [1; 2], 0%nat, (canon_sched 100 ack_old_cfg (init [1; 2] 0)).
  eexists. split; [reflexivity|]. split; [reflexivity|]. split; [reflexivity|].
  split; [repeat constructor; cbn; intuition lia|].
  split. { intros r q [H|[]]. injection H as <- <-. cbn. lia. }
  split; [vm_compute; reflexivity|].
  split; [vm_compute; reflexivity|]. split; [reflexivity|]. split; [reflexivity|].
  split; [reflexivity|]. split; [reflexivity|]. split; [reflexivity|]. split; [reflexivity|].
  split; [eexists; split; reflexivity|].
  split; [exists 1%nat; eexists; split; reflexivity|].
  reflexivity.
Qed.

Lemma ack_fixed_completes :
  let c := mkCfg 1 true true true true [(1, [HAck 2; HNested 2])] [(2, 1%nat)] [(1, (1, 1001)); (2, (2, 1001))] in
  let s := run_canon 100 c (init [1; 2] 0) in
  quiescent c s = true /\ map fst (log s) = [1; 2] /\ sigd s = [2] /\
  forallb (fun lp => negb (blocked_pc (l_pc lp))) (loops s) = true.
Proof. vm_compute. repeat split; reflexivity. Qed.

(* the executable test used by the harness and the examples decides [terminal] *)
Lemma quiescent_terminal c s : quiescent c s = true -> terminal c s.
Proof.
  unfold quiescent. intros H a Ha.
  destruct (step c s APush) eqn:E1; try discriminate.
  destruct (step c s AExt) eqn:E2; try discriminate.
  apply andb_true_iff in H as [Hsig H].
  apply negb_true_iff in H. apply negb_true_iff in Hsig.
  destruct a as [| | |r|l a]; auto; try congruence.
  - cbn. destruct (sig_enabled c s r) eqn:Es; auto. exfalso.
    pose proof Es as Es0. unfold sig_enabled in Es. apply andb_true_iff in Es as [_ Es].
    apply existsb_exists in Es as (e & Hin & He). apply andb_true_iff in He as [He _]. apply Z.eqb_eq in He.
    assert (existsb (fun e => sig_enabled c s (fst e)) (sigs c) = true); [|congruence].
    apply existsb_exists. exists e. split; auto. now rewrite He.
  - cbn. destruct (Nat.lt_ge_cases l (length (loops s))) as [Hlt|Hge].
    + assert (Hl : loop_enabled c s l = false).
      { destruct (loop_enabled c s l) eqn:El; auto.
        assert (existsb (loop_enabled c s) (seq 0 (length (loops s))) = true); [|congruence].
        apply existsb_exists. exists l. split; auto. apply in_seq. lia. }
      unfold loop_enabled in Hl.
      destruct (step_loop c s l AltDone) eqn:A1; try discriminate.
      destruct (step_loop c s l AltQueue) eqn:A2; try discriminate.
      destruct (step_loop c s l AltConn) eqn:A3; try discriminate.
      now destruct a.
    + unfold step_loop. apply nth_error_None in Hge. now rewrite Hge.
Qed.
