(* C11 — proofs about the interleaving model Reader/Model.v, for ALL schedules,
   message lists, queue sizes, handler programs (any nesting depth) and numbers of
   external TryToReplaceLoop callers. *)
From Coq Require Import ZArith List Bool Lia Permutation Arith.
From GoCoap Require Import Reader.Model Reader.Spec.
Import ListNotations.
Open Scope Z_scope.

(* ------------------------------------------------------------------ *)
(* lists: upd *)

Lemma length_upd {A} (i : nat) (x : A) l : length (upd i x l) = length l.
Proof. revert i; induction l as [|y r IH]; intros [|j]; cbn; auto. Qed.

Lemma nth_error_upd_same {A} (i : nat) (x : A) l : (i < length l)%nat -> nth_error (upd i x l) i = Some x.
Proof. revert i; induction l as [|y r IH]; intros [|j] H; cbn in *; try lia; auto. apply IH; lia. Qed.

Lemma nth_error_upd_other {A} (i j : nat) (x : A) l : i <> j -> nth_error (upd i x l) j = nth_error l j.
Proof. revert i j; induction l as [|y r IH]; intros [|i] [|j] H; cbn; auto; try congruence. Qed.

Lemma upd_split {A} (i : nat) (y : A) l :
  nth_error l i = Some y -> exists a b, l = a ++ y :: b /\ forall x, upd i x l = a ++ x :: b.
Proof.
  revert i; induction l as [|z r IH]; intros [|i] H; cbn in *; try discriminate.
  - injection H as ->. exists [], r. split; auto.
  - destruct (IH _ H) as (a & b & E & U). exists (z :: a), b. split.
    + cbn. now rewrite <- E.
    + intro x. cbn. now rewrite U.
Qed.

Lemma nth_error_lt {A} (l : list A) i x : nth_error l i = Some x -> (i < length l)%nat.
Proof. intro H. apply nth_error_Some. congruence. Qed.

(* ------------------------------------------------------------------ *)
(* the step function as a relation with one constructor per action of the code *)

Definition st_q (s : st) q := mkSt q (prod s) (ext s) (closed s) (cur s) (loops s) (commits s) (log s).

Inductive Step (c : cfg) (s : st) : act -> st -> Prop :=
| S_push m r : prod s = m :: r -> (length (queue s) <= cap c)%nat ->
    Step c s APush (mkSt (queue s ++ [m]) r (ext s) (closed s) (cur s) (loops s) (commits s) (log s))
| S_close : closed s = false ->
    Step c s AClose (mkSt (queue s) (prod s) (ext s) true (cur s) (loops s) (commits s) (log s))
| S_ext k : ext s = S k ->
    Step c s AExt (try_replace (mkSt (queue s) (prod s) k (closed s) (cur s) (loops s) (commits s) (log s)))
| S_sel_done l lp : nth_error (loops s) l = Some lp -> l_pc lp = PSelect -> l_done lp = true ->
    Step c s (ALoop l AltDone) (set_pc s l lp PExit)
| S_sel_conn l lp : nth_error (loops s) l = Some lp -> l_pc lp = PSelect -> closed s = true ->
    Step c s (ALoop l AltConn) (set_pc s l lp PExit)
| S_sel_queue l lp m q : nth_error (loops s) l = Some lp -> l_pc lp = PSelect -> queue s = m :: q ->
    Step c s (ALoop l AltQueue) (set_pc (st_q s q) l lp (PDeq m))
| S_deq l lp m a : nth_error (loops s) l = Some lp -> l_pc lp = PDeq m ->
    Step c s (ALoop l a) (mkSt (queue s) (prod s) (ext s) (closed s) (cur s)
                               (upd l (mkLoop (l_done lp) false (PBusy m)) (loops s)) (commits s ++ [m]) (log s))
| S_busy l lp m a : nth_error (loops s) l = Some lp -> l_pc lp = PBusy m ->
    Step c s (ALoop l a) (mkSt (queue s) (prod s) (ext s) (closed s) (cur s)
                               (upd l (mkLoop (l_done lp) (l_reading lp) (PRun m (hp c m))) (loops s)) (commits s) (log s ++ [(m, l)]))
| S_relock l lp m a : nth_error (loops s) l = Some lp -> l_pc lp = PRun m [] ->
    Step c s (ALoop l a) (with_loops s (upd l (mkLoop (l_done lp) true PCheck) (loops s)))
| S_hreplace l lp m ops a : nth_error (loops s) l = Some lp -> l_pc lp = PRun m (HReplace :: ops) ->
    Step c s (ALoop l a) (try_replace (set_pc s l lp (PRun m ops)))
| S_hnested l lp m r ops a : nth_error (loops s) l = Some lp -> l_pc lp = PRun m (HNested r :: ops) ->
    Step c s (ALoop l a) (try_replace (set_pc s l lp (PWait m r ops)))
| S_wait l lp m r ops a : nth_error (loops s) l = Some lp -> l_pc lp = PWait m r ops -> delivered r s = true ->
    Step c s (ALoop l a) (set_pc s l lp (PRun m ops))
| S_check l lp a : nth_error (loops s) l = Some lp -> l_pc lp = PCheck ->
    Step c s (ALoop l a) (set_pc s l lp (if fixed c && l_done lp then PExit else PSelect)).

Lemma step_Step c s a s' : step c s a = Some s' -> Step c s a s'.
Proof.
  intro H. destruct a as [| | |l a]; cbn in H.
  - destruct (prod s) as [|m r] eqn:Ep; try discriminate.
    destruct (length (queue s) <=? cap c)%nat eqn:El; try discriminate.
    injection H as <-. apply S_push; auto. now apply Nat.leb_le.
  - destruct (closed s) eqn:Ec; try discriminate. injection H as <-. now apply S_close.
  - destruct (ext s) as [|k] eqn:Ee; try discriminate. injection H as <-. now apply S_ext.
  - unfold step_loop in H.
    destruct (nth_error (loops s) l) as [lp|] eqn:En; try discriminate.
    destruct (l_pc lp) as [ |m|m|m ops|m r ops| | ] eqn:Epc; try discriminate.
    + destruct a.
      * destruct (l_done lp) eqn:Ed; try discriminate. injection H as <-. eapply S_sel_done; eauto.
      * destruct (queue s) as [|m q] eqn:Eq; try discriminate. injection H as <-.
        change (mkSt q (prod s) (ext s) (closed s) (cur s) (loops s) (commits s) (log s)) with (st_q s q).
        eapply S_sel_queue; eauto.
      * destruct (closed s) eqn:Ec; try discriminate. injection H as <-. eapply S_sel_conn; eauto.
    + injection H as <-. eapply S_deq; eauto.
    + injection H as <-. eapply S_busy; eauto.
    + destruct ops as [|[|r] ops]; injection H as <-.
      * eapply S_relock; eauto.
      * eapply S_hreplace; eauto.
      * eapply S_hnested; eauto.
    + destruct (delivered r s) eqn:Ed; try discriminate. injection H as <-. eapply S_wait; eauto.
    + injection H as <-. eapply S_check; eauto.
Qed.

(* invariants along runs *)
Lemma run_invariant (c : cfg) (P : st -> Prop) :
  (forall s a s', P s -> step c s a = Some s' -> P s') ->
  forall sched s s', P s -> run c s sched = Some s' -> P s'.
Proof.
  intros HS sched. induction sched as [|a r IH]; intros s s' HP HR; cbn in HR.
  - now injection HR as <-.
  - destruct (step c s a) as [s1|] eqn:E; try discriminate.
    apply (IH s1 s'); [eapply HS; eauto | exact HR].
Qed.

(* invariants that need a side condition on every step of the run *)
Fixpoint all_steps (Q : st -> act -> bool) (c : cfg) (s : st) (sched : list act) : bool :=
  match sched with
  | [] => true
  | a :: r => Q s a && match step c s a with Some s' => all_steps Q c s' r | None => true end
  end.

Lemma run_invariant_cond (c : cfg) (Q : st -> act -> bool) (P : st -> Prop) :
  (forall s a s', P s -> Q s a = true -> step c s a = Some s' -> P s') ->
  forall sched s s', P s -> all_steps Q c s sched = true -> run c s sched = Some s' -> P s'.
Proof.
  intros HS sched. induction sched as [|a r IH]; intros s s' HP HQ HR; cbn in HR, HQ.
  - now injection HR as <-.
  - destruct (step c s a) as [s1|] eqn:E; try discriminate.
    apply andb_true_iff in HQ as [HQ1 HQ2].
    apply (IH s1 s'); [eapply HS; eauto | exact HQ2 | exact HR].
Qed.

(* TryToReplaceLoop: either nothing happens or the current loop is busy and is replaced *)
Lemma try_replace_cases s :
  try_replace s = s \/
  exists lc, nth_error (loops s) (cur s) = Some lc /\ l_reading lc = false /\
    try_replace s = mkSt (queue s) (prod s) (ext s) (closed s) (length (loops s))
                         (upd (cur s) (mkLoop true false (l_pc lc)) (loops s) ++ [mkLoop false true PSelect])
                         (commits s) (log s).
Proof.
  unfold try_replace. destruct (nth_error (loops s) (cur s)) as [lc|] eqn:E; auto.
  destruct (l_reading lc) eqn:Er; auto. right. exists lc. repeat split; auto.
Qed.

(* ------------------------------------------------------------------ *)
(* Invariant I: shape of the loops.
   rd_ok : the readingMessages flag of a loop is false exactly while it is between MarkBusy and the re-lock;
   current loop: not replaced (done open), never blocked in a nested wait, and alive while the connection is open;
   other loops: replaced (done closed); in the repaired code they never stand at the select or hold a dequeued message. *)

Definition rd_ok (lp : loop) : bool :=
  match l_pc lp with
  | PBusy _ | PRun _ _ | PWait _ _ _ => negb (l_reading lp)
  | PSelect | PDeq _ | PCheck => l_reading lp
  | PExit => true
  end.
Definition cur_ok (op : bool) (lp : loop) : bool :=
  negb (l_done lp) && match l_pc lp with PWait _ _ _ => false | PExit => negb op | _ => true end.
Definition old_ok (fx : bool) (lp : loop) : bool :=
  l_done lp && (negb fx || match l_pc lp with PSelect | PDeq _ => false | _ => true end).
Definition okl (fx iscur op : bool) (lp : loop) : bool :=
  rd_ok lp && if iscur then cur_ok op lp else old_ok fx lp.

Definition Iraw (fx : bool) (cu : nat) (ls : list loop) (cl : bool) : Prop :=
  (cu < length ls)%nat /\
  forall i lp, nth_error ls i = Some lp -> okl fx (Nat.eqb i cu) (negb cl) lp = true.
Definition Inv (c : cfg) (s : st) : Prop := Iraw (fixed c) (cur s) (loops s) (closed s).

Lemma Iraw_upd fx cu ls cl l lp x :
  Iraw fx cu ls cl -> nth_error ls l = Some lp -> okl fx (Nat.eqb l cu) (negb cl) x = true ->
  Iraw fx cu (upd l x ls) cl.
Proof.
  intros [Hc Hall] Hn Hx. split.
  - now rewrite length_upd.
  - intros i lq Hi. destruct (Nat.eq_dec l i) as [->|Hne].
    + rewrite nth_error_upd_same in Hi by (eapply nth_error_lt; eauto). now injection Hi as <-.
    + rewrite nth_error_upd_other in Hi by auto. eauto.
Qed.

Lemma Iraw_close fx cu ls : Iraw fx cu ls false -> Iraw fx cu ls true.
Proof.
  intros [Hc Hall]. split; auto. intros i lp Hi. specialize (Hall i lp Hi).
  unfold okl, cur_ok in *. cbn in *. destruct (Nat.eqb i cu); auto.
  destruct (rd_ok lp), (l_done lp), (l_pc lp); cbn in *; auto.
Qed.

(* weaker precondition for TryToReplaceLoop: the calling handler's own loop may already be marked as waiting *)
Definition PreInv (fx : bool) (cu : nat) (ls : list loop) (cl : bool) : Prop :=
  (cu < length ls)%nat /\
  forall i lp, nth_error ls i = Some lp ->
    rd_ok lp = true /\
    if Nat.eqb i cu then (negb (l_done lp) = true /\ (l_reading lp = true -> cur_ok (negb cl) lp = true))
    else old_ok fx lp = true.

Lemma Inv_PreInv fx cu ls cl : Iraw fx cu ls cl -> PreInv fx cu ls cl.
Proof.
  intros [Hc Hall]. split; auto. intros i lp Hi. specialize (Hall _ _ Hi).
  unfold okl in Hall. apply andb_true_iff in Hall as [H1 H2]. split; auto.
  destruct (Nat.eqb i cu); auto. split; auto.
  unfold cur_ok in H2. now apply andb_true_iff in H2 as [H2 _].
Qed.

Lemma PreInv_try_replace c s : PreInv (fixed c) (cur s) (loops s) (closed s) -> Inv c (try_replace s).
Proof.
  intros [Hc Hall]. destruct (try_replace_cases s) as [E|(lc & Hn & Hr & ->)].
  - rewrite E. split; auto. intros i lp Hi. destruct (Hall _ _ Hi) as [H1 H2]. unfold okl. rewrite H1. cbn.
    destruct (Nat.eqb i (cur s)) eqn:Ei; auto.
    apply Nat.eqb_eq in Ei. subst i. destruct H2 as [_ H2]. apply H2.
    unfold try_replace in E. rewrite Hi in E. destruct (l_reading lp) eqn:Er; auto.
    exfalso. apply (f_equal (fun x => length (loops x))) in E. cbn in E. rewrite app_length, length_upd in E. cbn in E. lia.
  - unfold Inv; cbn. split.
    + rewrite app_length, length_upd. cbn. lia.
    + intros i lp Hi.
      destruct (Nat.lt_ge_cases i (length (loops s))) as [Hlt|Hge].
      * rewrite nth_error_app1 in Hi by now rewrite length_upd.
        replace (Nat.eqb i (length (loops s))) with false by (symmetry; apply Nat.eqb_neq; lia).
        destruct (Nat.eq_dec (cur s) i) as [<-|Hne].
        -- rewrite nth_error_upd_same in Hi by auto. injection Hi as <-.
           destruct (Hall _ _ Hn) as [H1 _].
           unfold okl, rd_ok, old_ok in *. cbn in *. rewrite Hr in H1.
           destruct (l_pc lc), (fixed c); cbn in *; auto; discriminate.
        -- rewrite nth_error_upd_other in Hi by auto. destruct (Hall _ _ Hi) as [H1 H2].
           replace (Nat.eqb i (cur s)) with false in H2 by (symmetry; apply Nat.eqb_neq; lia).
           unfold okl. now rewrite H1, H2.
      * rewrite nth_error_app2 in Hi by now rewrite length_upd.
        rewrite length_upd in Hi.
        destruct (i - length (loops s))%nat as [|k] eqn:Ek; cbn in Hi.
        -- injection Hi as <-. replace i with (length (loops s)) by lia. rewrite Nat.eqb_refl. reflexivity.
        -- destruct k; discriminate.
Qed.

Lemma Inv_try_replace c s : Inv c s -> Inv c (try_replace s).
Proof. intro H. apply PreInv_try_replace. now apply Inv_PreInv. Qed.

Lemma PreInv_upd fx cu ls cl l lp x :
  PreInv fx cu ls cl -> nth_error ls l = Some lp ->
  (rd_ok x = true /\ if Nat.eqb l cu then (negb (l_done x) = true /\ (l_reading x = true -> cur_ok (negb cl) x = true))
                     else old_ok fx x = true) ->
  PreInv fx cu (upd l x ls) cl.
Proof.
  intros [Hc Hall] Hn Hx. split.
  - now rewrite length_upd.
  - intros i lq Hi. destruct (Nat.eq_dec l i) as [->|Hne].
    + rewrite nth_error_upd_same in Hi by (eapply nth_error_lt; eauto). now injection Hi as <-.
    + rewrite nth_error_upd_other in Hi by auto. eauto.
Qed.

Ltac okl_crush :=
  unfold okl, rd_ok, cur_ok, old_ok in *; cbn in *;
  repeat match goal with
  | H : l_pc ?lp = _ |- _ => rewrite H in *
  | H : l_done ?lp = _ |- _ => rewrite H in *
  | H : l_reading ?lp = _ |- _ => rewrite H in *
  end; cbn in *.

Ltac okl_fin c s l lp :=
  okl_crush;
  destruct (Nat.eqb l (cur s)), (l_done lp), (l_reading lp), (fixed c), (closed s);
  cbn in *; try reflexivity; try discriminate.

Lemma Inv_step c s a s' : Inv c s -> step c s a = Some s' -> Inv c s'.
Proof.
  intros HI HS. apply step_Step in HS.
  destruct HS as [m r Hp Hl | Hc | k He | l lp Hn Hpc Hd | l lp Hn Hpc Hcl | l lp m q Hn Hpc Hq
                 | l lp m a Hn Hpc | l lp m a Hn Hpc | l lp m a Hn Hpc | l lp m ops a Hn Hpc
                 | l lp m r ops a Hn Hpc | l lp m r ops a Hn Hpc Hdl | l lp a Hn Hpc];
    try (apply Inv_try_replace; unfold Inv in *; cbn; auto;
         eapply Iraw_upd; eauto; pose proof (proj2 HI _ _ Hn) as Ho; okl_fin c s l lp; fail);
    unfold Inv in *; cbn; auto;
    try (eapply Iraw_upd; eauto; pose proof (proj2 HI _ _ Hn) as Ho; okl_fin c s l lp; fail).
  - rewrite Hc in HI. now apply Iraw_close.
  - (* nested request: the handler's own loop is marked waiting, then TryToReplaceLoop runs *)
    apply PreInv_try_replace. cbn. eapply PreInv_upd; eauto using Inv_PreInv.
    pose proof (proj2 HI _ _ Hn) as Ho. okl_crush.
    destruct (Nat.eqb l (cur s)), (l_done lp), (l_reading lp), (fixed c), (closed s);
      cbn in *; try discriminate; repeat split; auto; try discriminate.
Qed.

(* ------------------------------------------------------------------ *)
(* Invariant G: conservation of messages.  Every message handed to the producer is in exactly one
   place: still to be pushed, in the queue, held by a loop between dequeue and dispatch, or in the log. *)

Definition held_of (lp : loop) : list Z :=
  match l_pc lp with PDeq m | PBusy m => [m] | _ => [] end.
Definition held (ls : list loop) : list Z := flat_map held_of ls.
Arguments held : simpl never.

Definition Graw (msgs : list Z) (q p : list Z) (ls : list loop) (lg : list (Z * nat)) : Prop :=
  Permutation msgs (map fst lg ++ held ls ++ q ++ p).
Definition GInv (msgs : list Z) (s : st) : Prop := Graw msgs (queue s) (prod s) (loops s) (log s).

Lemma held_app a b : held (a ++ b) = held a ++ held b.
Proof. unfold held. apply flat_map_app. Qed.

Lemma held_cons x l : held (x :: l) = held_of x ++ held l.
Proof. reflexivity. Qed.

Lemma held_upd_same l lp x ls :
  nth_error ls l = Some lp -> held_of x = held_of lp -> held (upd l x ls) = held ls.
Proof.
  intros Hn Hh. destruct (upd_split _ _ _ Hn) as (a & b & E & U).
  rewrite U, E. rewrite !held_app, !held_cons. now rewrite Hh.
Qed.

Lemma held_upd l lp x ls :
  nth_error ls l = Some lp ->
  exists a b, held ls = a ++ held_of lp ++ b /\ held (upd l x ls) = a ++ held_of x ++ b.
Proof.
  intros Hn. destruct (upd_split _ _ _ Hn) as (a & b & E & U).
  exists (held a), (held b). rewrite U, E. rewrite !held_app, !held_cons. auto.
Qed.

Lemma held_try_replace s : held (loops (try_replace s)) = held (loops s).
Proof.
  destruct (try_replace_cases s) as [->|(lc & Hn & Hr & ->)]; auto.
  cbn. rewrite held_app. change (held [mkLoop false true PSelect]) with (@nil Z). rewrite app_nil_r. eapply held_upd_same; eauto.
Qed.

Lemma try_replace_fields s :
  queue (try_replace s) = queue s /\ prod (try_replace s) = prod s /\ log (try_replace s) = log s /\
  commits (try_replace s) = commits s /\ closed (try_replace s) = closed s /\ ext (try_replace s) = ext s.
Proof. destruct (try_replace_cases s) as [->|(lc & Hn & Hr & ->)]; cbn; auto 10. Qed.

Lemma GInv_try_replace msgs s : GInv msgs s -> GInv msgs (try_replace s).
Proof.
  unfold GInv, Graw. destruct (try_replace_fields s) as (-> & -> & -> & _). now rewrite held_try_replace.
Qed.

Lemma GInv_step c msgs s a s' : GInv msgs s -> step c s a = Some s' -> GInv msgs s'.
Proof.
  intros HG HS. apply step_Step in HS.
  destruct HS as [m r Hp Hl | Hc | k He | l lp Hn Hpc Hd | l lp Hn Hpc Hcl | l lp m q Hn Hpc Hq
                 | l lp m a Hn Hpc | l lp m a Hn Hpc | l lp m a Hn Hpc | l lp m ops a Hn Hpc
                 | l lp m r ops a Hn Hpc | l lp m r ops a Hn Hpc Hdl | l lp a Hn Hpc];
    try apply GInv_try_replace; unfold GInv, Graw in *; cbn;
    try (erewrite held_upd_same; [exact HG | exact Hn | unfold held_of; cbn; rewrite Hpc; reflexivity]).
  - (* push *) rewrite Hp in HG. rewrite <- !app_assoc. cbn. exact HG.
  - exact HG.
  - exact HG.
  - (* select: queue -> held *)
    rewrite Hq in HG. destruct (held_upd l lp (mkLoop (l_done lp) (l_reading lp) (PDeq m)) _ Hn) as (a & b & E & U).
    rewrite U. rewrite E in HG. unfold held_of in *. rewrite Hpc in HG. cbn in *.
    eapply Permutation_trans; [exact HG|].
    apply Permutation_app_head. rewrite <- !app_assoc. apply Permutation_app_head. cbn.
    apply Permutation_sym, Permutation_middle.
  - (* dispatch: held -> log *)
    destruct (held_upd l lp (mkLoop (l_done lp) (l_reading lp) (PRun m (hp c m))) _ Hn) as (a0 & b & E & U).
    rewrite U. rewrite E in HG. unfold held_of in *. rewrite Hpc in HG. cbn in *. rewrite map_app. cbn.
    eapply Permutation_trans; [exact HG|].
    rewrite <- !app_assoc. apply Permutation_app_head. cbn.
    apply Permutation_sym, Permutation_middle.
  - erewrite held_upd_same; [exact HG | exact Hn |].
    unfold held_of; cbn; rewrite Hpc. now destruct (fixed c && l_done lp).
Qed.

(* ------------------------------------------------------------------ *)
(* reachable states *)

Lemma Inv_init c msgs k : Inv c (init msgs k).
Proof.
  split; cbn; [lia|]. intros [|[|i]] lp H; cbn in H; try discriminate. now injection H as <-.
Qed.

Lemma GInv_init msgs k : GInv msgs (init msgs k).
Proof. unfold GInv, Graw, held. cbn. apply Permutation_refl. Qed.

Lemma Inv_run c msgs k sched s : run c (init msgs k) sched = Some s -> Inv c s.
Proof. apply (run_invariant c (Inv c)); [apply Inv_step | apply Inv_init]. Qed.

Lemma GInv_run c msgs k sched s : run c (init msgs k) sched = Some s -> GInv msgs s.
Proof. apply (run_invariant c (GInv msgs)); [apply GInv_step | apply GInv_init]. Qed.

(* ------------------------------------------------------------------ *)
(* Invariant Q: the single producer.  The model has ONE producer ([prod], action [APush]): the socket reader of
   the connection, which hands the messages over one after the other (tcp: Session.Run -> processBuffer ->
   pushToReceivedMessageQueue; udp: the datagram reader -> Conn.Process), each hand-over completing before the
   next begins.  Consequence, for every queue capacity and every schedule of the consumer loops, external callers
   and the closer: at any moment the messages that have left the queue (in whatever state the loops hold them),
   the queue content and the messages still to be pushed, in this order, are the arrival sequence; in particular
   the queue is always a contiguous segment of the arrival sequence, in arrival order. *)

Definition QInv (msgs : list Z) (s : st) : Prop := exists taken, msgs = taken ++ queue s ++ prod s.

Lemma QInv_try_replace msgs s : QInv msgs s -> QInv msgs (try_replace s).
Proof. unfold QInv. destruct (try_replace_fields s) as (-> & -> & _). auto. Qed.

Lemma QInv_step c msgs s a s' : QInv msgs s -> step c s a = Some s' -> QInv msgs s'.
Proof.
  intros (taken & HQ) HS. apply step_Step in HS.
  destruct HS as [m r Hp Hl | Hc | k He | l lp Hn Hpc Hd | l lp Hn Hpc Hcl | l lp m q Hn Hpc Hq
                 | l lp m a Hn Hpc | l lp m a Hn Hpc | l lp m a Hn Hpc | l lp m ops a Hn Hpc
                 | l lp m r ops a Hn Hpc | l lp m r ops a Hn Hpc Hdl | l lp a Hn Hpc];
    try apply QInv_try_replace; unfold QInv; cbn; try (exists taken; exact HQ).
  - (* push: the head of [prod] becomes the tail of the queue *)
    exists taken. rewrite HQ, Hp, <- app_assoc. reflexivity.
  - (* dequeue: the head of the queue joins [taken] *)
    exists (taken ++ [m]). rewrite HQ, Hq, <- app_assoc. reflexivity.
Qed.

Lemma QInv_init msgs k : QInv msgs (init msgs k).
Proof. exists []. reflexivity. Qed.

Lemma QInv_run c msgs k sched s : run c (init msgs k) sched = Some s -> QInv msgs s.
Proof. apply (run_invariant c (QInv msgs)); [apply QInv_step | apply QInv_init]. Qed.

Theorem enqueue_in_order c msgs k sched s :
  run c (init msgs k) sched = Some s ->
  exists taken, msgs = taken ++ queue s ++ prod s /\
                Permutation taken (map fst (log s) ++ held (loops s)).
Proof.
  intro HR. destruct (QInv_run _ _ _ _ _ HR) as (taken & HQ). exists taken. split; [exact HQ|].
  pose proof (GInv_run _ _ _ _ _ HR) as HG. unfold GInv, Graw in HG. rewrite HQ in HG at 1.
  rewrite (app_assoc (map fst (log s))) in HG.
  eapply Permutation_app_inv_r. exact HG.
Qed.

(* a complete run: no thread can move (closing the connection, which is always possible, is not a move) *)
Definition terminal (c : cfg) (s : st) : Prop := forall a, a <> AClose -> step c s a = None.

Lemma NoDup_app_l {A} (a b : list A) : NoDup (a ++ b) -> NoDup a.
Proof.
  induction a as [|x a IH]; intro H; [constructor|]. cbn in H. inversion H as [|? ? Hni Hnd]; subst.
  constructor; auto. intro Hin. apply Hni. apply in_or_app. now left.
Qed.

(* ---- at most once (both shapes of the code) ---- *)
Theorem run_at_most_once c msgs k sched s :
  NoDup msgs -> run c (init msgs k) sched = Some s ->
  NoDup (map fst (log s)) /\ incl (map fst (log s)) msgs.
Proof.
  intros Hnd HR. pose proof (GInv_run _ _ _ _ _ HR) as HG. unfold GInv, Graw in HG. split.
  - eapply NoDup_app_l. eapply Permutation_NoDup; eauto.
  - intros x Hx. eapply Permutation_in; [apply Permutation_sym; exact HG|]. apply in_or_app. now left.
Qed.

(* ---- exactly once in complete runs with the connection open (both shapes) ---- *)
Lemma terminal_pcs c s l lp :
  terminal c s -> nth_error (loops s) l = Some lp ->
  l_pc lp = PSelect \/ (exists m r ops, l_pc lp = PWait m r ops) \/ l_pc lp = PExit.
Proof.
  intros HT Hn. specialize (HT (ALoop l AltQueue) ltac:(discriminate)). cbn in HT. unfold step_loop in HT. rewrite Hn in HT.
  destruct (l_pc lp) as [ |m|m|m ops|m r ops| | ] eqn:Epc; auto; try discriminate.
  - destruct ops as [|[|r] ops]; discriminate.
  - right. left. eauto.
Qed.

Lemma held_nil ls : (forall lp, In lp ls -> held_of lp = []) -> held ls = [].
Proof.
  induction ls as [|x r IH]; intro H; auto. rewrite held_cons. rewrite H by now left.
  cbn. apply IH. intros lp Hin. apply H. now right.
Qed.

Lemma terminal_open_empty c s :
  Inv c s -> terminal c s -> closed s = false ->
  queue s = [] /\ prod s = [] /\ held (loops s) = [] /\
  exists lc, nth_error (loops s) (cur s) = Some lc /\ l_pc lc = PSelect /\ l_done lc = false.
Proof.
  intros [Hc Hall] HT Hop.
  destruct (nth_error (loops s) (cur s)) as [lc|] eqn:En; [|apply nth_error_None in En; lia].
  pose proof (Hall _ _ En) as Ho. rewrite Nat.eqb_refl, Hop in Ho.
  assert (Hsel : l_pc lc = PSelect /\ l_done lc = false).
  { destruct (terminal_pcs _ _ _ _ HT En) as [E|[(m & r & ops & E)|E]];
      unfold okl, cur_ok in Ho; rewrite E in Ho; cbn in Ho;
      destruct (rd_ok lc), (l_done lc); cbn in Ho; try discriminate; auto. }
  destruct Hsel as [Hsel Hdone].
  assert (Hq : queue s = []).
  { pose proof (HT (ALoop (cur s) AltQueue) ltac:(discriminate)) as H. cbn in H. unfold step_loop in H. rewrite En, Hsel in H.
    destruct (queue s); auto; discriminate. }
  assert (Hp : prod s = []).
  { pose proof (HT APush ltac:(discriminate)) as H. cbn in H. rewrite Hq in H. destruct (prod s); auto. cbn in H. discriminate. }
  repeat split; auto.
  - apply held_nil. intros lp Hin. apply In_nth_error in Hin as [l Hn].
    destruct (terminal_pcs _ _ _ _ HT Hn) as [E|[(m & r & ops & E)|E]]; unfold held_of; now rewrite E.
  - exists lc. auto.
Qed.

Theorem run_exactly_once c msgs k sched s :
  run c (init msgs k) sched = Some s -> terminal c s -> closed s = false ->
  Permutation msgs (map fst (log s)).
Proof.
  intros HR HT Hop. pose proof (GInv_run _ _ _ _ _ HR) as HG. pose proof (Inv_run _ _ _ _ _ HR) as HI.
  destruct (terminal_open_empty _ _ HI HT Hop) as (Hq & Hp & Hh & _).
  unfold GInv, Graw in HG. rewrite Hq, Hp, Hh in HG. cbn in HG. now rewrite app_nil_r in HG.
Qed.

(* ---- never stalls: whatever the nesting depth (any number of loops blocked in nested requests), while
   the connection is open there is a current loop that is none of the blocked ones, has not been told to
   stop, has not exited, is not itself blocked, and is either at its select (ready for the next message)
   or able to move ---- *)
Theorem run_never_stalls c msgs k sched s :
  run c (init msgs k) sched = Some s -> closed s = false ->
  exists lc, nth_error (loops s) (cur s) = Some lc /\ l_done lc = false /\ l_pc lc <> PExit /\
    (forall m r ops, l_pc lc <> PWait m r ops) /\
    (l_pc lc = PSelect \/ exists s', step c s (ALoop (cur s) AltQueue) = Some s') /\
    forall l lp m r ops, nth_error (loops s) l = Some lp -> l_pc lp = PWait m r ops -> l <> cur s.
Proof.
  intros HR Hop. pose proof (Inv_run _ _ _ _ _ HR) as [Hc Hall].
  destruct (nth_error (loops s) (cur s)) as [lc|] eqn:En; [|apply nth_error_None in En; lia].
  pose proof (Hall _ _ En) as Ho. rewrite Nat.eqb_refl, Hop in Ho.
  unfold okl, cur_ok in Ho. apply andb_true_iff in Ho as [_ Ho]. apply andb_true_iff in Ho as [Hd Hpc].
  exists lc. split; auto. split; [now destruct (l_done lc)|].
  split; [intro E; rewrite E in Hpc; discriminate|].
  split; [intros m r ops E; rewrite E in Hpc; discriminate|].
  split.
  - cbn. unfold step_loop. rewrite En.
    destruct (l_pc lc) as [ |m|m|m ops|m r ops| | ] eqn:Epc; auto; try discriminate; right; eauto.
    destruct ops as [|[|r] ops]; eauto.
  - intros l lp m r ops Hn E ->. rewrite En in Hn. injection Hn as <-. rewrite E in Hpc. discriminate.
Qed.

(* consequence for complete runs: every nested request whose response was among the pushed messages has returned *)
Theorem nested_returns c msgs k sched s :
  run c (init msgs k) sched = Some s -> terminal c s -> closed s = false ->
  forall l lp m r ops, nth_error (loops s) l = Some lp -> l_pc lp = PWait m r ops -> ~ In r msgs.
Proof.
  intros HR HT Hop l lp m r ops Hn Hpc Hin.
  pose proof (run_exactly_once _ _ _ _ _ HR HT Hop) as HP.
  assert (Hd : delivered r s = true).
  { unfold delivered. apply existsb_exists. eapply Permutation_in in Hin; [|exact HP].
    apply in_map_iff in Hin as (e & E & Hin). exists e. split; auto. rewrite E. apply Z.eqb_refl. }
  pose proof (HT (ALoop l AltQueue) ltac:(discriminate)) as H. cbn in H. unfold step_loop in H. rewrite Hn, Hpc, Hd in H. discriminate.
Qed.

(* ------------------------------------------------------------------ *)
(* Arrival order, for the repaired code ([fixed c = true]).
   Invariant O: the current loop is the only consumer, so
        pushed messages = commits ++ [message dequeued but not yet committed] ++ queue ++ to-push
   Invariant B (runs in which no TryToReplaceLoop executes while the current loop stands between
   readingMessages.Store(false) and the call of the handler, [calm]):
        commits = dispatched ++ [message committed but not yet handed to its handler]           *)

Definition dheld (o : option loop) : list Z :=
  match o with Some lp => match l_pc lp with PDeq m => [m] | _ => [] end | None => [] end.
Definition bheld (o : option loop) : list Z :=
  match o with Some lp => match l_pc lp with PBusy m => [m] | _ => [] end | None => [] end.

Definition OInv (msgs : list Z) (s : st) : Prop :=
  msgs = commits s ++ dheld (nth_error (loops s) (cur s)) ++ queue s ++ prod s.

Lemma fixed_consumer c s l lp :
  fixed c = true -> Inv c s -> nth_error (loops s) l = Some lp ->
  (l_pc lp = PSelect \/ exists m, l_pc lp = PDeq m) -> l = cur s.
Proof.
  intros Hf [_ Hall] Hn Hpc. specialize (Hall _ _ Hn). rewrite Hf in Hall.
  destruct (Nat.eqb l (cur s)) eqn:E; [now apply Nat.eqb_eq in E|].
  unfold okl, old_ok in Hall. apply andb_true_iff in Hall as [_ Hall]. apply andb_true_iff in Hall as [_ Hall].
  cbn in Hall. destruct Hpc as [Hpc|[m Hpc]]; rewrite Hpc in Hall; discriminate.
Qed.

Lemma nth_upd_cur {A} (f : option A -> list Z) l cu (lp x : A) ls :
  nth_error ls l = Some lp -> f (Some lp) = f (Some x) ->
  f (nth_error (upd l x ls) cu) = f (nth_error ls cu).
Proof.
  intros Hn Hf. destruct (Nat.eq_dec l cu) as [->|Hne].
  - rewrite nth_error_upd_same by (eapply nth_error_lt; eauto). now rewrite Hn.
  - now rewrite nth_error_upd_other.
Qed.

Definition cur_rd_ok (s : st) : Prop := forall lc, nth_error (loops s) (cur s) = Some lc -> rd_ok lc = true.

Lemma Inv_cur_rd_ok c s : Inv c s -> cur_rd_ok s.
Proof.
  intros [_ Hall] lc Hn. specialize (Hall _ _ Hn). unfold okl in Hall. now apply andb_true_iff in Hall as [H _].
Qed.

Lemma cur_rd_ok_set_pc s l lp p :
  cur_rd_ok s -> nth_error (loops s) l = Some lp ->
  rd_ok (mkLoop (l_done lp) (l_reading lp) p) = rd_ok lp -> cur_rd_ok (set_pc s l lp p).
Proof.
  intros H Hn Hr lc. unfold set_pc; cbn. destruct (Nat.eq_dec l (cur s)) as [->|Hne].
  - rewrite nth_error_upd_same by (eapply nth_error_lt; eauto). intro E. injection E as <-. rewrite Hr. auto.
  - rewrite nth_error_upd_other by auto. apply H.
Qed.

Lemma nth_new_cur (ls : list loop) cu x y : nth_error (upd cu x ls ++ [y]) (length ls) = Some y.
Proof. rewrite nth_error_app2 by (rewrite length_upd; lia). rewrite length_upd, Nat.sub_diag. reflexivity. Qed.

Lemma OInv_try_replace msgs s : cur_rd_ok s -> OInv msgs s -> OInv msgs (try_replace s).
Proof.
  intros Hrd HO. destruct (try_replace_cases s) as [->|(lc & Hn & Hr & ->)]; auto.
  unfold OInv in *. cbn. rewrite nth_new_cur. cbn. rewrite Hn in HO. cbn in HO.
  specialize (Hrd _ Hn). unfold rd_ok in Hrd. rewrite Hr in Hrd.
  destruct (l_pc lc); cbn in *; auto; discriminate.
Qed.

Lemma OInv_step c msgs s a s' :
  fixed c = true -> Inv c s -> OInv msgs s -> step c s a = Some s' -> OInv msgs s'.
Proof.
  intros Hf HI HO HS. pose proof (Inv_cur_rd_ok _ _ HI) as Hrd. apply step_Step in HS.
  destruct HS as [m r Hp Hl | Hc | k He | l lp Hn Hpc Hd | l lp Hn Hpc Hcl | l lp m q Hn Hpc Hq
                 | l lp m a Hn Hpc | l lp m a Hn Hpc | l lp m a Hn Hpc | l lp m ops a Hn Hpc
                 | l lp m r ops a Hn Hpc | l lp m r ops a Hn Hpc Hdl | l lp a Hn Hpc].
  - unfold OInv in *. cbn. rewrite Hp in HO. rewrite <- !app_assoc. exact HO.
  - exact HO.
  - apply OInv_try_replace; auto.
  - unfold OInv in *. cbn. rewrite (nth_upd_cur dheld _ _ lp); auto. cbn. now rewrite Hpc.
  - unfold OInv in *. cbn. rewrite (nth_upd_cur dheld _ _ lp); auto. cbn. now rewrite Hpc.
  - assert (l = cur s) by (eapply fixed_consumer; eauto). subst l.
    unfold OInv in *. cbn. rewrite nth_error_upd_same by (eapply nth_error_lt; eauto).
    rewrite Hn, Hq in HO. cbn in *. rewrite Hpc in HO. exact HO.
  - assert (l = cur s) by (eapply fixed_consumer; eauto). subst l.
    unfold OInv in *. cbn. rewrite nth_error_upd_same by (eapply nth_error_lt; eauto).
    rewrite Hn in HO. cbn in *. rewrite Hpc in HO. rewrite <- !app_assoc. exact HO.
  - unfold OInv in *. cbn. rewrite (nth_upd_cur dheld _ _ lp); auto. cbn. now rewrite Hpc.
  - unfold OInv in *. cbn. rewrite (nth_upd_cur dheld _ _ lp); auto. cbn. now rewrite Hpc.
  - apply OInv_try_replace.
    + apply cur_rd_ok_set_pc; auto. unfold rd_ok; cbn. now rewrite Hpc.
    + unfold OInv in *. cbn. rewrite (nth_upd_cur dheld _ _ lp); auto. cbn. now rewrite Hpc.
  - apply OInv_try_replace.
    + apply cur_rd_ok_set_pc; auto. unfold rd_ok; cbn. now rewrite Hpc.
    + unfold OInv in *. cbn. rewrite (nth_upd_cur dheld _ _ lp); auto. cbn. now rewrite Hpc.
  - unfold OInv in *. cbn. rewrite (nth_upd_cur dheld _ _ lp); auto. cbn. now rewrite Hpc.
  - unfold OInv in *. cbn. rewrite (nth_upd_cur dheld _ _ lp); auto. cbn. rewrite Hpc.
    now destruct (fixed c && l_done lp).
Qed.

Lemma OInv_init msgs k : OInv msgs (init msgs k).
Proof. reflexivity. Qed.

Lemma InvO_run c msgs k sched s :
  fixed c = true -> run c (init msgs k) sched = Some s -> Inv c s /\ OInv msgs s.
Proof.
  intro Hf. apply (run_invariant c (fun s => Inv c s /\ OInv msgs s)).
  - intros s0 a s' [HI HO] HS. split; [eapply Inv_step; eauto | eapply OInv_step; eauto].
  - split; [apply Inv_init | apply OInv_init].
Qed.

(* the order in which messages are committed to their handlers (MarkBusy) is the arrival order: all schedules *)
Theorem commit_in_order c msgs k sched s :
  fixed c = true -> run c (init msgs k) sched = Some s -> exists rest, msgs = commits s ++ rest.
Proof. intros Hf HR. destruct (InvO_run _ _ _ _ _ Hf HR) as [_ HO]. eexists. exact HO. Qed.

(* ---- dispatch order ---- *)

(* does the action run TryToReplaceLoop? *)
Definition replaces (s : st) (a : act) : bool :=
  match a with
  | AExt => true
  | ALoop l _ => match nth_error (loops s) l with
                 | Some lp => match l_pc lp with PRun _ (_ :: _) => true | _ => false end
                 | None => false
                 end
  | _ => false
  end.
(* the current loop has stored readingMessages=false and has not yet called the handler *)
Definition cur_in_window (s : st) : bool :=
  match bheld (nth_error (loops s) (cur s)) with [] => false | _ => true end.
Definition calm_step (s : st) (a : act) : bool := negb (replaces s a && cur_in_window s).
Definition calm (c : cfg) (s : st) (sched : list act) : bool := all_steps calm_step c s sched.

Definition BInv (s : st) : Prop :=
  commits s = map fst (log s) ++ bheld (nth_error (loops s) (cur s)) /\
  forall i lp, nth_error (loops s) i = Some lp -> i <> cur s -> bheld (Some lp) = [].

Lemma BInv_try_replace s : cur_in_window s = false -> BInv s -> BInv (try_replace s).
Proof.
  intros Hw [HB1 HB2]. destruct (try_replace_cases s) as [->|(lc & Hn & Hr & ->)]; [split; auto|].
  unfold cur_in_window in Hw. rewrite Hn in *.
  assert (Hb : bheld (Some lc) = []) by (destruct (bheld (Some lc)); auto; discriminate).
  split; cbn.
  - rewrite nth_new_cur. cbn. now rewrite Hb in HB1.
  - intros i lp Hi Hne.
    rewrite nth_error_app1 in Hi.
    2:{ rewrite length_upd. apply nth_error_lt in Hi. rewrite app_length, length_upd in Hi. cbn in Hi. lia. }
    destruct (Nat.eq_dec (cur s) i) as [<-|Hne2].
    + rewrite nth_error_upd_same in Hi by (eapply nth_error_lt; eauto). injection Hi as <-. exact Hb.
    + rewrite nth_error_upd_other in Hi by auto. eauto.
Qed.

Lemma BInv_upd s l lp x cm lg :
  BInv s -> nth_error (loops s) l = Some lp -> bheld (Some x) = [] ->
  cm = map fst lg ++ (if Nat.eqb l (cur s) then [] else bheld (nth_error (loops s) (cur s))) ->
  BInv (mkSt (queue s) (prod s) (ext s) (closed s) (cur s) (upd l x (loops s)) cm lg).
Proof.
  intros [HB1 HB2] Hn Hx Hcm. split; cbn.
  - destruct (Nat.eqb l (cur s)) eqn:E.
    + apply Nat.eqb_eq in E. subst l. rewrite nth_error_upd_same by (eapply nth_error_lt; eauto). now rewrite Hx.
    + apply Nat.eqb_neq in E. now rewrite nth_error_upd_other.
  - intros i lq Hi Hne. destruct (Nat.eq_dec l i) as [->|Hne2].
    + rewrite nth_error_upd_same in Hi by (eapply nth_error_lt; eauto). now injection Hi as <-.
    + rewrite nth_error_upd_other in Hi by auto. eauto.
Qed.

(* a loop whose pc carries no committed message can change pc without affecting B *)
Lemma BInv_set_pc s l lp p :
  BInv s -> nth_error (loops s) l = Some lp -> bheld (Some lp) = [] -> (forall m, p <> PBusy m) ->
  BInv (set_pc s l lp p).
Proof.
  intros HB Hn Hlp Hp. unfold set_pc, with_loops. eapply BInv_upd; eauto.
  - cbn. destruct p; auto. exfalso. eapply Hp; eauto.
  - destruct HB as [HB1 _]. rewrite HB1. f_equal. destruct (Nat.eqb l (cur s)) eqn:E; auto.
    apply Nat.eqb_eq in E. subst l. now rewrite Hn.
Qed.

Lemma window_set_pc s l lp p :
  nth_error (loops s) l = Some lp -> cur_in_window s = false -> (forall m, p <> PBusy m) ->
  cur_in_window (set_pc s l lp p) = false.
Proof.
  intros Hn Hw Hp. unfold cur_in_window in *. cbn.
  destruct (Nat.eq_dec l (cur s)) as [->|Hne].
  - rewrite nth_error_upd_same by (eapply nth_error_lt; eauto). cbn. destruct p; auto. exfalso. eapply Hp; eauto.
  - now rewrite nth_error_upd_other.
Qed.

Lemma BInv_step c s a s' :
  fixed c = true -> Inv c s -> BInv s -> calm_step s a = true -> step c s a = Some s' -> BInv s'.
Proof.
  intros Hf HI HB HQ HS. apply step_Step in HS. unfold calm_step in HQ.
  destruct HS as [m r Hp Hl | Hc | k He | l lp Hn Hpc Hd | l lp Hn Hpc Hcl | l lp m q Hn Hpc Hq
                 | l lp m a Hn Hpc | l lp m a Hn Hpc | l lp m a Hn Hpc | l lp m ops a Hn Hpc
                 | l lp m r ops a Hn Hpc | l lp m r ops a Hn Hpc Hdl | l lp a Hn Hpc].
  - exact HB.
  - exact HB.
  - cbn in HQ. apply BInv_try_replace; [|exact HB]. unfold cur_in_window in *. cbn. now destruct (bheld _).
  - apply BInv_set_pc; auto; [cbn; now rewrite Hpc | discriminate].
  - apply BInv_set_pc; auto; [cbn; now rewrite Hpc | discriminate].
  - apply (BInv_set_pc (st_q s q)); auto; [cbn; now rewrite Hpc | discriminate].
  - (* commit *)
    assert (l = cur s) by (eapply fixed_consumer; eauto). subst l.
    destruct HB as [HB1 HB2]. split; cbn.
    + rewrite nth_error_upd_same by (eapply nth_error_lt; eauto). cbn.
      rewrite HB1, Hn. cbn. rewrite Hpc. now rewrite app_nil_r.
    + intros i lq Hi Hne. rewrite nth_error_upd_other in Hi by auto. eauto.
  - (* dispatch *)
    destruct HB as [HB1 HB2].
    assert (l = cur s).
    { destruct (Nat.eq_dec l (cur s)); auto. specialize (HB2 _ _ Hn n). cbn in HB2. rewrite Hpc in HB2. discriminate. }
    subst l. split; cbn.
    + rewrite nth_error_upd_same by (eapply nth_error_lt; eauto). cbn.
      rewrite HB1, Hn. cbn. rewrite Hpc. rewrite map_app. cbn. now rewrite app_nil_r.
    + intros i lq Hi Hne. rewrite nth_error_upd_other in Hi by auto. eauto.
  - eapply BInv_upd; eauto. destruct HB as [HB1 _]. rewrite HB1. f_equal.
    destruct (Nat.eqb l (cur s)) eqn:E; auto. apply Nat.eqb_eq in E. subst l. rewrite Hn. cbn. now rewrite Hpc.
  - cbn in HQ. rewrite Hn, Hpc in HQ. cbn in HQ. apply negb_true_iff in HQ.
    apply BInv_try_replace.
    + apply window_set_pc; auto. discriminate.
    + apply BInv_set_pc; auto; [cbn; now rewrite Hpc | discriminate].
  - cbn in HQ. rewrite Hn, Hpc in HQ. cbn in HQ. apply negb_true_iff in HQ.
    apply BInv_try_replace.
    + apply window_set_pc; auto. discriminate.
    + apply BInv_set_pc; auto; [cbn; now rewrite Hpc | discriminate].
  - apply BInv_set_pc; auto; [cbn; now rewrite Hpc | discriminate].
  - apply BInv_set_pc; auto; [cbn; now rewrite Hpc | destruct (fixed c && l_done lp); discriminate].
Qed.

Lemma BInv_init msgs k : BInv (init msgs k).
Proof. split; cbn; auto. intros [|[|i]] lp H Hne; cbn in *; try discriminate. congruence. Qed.

(* in the repaired code, when no replacement request races with the hand-over of a message to its handler,
   messages are dispatched in arrival order: every schedule, every handler program (blocking or not) *)
Theorem run_in_order c msgs k sched s :
  fixed c = true -> run c (init msgs k) sched = Some s -> calm c (init msgs k) sched = true ->
  exists rest, msgs = map fst (log s) ++ rest.
Proof.
  intros Hf HR HC.
  assert (H : (Inv c s /\ OInv msgs s) /\ BInv s).
  { apply (run_invariant_cond c calm_step (fun s => (Inv c s /\ OInv msgs s) /\ BInv s)) with (sched := sched) (s := init msgs k); auto.
    - intros s0 a s' [[HI HO] HB] HQ HS. split; [split|].
      + eapply Inv_step; eauto.
      + eapply OInv_step; eauto.
      + eapply BInv_step; eauto.
    - split; [split|]; [apply Inv_init | apply OInv_init | apply BInv_init]. }
  destruct H as [[_ HO] [HB _]]. unfold OInv in HO. rewrite HB in HO. rewrite <- !app_assoc in HO. eexists. exact HO.
Qed.

(* complete run, connection open: the dispatch log IS the arrival sequence *)
Theorem run_in_order_complete c msgs k sched s :
  fixed c = true -> run c (init msgs k) sched = Some s -> calm c (init msgs k) sched = true ->
  terminal c s -> closed s = false -> map fst (log s) = msgs.
Proof.
  intros Hf HR HC HT Hop. destruct (run_in_order _ _ _ _ _ Hf HR HC) as [rest E].
  pose proof (run_exactly_once _ _ _ _ _ HR HT Hop) as HP.
  apply Permutation_length in HP. rewrite E in HP at 1. rewrite app_length in HP.
  destruct rest; [now rewrite app_nil_r in E|]. cbn in HP. lia.
Qed.

(* ---- the code before the repair (F14): arrival order is NOT preserved, although no handler blocks and
   the only replacement request comes from the handler of the current loop itself (so the run is calm) ---- *)
Definition f14_cfg : cfg := mkCfg 1 false [(1, [HReplace])].
Definition f14_sched : list act :=
  let L0 := ALoop 0 AltQueue in let L1 := ALoop 1 AltQueue in
  [APush; L0; L0; L0; L0;      (* loop 0 dispatches message 1, whose handler calls TryToReplaceLoop: loop 1 is started *)
   APush; APush;               (* messages 2 and 3 arrive *)
   L0; L0;                     (* loop 0 returns from the handler, re-locks, goes back to its select *)
   L0;                         (* its loopDone is closed AND the queue is readable: select may take the queue: message 2 *)
   L1; L1; L1;                 (* loop 1 takes message 3 and dispatches it *)
   L0; L0;                     (* loop 0 dispatches message 2 *)
   L1; L1; L0; L0; ALoop 0 AltDone].

Theorem run_in_order_refuted :
  exists c msgs k sched s,
    fixed c = false /\ run c (init msgs k) sched = Some s /\ calm c (init msgs k) sched = true /\
    NoDup msgs /\ (forall m, existsb (fun h => match h with HNested _ => true | _ => false end) (hp c m) = false) /\
    quiescent c s = true /\ closed s = false /\
    map fst (log s) = [1; 3; 2] /\ msgs = [1; 2; 3] /\ commits s = [1; 3; 2].
Proof.
  exists f14_cfg, [1; 2; 3], 0%nat, f14_sched.
  eexists. split; [reflexivity|]. split; [vm_compute; reflexivity|]. split; [vm_compute; reflexivity|].
  split; [repeat constructor; cbn; intuition lia|].
  split.
  { intro m. unfold hp. change (progs f14_cfg) with [(1, [HReplace])]. unfold lookup. destruct (1 =? m); reflexivity. }
  repeat split; vm_compute; reflexivity.
Qed.

(* and the same schedule cannot even be run in the repaired code: after its re-lock the replaced loop exits *)
Lemma f14_sched_fixed_exits :
  run (mkCfg 1 true [(1, [HReplace])]) (init [1; 2; 3] 0) f14_sched = None.
Proof. vm_compute. reflexivity. Qed.

(* ------------------------------------------------------------------ *)
(* The model satisfies the property as written in Reader/Spec.v *)

Definition waiting_list (s : st) : list (Z * Z * bool) :=
  flat_map (fun lp => match l_pc lp with PWait m r _ => [(m, r, false)] | _ => [] end) (loops s).

Definition obs_of (msgs : list Z) (s : st) (nb : bool) : obs :=
  mkObs msgs (map fst (log s)) (negb (closed s)) true nb (waiting_list s).

Lemma count_notin m l : ~ In m l -> count m l = O.
Proof.
  induction l as [|x r IH]; intro H; auto. cbn. destruct (x =? m) eqn:E.
  - apply Z.eqb_eq in E. subst. exfalso. apply H. now left.
  - apply IH. intro Hin. apply H. now right.
Qed.

Lemma NoDup_count m l : NoDup l -> (count m l <= 1)%nat.
Proof.
  induction 1 as [|x r Hni Hnd IH]; cbn; [lia|]. destruct (x =? m) eqn:E; auto.
  apply Z.eqb_eq in E. subst. rewrite count_notin by auto. lia.
Qed.

Lemma mem_In m l : mem m l = true <-> In m l.
Proof.
  unfold mem. rewrite existsb_exists. split.
  - intros (x & Hin & E). apply Z.eqb_eq in E. now subst.
  - intro H. exists m. split; auto. apply Z.eqb_refl.
Qed.

Lemma subseq_prefix a b : subseq a (a ++ b) = true.
Proof. induction a as [|x a IH]; cbn; [now destruct b|]. now rewrite Z.eqb_refl. Qed.

Theorem model_satisfies_spec c msgs k sched s nb :
  fixed c = true -> NoDup msgs ->
  run c (init msgs k) sched = Some s -> terminal c s -> closed s = false ->
  (nb = true -> calm c (init msgs k) sched = true) ->
  holds (obs_of msgs s nb) = true.
Proof.
  intros Hf Hnd HR HT Hop Hnb.
  destruct (run_at_most_once _ _ _ _ _ Hnd HR) as [Hnd2 Hincl].
  pose proof (run_exactly_once _ _ _ _ _ HR HT Hop) as HP.
  unfold holds. repeat (apply andb_true_iff; split).
  - unfold at_most_once. cbn. apply forallb_forall. intros m _. apply Nat.leb_le. now apply NoDup_count.
  - unfold only_accepted. cbn. apply forallb_forall. intros m Hm. apply mem_In. now apply Hincl.
  - unfold none_dropped. cbn. rewrite Hop. cbn. apply forallb_forall. intros m Hm. apply mem_In.
    eapply Permutation_in; eauto.
  - unfold in_order. cbn. destruct nb; auto. cbn.
    destruct (run_in_order _ _ _ _ _ Hf HR (Hnb eq_refl)) as [rest E]. rewrite E. apply subseq_prefix.
  - unfold never_stalls. cbn. rewrite Hop. cbn. apply forallb_forall. intros [[m r] ret] Hin.
    unfold waiting_list in Hin. apply in_flat_map in Hin as (lp & Hlp & Hin).
    destruct (l_pc lp) as [ | | | |m' r' ops| | ] eqn:Epc; cbn in Hin; try contradiction.
    destruct Hin as [Hin|[]]. injection Hin as -> -> <-.
    apply In_nth_error in Hlp as [l Hn].
    apply orb_true_iff. left. apply negb_true_iff.
    destruct (mem r msgs) eqn:Em; auto. apply mem_In in Em.
    exfalso. eapply nested_returns; eauto.
Qed.

(* the executable test used by the harness and the examples decides [terminal] *)
Lemma quiescent_terminal c s : quiescent c s = true -> terminal c s.
Proof.
  unfold quiescent. intros H a Ha.
  destruct (step c s APush) eqn:E1; try discriminate.
  destruct (step c s AExt) eqn:E2; try discriminate.
  apply negb_true_iff in H.
  destruct a as [| | |l a]; auto; try congruence.
  cbn. destruct (Nat.lt_ge_cases l (length (loops s))) as [Hlt|Hge].
  - assert (Hl : loop_enabled c s l = false).
    { destruct (loop_enabled c s l) eqn:El; auto.
      assert (existsb (loop_enabled c s) (seq 0 (length (loops s))) = true); [|congruence].
      apply existsb_exists. exists l. split; auto. apply in_seq. lia. }
    unfold loop_enabled in Hl.
    destruct (step_loop c s l AltDone) eqn:A1; try discriminate.
    destruct (step_loop c s l AltQueue) eqn:A2; try discriminate.
    destruct (step_loop c s l AltConn) eqn:A3; try discriminate.
    now destruct a.
  - unfold step_loop. apply nth_error_None in Hge. now rewrite Hge.
Qed.
