(* C11 — evaluation of the correspondence cases written by harness/c11.go.

   Forced : a run of the stand-alone client.ReceivedMessageReader under the cooperative scheduler
            (verifYield points): the schedule that was executed, the scheduling point at which the
            acting thread was seen after every step, and the dispatch log.  [agrees] replays the
            schedule on the model of the REPAIRED code and compares every step.
   Stat   : hook-free run (free-running goroutines): only the dispatch log is known.  [agrees]
            compares it with what the theorems of Reader/Proofs.v predict for every schedule.
   ConnC  : a real udp/client.Conn over the in-memory session; messages are injected one at a time,
            handlers issue nested blocking requests.  [agrees] compares with the model run under the
            deterministic scheduler [run_canon].
   Burst  : a real tcp/client.Conn (layer 1, scripted stream) or udp/client.Conn (layer 2, one goroutine calling
            Process): k messages 1..k are handed to the connection's socket reader back to back (for tcp in one
            write, in writes of j frames or of j bytes), i.e. faster than the queue takes them; handlers return at
            once, block on a harness channel until the reader is parked on the full queue ([held]), or issue a
            nested request whose response is a later message of the same burst.  The hand-off from the socket
            reader into the queue is the producer action [APush] of the model: ONE producer per connection, pushing
            in arrival order (Model.v, "single producer").  A handler blocked on a harness channel is not a
            handler program: it is a schedule in which that loop does not move for a while, so [agrees] compares
            with the same deterministic model run as for ConnC (for single-request programs the log is the same
            for every schedule: Proofs.run_in_order_complete, all these runs are calm).
   ConnX  : a real udp/client.Conn (layer 2, in-memory session) or tcp/client.Conn (layer 1, scripted stream), one
            message at a time like ConnC, with the blocking operations and message constellations ConnC does not have:
            confirmable nested requests answered by a piggybacked ACK ([HAck r; HNested r]: the acknowledgement is a
            signal handled by the socket reader), pings issued by handlers ([HPing r]; tcp: the pong is not a queue
            message), requests of the peer whose message ID is placed relative to the connection's own counter
            (equal to the next ID drawn, across the 16-bit wrap, ...: [wr] records type and message ID of every
            datagram, the model's message-ID lock does the rest), retransmitted copies of a request whose handler is
            blocked.  [mids] = (own counter before Process, type, message ID, first ID drawn by the handler) for
            requests whose handler draws an ID: compared with Reader/Mid.v.  [inj] = position of the last item handed to
            the connection (a script stops at the first wait that ends without its effect): the accepted messages are the
            items up to [inj].  [osig] = signals handed to the connection; [othr] (tcp) = (pong, its handler ran on the
            socket reader's goroutine): in the model the socket reader handles the signals ([ASig]), no loop does.
   ForcedM: as Forced, at the granularity of the reader's mutex (model Reader/Mutex.v): goroutines are parked inside
            the mutex sections as well (points "spawned", "relock-held": code 10), other goroutines are let into the
            held mutex and are seen to block in sync.Mutex.Lock (stack witness); the trace lists [FA a] and
            [FUnlock o] steps.  [agrees] replays it on the fine-grained model: a step that takes the mutex is not
            enabled while the mutex is held.
   [pclass] evaluates the property (Reader/Spec.v) on the OBSERVED log only. *)
From Coq Require Import ZArith NArith List Bool.
From GoCoap Require Import Base.Cases Reader.Model Reader.Spec Reader.Mid Reader.Mutex.
Import ListNotations.
Open Scope Z_scope.

Inductive case :=
| Forced (n : nat) (pr : list (Z * prog)) (msgs : list Z) (k : nat)
         (tr : list (act * Z * nat))          (* action, scheduling point reached by the actor, loops seen so far *)
         (olog : list (Z * nat)) (onest : list (Z * Z * bool)) (hang : bool)
| Stat (n : nat) (pr : list (Z * prog)) (msgs : list Z) (olog : list Z) (onest : list (Z * Z * bool)) (complete : bool)
| ConnC (n : nat) (pr : list (Z * prog)) (msgs : list Z) (olog : list Z) (onest : list (Z * Z * bool)) (hang : bool)
| Burst (layer : Z) (n : nat) (pr : list (Z * prog)) (k : nat) (held : list Z)
        (olog : list Z) (onest : list (Z * Z * bool)) (hang : bool)
| ConnX (layer : Z) (n : nat) (pr : list (Z * prog)) (msgs : list Z) (sg : list (Z * nat)) (wr : list (Z * (Z * Z)))
        (mids : list (Z * Z * Z * Z)) (inj : Z) (olog : list Z) (osig : list Z) (othr : list (Z * bool))
        (onest opings : list (Z * Z * bool)) (hang : bool)
| ForcedM (n : nat) (pr : list (Z * prog)) (msgs : list Z) (k : nat)
          (tr : list (fact * Z * nat))         (* step, scheduling point reached by the actor (10: inside a mutex section), loops seen so far *)
          (olog : list (Z * nat)) (onest : list (Z * Z * bool)) (hang : bool).

(* the repaired code *)
Definition cfg_of (n : nat) (fx : bool) (pr : list (Z * prog)) (sg : list (Z * nat)) (wr : list (Z * (Z * Z))) : cfg :=
  mkCfg n fx true true true pr sg wr.

(* the messages of a burst: 1..k in arrival order *)
Definition burst_msgs (k : nat) : list Z := map Z.of_nat (seq 1 k).

Definition pc_code (p : pc) : Z :=
  match p with
  | PSelect => 0 | PDeq _ => 1 | PBusy _ => 2 | PRun _ (_ :: _) => 3 | PRun _ [] => 4
  | PWait _ _ _ => 5 | PCheck => 6 | PExit => 7 | PWaitS _ _ _ => 8 | PLock _ => 9
  end.

Definition obs_ok (s : st) (a : act) (o : Z) (nl : nat) : bool :=
  Nat.eqb (length (loops s)) nl &&
  match a with
  | ALoop l _ => match nth_error (loops s) l with Some lp => pc_code (l_pc lp) =? o | None => false end
  | _ => true
  end.

Fixpoint run_obs (c : cfg) (s : st) (tr : list (act * Z * nat)) : option st :=
  match tr with
  | [] => Some s
  | (a, o, nl) :: r =>
      match step c s a with
      | None => None
      | Some s' => if obs_ok s' a o nl then run_obs c s' r else None
      end
  end.

(* mutex granularity *)
Definition fpc_code (f : fstate) (l : nat) : option Z :=
  match nth_error (loops (base f)) l with
  | Some lp => Some (match mtx f with
                     | Some (OLoop h) => if Nat.eqb h l then 10 else pc_code (l_pc lp)
                     | _ => pc_code (l_pc lp)
                     end)
  | None => None
  end.
Definition fobs_ok (f : fstate) (fa : fact) (o : Z) (nl : nat) : bool :=
  Nat.eqb (length (loops (base f))) nl &&
  match fa with
  | FA (ALoop l _) | FUnlock (OLoop l) => match fpc_code f l with Some v => v =? o | None => false end
  | _ => true
  end.
Fixpoint frun_obs (c : cfg) (f : fstate) (tr : list (fact * Z * nat)) : option fstate :=
  match tr with
  | [] => Some f
  | (fa, o, nl) :: r =>
      match fstep c f fa with
      | None => None
      | Some f' => if fobs_ok f' fa o nl then frun_obs c f' r else None
      end
  end.

Definition ent_eqb (a b : Z * nat) : bool := (fst a =? fst b) && Nat.eqb (snd a) (snd b).
Fixpoint list_eqb {A} (e : A -> A -> bool) (a b : list A) : bool :=
  match a, b with
  | [], [] => true
  | x :: a', y :: b' => e x y && list_eqb e a' b'
  | _, _ => false
  end.

(* nested calls of the model's final state: (m, r) is still waiting iff some loop sits in PWait m r *)
Definition waiting (s : st) (m r : Z) : bool :=
  existsb (fun lp => match l_pc lp with
                     | PWait m' r' _ | PWaitS m' r' _ => (m' =? m) && (r' =? r)
                     | _ => false end) (loops s).
Definition nest_ok (s : st) (onest : list (Z * Z * bool)) : bool :=
  forallb (fun e => match e with (m, r, ret) => Bool.eqb ret (negb (waiting s m r)) end) onest.

Definition has_nested (p : prog) : bool := existsb (fun h => match h with HReplace => false | _ => true end) p.
Definition blocking (pr : list (Z * prog)) (msgs : list Z) : bool := existsb (fun m => has_nested (lookup m pr)) msgs.

(* computed from the observed scheduling points only: did a TryToReplaceLoop run while some loop
   stood between readingMessages.Store(false) and the call of the handler (point "busy")? *)
Fixpoint set_code (l : nat) (o : Z) (m : list (nat * Z)) : list (nat * Z) :=
  match m with
  | [] => [(l, o)]
  | (k, v) :: r => if Nat.eqb k l then (l, o) :: r else (k, v) :: set_code l o r
  end.
Definition get_code (l : nat) (m : list (nat * Z)) : Z :=
  match find (fun e => Nat.eqb (fst e) l) m with Some e => snd e | None => 0 end.
Fixpoint calm_obs (m : list (nat * Z)) (tr : list (act * Z * nat)) : bool :=
  match tr with
  | [] => true
  | (a, o, _) :: r =>
      let busy := existsb (fun e => snd e =? 2) m in
      match a with
      | AExt => negb busy && calm_obs m r
      | ALoop l _ => negb ((get_code l m =? 3) && busy) && calm_obs (set_code l o m) r
      | _ => calm_obs m r
      end
  end.
(* the same on a fine-grained trace: [FA] steps are the actions of Reader/Model.v, in the same order; between its FA
   and its FUnlock a loop stands at code 10 (never the window code 2, and it does not act) *)
Fixpoint fcalm_obs (m : list (nat * Z)) (tr : list (fact * Z * nat)) : bool :=
  match tr with
  | [] => true
  | (fa, o, _) :: r =>
      let busy := existsb (fun e => snd e =? 2) m in
      match fa with
      | FA AExt => negb busy && fcalm_obs m r
      | FA (ALoop l _) => negb ((get_code l m =? 3) && busy) && fcalm_obs (set_code l o m) r
      | FUnlock (OLoop l) => fcalm_obs (set_code l o m) r
      | _ => fcalm_obs m r
      end
  end.
Definition fhas_close (tr : list (fact * Z * nat)) : bool :=
  existsb (fun e => match fst (fst e) with FA AClose => true | _ => false end) tr.
Definition fn_pushes (tr : list (fact * Z * nat)) : nat :=
  length (filter (fun e => match fst (fst e) with FA APush => true | _ => false end) tr).

Definition has_close (tr : list (act * Z * nat)) : bool :=
  existsb (fun e => match fst (fst e) with AClose => true | _ => false end) tr.
(* messages accepted = pushes that happened *)
Definition n_pushes (tr : list (act * Z * nat)) : nat :=
  length (filter (fun e => match fst (fst e) with APush => true | _ => false end) tr).

Definition observation (c : case) : obs :=
  match c with
  | Forced n pr msgs k tr olog onest hang =>
      mkObs (firstn (n_pushes tr) msgs) (map fst olog) (negb (has_close tr)) (negb hang)
            (negb (blocking pr msgs) && calm_obs [] tr) onest [] []
  (* free-running code and the real connection: an expired watchdog (30 s without the awaited state change while
     nobody but the code under test has anything to do) is a stall, so the run counts as observed to its end *)
  | Stat n pr msgs olog onest complete =>
      mkObs msgs olog true true (negb (blocking pr msgs)) onest [] []
  | ConnC n pr msgs olog onest hang =>
      mkObs msgs olog true true (negb (blocking pr msgs)) onest [] []
  (* the order clause applies when no handler blocked: no nested request and no handler held by the harness *)
  | Burst layer n pr k held olog onest hang =>
      let msgs := burst_msgs k in
      mkObs msgs olog true true (negb (blocking pr msgs) && match held with [] => true | _ => false end) onest [] []
  | ConnX layer n pr msgs sg wr mids inj olog osig othr onest opings hang =>
      mkObs (filter (fun m => m <=? inj) msgs) olog true true (negb (blocking pr msgs)) onest osig opings
  | ForcedM n pr msgs k tr olog onest hang =>
      mkObs (firstn (fn_pushes tr) msgs) (map fst olog) (negb (fhas_close tr)) (negb hang)
            (negb (blocking pr msgs) && fcalm_obs [] tr) onest [] []
  end.

(* real connections: compare with the model run under the deterministic scheduler *)
Definition connx_agrees (n : nat) (pr : list (Z * prog)) (msgs : list Z) (sg : list (Z * nat)) (wr : list (Z * (Z * Z)))
           (olog : list Z) (onest : list (Z * Z * bool)) (hang : bool) : bool :=
  let cf := cfg_of n true pr sg wr in
  let s := run_canon (200 * (1 + length msgs + length sg)) cf (init msgs 0) in
  negb hang && list_eqb Z.eqb (map fst (log s)) olog && nest_ok s onest && quiescent cf s.
Definition conn_agrees (n : nat) (pr : list (Z * prog)) (msgs olog : list Z) (onest : list (Z * Z * bool)) (hang : bool) : bool :=
  connx_agrees n pr msgs [] [] olog onest hang.

(* the IDs drawn by handlers: udp GetMessageID after checkMyMessageID (Reader/Mid.v) *)
Definition mid_ok (mids : list (Z * Z * Z * Z)) : bool :=
  forallb (fun e => match e with (c, typ, p, d) => drawn (check_my_mid c typ p) =? d end) mids.

Definition agrees_shape (fx : bool) (c : case) : bool :=
  match c with
  | Forced n pr msgs k tr olog onest hang =>
      let cf := cfg_of n fx pr [] [] in
      match run_obs cf (init msgs k) tr with
      | None => false
      | Some s => negb hang && list_eqb ent_eqb (log s) olog && nest_ok s onest && (closed s || quiescent cf s)
      end
  | Stat n pr msgs olog onest complete =>
      (* predicted for every schedule by C11_exactly_once / C11_in_order (single-replace, non-blocking programs) *)
      complete && holds (observation c)
  | ConnC n pr msgs olog onest hang => conn_agrees n pr msgs olog onest hang
  | Burst layer n pr k held olog onest hang =>
      ((layer =? 1) || (layer =? 2)) && forallb (fun m => (1 <=? m) && (m <=? Z.of_nat k)) held &&
      conn_agrees n pr (burst_msgs k) olog onest hang
  | ConnX layer n pr msgs sg wr mids inj olog osig othr onest opings hang =>
      ((layer =? 1) || (layer =? 2)) && mid_ok mids && forallb (fun e => snd e && existsb (fun g => fst g =? fst e) sg) othr && (inj =? Z.of_nat (length msgs + length sg - length (filter (fun e => existsb (Z.eqb (fst e)) msgs) sg))) &&
      connx_agrees n pr msgs sg wr olog (onest ++ opings) hang
  | ForcedM n pr msgs k tr olog onest hang =>
      let cf := cfg_of n fx pr [] [] in
      match frun_obs cf (finit msgs k) tr with
      | None => false
      | Some f => negb hang && list_eqb ent_eqb (log (base f)) olog && nest_ok (base f) onest &&
                  (closed (base f) || fquiescent cf f)
      end
  end.

(* the correspondence is with the model of the repaired code; [agrees_shape false] (the code before the
   repair of F14) is kept for the notes: the unrepaired tree agrees with it on the forced cases *)
Definition agrees (c : case) : bool := agrees_shape true c.
Definition mismatches_old_shape (cs : list case) : list N := bad_indices (fun c => negb (agrees_shape false c)) cs.

Definition pclass (c : case) : N := c11_class (observation c).

Definition mismatches (cs : list case) : list N := bad_indices (fun c => negb (agrees c)) cs.
Definition property_failures (cs : list case) : list (N * N) := classes pclass cs.
