(* C11, seeded regression C11/13: what udp/client.Conn does with a received message BEFORE it reaches a handler.
   Model (as the code is) of
     message/pool.Message.IsSeparateMessage
         Code()==Empty && Token()==nil && Type()==Acknowledgement && len(Options())==0 && Body()==nil
     message.Message.IsPing(false)
         Code==Empty && Type==Confirmable && len(Token)==0 && len(Options)==0 && len(Payload)==0
     udp/client.Conn.handleSpecialMessages (socket reader, before the receive queue):
         ping -> answered (handlePong), not queued; not ACK/RST -> queue; ACK/RST whose message ID has a pending
         handler (waitForAcknowledge / ping) -> that handler runs, then queue; else IsSeparateMessage -> dropped; else queue
     udp/client.Conn.handle (reader loop, after ProcessReceivedMessage / handleReq):
         IsSeparateMessage -> discarded ("msg was processed by token handler"); else token handler or, when no token
         handler is registered, the observation handler / application handler.
   Only the header facts these tests read are modelled: type (0 CON, 1 NON, 2 ACK, 3 RST), code, token length,
   number of options, payload present.  (The udp decoder yields a nil token / nil body for lengths 0, so "== nil"
   and "len == 0" coincide on received messages.)
   Property text: "every message accepted from the network is dispatched to application handling exactly once - never
   dropped while the connection is open".  The ONLY messages the connection may consume itself are those that carry
   nothing for the application: the empty acknowledgement (the signal part is handled by the socket reader) and the
   ping it answers.  Everything that carries a code reaches a handler.
   Tied to the code by the ConnX cases with items W / b (harness/c11x.go): a token-less confirmable request written by
   a handler, answered by an ACK with a response code and no token, options, payload; its dispatch is logged in the
   application handler and compared with the model's log. *)
From Coq Require Import ZArith List Bool Lia.
Import ListNotations.
Open Scope Z_scope.

Record hdr := mkHdr {
  h_typ : Z;        (* 0 CON, 1 NON, 2 ACK, 3 RST *)
  h_code : Z;       (* 0 = Empty *)
  h_tkl : nat;
  h_nopts : nat;
  h_payload : bool
}.

Definition bare (h : hdr) : bool := Nat.eqb (h_tkl h) 0 && Nat.eqb (h_nopts h) 0 && negb (h_payload h).

(* the code as it is *)
Definition is_separate (h : hdr) : bool := (h_code h =? 0) && (h_typ h =? 2) && bare h.
Definition is_ping (h : hdr) : bool := (h_code h =? 0) && (h_typ h =? 0) && bare h.

(* the shape of seed C11/13: the test of the code is gone *)
Definition is_separate_seed (h : hdr) : bool := (h_typ h =? 2) && bare h.

Inductive pre := Answered      (* ping: the connection answers it itself *)
               | Dropped       (* consumed by the socket reader, never queued *)
               | Queued (signal : bool).  (* into the receive queue; signal: a pending message-ID handler ran first *)

Definition special (sep : hdr -> bool) (h : hdr) (mid_pending : bool) : pre :=
  if is_ping h then Answered
  else if negb ((h_typ h =? 2) || (h_typ h =? 3)) then Queued false
  else if mid_pending then Queued true
  else if sep h then Dropped
  else Queued false.

Inductive route := Discarded | TokenHandler | AppHandler.

Definition handle (sep : hdr -> bool) (h : hdr) (token_pending : bool) : route :=
  if sep h then Discarded else if token_pending then TokenHandler else AppHandler.

(* the whole receive path of one message: does it reach a handler (token handler of a waiting request, or the
   application's handler / observation handler)? *)
Definition reaches_handler (sep : hdr -> bool) (h : hdr) (mid_pending token_pending : bool) : bool :=
  match special sep h mid_pending with
  | Queued _ => match handle sep h token_pending with Discarded => false | _ => true end
  | _ => false
  end.

(* carries nothing for the application: the empty acknowledgement / reset-less empty message and the ping *)
Definition empty_control (h : hdr) : bool := (h_code h =? 0) && ((h_typ h =? 0) || (h_typ h =? 2)) && bare h.

Lemma coded_reaches_handler : forall h mp tp, h_code h <> 0 -> reaches_handler is_separate h mp tp = true.
Proof.
  intros h mp tp Hc. unfold reaches_handler, special, handle, is_ping, is_separate.
  apply Z.eqb_neq in Hc. rewrite Hc. cbn [andb].
  destruct (negb ((h_typ h =? 2) || (h_typ h =? 3))); [destruct tp; reflexivity|].
  destruct mp; destruct tp; reflexivity.
Qed.

(* exactly the empty control messages are consumed by the connection itself *)
Lemma consumed_iff_empty_control : forall h mp tp,
  reaches_handler is_separate h mp tp = false <-> empty_control h = true.
Proof.
  intros h mp tp. unfold reaches_handler, special, handle, is_ping, is_separate, empty_control.
  destruct (h_code h =? 0) eqn:Hc; cbn [andb].
  - destruct (Z.eqb_spec (h_typ h) 0) as [E0|N0]; destruct (Z.eqb_spec (h_typ h) 2) as [E2|N2];
      destruct (Z.eqb_spec (h_typ h) 3) as [E3|N3]; try (exfalso; lia);
      destruct (bare h); destruct mp; destruct tp; cbn; split; intro H; try reflexivity; discriminate H.
  - destruct (negb ((h_typ h =? 2) || (h_typ h =? 3))); destruct mp; destruct tp; cbn; split; intro H; discriminate H.
Qed.

(* a pending message-ID handler (the acknowledgement wait of a confirmable request) is released by the ACK whatever
   else the ACK carries: the signal part of a piggybacked response *)
Lemma ack_releases_wait : forall sep h, (h_typ h =? 2) = true -> is_ping h = false -> special sep h true = Queued true.
Proof.
  intros sep h Ht Hp. unfold special. rewrite Hp, Ht. reflexivity.
Qed.

(* seed C11/13: a piggybacked 2.02 without token, options and payload releases the acknowledgement wait and is then
   discarded on the reader loop; without a pending wait it is dropped by the socket reader *)
Definition bare_deleted : hdr := mkHdr 2 66 0 0 false.   (* ACK 2.02 *)
Lemma seed_shape_drops :
  h_code bare_deleted <> 0 /\
  special is_separate_seed bare_deleted true = Queued true /\ handle is_separate_seed bare_deleted false = Discarded /\
  special is_separate_seed bare_deleted false = Dropped /\
  reaches_handler is_separate_seed bare_deleted true false = false /\
  reaches_handler is_separate bare_deleted true false = true /\ handle is_separate bare_deleted false = AppHandler.
Proof. repeat split; try reflexivity. cbn. lia. Qed.
