(* C11 — "a handler OR CALLBACK may itself issue blocking requests".

   Observe callbacks.  A notification of an observation is a message like any other: it goes through the receive queue
   and is dispatched by the reader loop (tcp/udp Conn.handle -> net/observation Handler.Handle -> Observation.handle ->
   observeFunc); the callback runs on the loop that dispatched the notification, exactly like an application handler.
   Between the dispatch and the call of the callback the code has no blocking point: Handler.Handle looks the
   observation up (read lock of the map, released at once), Observation.handle does a compare-and-swap, a NON-BLOCKING
   send (select with default) and the sequence-number check under the observation's own mutex (three assignments).  In
   particular NOTHING is held across the call of the callback, so in the model of Reader/Model.v a notification is a
   message whose handler program is the program of the callback and that takes no lock of its own ([wire] has no
   entry for it on tcp; on udp it takes the lock of its message ID like every CON / NON message).  All notifications
   of one observation run the same callback: [notif_cfg].
   [callbacks_do_not_stall] is the property's clause for callbacks: for EVERY callback program (any number of blocking
   requests), any set of notifications, any other messages with any handler programs, every queue size and every
   schedule - in particular further notifications of the same observation arriving while earlier callbacks wait for
   their responses - a complete run with the connection open has dispatched every message and every callback's request
   whose response arrived has returned.
   [serialized_callbacks_stall]: what happens if the notifications of an observation took a lock of their own for the
   whole callback without asking for a replacement loop ("deliver the notifications one at a time"): the replacement
   loop blocks on that lock behind the callback that waits for its response, and nobody reads the queue.

   Registering an observation from a handler.  Conn.DoObserve -> NewObservation writes the registration and waits until
   its response has been dispatched: a blocking request in the sense of the property.  In the repaired code doObserve
   calls TryToReplaceLoop first, so the operation is [HNested r] of the model.  [wait_without_replacement_stalls]: the
   shape of the code before that repair (and of any blocking operation that forgets to ask): the handler waits, its
   loop is still the owner of the queue and is busy, the awaited response is never dispatched. *)
From Coq Require Import ZArith List Bool Lia Permutation Arith.
From GoCoap Require Import Reader.Model Reader.Spec Reader.Proofs Reader.Mutex.
Import ListNotations.
Open Scope Z_scope.

(* the repaired code; the messages [notifs] are notifications of one observation whose callback executes [cb];
   [others]: handler programs of the other messages *)
Definition notif_cfg (n : nat) (cb : prog) (notifs : list Z) (others : list (Z * prog)) : cfg :=
  mkCfg n true true true true (map (fun m => (m, cb)) notifs ++ others) [] [].

Lemma lookup_app_in m cb notifs others :
  In m notifs -> lookup m (map (fun x => (x, cb)) notifs ++ others) = cb.
Proof.
  induction notifs as [|x r IH]; intro H; [contradiction|]. cbn.
  destruct (x =? m) eqn:E; auto. apply IH. destruct H as [->|H]; auto. rewrite Z.eqb_refl in E. discriminate.
Qed.

(* every notification runs the callback *)
Lemma notif_runs_callback n cb notifs others m : In m notifs -> hp (notif_cfg n cb notifs others) m = cb.
Proof. intro H. unfold hp, notif_cfg. cbn. now apply lookup_app_in. Qed.

Lemma notif_own_key n cb notifs others r : own_key (notif_cfg n cb notifs others) r.
Proof. intros m _. unfold key_of, notif_cfg. cbn. reflexivity. Qed.

Theorem callbacks_do_not_stall n cb notifs others msgs k sched s :
  let c := notif_cfg n cb notifs others in
  NoDup msgs -> run c (init msgs k) sched = Some s -> terminal c s -> closed s = false ->
  Permutation msgs (map fst (log s)) /\
  (forall l lp m r ops, nth_error (loops s) l = Some lp -> l_pc lp = PWait m r ops -> ~ In r msgs) /\
  (forall l lp, nth_error (loops s) l = Some lp -> forall m, l_pc lp <> PLock m).
Proof.
  intros c Hnd HR HT Hop.
  assert (Hrw : repaired_waits c = true) by reflexivity.
  split; [|split].
  - exact (run_exactly_once c msgs k sched s Hrw HR HT Hop).
  - intros l lp m r ops Hn Hpc.
    exact (nested_returns c msgs k sched s Hrw Hnd HR HT Hop l lp m r ops Hn Hpc (notif_own_key n cb notifs others r)).
  - intros l lp Hn m Hpc.
    destruct (lock_waits_justified c s l lp m HT Hn Hpc) as (l' & lp' & m' & _ & _ & Hk & _).
    unfold key_of, c, notif_cfg in Hk. cbn in Hk. discriminate.
Qed.

(* the same at the granularity of the reader's mutex *)
Theorem callbacks_do_not_stall_fine n cb notifs others msgs k sched f :
  let c := notif_cfg n cb notifs others in
  NoDup msgs -> frun c (finit msgs k) sched = Some f -> fterminal c f -> closed (base f) = false ->
  Permutation msgs (map fst (log (base f))) /\
  (forall l lp m r ops, nth_error (loops (base f)) l = Some lp -> l_pc lp = PWait m r ops -> ~ In r msgs).
Proof.
  intros c Hnd HR HT Hop.
  destruct (callbacks_do_not_stall n cb notifs others msgs k (erase sched) (base f) Hnd (frun_erase _ _ _ _ HR)
              (fterminal_terminal _ _ HT) Hop) as (H1 & H2 & _). auto.
Qed.

(* ---- notifications of an observation serialized by a lock held across the callback, without a replacement
   request: notifications 1 and 2 share the lock 77; the callback of 1 waits for the response 3 ---- *)
Definition serial_cfg : cfg := mkCfg 1 true true false true [(1, [HNested 3]); (2, [HNested 3])] [] [(1, (1, 77)); (2, (1, 77))].
Definition serial_sched : list act :=
  let L0 := ALoop 0 AltQueue in let L1 := ALoop 1 AltQueue in
  [APush; L0; L0; L0; L0;      (* notification 1 is dispatched, its callback issues a request: loop 1 takes over *)
   APush; L1; L1; L1;          (* notification 2 is dispatched by loop 1: the observation's lock is taken *)
   APush].                     (* the response 3 arrives *)

Theorem serialized_callbacks_stall :
  exists s, run serial_cfg (init [1; 2; 3] 0) serial_sched = Some s /\ quiescent serial_cfg s = true /\ closed s = false /\
    map fst (log s) = [1; 2] /\ queue s = [3] /\ prod s = [] /\ length (loops s) = 2%nat /\
    (exists lp, nth_error (loops s) 0 = Some lp /\ l_pc lp = PWait 1 3 []) /\
    (exists lp, nth_error (loops s) 1 = Some lp /\ l_pc lp = PLock 2) /\
    none_dropped (obs_of [1; 2; 3] s false) = false.
Proof.
  eexists. split; [vm_compute; reflexivity|]. split; [vm_compute; reflexivity|].
  split; [reflexivity|]. split; [reflexivity|]. split; [reflexivity|]. split; [reflexivity|]. split; [reflexivity|].
  split; [eexists; split; reflexivity|]. split; [eexists; split; reflexivity|]. reflexivity.
Qed.

(* the code as it is: the same messages, no lock across the callback: every complete run dispatches 1, 2, 3 and both
   callbacks return ([callbacks_do_not_stall]); the deterministic scheduler's run for illustration *)
Lemma callbacks_complete :
  let c := notif_cfg 1 [HNested 3] [1; 2] [] in
  let s := run_canon 100 c (init [1; 2; 3] 0) in
  quiescent c s = true /\ map fst (log s) = [1; 2; 3] /\ length (loops s) = 3%nat /\
  forallb (fun lp => negb (blocked_pc (l_pc lp))) (loops s) = true.
Proof. vm_compute. repeat split; reflexivity. Qed.

(* ---- a blocking operation that does not ask for a replacement loop ---- *)
Definition step_forget (c : cfg) (s : st) (a : act) : option st :=
  match step_noreplace c s a with Some s' => Some s' | None => step c s a end.

Fixpoint run_gen (stp : cfg -> st -> act -> option st) (c : cfg) (s : st) (sched : list act) : option st :=
  match sched with
  | [] => Some s
  | a :: r => match stp c s a with None => None | Some s' => run_gen stp c s' r end
  end.

Definition quiescent_gen (stp : cfg -> st -> act -> option st) (c : cfg) (s : st) : bool :=
  let dead a := match stp c s a with None => true | Some _ => false end in
  dead APush && dead AExt && forallb (fun e => dead (ASig (fst e))) (sigs c) &&
  forallb (fun l => dead (ALoop l AltDone) && dead (ALoop l AltQueue) && dead (ALoop l AltConn)) (seq 0 (length (loops s))).

Definition forget_cfg : cfg := mkCfg 1 true true true true [(1, [HNested 2])] [] [].
Definition forget_sched : list act :=
  let L0 := ALoop 0 AltQueue in
  [APush; L0; L0; L0;          (* request 1 is dispatched *)
   L0;                         (* its handler registers an observation and waits for the response 2: no replacement loop *)
   APush].                     (* the response arrives *)

Theorem wait_without_replacement_stalls :
  exists s, run_gen step_forget forget_cfg (init [1; 2] 0) forget_sched = Some s /\
    quiescent_gen step_forget forget_cfg s = true /\ closed s = false /\
    map fst (log s) = [1] /\ queue s = [2] /\ prod s = [] /\ length (loops s) = 1%nat /\
    (exists lp, nth_error (loops s) 0 = Some lp /\ l_pc lp = PWait 1 2 []) /\
    never_stalls (mkObs [1; 2] [1] true true false [(1, 2, false)] [] []) = false.
Proof.
  eexists. split; [vm_compute; reflexivity|]. split; [vm_compute; reflexivity|].
  split; [reflexivity|]. split; [reflexivity|]. split; [reflexivity|]. split; [reflexivity|]. split; [reflexivity|].
  split; [eexists; split; reflexivity|]. reflexivity.
Qed.
