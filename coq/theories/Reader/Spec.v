(* C11 — the property, written from its text only, as predicates on what an
   observer of one run of a connection sees.

   "Every message accepted from the network is dispatched to application
   handling exactly once - never dropped while the connection is open, never
   processed twice - and, as long as handlers return without blocking, in
   arrival order.  A handler or callback may itself issue blocking requests on
   the same connection, to any nesting depth, without stalling the connection:
   processing of later incoming messages (including the awaited response)
   continues while it waits." *)
From Coq Require Import ZArith NArith List Bool.
Import ListNotations.
Open Scope Z_scope.

Record obs := mkObs {
  o_accepted : list Z;            (* messages accepted from the network, in arrival order *)
  o_log : list Z;                 (* messages in the order in which they were dispatched to application handling *)
  o_open : bool;                  (* the connection was never closed during the run *)
  o_complete : bool;              (* the run was observed until nothing was left to do *)
  o_nonblocking : bool;           (* every handler returned without blocking, and no replacement request raced
                                     with the hand-over of a message to its handler (see Reader/Proofs.v, [calm]) *)
  o_nested : list (Z * Z * bool); (* (m, r, returned): the handler of m issued a blocking request whose response is r *)
  o_signals : list Z;             (* replies that arrived from the network and are consumed by the connection itself
                                     (whether or not they are also dispatched as messages): the acknowledgement of
                                     a confirmable request, the pong that answers a ping *)
  o_sigwait : list (Z * Z * bool) (* (m, r, returned): the handler of m issued a blocking operation that waits for
                                     the reply r of that kind (confirmable request -> acknowledgement, ping -> pong) *)
}.

Fixpoint count (m : Z) (l : list Z) : nat :=
  match l with [] => O | x :: r => if x =? m then S (count m r) else count m r end.
Definition mem (m : Z) (l : list Z) : bool := existsb (Z.eqb m) l.

(* never processed twice *)
Definition at_most_once (o : obs) : bool := forallb (fun m => (count m (o_log o) <=? 1)%nat) (o_log o).
(* only accepted messages are dispatched *)
Definition only_accepted (o : obs) : bool := forallb (fun m => mem m (o_accepted o)) (o_log o).
(* never dropped while the connection is open *)
Definition none_dropped (o : obs) : bool :=
  negb (o_open o && o_complete o) || forallb (fun m => mem m (o_log o)) (o_accepted o).
(* arrival order: the log lists accepted messages in the order of their arrival *)
Fixpoint subseq (a b : list Z) : bool :=
  match a, b with
  | [], _ => true
  | _ :: _, [] => false
  | x :: a', y :: b' => if x =? y then subseq a' b' else subseq a b'
  end.
Definition in_order (o : obs) : bool := negb (o_nonblocking o) || subseq (o_log o) (o_accepted o).
(* a nested blocking request whose response arrives returns; (that the response and all later
   messages are dispatched meanwhile is [none_dropped]) *)
Definition never_stalls (o : obs) : bool :=
  negb (o_open o && o_complete o) ||
  (forallb (fun e => match e with (_, r, ret) => negb (mem r (o_accepted o)) || ret end) (o_nested o) &&
   forallb (fun e => match e with (_, r, ret) => negb (mem r (o_signals o)) || ret end) (o_sigwait o)).

Definition holds (o : obs) : bool :=
  at_most_once o && only_accepted o && none_dropped o && in_order o && never_stalls o.

(* failure class of an observation: 0 = the property holds *)
Definition c11_class (o : obs) : N :=
  if negb (at_most_once o) then 1
  else if negb (none_dropped o) then 2
  else if negb (in_order o) then 3
  else if negb (only_accepted o) then 4
  else if negb (never_stalls o) then 5
  else 0.

Lemma c11_class_holds : forall o, c11_class o = 0%N <-> holds o = true.
Proof.
  intro o. unfold c11_class, holds.
  destruct (at_most_once o), (only_accepted o), (none_dropped o), (in_order o), (never_stalls o); cbn; split; intro H; congruence.
Qed.
