(* C11 — interleaving model of net/client/receivedMessageReader.go
   (ReceivedMessageReader.loop / TryToReplaceLoop), of the producer that hands
   messages to its queue (udp/client.Conn.Process, tcp pushToReceivedMessageQueue)
   and of handlers that call back into the connection (doInternal /
   waitForAcknowledge call TryToReplaceLoop and then wait).

   Threads: the producer (socket reader), any number of reader loops, callers of
   TryToReplaceLoop outside handlers ("external": a user goroutine in Conn.Do),
   the closer.  One action = the code between two scheduling points of the Go
   code (the verifYield points of net/client/receivedMessageReader.go); the two
   mutex-protected sections (TryToReplaceLoop; Lock-Store(true)-Unlock) are one
   action each, so the mutex is free between actions and is not represented.

     loop(loopDone, reading):
       for {                                   pc
         select {                              PSelect      (yield "select")
         case <-loopDone: return                 -> PExit   alternative AltDone
         case req := <-queue:                    -> PDeq m  alternative AltQueue
            reading.Store(false)               PDeq m  -> PBusy m   ("MarkBusy")
            cc.ProcessReceivedMessage(req)     PBusy m -> PRun m (handler program)   ("Dispatch m")
                 handler: TryToReplaceLoop()   PRun m (HReplace :: ops) -> PRun m ops
                          nested Do            PRun m (HNested r :: ops) -> PWait m r ops -> PRun m ops
            mutex.Lock; reading.Store(true); mutex.Unlock     PRun m [] -> PCheck
            [repaired code only]  select { case <-loopDone: return; default: }   PCheck -> PExit | PSelect
         case <-cc.Done(): return                -> PExit   alternative AltConn
         }
       }

   Single producer (modelled fact).  Every connection has ONE socket reader and the hand-off of a received
   message into the queue is a synchronous call on that goroutine: tcp Session.Run -> processBuffer ->
   Conn.pushToReceivedMessageQueue (select { queue <- m | <-ctx.Done() }), udp the session's / server's read loop
   -> Conn.Process (same select).  The reader does not look at the next frame / datagram before the send of the
   previous one has completed (it parks on a full queue).  Hence the model has one producer thread whose remaining
   work is the list [prod] in arrival order and whose only action [APush] appends the head of [prod] to the queue
   ([Proofs.enqueue_in_order]: for every capacity and every schedule the queue is a contiguous segment of the
   arrival sequence).  A hand-off that lets several goroutines perform the sends concurrently is NOT an instance of
   this model; the correspondence cases [Burst] of Reader/Run.v (real tcp / udp connections under bursts larger
   than the queue) tie the fact to the code.

   [fixed c = false] is the code before the repair of F14: PCheck always goes
   back to PSelect.  Go's select picks any ready alternative: the schedule
   carries the choice ([alt]) and [step] only checks that it is ready. *)
From Coq Require Import ZArith List Bool.
Import ListNotations.
Open Scope Z_scope.

(* handler programs: what the application handler of a message does before it returns *)
Inductive hop :=
| HReplace            (* a call that reaches TryToReplaceLoop and does not block (e.g. Do with a cancelled context) *)
| HNested (r : Z).    (* NestedDo: TryToReplaceLoop, then block until message r (the response) has been dispatched *)
Definition prog := list hop.

Inductive pc :=
| PSelect
| PDeq (m : Z)
| PBusy (m : Z)
| PRun (m : Z) (ops : prog)
| PWait (m r : Z) (ops : prog)
| PCheck
| PExit.

Record loop := mkLoop { l_done : bool; l_reading : bool; l_pc : pc }.

Record cfg := mkCfg {
  cap : nat;                     (* ReceivedMessageQueueSize *)
  fixed : bool;                  (* true: loop tests loopDone first after a dispatch (repaired code) *)
  progs : list (Z * prog)        (* handler program per message id; absent = returns at once *)
}.

Fixpoint lookup (m : Z) (l : list (Z * prog)) : prog :=
  match l with [] => [] | (k, p) :: r => if k =? m then p else lookup m r end.
Definition hp (c : cfg) (m : Z) : prog := lookup m (progs c).

Record st := mkSt {
  queue : list Z;        (* channel content in order; an element beyond [cap] is the blocked producer's pending send *)
  prod : list Z;         (* messages the producer has still to push *)
  ext : nat;             (* TryToReplaceLoop calls external goroutines have still to make *)
  closed : bool;         (* cc.Done() closed *)
  cur : nat;             (* r.private.{loopDone,readingMessages} belong to this loop *)
  loops : list loop;
  commits : list Z;      (* ghost: order of the MarkBusy actions *)
  log : list (Z * nat)   (* dispatch log: (message, loop) in order of the ProcessReceivedMessage calls *)
}.

Definition init (msgs : list Z) (k : nat) : st :=
  mkSt [] msgs k false 0 [mkLoop false true PSelect] [] [].

Fixpoint upd {A} (i : nat) (x : A) (l : list A) : list A :=
  match l, i with
  | [], _ => []
  | _ :: r, O => x :: r
  | y :: r, S j => y :: upd j x r
  end.

Definition with_loops (s : st) (ls : list loop) : st :=
  mkSt (queue s) (prod s) (ext s) (closed s) (cur s) ls (commits s) (log s).

Definition set_pc (s : st) (l : nat) (lp : loop) (p : pc) : st :=
  with_loops s (upd l (mkLoop (l_done lp) (l_reading lp) p) (loops s)).

(* TryToReplaceLoop: one critical section *)
Definition try_replace (s : st) : st :=
  match nth_error (loops s) (cur s) with
  | None => s
  | Some c =>
      if l_reading c then s
      else mkSt (queue s) (prod s) (ext s) (closed s) (length (loops s))
                (upd (cur s) (mkLoop true (l_reading c) (l_pc c)) (loops s) ++ [mkLoop false true PSelect])
                (commits s) (log s)
  end.

Definition delivered (r : Z) (s : st) : bool := existsb (fun e => fst e =? r) (log s).

Inductive alt := AltDone | AltQueue | AltConn.

Inductive act :=
| APush                       (* producer: queue <- next message (completes at once or blocks as pending send) *)
| AClose
| AExt                        (* TryToReplaceLoop from a goroutine that is not a handler *)
| ALoop (l : nat) (a : alt).  (* loop l performs its next action; [a] matters at PSelect only *)

Definition step_loop (c : cfg) (s : st) (l : nat) (a : alt) : option st :=
  match nth_error (loops s) l with
  | None => None
  | Some lp =>
      match l_pc lp with
      | PSelect =>
          match a with
          | AltDone => if l_done lp then Some (set_pc s l lp PExit) else None
          | AltQueue =>
              match queue s with
              | [] => None
              | m :: q => Some (set_pc (mkSt q (prod s) (ext s) (closed s) (cur s) (loops s) (commits s) (log s)) l lp (PDeq m))
              end
          | AltConn => if closed s then Some (set_pc s l lp PExit) else None
          end
      | PDeq m =>
          Some (mkSt (queue s) (prod s) (ext s) (closed s) (cur s)
                     (upd l (mkLoop (l_done lp) false (PBusy m)) (loops s)) (commits s ++ [m]) (log s))
      | PBusy m =>
          Some (mkSt (queue s) (prod s) (ext s) (closed s) (cur s)
                     (upd l (mkLoop (l_done lp) (l_reading lp) (PRun m (hp c m))) (loops s)) (commits s) (log s ++ [(m, l)]))
      | PRun m [] => Some (with_loops s (upd l (mkLoop (l_done lp) true PCheck) (loops s)))
      | PRun m (HReplace :: ops) => Some (try_replace (set_pc s l lp (PRun m ops)))
      | PRun m (HNested r :: ops) => Some (try_replace (set_pc s l lp (PWait m r ops)))
      | PWait m r ops => if delivered r s then Some (set_pc s l lp (PRun m ops)) else None
      | PCheck => Some (set_pc s l lp (if fixed c && l_done lp then PExit else PSelect))
      | PExit => None
      end
  end.

Definition step (c : cfg) (s : st) (a : act) : option st :=
  match a with
  | APush =>
      match prod s with
      | [] => None
      | m :: r => if (length (queue s) <=? cap c)%nat
                  then Some (mkSt (queue s ++ [m]) r (ext s) (closed s) (cur s) (loops s) (commits s) (log s))
                  else None
      end
  | AClose => if closed s then None else Some (mkSt (queue s) (prod s) (ext s) true (cur s) (loops s) (commits s) (log s))
  | AExt => match ext s with
            | O => None
            | S k => Some (try_replace (mkSt (queue s) (prod s) k (closed s) (cur s) (loops s) (commits s) (log s)))
            end
  | ALoop l a => step_loop c s l a
  end.

(* a schedule is a list of actions; None = some action was not enabled *)
Fixpoint run (c : cfg) (s : st) (sched : list act) : option st :=
  match sched with
  | [] => Some s
  | a :: r => match step c s a with None => None | Some s' => run c s' r end
  end.

(* enabledness, executable: used for "complete run" (no action enabled) *)
Definition loop_enabled (c : cfg) (s : st) (l : nat) : bool :=
  match step_loop c s l AltDone, step_loop c s l AltQueue, step_loop c s l AltConn with
  | None, None, None => false
  | _, _, _ => true
  end.

Definition quiescent (c : cfg) (s : st) : bool :=
  match step c s APush with Some _ => false | None =>
  match step c s AExt with Some _ => false | None =>
  negb (existsb (loop_enabled c s) (seq 0 (length (loops s)))) end end.

(* a deterministic scheduler used for the connection-level cases: run the loop with the smallest index that can move;
   when none can, let external callers, then the producer, move; stop when nothing can. *)
Fixpoint first_enabled (c : cfg) (s : st) (ls : list nat) : option st :=
  match ls with
  | [] => None
  | l :: r => match step_loop c s l AltQueue with
              | Some s' => Some s'
              | None => match step_loop c s l AltDone with
                        | Some s' => Some s'
                        | None => first_enabled c s r
                        end
              end
  end.

Fixpoint run_canon (fuel : nat) (c : cfg) (s : st) : st :=
  match fuel with
  | O => s
  | S f =>
      match first_enabled c s (seq 0 (length (loops s))) with
      | Some s' => run_canon f c s'
      | None => match step c s AExt with
                | Some s' => run_canon f c s'
                | None => match step c s APush with
                          | Some s' => run_canon f c s'
                          | None => s
                          end
                end
      end
  end.

(* the schedule that [run_canon] executes *)
Fixpoint first_enabled_act (c : cfg) (s : st) (ls : list nat) : option (act * st) :=
  match ls with
  | [] => None
  | l :: r => match step_loop c s l AltQueue with
              | Some s' => Some (ALoop l AltQueue, s')
              | None => match step_loop c s l AltDone with
                        | Some s' => Some (ALoop l AltDone, s')
                        | None => first_enabled_act c s r
                        end
              end
  end.

Fixpoint canon_sched (fuel : nat) (c : cfg) (s : st) : list act :=
  match fuel with
  | O => []
  | S f =>
      match first_enabled_act c s (seq 0 (length (loops s))) with
      | Some (a, s') => a :: canon_sched f c s'
      | None => match step c s AExt with
                | Some s' => AExt :: canon_sched f c s'
                | None => match step c s APush with
                          | Some s' => APush :: canon_sched f c s'
                          | None => []
                          end
                end
      end
  end.
