(* C11 — interleaving model of net/client/receivedMessageReader.go
   (ReceivedMessageReader.loop / TryToReplaceLoop), of the producer that hands
   messages to its queue (udp/client.Conn.Process, tcp pushToReceivedMessageQueue)
   and of handlers that call back into the connection (doInternal /
   waitForAcknowledge call TryToReplaceLoop and then wait).

   Threads: the producer (socket reader), any number of reader loops, callers of
   TryToReplaceLoop outside handlers ("external": a user goroutine in Conn.Do),
   the closer.  One action = the code between two scheduling points of the Go
   code (the verifYield points of net/client/receivedMessageReader.go); the two
   mutex-protected sections (TryToReplaceLoop; Lock-Store(true)-Unlock) are one
   action each, so the mutex is free between actions and is not represented.

     loop(loopDone, reading):
       for {                                   pc
         select {                              PSelect      (yield "select")
         case <-loopDone: return                 -> PExit   alternative AltDone
         case req := <-queue:                    -> PDeq m  alternative AltQueue
            reading.Store(false)               PDeq m  -> PBusy m   ("MarkBusy")
            cc.ProcessReceivedMessage(req)     PBusy m -> PRun m (handler program)   ("Dispatch m")
                 (udp handleReq, message-ID lock taken: PBusy m -> PLock m -> PRun m ...; see below)
                 handler: TryToReplaceLoop()   PRun m (HReplace :: ops) -> PRun m ops
                          nested Do            PRun m (HNested r :: ops) -> PWait m r ops -> PRun m ops
                          waitForAcknowledge   PRun m (HAck r :: ops)    -> PWaitS m r ops -> PRun m ops
                          Ping                 PRun m (HPing r :: ops)   -> PWaitS m r ops -> PRun m ops
            mutex.Lock; reading.Store(true); mutex.Unlock     PRun m [] -> PCheck
            [repaired code only]  select { case <-loopDone: return; default: }   PCheck -> PExit | PSelect
         case <-cc.Done(): return                -> PExit   alternative AltConn
         }
       }

   Single producer (modelled fact).  Every connection has ONE socket reader and the hand-off of a received
   message into the queue is a synchronous call on that goroutine: tcp Session.Run -> processBuffer ->
   Conn.pushToReceivedMessageQueue (select { queue <- m | <-ctx.Done() }), udp the session's / server's read loop
   -> Conn.Process (same select).  The reader does not look at the next frame / datagram before the send of the
   previous one has completed (it parks on a full queue).  Hence the model has one producer thread whose remaining
   work is the list [prod] in arrival order and whose only action [APush] appends the head of [prod] to the queue
   ([Proofs.enqueue_in_order]: for every capacity and every schedule the queue is a contiguous segment of the
   arrival sequence).  A hand-off that lets several goroutines perform the sends concurrently is NOT an instance of
   this model; the correspondence cases [Burst] of Reader/Run.v (real tcp / udp connections under bursts larger
   than the queue) tie the fact to the code.

   Signals (acknowledgements and pongs).  Some messages are not (only) handed to the queue: the socket reader itself
   runs the handler that a blocked caller registered for them, before it does anything else with the message:
     udp  Conn.Process -> handleSpecialMessages -> midHandlerContainer.LoadAndDelete(mid) -> handler:
          the ACK (piggybacked or empty) of a confirmable request releases waitForAcknowledge, the ACK / RST that
          answers a ping runs receivedPong; the message then goes on into the queue like any other;
     tcp  pushToReceivedMessageQueue -> handleSignals: a 7.03 Pong runs the token handler of the pending ping
          (receivedPong) on the socket reader and is NOT queued.
   [sigs c] lists them as (id, q): the socket reader meets signal id when q messages are still to be pushed (for udp
   the head of these q messages is the signal message itself, for tcp the pong stands between two queued messages).
   The reader's action [ASig id] is enabled when it has reached that position and is not parked on the full queue; it
   may not push the next message before the signals at its position are handled ([sigs_clear]).
   Handler operations that wait for a signal: [HAck r] = udp waitForAcknowledge of a confirmable nested request
   (TryToReplaceLoop, then wait), [HPing r] = Client.Ping (AsyncPing, then wait for receivedPong).  AsyncPing calls
   TryToReplaceLoop in the repaired code ([pingfix c = true]); before the repair it did not, so a ping issued by a
   handler left the queue without a consumer ([Proofs.ping_stalls_refuted]).

   The per-message-ID lock of udp handleReq (msgIDMutex).  ProcessReceivedMessage -> handleReq takes the lock of the
   message's ID for the whole handling of the message (response-cache lookup, handler, reply), so that a duplicate of
   a request waits for the first copy and is then answered from the cache.  [wire c] gives (type, message ID) of the
   messages that take part (absent: the message never meets another one with its ID, or the transport has no such
   lock: tcp); [key_of] is the lock a message takes.  In the repaired code only CON and NON messages take it
   ([ackfix c = true]; an ACK or RST carries a message ID of OUR numbering, which says nothing about the peer's IDs;
   before the repair every message took it, so the piggybacked response to a nested request whose ID happened to
   equal the ID of the request being handled waited for that very handler: [Proofs.ack_collision_refuted]), and a
   loop that finds the lock taken asks for a replacement loop before it blocks ([lockfix c = true]; before the repair
   it just blocked, so a retransmitted copy of a request whose handler waits in a nested request took the only consumer
   of the queue away: [Proofs.dup_stalls_refuted]).  pc [PLock m]: blocked in msgIDMutex.Lock; a response counts as
   [delivered] to the waiting nested request once its handling has got past the lock.

   [fixed c = false] is the code before the repair of F14: PCheck always goes
   back to PSelect.  Go's select picks any ready alternative: the schedule
   carries the choice ([alt]) and [step] only checks that it is ready. *)
From Coq Require Import ZArith List Bool.
Import ListNotations.
Open Scope Z_scope.

(* handler programs: what the application handler of a message does before it returns *)
Inductive hop :=
| HReplace            (* a call that reaches TryToReplaceLoop and does not block (e.g. Do with a cancelled context) *)
| HNested (r : Z)     (* NestedDo: TryToReplaceLoop, then block until message r (the response) has been dispatched *)
| HAck (r : Z)        (* udp waitForAcknowledge: TryToReplaceLoop, then block until the socket reader has run the
                         message-ID handler of signal r (the acknowledgement of the confirmable request) *)
| HPing (r : Z).      (* Client.Ping: AsyncPing (TryToReplaceLoop iff [pingfix]), then block until the socket reader
                         has run the pong handler of signal r *)
Definition prog := list hop.

Inductive pc :=
| PSelect
| PDeq (m : Z)
| PBusy (m : Z)
| PRun (m : Z) (ops : prog)
| PWait (m r : Z) (ops : prog)
| PWaitS (m r : Z) (ops : prog)     (* the handler of m waits for signal r *)
| PLock (m : Z)                     (* dispatched, blocked in msgIDMutex.Lock of handleReq *)
| PCheck
| PExit.

Record loop := mkLoop { l_done : bool; l_reading : bool; l_pc : pc }.

Record cfg := mkCfg {
  cap : nat;                     (* ReceivedMessageQueueSize *)
  fixed : bool;                  (* true: loop tests loopDone first after a dispatch (repaired code) *)
  pingfix : bool;                (* true: AsyncPing calls TryToReplaceLoop (repaired code) *)
  lockfix : bool;                (* true: handleReq calls TryToReplaceLoop before it blocks on a taken message-ID lock (repaired code) *)
  ackfix : bool;                 (* true: only CON / NON messages take the message-ID lock (repaired code) *)
  progs : list (Z * prog);       (* handler program per message id; absent = returns at once *)
  sigs : list (Z * nat);         (* signals (id, q): met by the socket reader when q messages are still to be pushed *)
  wire : list (Z * (Z * Z))      (* message -> (type 0 CON / 1 NON / 2 ACK / 3 RST, message ID) *)
}.

(* the blocking points that are not nested requests ask for a replacement loop too (repaired code) *)
Definition repaired_waits (c : cfg) : bool := pingfix c && lockfix c.

Fixpoint lookup (m : Z) (l : list (Z * prog)) : prog :=
  match l with [] => [] | (k, p) :: r => if k =? m then p else lookup m r end.
Definition hp (c : cfg) (m : Z) : prog := lookup m (progs c).

Record st := mkSt {
  queue : list Z;        (* channel content in order; an element beyond [cap] is the blocked producer's pending send *)
  prod : list Z;         (* messages the producer has still to push *)
  ext : nat;             (* TryToReplaceLoop calls external goroutines have still to make *)
  closed : bool;         (* cc.Done() closed *)
  cur : nat;             (* r.private.{loopDone,readingMessages} belong to this loop *)
  loops : list loop;
  commits : list Z;      (* ghost: order of the MarkBusy actions *)
  log : list (Z * nat);  (* dispatch log: (message, loop) in order of the ProcessReceivedMessage calls *)
  sigd : list Z          (* signals whose handler the socket reader has run, in that order *)
}.

Definition init (msgs : list Z) (k : nat) : st :=
  mkSt [] msgs k false 0 [mkLoop false true PSelect] [] [] [].

Fixpoint upd {A} (i : nat) (x : A) (l : list A) : list A :=
  match l, i with
  | [], _ => []
  | _ :: r, O => x :: r
  | y :: r, S j => y :: upd j x r
  end.

Definition with_loops (s : st) (ls : list loop) : st :=
  mkSt (queue s) (prod s) (ext s) (closed s) (cur s) ls (commits s) (log s) (sigd s).

Definition set_pc (s : st) (l : nat) (lp : loop) (p : pc) : st :=
  with_loops s (upd l (mkLoop (l_done lp) (l_reading lp) p) (loops s)).

(* TryToReplaceLoop: one critical section *)
Definition try_replace (s : st) : st :=
  match nth_error (loops s) (cur s) with
  | None => s
  | Some c =>
      if l_reading c then s
      else mkSt (queue s) (prod s) (ext s) (closed s) (length (loops s))
                (upd (cur s) (mkLoop true (l_reading c) (l_pc c)) (loops s) ++ [mkLoop false true PSelect])
                (commits s) (log s) (sigd s)
  end.

(* the message-ID lock *)
Fixpoint lookup_wire (m : Z) (l : list (Z * (Z * Z))) : option (Z * Z) :=
  match l with [] => None | (k, v) :: r => if k =? m then Some v else lookup_wire m r end.
Definition takes_lock (c : cfg) (typ : Z) : bool := negb (ackfix c) || (typ =? 0) || (typ =? 1).
Definition key_of (c : cfg) (m : Z) : option Z :=
  match lookup_wire m (wire c) with
  | Some (typ, mid) => if takes_lock c typ then Some mid else None
  | None => None
  end.
Definition key_eqb (a b : option Z) : bool :=
  match a, b with Some x, Some y => x =? y | _, _ => false end.
(* the message whose handling a loop is in the middle of (between taking and releasing the lock) *)
Definition handling (lp : loop) : option Z :=
  match l_pc lp with PRun m _ | PWait m _ _ | PWaitS m _ _ => Some m | _ => None end.
Definition lock_held (c : cfg) (s : st) (m : Z) : bool :=
  existsb (fun lp => match handling lp with Some m' => key_eqb (key_of c m') (key_of c m) | None => false end) (loops s).
Definition locked_out (r : Z) (s : st) : bool :=
  existsb (fun lp => match l_pc lp with PLock m => m =? r | _ => false end) (loops s).

(* the response r has reached the nested request that waits for it: dispatched and past the message-ID lock *)
Definition delivered (r : Z) (s : st) : bool := existsb (fun e => fst e =? r) (log s) && negb (locked_out r s).

(* signals *)
Definition memz (r : Z) (l : list Z) : bool := existsb (Z.eqb r) l.
Definition signalled (r : Z) (s : st) : bool := memz r (sigd s).
(* the socket reader is not parked on the full queue: its last send has completed *)
Definition reader_free (c : cfg) (s : st) : bool := (length (queue s) <=? cap c)%nat.
(* signal e stands at the socket reader's position *)
Definition sig_here (s : st) (e : Z * nat) : bool := Nat.eqb (snd e) (length (prod s)).
(* every signal at the socket reader's position has been handled: it may go on to the next message *)
Definition sigs_clear (c : cfg) (s : st) : bool :=
  forallb (fun e => negb (sig_here s e) || signalled (fst e) s) (sigs c).
Definition sig_enabled (c : cfg) (s : st) (r : Z) : bool :=
  reader_free c s && negb (signalled r s) && existsb (fun e => (fst e =? r) && sig_here s e) (sigs c).

Inductive alt := AltDone | AltQueue | AltConn.

Inductive act :=
| APush                       (* producer: queue <- next message (completes at once or blocks as pending send) *)
| AClose
| AExt                        (* TryToReplaceLoop from a goroutine that is not a handler *)
| ASig (r : Z)                (* socket reader: run the handler registered for signal r (acknowledgement / pong) *)
| ALoop (l : nat) (a : alt).  (* loop l performs its next action; [a] matters at PSelect only *)

Definition step_loop (c : cfg) (s : st) (l : nat) (a : alt) : option st :=
  match nth_error (loops s) l with
  | None => None
  | Some lp =>
      match l_pc lp with
      | PSelect =>
          match a with
          | AltDone => if l_done lp then Some (set_pc s l lp PExit) else None
          | AltQueue =>
              match queue s with
              | [] => None
              | m :: q => Some (set_pc (mkSt q (prod s) (ext s) (closed s) (cur s) (loops s) (commits s) (log s) (sigd s)) l lp (PDeq m))
              end
          | AltConn => if closed s then Some (set_pc s l lp PExit) else None
          end
      | PDeq m =>
          Some (mkSt (queue s) (prod s) (ext s) (closed s) (cur s)
                     (upd l (mkLoop (l_done lp) false (PBusy m)) (loops s)) (commits s ++ [m]) (log s) (sigd s))
      | PBusy m =>
          if lock_held c s m
          then let s' := mkSt (queue s) (prod s) (ext s) (closed s) (cur s)
                              (upd l (mkLoop (l_done lp) (l_reading lp) (PLock m)) (loops s)) (commits s) (log s ++ [(m, l)]) (sigd s) in
               Some (if lockfix c then try_replace s' else s')
          else Some (mkSt (queue s) (prod s) (ext s) (closed s) (cur s)
                          (upd l (mkLoop (l_done lp) (l_reading lp) (PRun m (hp c m))) (loops s)) (commits s) (log s ++ [(m, l)]) (sigd s))
      | PLock m => if lock_held c s m then None else Some (set_pc s l lp (PRun m (hp c m)))
      | PRun m [] => Some (with_loops s (upd l (mkLoop (l_done lp) true PCheck) (loops s)))
      | PRun m (HReplace :: ops) => Some (try_replace (set_pc s l lp (PRun m ops)))
      | PRun m (HNested r :: ops) => Some (try_replace (set_pc s l lp (PWait m r ops)))
      | PRun m (HAck r :: ops) => Some (try_replace (set_pc s l lp (PWaitS m r ops)))
      | PRun m (HPing r :: ops) =>
          Some (if pingfix c then try_replace (set_pc s l lp (PWaitS m r ops)) else set_pc s l lp (PWaitS m r ops))
      | PWait m r ops => if delivered r s then Some (set_pc s l lp (PRun m ops)) else None
      | PWaitS m r ops => if signalled r s then Some (set_pc s l lp (PRun m ops)) else None
      | PCheck => Some (set_pc s l lp (if fixed c && l_done lp then PExit else PSelect))
      | PExit => None
      end
  end.

Definition step (c : cfg) (s : st) (a : act) : option st :=
  match a with
  | APush =>
      match prod s with
      | [] => None
      | m :: r => if reader_free c s && sigs_clear c s
                  then Some (mkSt (queue s ++ [m]) r (ext s) (closed s) (cur s) (loops s) (commits s) (log s) (sigd s))
                  else None
      end
  | AClose => if closed s then None else Some (mkSt (queue s) (prod s) (ext s) true (cur s) (loops s) (commits s) (log s) (sigd s))
  | AExt => match ext s with
            | O => None
            | S k => Some (try_replace (mkSt (queue s) (prod s) k (closed s) (cur s) (loops s) (commits s) (log s) (sigd s)))
            end
  | ASig r => if sig_enabled c s r
              then Some (mkSt (queue s) (prod s) (ext s) (closed s) (cur s) (loops s) (commits s) (log s) (sigd s ++ [r]))
              else None
  | ALoop l a => step_loop c s l a
  end.

(* a schedule is a list of actions; None = some action was not enabled *)
Fixpoint run (c : cfg) (s : st) (sched : list act) : option st :=
  match sched with
  | [] => Some s
  | a :: r => match step c s a with None => None | Some s' => run c s' r end
  end.

(* enabledness, executable: used for "complete run" (no action enabled) *)
Definition loop_enabled (c : cfg) (s : st) (l : nat) : bool :=
  match step_loop c s l AltDone, step_loop c s l AltQueue, step_loop c s l AltConn with
  | None, None, None => false
  | _, _, _ => true
  end.

Definition quiescent (c : cfg) (s : st) : bool :=
  match step c s APush with Some _ => false | None =>
  match step c s AExt with Some _ => false | None =>
  negb (existsb (fun e => sig_enabled c s (fst e)) (sigs c)) &&
  negb (existsb (loop_enabled c s) (seq 0 (length (loops s)))) end end.

(* a deterministic scheduler used for the connection-level cases: run the loop with the smallest index that can move;
   when none can, let external callers, then the producer (signal handlers first), move; stop when nothing can. *)
Fixpoint first_sig (c : cfg) (s : st) (l : list (Z * nat)) : option (act * st) :=
  match l with
  | [] => None
  | e :: r => match step c s (ASig (fst e)) with
              | Some s' => Some (ASig (fst e), s')
              | None => first_sig c s r
              end
  end.
Fixpoint first_enabled (c : cfg) (s : st) (ls : list nat) : option st :=
  match ls with
  | [] => None
  | l :: r => match step_loop c s l AltQueue with
              | Some s' => Some s'
              | None => match step_loop c s l AltDone with
                        | Some s' => Some s'
                        | None => first_enabled c s r
                        end
              end
  end.

Fixpoint run_canon (fuel : nat) (c : cfg) (s : st) : st :=
  match fuel with
  | O => s
  | S f =>
      match first_enabled c s (seq 0 (length (loops s))) with
      | Some s' => run_canon f c s'
      | None => match step c s AExt with
                | Some s' => run_canon f c s'
                | None => match first_sig c s (sigs c) with
                          | Some (_, s') => run_canon f c s'
                          | None => match step c s APush with
                                    | Some s' => run_canon f c s'
                                    | None => s
                                    end
                          end
                end
      end
  end.

(* the schedule that [run_canon] executes *)
Fixpoint first_enabled_act (c : cfg) (s : st) (ls : list nat) : option (act * st) :=
  match ls with
  | [] => None
  | l :: r => match step_loop c s l AltQueue with
              | Some s' => Some (ALoop l AltQueue, s')
              | None => match step_loop c s l AltDone with
                        | Some s' => Some (ALoop l AltDone, s')
                        | None => first_enabled_act c s r
                        end
              end
  end.

Fixpoint canon_sched (fuel : nat) (c : cfg) (s : st) : list act :=
  match fuel with
  | O => []
  | S f =>
      match first_enabled_act c s (seq 0 (length (loops s))) with
      | Some (a, s') => a :: canon_sched f c s'
      | None => match step c s AExt with
                | Some s' => AExt :: canon_sched f c s'
                | None => match first_sig c s (sigs c) with
                          | Some (a, s') => a :: canon_sched f c s'
                          | None => match step c s APush with
                                    | Some s' => APush :: canon_sched f c s'
                                    | None => []
                                    end
                          end
                end
      end
  end.
