(* C11 — the reader's mutex (ReceivedMessageReader.private.mutex) at the granularity of its Lock / Unlock calls.

   Reader/Model.v treats the two sections of that mutex as one action each ("the mutex is free between actions and
   is not represented").  That hides one thing the code really does: TryToReplaceLoop STARTS THE NEW LOOP INSIDE its
   section (`go r.loop(...)` comes before the deferred Unlock), so the new loop runs - it may dequeue the next message
   and its handler may call TryToReplaceLoop - while the goroutine that spawned it still holds the mutex.  Likewise a
   replaced loop whose handler has returned holds the mutex for a moment (Lock; readingMessages.Store(true); Unlock)
   while the current loop's handler asks for a replacement.  Whoever meets the held mutex has to WAIT for it
   (sync.Mutex.Lock): a caller that gave up instead (TryLock and return) would go on to block in its nested request
   without having installed a replacement loop, and the queue would be left without a reader ([trylock_stalls]).

   Fine-grained model: state = state of Reader/Model.v + the holder of the mutex.
     FA a        the action a of Reader/Model.v; when a enters a section of the mutex ([needs_mutex]: TryToReplaceLoop
                 called by a handler operation, by the contended path of udp handleReq, by an external goroutine; the
                 re-lock of a loop after its dispatch) it is enabled only while the mutex is free (Lock blocks) and
                 leaves the actor holding it: the effects of the section take place, the new loop (if any) exists and
                 may run, the Unlock is still to come;
     FUnlock o   the holder o releases the mutex.  Between its FA and its FUnlock the holder does nothing else
                 (the code between Lock and Unlock has no blocking operation: the holder can always go on to Unlock).
   [erase] forgets the FUnlock actions: every fine-grained run is a run of Reader/Model.v ([frun_erase]), so all its
   theorems carry over; a complete fine-grained run ends with the mutex free and is complete in Reader/Model.v
   ([fterminal_terminal]), so the liveness theorems carry over too.  The correspondence cases [ForcedM] of
   Reader/Run.v replay schedules of the real code in which goroutines are parked INSIDE the sections (verifYield
   points "spawned" and "relock-held") on this model. *)
From Coq Require Import ZArith List Bool Lia Permutation Arith.
From GoCoap Require Import Reader.Model Reader.Spec Reader.Proofs.
Import ListNotations.
Open Scope Z_scope.

Inductive owner := OLoop (l : nat) | OExt.
Definition owner_eqb (a b : owner) : bool :=
  match a, b with OLoop x, OLoop y => Nat.eqb x y | OExt, OExt => true | _, _ => false end.

Record fstate := mkF { base : st; mtx : option owner }.

Inductive fact := FA (a : act) | FUnlock (o : owner).

Definition finit (msgs : list Z) (k : nat) : fstate := mkF (init msgs k) None.

(* does the action enter a section of r.private.mutex? *)
Definition needs_mutex (c : cfg) (s : st) (a : act) : bool :=
  match a with
  | AExt => true
  | ALoop l _ =>
      match nth_error (loops s) l with
      | Some lp =>
          match l_pc lp with
          | PRun _ [] => true                        (* Lock; readingMessages.Store(true); Unlock *)
          | PRun _ (HPing _ :: _) => pingfix c       (* AsyncPing calls TryToReplaceLoop in the repaired code only *)
          | PRun _ (_ :: _) => true                  (* TryToReplaceLoop *)
          | PBusy m => lock_held c s m && lockfix c  (* handleReq: message-ID lock taken -> TryToReplaceLoop *)
          | _ => false
          end
      | None => false
      end
  | _ => false
  end.

Definition actor (a : act) : option owner :=
  match a with ALoop l _ => Some (OLoop l) | AExt => Some OExt | _ => None end.

(* the holder of the mutex does nothing but unlock *)
Definition is_owner (f : fstate) (a : act) : bool :=
  match mtx f, a with Some (OLoop h), ALoop l _ => Nat.eqb h l | _, _ => false end.

Definition fstep (c : cfg) (f : fstate) (fa : fact) : option fstate :=
  match fa with
  | FUnlock o =>
      match mtx f with
      | Some h => if owner_eqb h o then Some (mkF (base f) None) else None
      | None => None
      end
  | FA a =>
      if is_owner f a then None
      else if needs_mutex c (base f) a then
        match mtx f with
        | Some _ => None       (* sync.Mutex.Lock blocks *)
        | None => match step c (base f) a, actor a with
                  | Some s', Some o => Some (mkF s' (Some o))
                  | _, _ => None
                  end
        end
      else match step c (base f) a with Some s' => Some (mkF s' (mtx f)) | None => None end
  end.

Fixpoint frun (c : cfg) (f : fstate) (sched : list fact) : option fstate :=
  match sched with
  | [] => Some f
  | a :: r => match fstep c f a with None => None | Some f' => frun c f' r end
  end.

Definition erase (sched : list fact) : list act :=
  flat_map (fun fa => match fa with FA a => [a] | FUnlock _ => [] end) sched.

(* ------------------------------------------------------------------ *)
(* refinement: a fine-grained run is a run of Reader/Model.v *)

Lemma fstep_FA c f a f' : fstep c f (FA a) = Some f' -> step c (base f) a = Some (base f').
Proof.
  unfold fstep. destruct (is_owner f a); [discriminate|].
  destruct (needs_mutex c (base f) a).
  - destruct (mtx f); [discriminate|].
    destruct (step c (base f) a) as [s'|]; [|discriminate]. destruct (actor a); [|discriminate].
    intro H. injection H as <-. reflexivity.
  - destruct (step c (base f) a) as [s'|]; [|discriminate]. intro H. injection H as <-. reflexivity.
Qed.

Lemma fstep_unlock c f o f' : fstep c f (FUnlock o) = Some f' -> base f' = base f /\ mtx f = Some o /\ mtx f' = None.
Proof.
  unfold fstep. destruct (mtx f) as [h|]; [|discriminate].
  destruct (owner_eqb h o) eqn:E; [|discriminate]. intro H. injection H as <-. cbn. repeat split.
  destruct h, o; cbn in E; try discriminate; auto. apply Nat.eqb_eq in E. now subst.
Qed.

Theorem frun_erase c sched : forall f f', frun c f sched = Some f' -> run c (base f) (erase sched) = Some (base f').
Proof.
  induction sched as [|fa r IH]; intros f f' H; cbn in H.
  - now injection H as <-.
  - destruct (fstep c f fa) as [f1|] eqn:E; [|discriminate]. destruct fa as [a|o]; cbn.
    + rewrite (fstep_FA _ _ _ _ E). now apply IH.
    + destruct (fstep_unlock _ _ _ _ E) as (Hb & _). rewrite <- Hb. now apply IH.
Qed.

(* the holder can always release the mutex *)
Lemma unlock_enabled c f o : mtx f = Some o -> fstep c f (FUnlock o) = Some (mkF (base f) None).
Proof.
  intro H. unfold fstep. rewrite H.
  replace (owner_eqb o o) with true; auto. destruct o; cbn; auto. now rewrite Nat.eqb_refl.
Qed.

Lemma needs_mutex_actor c s a : needs_mutex c s a = true -> actor a <> None.
Proof. destruct a; cbn; intros H; try discriminate; intro E; discriminate. Qed.

(* when the mutex is free every action of Reader/Model.v that is enabled there is enabled here *)
Lemma fstep_free c f a s' :
  mtx f = None -> step c (base f) a = Some s' -> exists f', fstep c f (FA a) = Some f' /\ base f' = s'.
Proof.
  intros Hm Hs. unfold fstep, is_owner. rewrite Hm.
  destruct (needs_mutex c (base f) a) eqn:En.
  - rewrite Hs. destruct (actor a) as [o|] eqn:Ea; [eexists; split; [reflexivity|reflexivity]|].
    exfalso. eapply needs_mutex_actor; eauto.
  - rewrite Hs. eexists; split; reflexivity.
Qed.

(* a complete run: nothing but closing the connection is possible *)
Definition fterminal (c : cfg) (f : fstate) : Prop := forall fa, fa <> FA AClose -> fstep c f fa = None.

Lemma fterminal_free c f : fterminal c f -> mtx f = None.
Proof.
  intro H. destruct (mtx f) as [o|] eqn:E; auto.
  specialize (H (FUnlock o) ltac:(discriminate)). rewrite (unlock_enabled c f o E) in H. discriminate.
Qed.

Lemma fterminal_terminal c f : fterminal c f -> terminal c (base f).
Proof.
  intros H a Ha. pose proof (fterminal_free _ _ H) as Hm.
  destruct (step c (base f) a) as [s'|] eqn:E; auto.
  destruct (fstep_free c f a s' Hm E) as (f' & Hf & _).
  rewrite H in Hf; [discriminate|]. intro X. injection X as ->. now apply Ha.
Qed.

(* ------------------------------------------------------------------ *)
(* the theorems of Reader/Proofs.v for the fine-grained model: ALL schedules, including those in which other
   goroutines run while a section of the mutex is open *)

Theorem frun_at_most_once c msgs k sched f :
  NoDup msgs -> frun c (finit msgs k) sched = Some f ->
  NoDup (map fst (log (base f))) /\ incl (map fst (log (base f))) msgs.
Proof. intros Hnd HR. eapply run_at_most_once; eauto. apply (frun_erase _ _ _ _ HR). Qed.

Theorem frun_exactly_once c msgs k sched f :
  repaired_waits c = true ->
  frun c (finit msgs k) sched = Some f -> fterminal c f -> closed (base f) = false ->
  Permutation msgs (map fst (log (base f))).
Proof.
  intros Hpf HR HT Hop. eapply run_exactly_once; eauto using fterminal_terminal. apply (frun_erase _ _ _ _ HR).
Qed.

Theorem frun_nested_returns c msgs k sched f :
  repaired_waits c = true -> NoDup msgs ->
  frun c (finit msgs k) sched = Some f -> fterminal c f -> closed (base f) = false ->
  forall l lp m r ops, nth_error (loops (base f)) l = Some lp -> l_pc lp = PWait m r ops -> own_key c r -> ~ In r msgs.
Proof.
  intros Hpf Hnd HR HT Hop. eapply nested_returns; eauto using fterminal_terminal. apply (frun_erase _ _ _ _ HR).
Qed.

Theorem frun_signal_waits_return c msgs k sched f :
  repaired_waits c = true -> sigs_wf c msgs ->
  frun c (finit msgs k) sched = Some f -> fterminal c f -> closed (base f) = false ->
  forall l lp m r ops, nth_error (loops (base f)) l = Some lp -> l_pc lp = PWaitS m r ops -> forall q, ~ In (r, q) (sigs c).
Proof.
  intros Hpf Hwf HR HT Hop. eapply signal_waits_return; eauto using fterminal_terminal. apply (frun_erase _ _ _ _ HR).
Qed.

Theorem frun_in_order_complete c msgs k sched f :
  fixed c = true -> repaired_waits c = true ->
  frun c (finit msgs k) sched = Some f -> calm c (init msgs k) (erase sched) = true ->
  fterminal c f -> closed (base f) = false -> map fst (log (base f)) = msgs.
Proof.
  intros Hf Hpf HR HC HT Hop. eapply run_in_order_complete; eauto using fterminal_terminal. apply (frun_erase _ _ _ _ HR).
Qed.

Theorem fmodel_satisfies_spec c msgs k sched f nb :
  fixed c = true -> repaired_waits c = true -> NoDup msgs ->
  (forall r, In r msgs -> own_key c r) ->
  frun c (finit msgs k) sched = Some f -> fterminal c f -> closed (base f) = false ->
  (nb = true -> calm c (init msgs k) (erase sched) = true) ->
  holds (obs_of msgs (base f) nb) = true.
Proof.
  intros Hf Hpf Hnd Hown HR HT Hop Hnb. eapply model_satisfies_spec; eauto using fterminal_terminal.
  apply (frun_erase _ _ _ _ HR).
Qed.

(* never stalls, with goroutines inside the mutex sections: in every reachable state with the connection open either
   somebody holds the mutex - and can release it - or the mutex is free and there is a current loop, different from
   every blocked loop, not replaced, not exited, not blocked, at its select or able to move *)
Theorem frun_never_stalls c msgs k sched f :
  repaired_waits c = true ->
  frun c (finit msgs k) sched = Some f -> closed (base f) = false ->
  (exists o f', mtx f = Some o /\ fstep c f (FUnlock o) = Some f') \/
  (mtx f = None /\
   exists lc, nth_error (loops (base f)) (cur (base f)) = Some lc /\ l_done lc = false /\ l_pc lc <> PExit /\
     blocked_pc (l_pc lc) = false /\
     (l_pc lc = PSelect \/ exists f', fstep c f (FA (ALoop (cur (base f)) AltQueue)) = Some f') /\
     forall l lp, nth_error (loops (base f)) l = Some lp -> blocked_pc (l_pc lp) = true -> l <> cur (base f)).
Proof.
  intros Hpf HR Hop. destruct (mtx f) as [o|] eqn:Em.
  - left. exists o. eexists. split; auto. now apply unlock_enabled.
  - right. split; auto.
    destruct (run_never_stalls c msgs k (erase sched) (base f) Hpf (frun_erase _ _ _ _ HR) Hop)
      as (lc & H1 & H2 & H3 & H4 & H5 & H6).
    exists lc. repeat split; auto.
    destruct H5 as [H5|[s' H5]]; auto. right.
    destruct (fstep_free c f _ s' Em H5) as (f' & Hf & _). eauto.
Qed.

(* a loop holds the mutex only between an action that needs it and its unlock: the holder, when it is a loop, exists *)
Definition HInv (f : fstate) : Prop :=
  match mtx f with Some (OLoop l) => (l < length (loops (base f)))%nat | _ => True end.

Lemma step_loops_grow c s a s' : step c s a = Some s' -> (length (loops s) <= length (loops s'))%nat.
Proof.
  intro H. apply step_Step in H.
  assert (Htr : forall x, (length (loops x) <= length (loops (try_replace x)))%nat).
  { intro x. destruct (try_replace_cases x) as [->|(lc & _ & _ & ->)]; auto. cbn. rewrite app_length, length_upd. lia. }
  destruct H; cbn; try rewrite ?length_upd; auto;
    try (eapply Nat.le_trans; [|apply Htr]; cbn; rewrite ?length_upd; auto).
  - destruct (lockfix c); [eapply Nat.le_trans; [|apply Htr]|]; cbn; rewrite length_upd; auto.
  - destruct (pingfix c); [eapply Nat.le_trans; [|apply Htr]|]; cbn; rewrite length_upd; auto.
Qed.

Lemma HInv_step c f fa f' : HInv f -> fstep c f fa = Some f' -> HInv f'.
Proof.
  intros HI HS. destruct fa as [a|o].
  - pose proof (fstep_FA _ _ _ _ HS) as Hb. pose proof (step_loops_grow _ _ _ _ Hb) as Hg.
    unfold fstep in HS. destruct (is_owner f a); [discriminate|].
    destruct (needs_mutex c (base f) a) eqn:En.
    + destruct (mtx f); [discriminate|]. rewrite Hb in HS. destruct (actor a) as [o|] eqn:Ea; [|discriminate].
      injection HS as <-. unfold HInv. cbn. destruct o as [l|]; auto.
      destruct a as [| | | |l0 al]; cbn in Ea; try discriminate. injection Ea as <-.
      cbn in En. destruct (nth_error (loops (base f)) l0) eqn:E0; [|discriminate].
      apply nth_error_lt in E0. lia.
    + rewrite Hb in HS. injection HS as <-. unfold HInv in *. cbn. destruct (mtx f) as [[l|]|]; auto. lia.
  - destruct (fstep_unlock _ _ _ _ HS) as (_ & _ & Hm). unfold HInv. now rewrite Hm.
Qed.

(* ------------------------------------------------------------------ *)
(* Why the Lock has to be a blocking one.  [fstep_try]: TryToReplaceLoop gives up when it finds the mutex held
   (TryLock; "another caller is replacing the loop right now"): the call has no effect at all, the caller goes on.
   The re-lock of the loop stays a blocking Lock. *)

Definition step_noreplace (c : cfg) (s : st) (a : act) : option st :=
  match a with
  | AExt => match ext s with
            | O => None
            | S k => Some (mkSt (queue s) (prod s) k (closed s) (cur s) (loops s) (commits s) (log s) (sigd s))
            end
  | ALoop l _ =>
      match nth_error (loops s) l with
      | None => None
      | Some lp =>
          match l_pc lp with
          | PRun m (HReplace :: ops) => Some (set_pc s l lp (PRun m ops))
          | PRun m (HNested r :: ops) => Some (set_pc s l lp (PWait m r ops))
          | PRun m (HAck r :: ops) => Some (set_pc s l lp (PWaitS m r ops))
          | PRun m (HPing r :: ops) => Some (set_pc s l lp (PWaitS m r ops))
          | PBusy m =>
              if lock_held c s m
              then Some (mkSt (queue s) (prod s) (ext s) (closed s) (cur s)
                              (upd l (mkLoop (l_done lp) (l_reading lp) (PLock m)) (loops s)) (commits s) (log s ++ [(m, l)]) (sigd s))
              else None
          | _ => None
          end
      end
  | _ => None
  end.

Definition is_relock (s : st) (a : act) : bool :=
  match a with
  | ALoop l _ => match nth_error (loops s) l with
                 | Some lp => match l_pc lp with PRun _ [] => true | _ => false end
                 | None => false
                 end
  | _ => false
  end.

Definition fstep_try (c : cfg) (f : fstate) (fa : fact) : option fstate :=
  match fa with
  | FA a =>
      if negb (is_owner f a) && needs_mutex c (base f) a && negb (is_relock (base f) a) &&
         match mtx f with Some _ => true | None => false end
      then match step_noreplace c (base f) a with Some s' => Some (mkF s' (mtx f)) | None => None end
      else fstep c f fa
  | _ => fstep c f fa
  end.

Fixpoint frun_gen (stp : cfg -> fstate -> fact -> option fstate) (c : cfg) (f : fstate) (sched : list fact) : option fstate :=
  match sched with
  | [] => Some f
  | a :: r => match stp c f a with None => None | Some f' => frun_gen stp c f' r end
  end.

(* executable: no action but closing the connection is enabled *)
Definition fquiescent_gen (stp : cfg -> fstate -> fact -> option fstate) (c : cfg) (f : fstate) : bool :=
  let dead fa := match stp c f fa with None => true | Some _ => false end in
  match mtx f with Some _ => false | None => true end &&
  dead (FA APush) && dead (FA AExt) &&
  forallb (fun e => dead (FA (ASig (fst e)))) (sigs c) &&
  forallb (fun l => dead (FA (ALoop l AltDone)) && dead (FA (ALoop l AltQueue)) && dead (FA (ALoop l AltConn)))
          (seq 0 (length (loops (base f)))).

Definition fquiescent (c : cfg) (f : fstate) : bool := fquiescent_gen fstep c f.

(* messages 1 and 2 are requests whose handlers issue a nested request answered by message 3; queue size 1 *)
Definition try_cfg : cfg := mkCfg 1 true true true true [(1, [HNested 3]); (2, [HNested 3])] [] [].
Definition try_sched : list fact :=
  let L0 := FA (ALoop 0 AltQueue) in let L1 := FA (ALoop 1 AltQueue) in
  [FA APush; L0; L0; L0;       (* loop 0 dispatches message 1 *)
   L0;                         (* its handler calls TryToReplaceLoop: loop 1 is started, loop 0 still holds the mutex *)
   FA APush; L1; L1; L1;       (* loop 1 takes message 2 and dispatches it *)
   L1;                         (* its handler calls TryToReplaceLoop: the mutex is held *)
   FUnlock (OLoop 0);          (* loop 0 unlocks and waits for message 3 *)
   FA APush].                  (* message 3 arrives *)

(* TryLock shape: the call of loop 1's handler has no effect; both handlers wait for message 3, which sits in the
   queue, and no loop reads the queue: the run is complete, the connection open, message 3 is never dispatched *)
Theorem trylock_stalls :
  exists f, frun_gen fstep_try try_cfg (finit [1; 2; 3] 0) try_sched = Some f /\
    fquiescent_gen fstep_try try_cfg f = true /\ closed (base f) = false /\
    map fst (log (base f)) = [1; 2] /\ queue (base f) = [3] /\ prod (base f) = [] /\ length (loops (base f)) = 2%nat /\
    (exists lp, nth_error (loops (base f)) 0 = Some lp /\ l_pc lp = PWait 1 3 []) /\
    (exists lp, nth_error (loops (base f)) 1 = Some lp /\ l_pc lp = PWait 2 3 []) /\
    none_dropped (obs_of [1; 2; 3] (base f) false) = false.
Proof.
  eexists. split; [vm_compute; reflexivity|].
  split; [vm_compute; reflexivity|]. split; [reflexivity|]. split; [reflexivity|]. split; [reflexivity|].
  split; [reflexivity|]. split; [reflexivity|].
  split; [eexists; split; reflexivity|]. split; [eexists; split; reflexivity|]. reflexivity.
Qed.

(* the code as it is (blocking Lock): the same prefix cannot go on like that - loop 1's call is not enabled while
   loop 0 holds the mutex - and after the unlock it installs loop 2, which dispatches message 3; both requests return *)
Lemma lock_blocks_then_replaces :
  let pre := firstn 9 try_sched in
  (exists f, frun try_cfg (finit [1; 2; 3] 0) pre = Some f /\ mtx f = Some (OLoop 0) /\
             fstep try_cfg f (FA (ALoop 1 AltQueue)) = None) /\
  (exists f, frun try_cfg (finit [1; 2; 3] 0)
               (pre ++ [FUnlock (OLoop 0); FA (ALoop 1 AltQueue); FUnlock (OLoop 1); FA APush;
                        FA (ALoop 2 AltQueue); FA (ALoop 2 AltQueue); FA (ALoop 2 AltQueue);
                        FA (ALoop 0 AltQueue); FA (ALoop 1 AltQueue)]) = Some f /\
             map fst (log (base f)) = [1; 2; 3] /\ length (loops (base f)) = 3%nat /\
             forallb (fun lp => negb (blocked_pc (l_pc lp))) (loops (base f)) = true).
Proof.
  split.
  - eexists. split; [vm_compute; reflexivity|]. split; reflexivity.
  - eexists. split; [vm_compute; reflexivity|]. repeat split; reflexivity.
Qed.

(* the executable test decides [fterminal] *)
Lemma fquiescent_fterminal c f : fquiescent c f = true -> fterminal c f.
Proof.
  unfold fquiescent, fquiescent_gen. intros H fa Hfa.
  repeat (apply andb_true_iff in H as [H ?]).
  destruct (mtx f) as [o|] eqn:Em; [discriminate|].
  destruct fa as [a|o].
  - destruct a as [| | |r|l a].
    + destruct (fstep c f (FA APush)); auto; discriminate.
    + congruence.
    + destruct (fstep c f (FA AExt)); auto; discriminate.
    + destruct (fstep c f (FA (ASig r))) as [f'|] eqn:E; auto. exfalso.
      pose proof (fstep_FA _ _ _ _ E) as Hs. cbn in Hs.
      destruct (sig_enabled c (base f) r) eqn:Es; [|discriminate].
      unfold sig_enabled in Es. apply andb_true_iff in Es as [_ Es].
      apply existsb_exists in Es as (e & Hin & He). apply andb_true_iff in He as [He _]. apply Z.eqb_eq in He.
      match goal with Hs : forallb _ (sigs c) = true |- _ => rewrite forallb_forall in Hs; specialize (Hs _ Hin) end.
      rewrite He in *. match goal with X : match fstep c f (FA (ASig r)) with _ => _ end = true |- _ => rewrite E in X; discriminate end.
    + destruct (Nat.lt_ge_cases l (length (loops (base f)))) as [Hlt|Hge].
      * match goal with Hl : forallb _ (seq _ _) = true |- _ => rewrite forallb_forall in Hl; specialize (Hl l ltac:(apply in_seq; lia)) end.
        repeat match goal with X : _ && _ = true |- _ => apply andb_true_iff in X as [X ?] end.
        destruct a.
        -- destruct (fstep c f (FA (ALoop l AltDone))); auto; discriminate.
        -- destruct (fstep c f (FA (ALoop l AltQueue))); auto; discriminate.
        -- destruct (fstep c f (FA (ALoop l AltConn))); auto; discriminate.
      * destruct (fstep c f (FA (ALoop l a))) as [f'|] eqn:E; auto. exfalso.
        pose proof (fstep_FA _ _ _ _ E) as Hs. cbn in Hs. unfold step_loop in Hs.
        apply nth_error_None in Hge. rewrite Hge in Hs. discriminate.
  - unfold fstep. now rewrite Em.
Qed.
