(* C11 — udp/client: the connection's own message-ID counter.

     cc.msgID            atomic.Uint32, started at uint32(cfg.GetMID() - 0xffff/2)
     GetMessageID()      int32(uint16(cc.msgID.Inc()))
     checkMyMessageID(r) called by Conn.Process for every datagram before anything else:
                           if r.Type() == Confirmable {
                             for { old := msgID.Load()
                                   if uint16(r.MessageID()) - uint16(msgID.Load()) >= 0xffff/4 { return }
                                   if msgID.CompareAndSwap(old, old + 0xffff/2) { break } } }
                         (the subtraction is a uint16 subtraction: it wraps)

   checkMyMessageID keeps the IDs the connection is going to draw away from the ID of a confirmable message of the
   peer.  Reader/Model.v explains why that matters for C11: handleReq holds the lock of a message's ID while the
   handler runs; before the repair of handleReq an ACK took the lock of ITS ID as well, so a nested request of that
   handler whose drawn ID equalled the ID of the request being handled never got its piggybacked response
   ([Proofs.ack_collision_refuted]: checkMyMessageID does not look at NON messages at all).  In the repaired code an
   ACK takes no lock and the counter arithmetic is no longer needed for C11; it is kept here because the correspondence
   cases of the message-ID family (Run.MidC) record the drawn IDs, and to state what the guard does guarantee. *)
From Coq Require Import ZArith Lia Bool.
Open Scope Z_scope.

Definition u16 (x : Z) : Z := x mod 65536.
Definition u32 (x : Z) : Z := x mod 4294967296.

(* the counter after GetMessageID, and the ID it returns *)
Definition next_ctr (c : Z) : Z := u32 (c + 1).
Definition drawn (c : Z) : Z := u16 (next_ctr c).

(* the counter after checkMyMessageID for a message of type [typ] (0 = CON) with message ID [p] *)
Definition check_my_mid (c typ p : Z) : Z :=
  if typ =? 0 then (if u16 (u16 p - u16 c) >=? 16383 then c else u32 (c + 32767)) else c.

(* the counter after j more draws *)
Fixpoint after_draws (j : nat) (c : Z) : Z :=
  match j with O => c | S k => after_draws k (next_ctr c) end.

Ltac zmod := Zify.zify; Z.div_mod_to_equations; lia.

Lemma after_draws_u16 j c : u16 (after_draws j c) = u16 (c + Z.of_nat j).
Proof.
  revert c. induction j as [|j IH]; intro c; cbn [after_draws].
  - f_equal. lia.
  - rewrite IH. unfold next_ctr, u16, u32.
    replace (c + Z.of_nat (S j)) with (c + 1 + Z.of_nat j) by lia.
    zmod.
Qed.

(* what the guard achieves: after a confirmable message of the peer with ID p has passed checkMyMessageID, the own
   counter is at least 0x3fff draws away from p (16-bit arithmetic: also across the wrap of either counter) ... *)
Theorem check_my_mid_distance c p :
  16383 <= u16 (u16 p - u16 (check_my_mid c 0 p)).
Proof.
  unfold check_my_mid. cbn [Z.eqb].
  destruct (u16 (u16 p - u16 c) >=? 16383) eqn:E.
  - apply Z.geb_le in E. lia.
  - assert (E' : u16 (u16 p - u16 c) < 16383) by (destruct (Z.geb_spec (u16 (u16 p - u16 c)) 16383); [discriminate|lia]).
    clear E. unfold u16, u32 in *. zmod.
Qed.

(* ... hence none of the next 16382 IDs the connection draws equals p *)
Theorem check_my_mid_keeps_away c p (j : nat) :
  1 <= Z.of_nat j <= 16382 ->
  u16 (after_draws j (check_my_mid c 0 p)) <> u16 p.
Proof.
  intros Hj. rewrite after_draws_u16.
  pose proof (check_my_mid_distance c p) as Hd.
  set (c' := check_my_mid c 0 p) in *. clearbody c'.
  set (z := Z.of_nat j) in *. clearbody z.
  unfold u16 in *. intro E. Z.div_mod_to_equations. lia.
Qed.

(* it does nothing for the other message types, whatever their ID *)
Lemma check_my_mid_other c typ p : typ <> 0 -> check_my_mid c typ p = c.
Proof. intro H. unfold check_my_mid. destruct (Z.eqb_spec typ 0); [contradiction|reflexivity]. Qed.

(* so the very next draw can equal the ID of a NON request that has just arrived *)
Example non_request_collides : drawn (check_my_mid 1000 1 1001) = 1001.
Proof. reflexivity. Qed.

(* the wrap: own counter 0xffff, confirmable request of the peer with ID 0 -> the counter is moved *)
Example wrap_is_guarded : drawn (check_my_mid 65535 0 0) <> 0 /\ check_my_mid 65535 0 0 = 98302.
Proof. split; [intro H; discriminate H | reflexivity]. Qed.
