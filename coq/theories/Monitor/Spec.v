(* C18 -- the property, written from its text only, as an executable judge of an
   OBSERVED history: a list of (event, what the monitor was seen to do).

   Vocabulary of the property text:
   * "message received from the peer at t": events Recv t, Pong g t, and a
     datagram Dgram t that was accepted by the (still open) connection;
   * "housekeeping tick at time tau": Tick tau; the datagram path of the udp
     server ticks at tau = t + look (look = its documented look-ahead);
   * "no message was received for a full period" at tau: every message time r
     seen so far (and the creation time t0) satisfies r + period < tau; then the
     monitor must act.  It must not act while some r + period > tau.  At the
     exact boundary r + period = tau the text allows both;
   * a "failure" (unanswered probe round): a tick at which the monitor acted
     (sent or tried to send a ping, or closed).  maxRetries = max: failures
     1..max send a ping each, failure max+1 closes -- "closed only after more
     than max consecutive pings went unanswered" is read as: at the closing tick
     at least max failures precede it since the last reset, each of which sent
     (or tried to send) a ping that nobody answered, with no message in between;
   * reset points: any received message, or the answer (PongCb g) to the
     CURRENT ping, i.e. g is the generation of the latest ping sent; an answer
     to an earlier generation is not a reset point;
   * stream connections: the unit of the property is the MESSAGE.  Bytes that
     arrive without completing a message (Frag t: part of a header, or a header
     announcing a body that has not arrived) are not "a message received from
     the peer": they are neither a reception time nor a reset point.  A message
     is received at the time of the read that delivers its last byte (see the
     byte-level section at the end of this file);
   * "received from the peer": what the LOCAL side transmits (Sent t: a request, a
     notification, a confirmable message waiting for its acknowledgement) is not a
     message received from the peer: neither a reception time nor a reset point.
     A peer that is sent to but says nothing is as silent as any other;
   * several connections: the text speaks about "a connection" and "the peer": the
     messages, ticks, pings and failures that count for connection i are its own.
     What other connections of the same server / made from the same option receive,
     or how many pings THEY left unanswered, is nothing to connection i (see the
     section "several connections" below). *)
From Coq Require Import ZArith NArith List Bool.
From GoCoap Require Import Monitor.Model.
Import ListNotations.
Open Scope Z_scope.

Record params := { p_t0 : Z; p_period : Z; p_max : Z; p_ka : bool; p_look : Z }.

Definition item := (ev * list obs)%type.

Definition is_close (o : obs) : bool := match o with Close => true | _ => false end.
Definition is_strike (o : obs) : bool := match o with Close | Ping _ | PingFail _ => true | Cancel _ => false end.
Definition has_close (o : list obs) : bool := existsb is_close o.
Definition has_strike (o : list obs) : bool := existsb is_strike o.

(* history so far, most recent first *)
Fixpoint was_closed (past : list item) : bool :=
  match past with [] => false | (_, o) :: r => has_close o || was_closed r end.

(* time at which the item delivered a message to the connection *)
Definition rx_time (it : item) : option Z :=
  match it with
  | (Recv t, _) => Some t
  | (Pong _ t, _) => Some t
  | (Dgram t _, o) => if has_close o then None else Some t
  | _ => None
  end.

Fixpoint rx_all (past : list item) : list Z :=
  match past with
  | [] => []
  | it :: r => match rx_time it with Some t => t :: rx_all r | None => rx_all r end
  end.

(* effective time of the tick an event performs *)
Definition tick_time (P : params) (e : ev) : option Z :=
  match e with Tick t _ => Some t | Dgram t _ => Some (t + p_look P) | _ => None end.

Definition idle_at (P : params) (past : list item) (tau : Z) : bool :=
  negb (p_period P =? 0) && forallb (fun r => r + p_period P <? tau) (p_t0 P :: rx_all past).

(* the exact boundary: the latest message is at least a full period old (the
   text allows a close when exactly one period has passed, and does not demand it) *)
Definition quiet_at (P : params) (past : list item) (tau : Z) : bool :=
  negb (p_period P =? 0) && forallb (fun r => r + p_period P <=? tau) (p_t0 P :: rx_all past).

(* generation of the latest ping sent or attempted (0: none yet) *)
Fixpoint ping_of (o : list obs) : option Z :=
  match o with
  | [] => None
  | Ping g :: _ => Some g
  | PingFail g :: _ => Some g
  | _ :: r => ping_of r
  end.
Fixpoint cur_gen (past : list item) : Z :=
  match past with
  | [] => 0
  | (_, o) :: r => match ping_of o with Some g => g | None => cur_gen r end
  end.

(* is the item a reset point, given what preceded it *)
Definition is_reset (older : list item) (it : item) : bool :=
  match it with
  | (Recv _, _) => true
  | (Pong _ _, _) => true
  | (Dgram _ _, o) => negb (has_close o)
  | (PongCb g, _) => g =? cur_gen older
  | (Tick _ _, _) => false
  | (Frag _, _) => false
  | (Sent _, _) => false
  end.

(* consecutive failures since the last reset point *)
Fixpoint failures (past : list item) : Z :=
  match past with
  | [] => 0
  | (e, o) :: r => if is_reset r (e, o) then 0 else (if has_strike o then 1 else 0) + failures r
  end.

(* Verdict on one item given the past: 0 = as the property demands;
   1 closed although a message was received within the period
   2 keep-alive failure counted (ping) although a message was received within the period
   3 no action at a tick although nothing was received for a full period
   4 keep-alive closed after at most max consecutive unanswered pings
   5 keep-alive did not close at failure max+1 (credit given where none is due)
   7 the monitor acted outside a tick or after the connection was closed *)
Definition judge (P : params) (past : list item) (it : item) : N :=
  let '(e, o) := it in
  if was_closed past then (if has_strike o then 7%N else 0%N)
  else match tick_time P e with
  | None => if has_strike o then 7%N else 0%N
  | Some tau =>
      if negb (quiet_at P past tau) then
        (if has_close o then 1%N else if has_strike o then 2%N else 0%N)
      else if negb (has_strike o) then (if idle_at P past tau then 3%N else 0%N)
      else if negb (p_ka P) then (if has_close o then 0%N else 3%N)
      else if has_close o then (if p_max P <=? failures past then 0%N else 4%N)
      else if p_max P <=? failures past then 5%N
      else 0%N
  end.

Fixpoint judge_all (P : params) (past rest : list item) : N :=
  match rest with
  | [] => 0%N
  | it :: r => let c := judge P past it in if (c =? 0)%N then judge_all P (it :: past) r else c
  end.

Definition spec_ok (P : params) (trace : list item) : bool := (judge_all P [] trace =? 0)%N.

(* ---- several connections ----------------------------------------------------------
   An observed system trace tags every item with the connection it belongs to.  The
   property has to hold for every connection on ITS sub-trace. *)
Definition mitem := (mev * list obs)%type.

Fixpoint proj (i : nat) (tr : list mitem) : list item :=
  match tr with
  | [] => []
  | ((j, e), o) :: r => if Nat.eqb j i then (e, o) :: proj i r else proj i r
  end.

(* first connection (lowest index) whose sub-trace the judge rejects; P i = parameters of connection i *)
Fixpoint mjudge_from (P : nat -> params) (i n : nat) (tr : list mitem) : N :=
  match n with
  | O => 0%N
  | S m => let c := judge_all (P i) [] (proj i tr) in
           if (c =? 0)%N then mjudge_from P (S i) m tr else c
  end.

Definition mjudge (P : nat -> params) (n : nat) (tr : list mitem) : N := mjudge_from P 0 n tr.

(* ---- stream connections, byte level ---------------------------------------------
   The peer's stream is a sequence of messages whose encoded sizes are [sizes]
   (RFC 8323 3.2 framing: the size of a message is fixed by its own header); the
   socket hands the bytes over in reads of arbitrary lengths (Model.bev).  Message
   k has been received once ALL its bytes have been read, i.e. once the number of
   bytes read so far reaches the sum of the first k sizes; its reception time is
   the time of the read that crossed that mark.  Nothing here looks at the code. *)

(* how many leading messages are complete once n bytes have been read *)
Fixpoint complete (sizes : list Z) (n : Z) : nat :=
  match sizes with
  | [] => O
  | s :: r => if s <=? n then S (complete r (n - s)) else O
  end.

Definition total (sizes : list Z) : Z := fold_right Z.add 0 sizes.

(* k messages completed by a read at t: k receptions at t; none: a fragment *)
Definition rx_evs (k : nat) (t : Z) : list ev :=
  match k with O => [Frag t] | _ => repeat (Recv t) k end.

(* the events (in the vocabulary above) a byte-level history amounts to, one group per byte-level event;
   [got] = bytes read so far (the peer never sends more than the whole stream) *)
Fixpoint sabs (sizes : list Z) (got : Z) (bh : list bev) : list (list ev) :=
  match bh with
  | [] => []
  | BTick t ok :: r => [Tick t ok] :: sabs sizes got r
  | BRead t n :: r =>
      let got' := Z.min (got + Z.of_nat n) (total sizes) in
      rx_evs (complete sizes got' - complete sizes got) t :: sabs sizes got' r
  end.

(* observed byte-level trace -> observed trace: whatever the monitor was seen to do
   during a byte-level event is attached to the first event of its group *)
Definition group_items (g : list ev) (o : list obs) : list item :=
  match g with [] => [] | e :: r => (e, o) :: map (fun e' => (e', [])) r end.

Fixpoint zip_items (gs : list (list ev)) (os : list (list obs)) : list item :=
  match gs, os with
  | g :: gr, o :: orest => group_items g o ++ zip_items gr orest
  | _, _ => []
  end.

Definition stream_judge (P : params) (sizes : list Z) (btrace : list (bev * list obs)) : N :=
  judge_all P [] (zip_items (sabs sizes 0 (map fst btrace)) (map snd btrace)).
