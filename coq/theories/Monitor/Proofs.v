(* C18 -- proofs that the model of the monitors satisfies the property for all
   event histories (no bound on length, times, retry limit below 2^32-1). *)
From Coq Require Import ZArith NArith List Bool Lia.
From GoCoap Require Import Gen.MonitorTiming Monitor.Model Monitor.Spec.
Import ListNotations.
Open Scope Z_scope.

(* configuration as the code can hold it: maxRetries is a uint32; 2^32-1 is
   excluded because options.WithKeepAlive divides by maxRetries+1 computed in
   uint32 (Model.ka_period: run-time panic) *)
Definition wf (c : cfg) : Prop := 0 <= maxr c < 2 ^ 32 - 1.

Definition P_of (c : cfg) (t0 : Z) : params :=
  {| p_t0 := t0; p_period := period c; p_max := maxr c; p_ka := ka c; p_look := slack |}.

(* message arrival times never go backwards *)
Definition ev_rx (e : ev) : option Z :=
  match e with Recv t => Some t | Pong _ t => Some t | Dgram t _ => Some t | _ => None end.

Fixpoint rx_ordered (lo : Z) (h : list ev) : Prop :=
  match h with
  | [] => True
  | e :: r => match ev_rx e with
              | Some t => lo <= t /\ rx_ordered t r
              | None => rx_ordered lo r
              end
  end.

(* ---- state-level facts ---------------------------------------------------- *)

(* a pong for a superseded generation changes nothing *)
Lemma late_pong_cb : forall s g, g <> token s -> pong_cb s g = s.
Proof.
  intros s g Hg. unfold pong_cb. destruct (Z.eqb_spec (token s) g) as [E|E]; [congruence|reflexivity].
Qed.

(* a late pong datagram is worth exactly as much as any other message *)
Lemma late_pong_is_recv : forall c s g t, g <> token s -> step c s (Pong g t) = step c s (Recv t).
Proof.
  intros c s g t Hg. unfold step. destruct (closed s); [reflexivity|].
  rewrite late_pong_cb; [reflexivity|]. cbn [notify token]. exact Hg.
Qed.

Lemma current_pong_resets : forall s, fails (pong_cb s (token s)) = 0.
Proof. intros s. unfold pong_cb. rewrite Z.eqb_refl. reflexivity. Qed.

Lemma message_resets : forall c s t, ka c = true -> fails (notify c s t) = 0.
Proof. intros c s t K. unfold notify. cbn [fails]. rewrite K. reflexivity. Qed.

(* ---- invariant tying the state to the observed past ------------------------ *)

Record Inv (c : cfg) (t0 : Z) (s : st) (past : list item) : Prop := {
  i_closed : closed s = was_closed past;
  i_fails  : closed s = false -> ka c = true -> fails s = failures past /\ 0 <= fails s <= maxr c;
  i_token  : closed s = false -> token s = cur_gen past;
  i_last_in : closed s = false -> In (last s) (t0 :: rx_all past);
  i_last_ub : closed s = false -> forall r, In r (t0 :: rx_all past) -> r <= last s
}.

Lemma forallb_lt_last : forall (l : list Z) (m p tau : Z),
  In m l -> (forall r, In r l -> r <= m) ->
  forallb (fun r => r + p <? tau) l = (m + p <? tau).
Proof.
  intros l m p tau Hin Hub.
  destruct (m + p <? tau) eqn:E.
  - apply forallb_forall. intros r Hr. apply Z.ltb_lt. apply Z.ltb_lt in E. specialize (Hub r Hr). lia.
  - destruct (forallb (fun r => r + p <? tau) l) eqn:F; [|reflexivity].
    rewrite forallb_forall in F. specialize (F m Hin). cbv beta in F. congruence.
Qed.

Lemma idle_at_last : forall c t0 s past tau, Inv c t0 s past -> closed s = false ->
  idle_at (P_of c t0) past tau = negb (period c =? 0) && (last s + period c <? tau).
Proof.
  intros c t0 s past tau I Hc. unfold idle_at. cbn [p_period p_t0 P_of]. f_equal.
  apply forallb_lt_last; [apply (i_last_in _ _ _ _ I Hc)|apply (i_last_ub _ _ _ _ I Hc)].
Qed.

Lemma forallb_le_last : forall (l : list Z) (m p tau : Z),
  In m l -> (forall r, In r l -> r <= m) ->
  forallb (fun r => r + p <=? tau) l = (m + p <=? tau).
Proof.
  intros l m p tau Hin Hub.
  destruct (m + p <=? tau) eqn:E.
  - apply forallb_forall. intros r Hr. apply Z.leb_le. apply Z.leb_le in E. specialize (Hub r Hr). lia.
  - destruct (forallb (fun r => r + p <=? tau) l) eqn:F; [|reflexivity].
    rewrite forallb_forall in F. specialize (F m Hin). cbv beta in F. congruence.
Qed.

Lemma quiet_at_last : forall c t0 s past tau, Inv c t0 s past -> closed s = false ->
  quiet_at (P_of c t0) past tau = negb (period c =? 0) && (last s + period c <=? tau).
Proof.
  intros c t0 s past tau I Hc. unfold quiet_at. cbn [p_period p_t0 P_of]. f_equal.
  apply forallb_le_last; [apply (i_last_in _ _ _ _ I Hc)|apply (i_last_ub _ _ _ _ I Hc)].
Qed.

Lemma has_strike_cancel : forall s x, is_strike x = true -> has_strike (cancel_obs s ++ [x]) = true.
Proof. intros s x Hx. unfold cancel_obs, has_strike. destruct (pending s); cbn; rewrite Hx; reflexivity. Qed.

Lemma has_close_cancel : forall s x, has_close (cancel_obs s ++ [x]) = is_close x.
Proof. intros s x. unfold cancel_obs, has_close. destruct (pending s); cbn; rewrite orb_false_r; reflexivity. Qed.

Lemma ping_of_cancel_ping : forall s g, ping_of (cancel_obs s ++ [Ping g]) = Some g.
Proof. intros s g. unfold cancel_obs. destruct (pending s); reflexivity. Qed.

Lemma ping_of_cancel_fail : forall s g, ping_of (cancel_obs s ++ [PingFail g]) = Some g.
Proof. intros s g. unfold cancel_obs. destruct (pending s); reflexivity. Qed.

Lemma ping_of_cancel_close : forall s, ping_of (cancel_obs s ++ [Close]) = None.
Proof. intros s. unfold cancel_obs. destruct (pending s); reflexivity. Qed.

(* what a tick at effective time tau does, and that the judge accepts it *)
Lemma check_ok : forall c t0 s past e tau ok,
  wf c -> Inv c t0 s past -> closed s = false ->
  tick_time (P_of c t0) e = Some tau ->
  forall s1 o, check c s tau ok = (s1, o) ->
  judge (P_of c t0) past (e, o) = 0%N /\
  closed s1 = has_close o /\ last s1 = last s /\
  (closed s1 = false -> token s1 = match ping_of o with Some g => g | None => cur_gen past end) /\
  (closed s1 = false -> ka c = true ->
     fails s1 = (if has_strike o then 1 else 0) + failures past /\ 0 <= fails s1 <= maxr c).
Proof.
  intros c t0 s past e tau ok W I Hc Ht s1 o Hchk.
  unfold judge. rewrite <- (i_closed _ _ _ _ I), Hc, Ht.
  rewrite (idle_at_last _ _ _ _ tau I Hc), (quiet_at_last _ _ _ _ tau I Hc).
  cbn [p_ka p_max P_of].
  pose proof (i_token _ _ _ _ I Hc) as Htok.
  unfold check in Hchk.
  destruct (period c =? 0) eqn:Ep.
  { inversion Hchk; subst s1 o. cbn. repeat split; auto;
      match goal with K : ka c = true |- _ => destruct (i_fails _ _ _ _ I Hc K) as [A B]; lia end. }
  cbn [negb andb].
  assert (Hgt : (tau >? last s + period c) = (last s + period c <? tau)).
  { rewrite Z.gtb_ltb. reflexivity. }
  rewrite Hgt in Hchk.
  destruct (last s + period c <? tau) eqn:Eidle.
  2:{ inversion Hchk; subst s1 o. cbn. destruct (last s + period c <=? tau); cbn; repeat split; auto;
      match goal with K : ka c = true |- _ => destruct (i_fails _ _ _ _ I Hc K) as [A B]; lia end. }
  assert (Eq : (last s + period c <=? tau) = true) by (apply Z.leb_le; apply Z.ltb_lt in Eidle; lia).
  rewrite Eq. cbn [negb].
  unfold on_inactive in Hchk. destruct (ka c) eqn:K.
  2:{ inversion Hchk; subst s1 o. cbn. repeat split; auto; discriminate. }
  cbn [negb].
  destruct (i_fails _ _ _ _ I Hc K) as [Hf Hb].
  unfold wf in W.
  unfold ka_on_inactive in Hchk.
  assert (Hv : (fails s + 1) mod 2 ^ 32 = fails s + 1) by (apply Z.mod_small; lia).
  rewrite Hv in Hchk.
  destruct (fails s + 1 >? maxr c) eqn:Ev.
  - inversion Hchk; subst s1 o. cbn [closed last].
    rewrite has_strike_cancel by reflexivity. rewrite has_close_cancel. cbn [is_close negb].
    assert (E : (maxr c <=? failures past) = true) by (apply Z.leb_le; rewrite Z.gtb_ltb in Ev; apply Z.ltb_lt in Ev; lia).
    rewrite E. repeat split; auto; discriminate.
  - assert (Hlt : fails s + 1 <= maxr c) by (rewrite Z.gtb_ltb in Ev; apply Z.ltb_ge in Ev; lia).
    assert (E : (maxr c <=? failures past) = false) by (apply Z.leb_gt; lia).
    destruct ok; inversion Hchk; subst s1 o; cbn [closed last token fails];
      rewrite has_strike_cancel by reflexivity; rewrite has_close_cancel; cbn [is_close negb];
      rewrite E; rewrite ?ping_of_cancel_ping, ?ping_of_cancel_fail;
      (repeat split; auto; intros; lia).
Qed.

Lemma step_ok : forall c t0 s past e,
  wf c -> Inv c t0 s past ->
  (forall t, ev_rx e = Some t -> closed s = false -> last s <= t) ->
  judge (P_of c t0) past (e, snd (step c s e)) = 0%N /\
  Inv c t0 (fst (step c s e)) ((e, snd (step c s e)) :: past).
Proof.
  intros c t0 s past e W I Hord.
  unfold step. destruct (closed s) eqn:Hc.
  { cbn [fst snd]. split.
    - unfold judge. rewrite <- (i_closed _ _ _ _ I), Hc. reflexivity.
    - constructor; cbn [was_closed has_close existsb orb]; try congruence. apply (i_closed _ _ _ _ I). }
  pose proof (i_closed _ _ _ _ I) as Hcl. rewrite Hc in Hcl.
  assert (Wm : 0 <= maxr c) by (unfold wf in W; lia).
  destruct e as [t|g t|g|t ok|t ok|t|t]; cbn [fst snd].
  6,7: (* Frag, Sent: nothing happens, and the judge expects nothing *)
    (split;
     [ unfold judge; rewrite <- Hcl; reflexivity
     | constructor; cbn [was_closed has_close existsb orb rx_all rx_time failures is_reset cur_gen ping_of has_strike]; try congruence;
       [ intros H1 K; destruct (i_fails _ _ _ _ I Hc K) as [Hf Hb]; lia
       | intros _; apply (i_token _ _ _ _ I Hc)
       | intros _; apply (i_last_in _ _ _ _ I Hc)
       | intros _; apply (i_last_ub _ _ _ _ I Hc) ] ]).
  - (* Recv *)
    split.
    + unfold judge. rewrite <- Hcl. reflexivity.
    + specialize (Hord t eq_refl eq_refl).
      constructor; cbn [closed notify was_closed has_close existsb orb fails token last rx_all rx_time failures is_reset cur_gen ping_of]; try congruence.
      * intros _ K. rewrite K. lia.
      * intros _. apply (i_token _ _ _ _ I Hc).
      * intros _. right. left. reflexivity.
      * intros _ r [E|[E|Hr]]; [|lia|].
        -- pose proof (i_last_ub _ _ _ _ I Hc r (or_introl E)). lia.
        -- pose proof (i_last_ub _ _ _ _ I Hc r (or_intror Hr)). lia.
  - (* Pong *)
    split.
    + unfold judge. rewrite <- Hcl. reflexivity.
    + specialize (Hord t eq_refl eq_refl).
      assert (Hpc : forall x, closed (pong_cb x g) = closed x /\ token (pong_cb x g) = token x /\ last (pong_cb x g) = last x)
        by (intros x; unfold pong_cb; destruct (token x =? g); auto).
      destruct (Hpc (notify c s t)) as [Hp1 [Hp2 Hp3]].
      constructor; rewrite ?Hp1, ?Hp2, ?Hp3;
        cbn [closed notify was_closed has_close existsb orb fails token last rx_all rx_time failures is_reset cur_gen ping_of]; try congruence.
      * intros _ K. unfold pong_cb. destruct (token (notify c s t) =? g); cbn [fails notify]; rewrite ?K; lia.
      * intros _. apply (i_token _ _ _ _ I Hc).
      * intros _. right. left. reflexivity.
      * intros _ r [E|[E|Hr]]; [|lia|].
        -- pose proof (i_last_ub _ _ _ _ I Hc r (or_introl E)). lia.
        -- pose proof (i_last_ub _ _ _ _ I Hc r (or_intror Hr)). lia.
  - (* PongCb *)
    split.
    + unfold judge. rewrite <- Hcl. reflexivity.
    + assert (Hpc : closed (pong_cb s g) = closed s /\ token (pong_cb s g) = token s /\ last (pong_cb s g) = last s)
        by (unfold pong_cb; destruct (token s =? g); auto).
      destruct Hpc as [Hp1 [Hp2 Hp3]].
      constructor; rewrite ?Hp1, ?Hp2, ?Hp3;
        cbn [was_closed has_close existsb orb rx_all rx_time failures is_reset cur_gen ping_of has_strike]; try congruence.
      * intros _ K. destruct (i_fails _ _ _ _ I Hc K) as [Hf Hb].
        rewrite <- (i_token _ _ _ _ I Hc). unfold pong_cb. rewrite (Z.eqb_sym g).
        destruct (token s =? g); cbn [fails]; lia.
      * intros _. apply (i_token _ _ _ _ I Hc).
      * intros _. apply (i_last_in _ _ _ _ I Hc).
      * intros _. apply (i_last_ub _ _ _ _ I Hc).
  - (* Tick *)
    destruct (check c s t ok) as [s1 o] eqn:Hchk. cbn [fst snd].
    destruct (check_ok c t0 s past (Tick t ok) t ok W I Hc eq_refl s1 o Hchk) as [J [C1 [L1 [T1 F1]]]].
    split; [exact J|].
    constructor; cbn [was_closed rx_all rx_time failures is_reset cur_gen].
    + rewrite C1, <- Hcl, orb_false_r. reflexivity.
    + intros H1 K. apply (F1 H1 K).
    + intros H1. rewrite (T1 H1). reflexivity.
    + intros _. rewrite L1. apply (i_last_in _ _ _ _ I Hc).
    + intros _. rewrite L1. apply (i_last_ub _ _ _ _ I Hc).
  - (* Dgram *)
    destruct (check c s (t + slack) ok) as [s1 o] eqn:Hchk.
    destruct (check_ok c t0 s past (Dgram t ok) (t + slack) ok W I Hc eq_refl s1 o Hchk) as [J [C1 [L1 [T1 F1]]]].
    specialize (Hord t eq_refl eq_refl).
    destruct (closed s1) eqn:Hc1; cbn [fst snd].
    + split; [exact J|].
      constructor; cbn [was_closed]; try congruence. rewrite Hc1, <- C1. reflexivity.
    + split; [exact J|].
      constructor; cbn [closed notify fails token last was_closed rx_all rx_time failures is_reset cur_gen];
        rewrite <- ?C1, ?Hc1; cbn [negb orb]; try congruence.
      * intros _ K. rewrite K. lia.
      * intros _. rewrite (T1 eq_refl). reflexivity.
      * intros _. right. left. reflexivity.
      * intros _ r [E|[E|Hr]]; [|lia|].
        -- pose proof (i_last_ub _ _ _ _ I Hc r (or_introl E)). lia.
        -- pose proof (i_last_ub _ _ _ _ I Hc r (or_intror Hr)). lia.
Qed.

Lemma check_last : forall c s tau ok, last (fst (check c s tau ok)) = last s.
Proof.
  intros c s tau ok. unfold check, on_inactive, ka_on_inactive.
  destruct (period c =? 0); [reflexivity|].
  destruct (tau >? last s + period c); [|reflexivity].
  destruct (ka c); [|reflexivity].
  destruct ((fails s + 1) mod 2 ^ 32 >? maxr c); [reflexivity|]. destruct ok; reflexivity.
Qed.

Lemma step_last : forall c s e, closed s = false -> closed (fst (step c s e)) = false ->
  last (fst (step c s e)) = match ev_rx e with Some t => t | None => last s end.
Proof.
  intros c s e Hc. unfold step. rewrite Hc.
  destruct e as [t|g t|g|t ok|t ok|t|t]; cbn [fst ev_rx]; intros H1.
  6,7: reflexivity.
  - reflexivity.
  - unfold pong_cb. destruct (token (notify c s t) =? g); reflexivity.
  - unfold pong_cb. destruct (token s =? g); reflexivity.
  - apply check_last.
  - destruct (check c s (t + slack) ok) as [s1 o] eqn:E. destruct (closed s1) eqn:C1; cbn [fst] in *.
    + congruence.
    + reflexivity.
Qed.

Lemma step_closed_stays : forall c s e, closed s = true -> step c s e = (s, []).
Proof. intros c s e H. unfold step. rewrite H. reflexivity. Qed.

Lemma run_ok : forall c t0 h s past lo,
  wf c -> Inv c t0 s past -> (closed s = false -> last s <= lo) -> rx_ordered lo h ->
  judge_all (P_of c t0) past (run c s h) = 0%N.
Proof.
  intros c t0 h. induction h as [|e r IH]; intros s past lo W I Hlo Hord; [reflexivity|].
  cbn [run]. destruct (step c s e) as [s1 o] eqn:Hs. cbn [judge_all].
  assert (Hrx : forall t, ev_rx e = Some t -> closed s = false -> last s <= t).
  { intros t Ht Hc. cbn [rx_ordered] in Hord. rewrite Ht in Hord. specialize (Hlo Hc). lia. }
  destruct (step_ok c t0 s past e W I Hrx) as [J I1]. rewrite Hs in J, I1. cbn [fst snd] in J, I1.
  rewrite J. cbn [N.eqb].
  cbn [rx_ordered] in Hord.
  destruct (ev_rx e) as [t|] eqn:Et.
  - destruct Hord as [Hle Hord]. apply (IH s1 _ t W I1); [|exact Hord].
    intros Hc1. destruct (closed s) eqn:Hc.
    + rewrite (step_closed_stays c s e Hc) in Hs. inversion Hs; subst. congruence.
    + pose proof (step_last c s e Hc) as HL. rewrite Hs in HL. cbn [fst] in HL. rewrite (HL Hc1), Et. lia.
  - apply (IH s1 _ lo W I1); [|exact Hord].
    intros Hc1. destruct (closed s) eqn:Hc.
    + rewrite (step_closed_stays c s e Hc) in Hs. inversion Hs; subst. congruence.
    + pose proof (step_last c s e Hc) as HL. rewrite Hs in HL. cbn [fst] in HL. rewrite (HL Hc1), Et. apply Hlo. reflexivity.
Qed.

Lemma inv_init : forall c t0, wf c -> Inv c t0 (init t0) [].
Proof.
  intros c t0 W. unfold wf in W. constructor; cbn; auto.
  - intros _ _. lia.
  - intros _ r [E|[]]. lia.
Qed.

(* Every trace of the model, over every history whose message times do not go
   backwards, is accepted by the judge written from the property text. *)
Theorem spec_all : forall c t0 h, wf c -> rx_ordered t0 h ->
  spec_ok (P_of c t0) (run c (init t0) h) = true.
Proof.
  intros c t0 h W Hord. unfold spec_ok.
  rewrite (run_ok c t0 h (init t0) [] t0 W (inv_init c t0 W)); [reflexivity| |exact Hord].
  intros _. cbn. lia.
Qed.

(* ---- from the judge to the clauses of the property -------------------------- *)

Lemma judge_all_split : forall P pre past it post,
  judge_all P past (pre ++ it :: post) = 0%N -> judge P (rev pre ++ past) it = 0%N.
Proof.
  intros P pre. induction pre as [|x pre IH]; intros past it post H.
  - cbn in *. destruct (judge P past it); [reflexivity|discriminate].
  - cbn [app judge_all] in H. destruct (judge P past x) eqn:E; [|discriminate]. cbn [N.eqb] in H.
    cbn [rev]. rewrite <- app_assoc. cbn [app]. apply (IH (x :: past) it post H).
Qed.

Section Clauses.
  Variables (c : cfg) (t0 : Z) (h : list ev).
  Hypothesis W : wf c.
  Hypothesis Hord : rx_ordered t0 h.
  Variables (pre post : list item) (e : ev) (o : list obs).
  Hypothesis Hsplit : run c (init t0) h = pre ++ (e, o) :: post.

  Let J : judge (P_of c t0) (rev pre) (e, o) = 0%N.
  Proof.
    pose proof (spec_all c t0 h W Hord) as S. unfold spec_ok in S. apply N.eqb_eq in S.
    rewrite Hsplit in S. apply judge_all_split in S. rewrite app_nil_r in S. exact S.
  Qed.

  Lemma idle_intro : forall tau, period c <> 0 ->
    (forall r, In r (t0 :: rx_all (rev pre)) -> r + period c < tau) ->
    idle_at (P_of c t0) (rev pre) tau = true /\ quiet_at (P_of c t0) (rev pre) tau = true.
  Proof.
    intros tau Hp Hidle. unfold idle_at, quiet_at. cbn [p_period p_t0 P_of].
    destruct (Z.eqb_spec (period c) 0); [contradiction|]. cbn [negb andb]. split.
    - apply forallb_forall. intros r Hr. apply Z.ltb_lt. apply Hidle. exact Hr.
    - apply forallb_forall. intros r Hr. apply Z.leb_le. specialize (Hidle r Hr). lia.
  Qed.

  (* the monitor acts (ping or close) only at a tick, only on an open connection,
     and only if the latest message (and every earlier one) is at least a full
     period old at the tick *)
  Lemma acts_only_if_idle : has_strike o = true ->
    was_closed (rev pre) = false /\
    exists tau, tick_time (P_of c t0) e = Some tau /\ period c <> 0 /\
      quiet_at (P_of c t0) (rev pre) tau = true /\
      forall r, In r (t0 :: rx_all (rev pre)) -> r + period c <= tau.
  Proof.
    intros Hs. pose proof J as J'. unfold judge in J'. rewrite Hs in J'.
    destruct (was_closed (rev pre)); [discriminate|]. split; [reflexivity|].
    destruct (tick_time (P_of c t0) e) as [tau|]; [|discriminate].
    exists tau. split; [reflexivity|].
    destruct (quiet_at (P_of c t0) (rev pre) tau) eqn:Eq.
    - unfold quiet_at in Eq. cbn [p_period p_t0 P_of] in Eq. apply andb_prop in Eq. destruct Eq as [E1 E2].
      split; [|split; [reflexivity|]].
      + intros E0. rewrite E0 in E1. discriminate.
      + intros r Hr. rewrite forallb_forall in E2. specialize (E2 r Hr). apply Z.leb_le in E2. exact E2.
    - cbn [negb] in J'. destruct (has_close o); discriminate.
  Qed.

  (* at a tick with nothing received for a full period the monitor acts; without
     keep-alive it closes *)
  Lemma acts_at_first_idle_tick : forall tau,
    was_closed (rev pre) = false -> tick_time (P_of c t0) e = Some tau -> period c <> 0 ->
    (forall r, In r (t0 :: rx_all (rev pre)) -> r + period c < tau) ->
    has_strike o = true /\ (ka c = false -> has_close o = true).
  Proof.
    intros tau Hc Ht Hp Hidle. pose proof J as J'. unfold judge in J'. rewrite Hc, Ht in J'.
    destruct (idle_intro tau Hp Hidle) as [Ei Eq].
    rewrite Ei, Eq in J'. cbn [negb p_ka P_of] in J'.
    destruct (has_strike o); [|discriminate]. cbn [negb] in J'. split; [reflexivity|].
    intros K. rewrite K in J'. cbn [negb] in J'. destruct (has_close o); [reflexivity|discriminate].
  Qed.

  (* keep-alive: a close needs at least max failures before it since the last
     reset point, and at failure max+1 the connection is closed, not pinged again *)
  Lemma keepalive_close_exact : ka c = true -> has_strike o = true ->
    (has_close o = true <-> maxr c <= failures (rev pre)).
  Proof.
    intros K Hs. destruct (acts_only_if_idle Hs) as [Hc [tau [Ht [Hp [Eq Hq]]]]].
    pose proof J as J'. unfold judge in J'. rewrite Hc, Ht, Hs, Eq in J'.
    cbn [negb p_ka p_max P_of] in J'. rewrite K in J'. cbn [negb] in J'.
    destruct (has_close o); destruct (Z.leb_spec (maxr c) (failures (rev pre))); try discriminate; split; intros; try lia; try reflexivity; try discriminate.
  Qed.
End Clauses.

(* the failure count the judge uses: strikes after the latest reset point *)
Fixpoint strikes (l : list item) : Z :=
  match l with [] => 0 | (_, o) :: r => (if has_strike o then 1 else 0) + strikes r end.

Lemma strikes_nonneg : forall l, 0 <= strikes l.
Proof. induction l as [|[e o] r IH]; cbn [strikes]; [lia|]. destruct (has_strike o); lia. Qed.

Lemma failures_le_strikes : forall l, failures l <= strikes l.
Proof.
  induction l as [|[e o] r IH]; cbn [failures strikes]; [lia|].
  pose proof (strikes_nonneg r). destruct (is_reset r (e, o)); destruct (has_strike o); lia.
Qed.

(* only what happened after the latest reset point counts *)
Lemma failures_after_reset : forall newer it older,
  is_reset older it = true -> failures (newer ++ it :: older) <= strikes newer.
Proof.
  induction newer as [|[e o] r IH]; intros it older Hr.
  - cbn [app strikes failures]. destruct it as [e o]. rewrite Hr. lia.
  - cbn [app failures strikes]. specialize (IH it older Hr). pose proof (strikes_nonneg r).
    destruct (is_reset (r ++ it :: older) (e, o)); destruct (has_strike o); lia.
Qed.

(* after any reset point (a received message, or the answer to the current
   ping) a close needs max further failures, all after that point *)
Lemma reset_then_close : forall c t0 h older it mid e o post,
  wf c -> rx_ordered t0 h -> ka c = true ->
  run c (init t0) h = (older ++ it :: mid) ++ (e, o) :: post ->
  is_reset (rev older) it = true -> has_close o = true ->
  maxr c <= strikes (rev mid).
Proof.
  intros c t0 h older it mid e o post W Hord K Hsplit Hr Hcl.
  assert (Hs : has_strike o = true).
  { unfold has_close in Hcl. unfold has_strike. apply existsb_exists in Hcl. apply existsb_exists.
    destruct Hcl as [x [Hx Hx']]. exists x. split; [exact Hx|]. destruct x; try discriminate. reflexivity. }
  pose proof (proj1 (keepalive_close_exact c t0 h W Hord _ _ _ _ Hsplit K Hs) Hcl) as Hm.
  rewrite rev_app_distr in Hm. cbn [rev] in Hm. rewrite <- app_assoc in Hm. cbn [app] in Hm.
  eapply Z.le_trans; [exact Hm|]. exact (failures_after_reset (rev mid) it (rev older) Hr).
Qed.

Lemma late_pong_no_reset : forall older g o, g <> cur_gen older -> is_reset older (PongCb g, o) = false.
Proof. intros older g o H. cbn [is_reset]. apply Z.eqb_neq. exact H. Qed.

(* the code's comparison is strict: a tick acts only when it is later than
   lastActivity + period *)
Lemma check_acts_strict : forall c s tau ok, snd (check c s tau ok) <> [] ->
  period c <> 0 /\ last s + period c < tau.
Proof.
  intros c s tau ok H. unfold check in H.
  destruct (Z.eqb_spec (period c) 0) as [E|E]; [cbn in H; congruence|].
  split; [exact E|]. rewrite Z.gtb_ltb in H.
  destruct (Z.ltb_spec (last s + period c) tau) as [L|L]; [exact L|cbn in H; congruence].
Qed.
