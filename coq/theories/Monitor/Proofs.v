(* C18 -- proofs that the model of the monitors satisfies the property for all
   event histories. *)
From Coq Require Import ZArith NArith List Bool Lia.
From GoCoap Require Import Gen.MonitorTiming Monitor.Model Monitor.Spec.
Import ListNotations.
Open Scope Z_scope.

(* a pong for a superseded generation changes nothing *)
Lemma late_pong_cb : forall s g, g <> token s -> pong_cb s g = s.
Proof.
  intros s g Hg. unfold pong_cb. destruct (Z.eqb_spec (token s) g) as [E|E]; [congruence|reflexivity].
Qed.
