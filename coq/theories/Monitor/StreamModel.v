(* C18 on stream connections, byte level -- transcription of the receive loop of
   tcp/client/session.go as far as the inactivity monitor is concerned:

     func (s *Session) Run(cc *Conn) {
       for {
         s.processBuffer(buffer, cc)        // decodes every COMPLETE message in the buffer;
                                            // per message: s.inactivityMonitor.Notify(); push to the queue
         readLen := s.connection.ReadWithContext(ctx, readBuf)
         if readLen > 0 { buffer.Write(readBuf[:readLen]) }      // no Notify here
       }
     }

   The re-framing itself (DecodeHeader, length check, Unmarshal, the drain loop)
   is the model of C07, Stream/Model.v ([feed] = one read followed by
   processBuffer); here it is composed with the monitor: a read that makes [feed]
   deliver k new messages is k Notify calls at the time of the read, a read that
   delivers none (ErrShortRead, or fewer bytes buffered than the header
   announces) touches the monitor not at all (Model.Frag).  No proofs here. *)
From Coq Require Import ZArith List Bool.
From GoCoap Require Import Monitor.Model.
From GoCoap Require Stream.Model.
Import ListNotations.
Open Scope Z_scope.

Module SM := GoCoap.Stream.Model.

(* [rest]: bytes of the peer's stream not read yet; [ss]: buffer + messages
   delivered so far + running/failed.  One group of monitor events per byte-level
   event.  (A stream that has failed -- oversize or malformed frame, C07 -- ends
   Run and with it the connection; [feed] is then the identity and the reads
   that follow are no-ops here.) *)
Fixpoint abs (max : Z) (rest : list Z) (ss : SM.state) (bh : list bev) : list (list ev) :=
  match bh with
  | [] => []
  | BTick t ok :: r => [Tick t ok] :: abs max rest ss r
  | BRead t n :: r =>
      let ss' := SM.feed max ss (firstn n rest) in
      read_evs (length (SM.out ss') - length (SM.out ss)) t :: abs max (skipn n rest) ss' r
  end.

(* what the monitor does during each group *)
Fixpoint run_groups (c : cfg) (s : st) (gs : list (list ev)) : list (list obs) :=
  match gs with
  | [] => []
  | g :: r => concat (map snd (run c s g)) :: run_groups c (final c s g) r
  end.

(* the byte-level trace of the model: per byte-level event, what the monitor did *)
Definition brun (c : cfg) (t0 max : Z) (stream : list Z) (bh : list bev) : list (bev * list obs) :=
  combine bh (run_groups c (init t0) (abs max stream SM.init bh)).
