(* Evaluators used by the correspondence shards of C18. A case carries the
   configuration, the event history and what the real monitor was observed to
   do after each event. *)
From Coq Require Import ZArith NArith List Bool.
From GoCoap Require Import Base.Cases Gen.MonitorTiming Monitor.Model Monitor.Spec.
Import ListNotations.
Open Scope Z_scope.

Inductive case :=
(* creation time, Monitor.duration, maxRetries, keep-alive wiring?, are Cancel
   observations visible through the driver?, observed trace *)
| Hist (t0 per mx : Z) (k cobs : bool) (trace : list (ev * list obs))
(* options.WithKeepAlive(maxRetries, timeout): observed Monitor duration, -1 = panic *)
| Period (timeout mx : Z) (o : Z).

Definition obs_eqb (a b : obs) : bool :=
  match a, b with
  | Cancel x, Cancel y => x =? y
  | Ping x, Ping y => x =? y
  | PingFail x, PingFail y => x =? y
  | Close, Close => true
  | _, _ => false
  end.

Fixpoint obsl_eqb (a b : list obs) : bool :=
  match a, b with
  | [], [] => true
  | x :: r, y :: s => obs_eqb x y && obsl_eqb r s
  | _, _ => false
  end.

(* the model, stepped over the events of the trace, must produce the observed outputs *)
Definition visible (cobs : bool) (o : obs) : bool :=
  match o with Cancel _ => cobs | _ => true end.

Fixpoint agree_from (c : cfg) (cobs : bool) (s : st) (tr : list (ev * list obs)) : bool :=
  match tr with
  | [] => true
  | (e, o) :: r => let '(s1, o1) := step c s e in
                   obsl_eqb (filter (visible cobs) o1) o && agree_from c cobs s1 r
  end.

Definition agrees (c : case) : bool :=
  match c with
  | Hist t0 per mx k cobs tr => agree_from {| period := per; maxr := mx; ka := k |} cobs (init t0) tr
  | Period timeout mx o =>
      match ka_period timeout mx with Some d => d =? o | None => o =? -1 end
  end.

(* Property predicate on the OBSERVED trace, from Spec only: 0 = satisfied,
   otherwise the class of the first offending item (Spec.judge). *)
Definition pclass (c : case) : N :=
  match c with
  | Hist t0 per mx k _ tr =>
      judge_all {| p_t0 := t0; p_period := per; p_max := mx; p_ka := k; p_look := lookahead |} [] tr
  | Period _ _ _ => 0%N
  end.

Definition mismatches (cs : list case) : list N := bad_indices (fun c => negb (agrees c)) cs.
Definition property_failures (cs : list case) : list (N * N) := classes pclass cs.
