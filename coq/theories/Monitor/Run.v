(* Evaluators used by the correspondence shards of C18. A case carries the
   configuration, the event history and what the real monitor was observed to
   do after each event. *)
From Coq Require Import ZArith NArith List Bool.
From GoCoap Require Import Base.Bytes Base.Cases Gen.MonitorTiming Gen.StreamConsts Monitor.Model Monitor.Spec Monitor.StreamModel.
From GoCoap Require Stream.Spec.
Import ListNotations.
Open Scope Z_scope.

Inductive case :=
(* creation time, Monitor.duration, maxRetries, keep-alive wiring?, are Cancel
   observations visible through the driver?, observed trace *)
| Hist (t0 per mx : Z) (k cobs : bool) (trace : list (ev * list obs))
(* options.WithKeepAlive(maxRetries, timeout): observed Monitor duration, -1 = panic *)
| Period (timeout mx : Z) (o : Z)
(* stream connection, byte level: creation time, Monitor.duration, maxRetries,
   keep-alive wiring?, the session's maxMessageSize, the messages the peer puts on
   the wire (encoded per RFC 8323 by Stream.Spec.encode_frame; the reads need not
   consume all of them), and per byte-level event (one socket read of n bytes at
   t / one tick) what the monitor was observed to do *)
| SHist (t0 per mx : Z) (k : bool) (max : Z) (frames : list Stream.Spec.frame) (btrace : list (bev * list obs))
(* several connections whose monitors were made by ONE cfg.CreateInactivityMonitor factory (one application of
   options.WithInactivityMonitor / WithKeepAlive): creation times, Monitor.duration, maxRetries, keep-alive wiring?,
   and the observed system trace: ((connection, event), what the monitor of THAT connection was seen to do); a
   housekeeping round appears as one Tick item per connection *)
| MHist (t0s : list Z) (per mx : Z) (k : bool) (mtrace : list (mev * list obs)).

(* a frame of a case file: code, token, options (delta, value), payload = gen_body salt plen *)
Definition Fr (code : Z) (tok : list Z) (opts : list (Z * list Z)) (salt : Z) (plen : nat) : Stream.Spec.frame :=
  Stream.Spec.MkFrame code tok opts (gen_body salt plen).

Definition obs_eqb (a b : obs) : bool :=
  match a, b with
  | Cancel x, Cancel y => x =? y
  | Ping x, Ping y => x =? y
  | PingFail x, PingFail y => x =? y
  | Close, Close => true
  | _, _ => false
  end.

Fixpoint obsl_eqb (a b : list obs) : bool :=
  match a, b with
  | [], [] => true
  | x :: r, y :: s => obs_eqb x y && obsl_eqb r s
  | _, _ => false
  end.

(* the model, stepped over the events of the trace, must produce the observed outputs *)
Definition visible (cobs : bool) (o : obs) : bool :=
  match o with Cancel _ => cobs | _ => true end.

Fixpoint agree_from (c : cfg) (cobs : bool) (s : st) (tr : list (ev * list obs)) : bool :=
  match tr with
  | [] => true
  | (e, o) :: r => let '(s1, o1) := step c s e in
                   obsl_eqb (filter (visible cobs) o1) o && agree_from c cobs s1 r
  end.

Fixpoint magree_from (c : cfg) (ss : list st) (tr : list (mev * list obs)) : bool :=
  match tr with
  | [] => true
  | (me, o) :: r => let '(ss1, o1) := mstep c ss me in
                    (fst me <? length ss)%nat && obsl_eqb (filter (visible false) o1) o && magree_from c ss1 r
  end.

Definition agrees (c : case) : bool :=
  match c with
  | Hist t0 per mx k cobs tr => agree_from {| period := per; maxr := mx; ka := k |} cobs (init t0) tr
  | Period timeout mx o =>
      match ka_period timeout mx with Some d => d =? o | None => o =? -1 end
  | SHist t0 per mx k max frames btrace =>
      (* the hypotheses of the byte-level theorems: good frames, limit within the coder's range *)
      forallb (fun f => Stream.Spec.frame_wf f && (Stream.Spec.frame_size f <=? max)) frames &&
      (max <=? messageMaxLen + 65805) &&
      (* the model (C07's re-framing loop composed with the monitor) does what was observed
         (Cancel observations are not visible on a connection) *)
      list_rel (fun m o => obsl_eqb (filter (visible false) m) o)
        (run_groups {| period := per; maxr := mx; ka := k |} (init t0)
           (abs max (concat (map Stream.Spec.encode_frame frames)) SM.init (map fst btrace)))
        (map snd btrace)
  | MHist t0s per mx k tr => magree_from {| period := per; maxr := mx; ka := k |} (minit t0s) tr
  end.

(* Property predicate on the OBSERVED trace, from Spec only: 0 = satisfied,
   otherwise the class of the first offending item (Spec.judge). *)
Definition pclass (c : case) : N :=
  match c with
  | Hist t0 per mx k _ tr =>
      judge_all {| p_t0 := t0; p_period := per; p_max := mx; p_ka := k; p_look := lookahead |} [] tr
  | Period _ _ _ => 0%N
  | SHist t0 per mx k _ frames btrace =>
      stream_judge {| p_t0 := t0; p_period := per; p_max := mx; p_ka := k; p_look := lookahead |}
        (map Stream.Spec.frame_size frames) btrace
  | MHist t0s per mx k tr =>
      (* every connection on its own sub-trace *)
      mjudge (fun i => {| p_t0 := nth i t0s 0; p_period := per; p_max := mx; p_ka := k; p_look := lookahead |})
        (length t0s) tr
  end.

Definition mismatches (cs : list case) : list N := bad_indices (fun c => negb (agrees c)) cs.
Definition property_failures (cs : list case) : list (N * N) := classes pclass cs.
