(* C18 on stream connections: the byte-level model (Monitor/StreamModel.v =
   C07's re-framing loop composed with the monitor) satisfies the byte-level
   reading of the property (Monitor/Spec.v, last section) for all streams of
   good frames, all ways of cutting them into reads and all tick schedules. *)
From Coq Require Import ZArith NArith List Bool Lia.
From GoCoap Require Import Base.Bytes Gen.StreamConsts Gen.MonitorTiming.
From GoCoap Require Import Monitor.Model Monitor.Spec Monitor.Proofs Monitor.StreamModel.
From GoCoap Require Stream.Model Stream.Spec Stream.Proofs.
Import ListNotations.
Open Scope Z_scope.

Module SS := GoCoap.Stream.Spec.
Module SP := GoCoap.Stream.Proofs.

Definition stream_of (fs : list SS.frame) : list Z := concat (map SS.encode_frame fs).
Definition sizes_of (fs : list SS.frame) : list Z := map SS.frame_size fs.

(* ---- part 1: a proper prefix of a frame is never a message ------------------- *)

Lemma good_body_bound max f : SP.good max f -> max <= messageMaxLen + 65805 ->
  blen (SS.body f) - 65805 <= messageMaxLen.
Proof. intros [_ Hsz] Hmax. pose proof (SP.body_le_size f). lia. Qed.

(* processBuffer waits on every proper prefix of a good frame (whatever follows it on the wire) *)
Lemma proper_prefix_waits max f rest p c :
  SP.good max f -> max <= messageMaxLen + 65805 ->
  p ++ c = SS.encode_frame f ++ rest -> (length p < length (SS.encode_frame f))%nat ->
  SM.step max p = SM.Wait.
Proof.
  intros Hg Hmax E Hlt.
  pose proof (SP.step_encode max f rest (proj1 Hg) (good_body_bound max f Hg Hmax) (proj2 Hg)) as HE.
  unfold SM.step in *.
  destruct (SM.step_gen true max p) as [|e|it n] eqn:S; [reflexivity| |].
  - pose proof (SP.step_fail_stable true max p e c S) as H. rewrite E in H. congruence.
  - pose proof (SP.step_emit_stable true max p it n c S) as H. rewrite E in H.
    rewrite HE in H. injection H as _ Hn.
    pose proof (SP.step_emit_len true max p it n S). lia.
Qed.

Lemma total_sizes fs : total (sizes_of fs) = blen (stream_of fs).
Proof.
  induction fs as [|f fs IH]; [reflexivity|].
  unfold sizes_of, stream_of in *. cbn [map total fold_right concat]. unfold total in IH. rewrite IH.
  rewrite SP.blen_app. reflexivity.
Qed.

Lemma complete_le sizes : forall n, (complete sizes n <= length sizes)%nat.
Proof.
  induction sizes as [|s r IH]; intros n; cbn [complete length]; [lia|].
  destruct (s <=? n); [specialize (IH (n - s))|]; lia.
Qed.

(* every prefix of a stream of good frames = some whole frames + a proper prefix of the next one *)
Lemma prefix_decomp max fs : (forall f, In f fs -> SP.good max f) -> max <= messageMaxLen + 65805 ->
  forall m, exists fs1 fs2 p,
    fs = fs1 ++ fs2 /\ firstn m (stream_of fs) = stream_of fs1 ++ p /\
    SM.step max p = SM.Wait /\
    complete (sizes_of fs) (blen (firstn m (stream_of fs))) = length fs1.
Proof.
  intros Hgood Hmax. induction fs as [|f fs IH]; intros m.
  - exists [], [], []. cbn. rewrite firstn_nil. repeat split; reflexivity.
  - assert (Hg : SP.good max f) by (apply Hgood; left; reflexivity).
    assert (Hrest : forall g, In g fs -> SP.good max g) by (intros g Hin; apply Hgood; right; exact Hin).
    unfold stream_of, sizes_of. cbn [map concat complete]. fold (stream_of fs). fold (sizes_of fs).
    rewrite firstn_app.
    destruct (Nat.lt_ge_cases m (length (SS.encode_frame f))) as [Hlt|Hge].
    + (* the cut lies inside the first frame *)
      replace (m - length (SS.encode_frame f))%nat with 0%nat by lia. cbn [firstn]. rewrite app_nil_r.
      exists [], (f :: fs), (firstn m (SS.encode_frame f)). cbn [app stream_of map concat length].
      split; [reflexivity|]. split; [reflexivity|]. split.
      * apply (proper_prefix_waits max f (stream_of fs) _ (skipn m (SS.encode_frame f) ++ stream_of fs) Hg Hmax).
        -- rewrite app_assoc, firstn_skipn. reflexivity.
        -- rewrite firstn_length. lia.
      * unfold SS.frame_size, blen. rewrite firstn_length.
        destruct (Z.leb_spec (Z.of_nat (length (SS.encode_frame f))) (Z.of_nat (Nat.min m (length (SS.encode_frame f))))); [lia|reflexivity].
    + (* the first frame is complete *)
      rewrite firstn_all2 by lia.
      destruct (IH Hrest (m - length (SS.encode_frame f))%nat) as (fs1 & fs2 & p & E1 & E2 & E3 & E4).
      exists (f :: fs1), fs2, p. split; [cbn [app]; rewrite E1; reflexivity|]. split.
      * rewrite E2. unfold stream_of. cbn [map concat]. rewrite app_assoc. reflexivity.
      * split; [exact E3|].
        rewrite SP.blen_app. unfold SS.frame_size at 1.
        destruct (Z.leb_spec (blen (SS.encode_frame f)) (blen (SS.encode_frame f) + blen (firstn (m - length (SS.encode_frame f)) (stream_of fs)))) as [_|Hc].
        -- unfold SS.frame_size.
           replace (blen (SS.encode_frame f) + blen (firstn (m - length (SS.encode_frame f)) (stream_of fs)) - blen (SS.encode_frame f))
             with (blen (firstn (m - length (SS.encode_frame f)) (stream_of fs))) by lia.
           rewrite E4. reflexivity.
        -- pose proof (SP.blen_nonneg (firstn (m - length (SS.encode_frame f)) (stream_of fs))). lia.
Qed.

Lemma good_sub max (fs1 fs2 : list SS.frame) :
  (forall f, In f (fs1 ++ fs2) -> SP.good max f) -> forall f, In f fs1 -> SP.good max f.
Proof. intros H f Hin. apply H. apply in_or_app. left. exact Hin. Qed.

(* after reading any prefix of the stream, exactly the messages whose last byte has arrived were delivered *)
Theorem feed_prefix max fs : (forall f, In f fs -> SP.good max f) -> max <= messageMaxLen + 65805 ->
  forall m, SM.running (SM.feed max SM.init (firstn m (stream_of fs))) = true /\
    length (SM.out (SM.feed max SM.init (firstn m (stream_of fs)))) =
    complete (sizes_of fs) (blen (firstn m (stream_of fs))).
Proof.
  intros Hgood Hmax m.
  destruct (prefix_decomp max fs Hgood Hmax m) as (fs1 & fs2 & p & E1 & E2 & E3 & E4).
  rewrite E4, E2. unfold stream_of. subst fs.
  rewrite (SP.frames_then max fs1 p Hmax (good_sub max fs1 fs2 Hgood)).
  cbn [SM.drain]. rewrite E3. cbn [SM.running SM.st SM.out]. split; [reflexivity|]. apply map_length.
Qed.

(* ---- part 2: the model's events are the spec's events ------------------------ *)

Lemma read_evs_rx k t : read_evs k t = rx_evs k t.
Proof. reflexivity. Qed.

Lemma feed_init_nil max : SM.feed max SM.init [] = SM.init.
Proof. reflexivity. Qed.

Lemma abs_sabs_gen max fs : (forall f, In f fs -> SP.good max f) -> max <= messageMaxLen + 65805 ->
  forall bh consumed rest, stream_of fs = consumed ++ rest ->
  abs max rest (SM.feed max SM.init consumed) bh = sabs (sizes_of fs) (blen consumed) bh.
Proof.
  intros Hgood Hmax. induction bh as [|[t n|t ok] bh IH]; intros consumed rest Hs; cbn [abs sabs].
  - reflexivity.
  - rewrite SP.feed_app_step.
    assert (Hs' : stream_of fs = (consumed ++ firstn n rest) ++ skipn n rest)
      by (rewrite <- app_assoc, firstn_skipn; exact Hs).
    rewrite (IH _ _ Hs').
    assert (P1 : firstn (length consumed) (stream_of fs) = consumed) by (rewrite Hs; apply SP.firstn_exact).
    assert (P2 : firstn (length (consumed ++ firstn n rest)) (stream_of fs) = consumed ++ firstn n rest)
      by (rewrite Hs'; apply SP.firstn_exact).
    destruct (feed_prefix max fs Hgood Hmax (length consumed)) as [_ L1]. rewrite P1 in L1.
    destruct (feed_prefix max fs Hgood Hmax (length (consumed ++ firstn n rest))) as [_ L2]. rewrite P2 in L2.
    rewrite L1, L2.
    assert (Hb : blen (consumed ++ firstn n rest) = Z.min (blen consumed + Z.of_nat n) (total (sizes_of fs))).
    { rewrite total_sizes, Hs, !SP.blen_app. unfold blen. rewrite firstn_length. lia. }
    rewrite Hb. reflexivity.
  - rewrite (IH _ _ Hs). reflexivity.
Qed.

(* the stream model's message completion coincides with the sender's framing *)
Theorem abs_sabs max fs bh : (forall f, In f fs -> SP.good max f) -> max <= messageMaxLen + 65805 ->
  abs max (stream_of fs) SM.init bh = sabs (sizes_of fs) 0 bh.
Proof.
  intros Hgood Hmax. rewrite <- (feed_init_nil max).
  apply (abs_sabs_gen max fs Hgood Hmax bh [] (stream_of fs)). reflexivity.
Qed.

(* ---- part 3: every byte-level trace of the model passes the byte-level judge -- *)

(* the clock of the reads does not go backwards *)
Fixpoint b_ordered (lo : Z) (bh : list bev) : Prop :=
  match bh with
  | [] => True
  | BRead t _ :: r => lo <= t /\ b_ordered t r
  | BTick _ _ :: r => b_ordered lo r
  end.

Lemma rx_ordered_weaken : forall h lo lo', lo' <= lo -> rx_ordered lo h -> rx_ordered lo' h.
Proof.
  induction h as [|e r IH]; intros lo lo' Hle H; [exact I|]. cbn [rx_ordered] in *.
  destruct (ev_rx e) as [t|].
  - destruct H as [H1 H2]. split; [lia|exact H2].
  - apply (IH lo lo' Hle H).
Qed.

Lemma rx_ordered_app : forall a lo b hi,
  rx_ordered lo a -> (forall t, In (Some t) (map ev_rx a) -> t <= hi) -> lo <= hi -> rx_ordered hi b ->
  rx_ordered lo (a ++ b).
Proof.
  induction a as [|e r IH]; intros lo b hi Ha Hub Hle Hb; cbn [app].
  - apply (rx_ordered_weaken b hi lo Hle Hb).
  - cbn [rx_ordered] in *. destruct (ev_rx e) as [t|] eqn:Et.
    + destruct Ha as [H1 H2]. split; [exact H1|].
      apply (IH t b hi H2); [|apply Hub; left; cbn; rewrite Et; reflexivity|exact Hb].
      intros t' Hin. apply Hub. right. exact Hin.
    + apply (IH lo b hi Ha); [|exact Hle|exact Hb]. intros t' Hin. apply Hub. right. exact Hin.
Qed.

Lemma rx_ordered_repeat : forall k lo t, lo <= t -> rx_ordered lo (repeat (Recv t) k).
Proof.
  induction k as [|k IH]; intros lo t Hle; cbn [repeat rx_ordered ev_rx]; [exact I|].
  split; [exact Hle|apply IH; lia].
Qed.

Lemma rx_evs_ordered k lo t : lo <= t -> rx_ordered lo (rx_evs k t).
Proof. intros Hle. destruct k as [|k]; [exact I|]. apply (rx_ordered_repeat (S k) lo t Hle). Qed.

Lemma rx_evs_ub k t : forall t', In (Some t') (map ev_rx (rx_evs k t)) -> t' <= t.
Proof.
  intros t' Hin. destruct k as [|k].
  - cbn in Hin. destruct Hin as [H|[]]. discriminate.
  - unfold rx_evs in Hin. apply in_map_iff in Hin as (e & He & Hin). apply repeat_spec in Hin. subst e.
    cbn in He. injection He as ->. lia.
Qed.

Lemma sabs_ordered sizes : forall bh got lo, b_ordered lo bh -> rx_ordered lo (concat (sabs sizes got bh)).
Proof.
  induction bh as [|[t n|t ok] bh IH]; intros got lo H; cbn [sabs concat b_ordered] in *.
  - exact I.
  - destruct H as [H1 H2].
    apply (rx_ordered_app _ lo _ t); [apply rx_evs_ordered; exact H1|apply rx_evs_ub|exact H1|apply IH; exact H2].
  - cbn [app rx_ordered ev_rx]. apply IH. exact H.
Qed.

(* groups as the spec builds them: a read group consists of Recv / Frag only (the
   monitor does nothing there), a tick group is one event *)
Definition passive (e : ev) : bool := match e with Recv _ | Frag _ => true | _ => false end.
Definition simple_group (g : list ev) : Prop := forallb passive g = true \/ exists e, g = [e].

Lemma run_app c : forall a s b, run c s (a ++ b) = run c s a ++ run c (final c s a) b.
Proof.
  induction a as [|e a IH]; intros s b; cbn [app run final]; [reflexivity|].
  destruct (step c s e) as [s1 o] eqn:E. cbn [fst app]. rewrite IH. reflexivity.
Qed.

Lemma run_passive c : forall g s, forallb passive g = true -> run c s g = map (fun e => (e, [])) g.
Proof.
  induction g as [|e g IH]; intros s H; cbn [run map]; [reflexivity|].
  cbn [forallb] in H. apply andb_prop in H as [He Hg].
  assert (E : snd (step c s e) = []).
  { unfold step. destruct (closed s); [reflexivity|]. destruct e; try discriminate He; reflexivity. }
  destruct (step c s e) as [s1 o]. cbn [snd] in E. subst o. rewrite IH by exact Hg. reflexivity.
Qed.

Lemma concat_snd_passive : forall g : list ev, concat (map snd (map (fun e : ev => (e, @nil obs)) g)) = [].
Proof. induction g as [|e g IH]; [reflexivity|]. cbn [map snd concat app]. exact IH. Qed.

Lemma zip_run c : forall gs s, (forall g, In g gs -> simple_group g) ->
  zip_items gs (run_groups c s gs) = run c s (concat gs).
Proof.
  induction gs as [|g gs IH]; intros s H; cbn [zip_items run_groups concat]; [reflexivity|].
  rewrite run_app, IH by (intros g' Hin; apply H; right; exact Hin). f_equal.
  destruct (H g (or_introl eq_refl)) as [Hp|[e ->]].
  - rewrite (run_passive c g s Hp). rewrite concat_snd_passive.
    destruct g as [|e g]; reflexivity.
  - cbn [run]. destruct (step c s e) as [s1 o]. cbn [map snd concat group_items]. rewrite app_nil_r. reflexivity.
Qed.

Lemma rx_evs_passive k t : forallb passive (rx_evs k t) = true.
Proof.
  destruct k as [|k]; [reflexivity|]. unfold rx_evs. apply forallb_forall. intros e Hin.
  apply repeat_spec in Hin. subst e. reflexivity.
Qed.

Lemma sabs_simple sizes : forall bh got g, In g (sabs sizes got bh) -> simple_group g.
Proof.
  induction bh as [|[t n|t ok] bh IH]; intros got g Hin; cbn [sabs] in Hin.
  - destruct Hin.
  - destruct Hin as [<-|Hin]; [left; apply rx_evs_passive|apply (IH _ _ Hin)].
  - destruct Hin as [<-|Hin]; [right; eexists; reflexivity|apply (IH _ _ Hin)].
Qed.

Lemma sabs_length sizes : forall bh got, length (sabs sizes got bh) = length bh.
Proof. induction bh as [|[t n|t ok] bh IH]; intros got; cbn [sabs length]; [reflexivity| |]; rewrite IH; reflexivity. Qed.

Lemma run_groups_length c : forall gs s, length (run_groups c s gs) = length gs.
Proof. induction gs as [|g gs IH]; intros s; cbn [run_groups length]; [reflexivity|]. rewrite IH. reflexivity. Qed.

Lemma combine_fst {A B} : forall (a : list A) (b : list B), length a = length b -> map fst (combine a b) = a.
Proof. induction a as [|x a IH]; intros [|y b] H; cbn in *; try discriminate; [reflexivity|]. rewrite IH by lia. reflexivity. Qed.
Lemma combine_snd {A B} : forall (a : list A) (b : list B), length a = length b -> map snd (combine a b) = b.
Proof. induction a as [|x a IH]; intros [|y b] H; cbn in *; try discriminate; [reflexivity|]. rewrite IH by lia. reflexivity. Qed.

(* Every byte-level trace of the model -- any stream of good frames, any cutting
   into reads, any ticks in between -- passes the byte-level judge, whose notion
   of "message received" is the sender's framing, not the code's. *)
Theorem stream_spec_all : forall c t0 max fs bh,
  wf c -> (forall f, In f fs -> SP.good max f) -> max <= messageMaxLen + 65805 -> b_ordered t0 bh ->
  stream_judge (P_of c t0) (sizes_of fs) (brun c t0 max (stream_of fs) bh) = 0%N.
Proof.
  intros c t0 max fs bh W Hgood Hmax Hord. unfold stream_judge, brun.
  rewrite (abs_sabs max fs bh Hgood Hmax).
  assert (HL : length bh = length (run_groups c (init t0) (sabs (sizes_of fs) 0 bh)))
    by (rewrite run_groups_length, sabs_length; reflexivity).
  rewrite (combine_fst _ _ HL), (combine_snd _ _ HL).
  rewrite zip_run by (intros g Hin; apply (sabs_simple _ _ _ _ Hin)).
  pose proof (spec_all c t0 (concat (sabs (sizes_of fs) 0 bh)) W (sabs_ordered _ bh 0 t0 Hord)) as S.
  unfold spec_ok in S. apply N.eqb_eq in S. exact S.
Qed.

(* ---- part 4: the clauses of the property at byte level ------------------------ *)

(* the times at which messages were received, by the sender's framing: the time of
   the read that delivered the last byte of each message (most recent last) *)
Fixpoint completion_times (sizes : list Z) (got : Z) (bh : list bev) : list Z :=
  match bh with
  | [] => []
  | BTick _ _ :: r => completion_times sizes got r
  | BRead t n :: r =>
      let got' := Z.min (got + Z.of_nat n) (total sizes) in
      repeat t (complete sizes got' - complete sizes got) ++ completion_times sizes got' r
  end.

Fixpoint got_after (sizes : list Z) (got : Z) (bh : list bev) : Z :=
  match bh with
  | [] => got
  | BTick _ _ :: r => got_after sizes got r
  | BRead _ n :: r => got_after sizes (Z.min (got + Z.of_nat n) (total sizes)) r
  end.

Lemma sabs_app sizes : forall a got b,
  sabs sizes got (a ++ b) = sabs sizes got a ++ sabs sizes (got_after sizes got a) b.
Proof.
  induction a as [|[t n|t ok] a IH]; intros got b; cbn [app sabs got_after]; [reflexivity| |]; rewrite IH; reflexivity.
Qed.

Lemma rx_all_app : forall a b, rx_all (a ++ b) = rx_all a ++ rx_all b.
Proof.
  induction a as [|it a IH]; intros b; cbn [app rx_all]; [reflexivity|].
  destruct (rx_time it); rewrite IH; reflexivity.
Qed.

Lemma rx_all_rev_passive : forall k t, rx_all (rev (map (fun e : ev => (e, @nil obs)) (rx_evs k t))) = repeat t (k).
Proof.
  intros k t. destruct k as [|k]; [reflexivity|]. unfold rx_evs.
  induction (S k) as [|j IH]; [reflexivity|].
  cbn [repeat map rev]. rewrite rx_all_app, IH. cbn [rx_all rx_time].
  clear. induction j as [|j IH]; [reflexivity|]. cbn [repeat app]. rewrite IH. reflexivity.
Qed.

(* what the judge takes for the reception times of a byte-level trace is exactly
   the completion times of the sender's messages *)
Lemma rx_all_completion c sizes : forall bh got s,
  rx_all (rev (run c s (concat (sabs sizes got bh)))) = rev (completion_times sizes got bh).
Proof.
  induction bh as [|[t n|t ok] bh IH]; intros got s; cbn [sabs concat completion_times].
  - reflexivity.
  - rewrite run_app, rev_app_distr, rx_all_app, IH, rev_app_distr. f_equal.
    rewrite (run_passive c _ s (rx_evs_passive _ t)), rx_all_rev_passive.
    clear. induction (complete sizes (Z.min (got + Z.of_nat n) (total sizes)) - complete sizes got)%nat as [|j IHj]; [reflexivity|].
    cbn [repeat rev]. rewrite <- IHj. clear. induction j as [|j IH]; [reflexivity|]. cbn [repeat app]. rewrite IH. reflexivity.
  - cbn [app run]. destruct (step c s (Tick t ok)) as [s1 o]. cbn [rev]. rewrite rx_all_app, IH.
    cbn [rx_all rx_time]. rewrite app_nil_r. reflexivity.
Qed.

(* the connection is closed iff the trace so far shows a Close *)
Lemma check_closed c s tau ok : closed (fst (check c s tau ok)) = closed s || has_close (snd (check c s tau ok)).
Proof.
  unfold check, on_inactive, ka_on_inactive.
  destruct (period c =? 0); [cbn; rewrite orb_false_r; reflexivity|].
  destruct (tau >? last s + period c); [|cbn; rewrite orb_false_r; reflexivity].
  destruct (ka c); [|cbn; rewrite orb_true_r; reflexivity].
  destruct ((fails s + 1) mod 2 ^ 32 >? maxr c); cbn [fst snd closed].
  - rewrite has_close_cancel. cbn. rewrite orb_true_r. reflexivity.
  - destruct ok; cbn [fst snd closed]; rewrite has_close_cancel; cbn; rewrite orb_false_r; reflexivity.
Qed.

Lemma step_closed c s e : closed (fst (step c s e)) = closed s || has_close (snd (step c s e)).
Proof.
  unfold step. destruct (closed s) eqn:Hc; [cbn [fst snd]; rewrite Hc; reflexivity|].
  destruct e as [t|g t|g|t ok|t ok|t|t]; cbn [fst snd]; try (cbn; exact Hc).
  - unfold pong_cb. destruct (token (notify c s t) =? g); cbn; exact Hc.
  - unfold pong_cb. destruct (token s =? g); cbn; exact Hc.
  - rewrite check_closed, Hc. reflexivity.
  - pose proof (check_closed c s (t + slack) ok) as H. rewrite Hc in H.
    destruct (check c s (t + slack) ok) as [s1 o]. cbn [fst snd] in *.
    destruct (closed s1) eqn:H1; cbn [fst snd closed notify]; rewrite ?H1; exact H.
Qed.

Lemma was_closed_app : forall a b, was_closed (a ++ b) = was_closed a || was_closed b.
Proof. induction a as [|[e o] a IH]; intros b; cbn [app was_closed]; [reflexivity|]. rewrite IH, orb_assoc. reflexivity. Qed.

Lemma final_closed c : forall h s, closed (final c s h) = closed s || was_closed (rev (run c s h)).
Proof.
  induction h as [|e h IH]; intros s; cbn [final run]; [cbn; rewrite orb_false_r; reflexivity|].
  rewrite IH, step_closed. destruct (step c s e) as [s1 o]. cbn [fst snd rev].
  rewrite was_closed_app. cbn [was_closed]. rewrite orb_false_r, <- orb_assoc, (orb_comm (has_close o)). reflexivity.
Qed.

Section StreamClauses.
  Variables (c : cfg) (t0 max : Z) (fs : list SS.frame) (bh1 bh2 : list bev) (tau : Z) (ok : bool).
  Hypothesis W : wf c.
  Hypothesis Hgood : forall f, In f fs -> SP.good max f.
  Hypothesis Hmax : max <= messageMaxLen + 65805.
  Hypothesis Hord : b_ordered t0 (bh1 ++ BTick tau ok :: bh2).

  Let sizes := sizes_of fs.
  Let h1 := concat (sabs sizes 0 bh1).
  Let h2 := concat (sabs sizes (got_after sizes 0 bh1) bh2).
  (* the state of the monitor when the tick arrives, and what it does then *)
  Definition state_before : st := final c (init t0) (concat (abs max (stream_of fs) SM.init bh1)).
  Definition tick_out : list obs := snd (step c state_before (Tick tau ok)).

  Let Hflat : concat (abs max (stream_of fs) SM.init (bh1 ++ BTick tau ok :: bh2)) = h1 ++ Tick tau ok :: h2.
  Proof.
    rewrite (abs_sabs max fs _ Hgood Hmax). fold sizes. rewrite sabs_app. cbn [sabs].
    rewrite concat_app. cbn [concat app]. reflexivity.
  Qed.

  Let Hsplit : run c (init t0) (h1 ++ Tick tau ok :: h2) =
               run c (init t0) h1 ++ (Tick tau ok, tick_out) :: run c (fst (step c state_before (Tick tau ok))) h2.
  Proof.
    rewrite run_app. f_equal. cbn [run]. unfold tick_out, state_before.
    rewrite (abs_sabs max fs _ Hgood Hmax). fold sizes. fold h1.
    destruct (step c (final c (init t0) h1) (Tick tau ok)) as [s1 o]. reflexivity.
  Qed.

  Let Hord' : rx_ordered t0 (h1 ++ Tick tau ok :: h2).
  Proof. rewrite <- Hflat. rewrite (abs_sabs max fs _ Hgood Hmax). apply sabs_ordered. exact Hord. Qed.

  Let Hrx : rx_all (rev (run c (init t0) h1)) = rev (completion_times sizes 0 bh1).
  Proof. apply rx_all_completion. Qed.

  (* the monitor acts at a tick only if every message received so far -- every
     message whose LAST byte has been read -- is at least a full period old;
     bytes of an incomplete message do not count *)
  Theorem stream_only_if_idle : has_strike tick_out = true ->
    period c <> 0 /\ forall r, In r (t0 :: completion_times sizes 0 bh1) -> r + period c <= tau.
  Proof.
    intros Hs.
    destruct (acts_only_if_idle c t0 _ W Hord' _ _ _ _ Hsplit Hs) as [_ [tau' [Ht [Hp [_ Hq]]]]].
    cbn in Ht. injection Ht as <-. split; [exact Hp|].
    intros r [E|Hin]; apply Hq; [left; exact E|right].
    apply in_rev in Hin. exact (eq_ind_r (fun l => In r l) Hin Hrx).
  Qed.

  (* and it does act at the first tick (at any tick) later than a full period after
     the latest complete message, no matter how many fragments arrived since *)
  Theorem stream_first_tick :
    closed state_before = false -> period c <> 0 ->
    (forall r, In r (t0 :: completion_times sizes 0 bh1) -> r + period c < tau) ->
    has_strike tick_out = true /\ (ka c = false -> has_close tick_out = true).
  Proof.
    intros Hc0 Hp Hidle.
    assert (Hc : was_closed (rev (run c (init t0) h1)) = false).
    { unfold state_before in Hc0. rewrite (abs_sabs max fs _ Hgood Hmax) in Hc0. fold sizes in Hc0. fold h1 in Hc0.
      rewrite final_closed in Hc0. cbn [closed init orb] in Hc0. exact Hc0. }
    apply (acts_at_first_idle_tick c t0 _ W Hord' _ _ _ _ Hsplit tau Hc eq_refl Hp).
    intros r [E|Hin]; apply Hidle; [left; exact E|right].
    apply in_rev. exact (eq_ind _ (fun l => In r l) Hin _ Hrx).
  Qed.
End StreamClauses.

(* a read that completes no message leaves the monitor exactly as it was *)
Lemma fragment_inert : forall c s t, step c s (Frag t) = (s, []).
Proof. intros c s t. unfold step. destruct (closed s); reflexivity. Qed.

Lemma fragment_read : forall sizes got t n bh,
  complete sizes (Z.min (got + Z.of_nat n) (total sizes)) = complete sizes got ->
  sabs sizes got (BRead t n :: bh) = [Frag t] :: sabs sizes (Z.min (got + Z.of_nat n) (total sizes)) bh.
Proof. intros sizes got t n bh H. cbn [sabs]. rewrite H, Nat.sub_diag. reflexivity. Qed.
