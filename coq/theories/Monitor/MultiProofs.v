(* C18 -- several connections whose monitors come from one option value
   (Model.mstep / mrun): what the monitor of connection i does is a function of the
   events of connection i alone, so every clause of the property holds for every
   connection on its own sub-trace, whatever the other connections receive, however
   many of them become inactive in the same housekeeping round, and in whatever
   order a round visits them. *)
From Coq Require Import ZArith NArith List Bool Lia Arith.
From GoCoap Require Import Gen.MonitorTiming Monitor.Model Monitor.Spec Monitor.Proofs.
Import ListNotations.
Open Scope Z_scope.

(* the events of connection i in a system history *)
Fixpoint projh (i : nat) (h : list mev) : list ev :=
  match h with
  | [] => []
  | (j, e) :: r => if Nat.eqb j i then e :: projh i r else projh i r
  end.

Lemma projh_app : forall i a b, projh i (a ++ b) = projh i a ++ projh i b.
Proof.
  intros i a b. induction a as [|[j e] r IH]; [reflexivity|].
  cbn [app projh]. destruct (Nat.eqb j i); [cbn [app]; f_equal|]; exact IH.
Qed.

Lemma nth_error_upd_same : forall (A : Type) (l : list A) i x, (i < length l)%nat -> nth_error (upd i x l) i = Some x.
Proof.
  intros A l. induction l as [|y r IH]; intros i x Hi; [cbn in Hi; lia|].
  destruct i as [|i]; [reflexivity|]. cbn [upd nth_error]. apply IH. cbn in Hi. lia.
Qed.

Lemma nth_error_upd_other : forall (A : Type) (l : list A) i j x, i <> j -> nth_error (upd j x l) i = nth_error l i.
Proof.
  intros A l. induction l as [|y r IH]; intros i j x Hne; [destruct j; reflexivity|].
  destruct j as [|j]; destruct i as [|i]; cbn [upd nth_error]; try reflexivity; [congruence|].
  apply IH. congruence.
Qed.

Lemma length_upd : forall (A : Type) (l : list A) i x, length (upd i x l) = length l.
Proof.
  intros A l. induction l as [|y r IH]; intros i x; [destruct i; reflexivity|].
  destruct i as [|i]; [reflexivity|]. cbn [upd length]. f_equal. apply IH.
Qed.

(* Non-interference: the sub-trace of connection i in ANY system history is the
   single-connection run over the events of connection i. *)
Theorem proj_mrun : forall c h ss i s, nth_error ss i = Some s ->
  proj i (mrun c ss h) = run c s (projh i h).
Proof.
  intros c h. induction h as [|[j e] r IH]; intros ss i s Hs; [reflexivity|].
  cbn [mrun]. unfold mstep. cbn [fst snd].
  destruct (nth_error ss j) as [sj|] eqn:Ej.
  - destruct (step c sj e) as [s1 o] eqn:Est. cbn [proj projh].
    destruct (Nat.eqb_spec j i) as [E|Hne].
    + subst j. rewrite Hs in Ej. inversion Ej; subst sj. cbn [run]. rewrite Est. f_equal.
      apply IH. apply nth_error_upd_same. apply nth_error_Some. congruence.
    + apply IH. rewrite nth_error_upd_other by congruence. exact Hs.
  - cbn [proj projh]. destruct (Nat.eqb_spec j i) as [E|Hne]; [subst j; congruence|]. apply IH. exact Hs.
Qed.

Lemma minit_nth : forall t0s i t0, nth_error t0s i = Some t0 -> nth_error (minit t0s) i = Some (init t0).
Proof. intros t0s i t0 H. unfold minit. apply map_nth_error. exact H. Qed.

Corollary proj_minit : forall c t0s h i t0, nth_error t0s i = Some t0 ->
  proj i (mrun c (minit t0s) h) = run c (init t0) (projh i h).
Proof. intros c t0s h i t0 H. apply proj_mrun. apply minit_nth. exact H. Qed.

(* two system histories that agree on the events of connection i give connection i the same trace *)
Corollary independent : forall c ss h h' i s, nth_error ss i = Some s ->
  projh i h = projh i h' -> proj i (mrun c ss h) = proj i (mrun c ss h').
Proof. intros c ss h h' i s Hs E. rewrite (proj_mrun c h ss i s Hs), (proj_mrun c h' ss i s Hs), E. reflexivity. Qed.

(* parameters of connection i *)
Definition MP (c : cfg) (t0s : list Z) (i : nat) : params := P_of c (nth i t0s 0).

Lemma mjudge_from_ok : forall P n i tr,
  (forall k, (i <= k < i + n)%nat -> judge_all (P k) [] (proj k tr) = 0%N) ->
  mjudge_from P i n tr = 0%N.
Proof.
  intros P n. induction n as [|n IH]; intros i tr H; [reflexivity|].
  cbn [mjudge_from]. rewrite (H i) by lia. cbn [N.eqb]. apply IH. intros k Hk. apply H. lia.
Qed.

(* every connection's sub-trace, over every system history, passes the judge *)
Theorem multi_spec_all : forall c t0s h, wf c ->
  (forall i t0, nth_error t0s i = Some t0 -> rx_ordered t0 (projh i h)) ->
  mjudge (MP c t0s) (length t0s) (mrun c (minit t0s) h) = 0%N.
Proof.
  intros c t0s h W Hord. unfold mjudge. apply mjudge_from_ok. intros k Hk.
  destruct (nth_error t0s k) as [t0|] eqn:Ek.
  2:{ apply nth_error_None in Ek. lia. }
  rewrite (proj_minit c t0s h k t0 Ek). unfold MP. rewrite (nth_error_nth _ _ 0 Ek).
  pose proof (spec_all c t0 (projh k h) W (Hord k t0 Ek)) as S. unfold spec_ok in S.
  apply N.eqb_eq in S. exact S.
Qed.

(* ---- rounds ------------------------------------------------------------------- *)

Lemma projh_round_out : forall order i t ok, ~ In i order -> projh i (round order t ok) = [].
Proof.
  intros order i t ok. induction order as [|j r IH]; intros H; [reflexivity|].
  cbn [round map projh]. destruct (Nat.eqb_spec j i) as [E|E]; [exfalso; apply H; left; exact E|].
  apply IH. intros Hin. apply H. right. exact Hin.
Qed.

Lemma projh_round_in : forall order i t ok, NoDup order -> In i order -> projh i (round order t ok) = [Tick t ok].
Proof.
  intros order i t ok. induction order as [|j r IH]; intros Hnd Hin; [destruct Hin|].
  inversion Hnd as [|? ? Hnotin Hnd']; subst.
  cbn [round map projh]. destruct (Nat.eqb_spec j i) as [E|E].
  - subst j. f_equal. apply (projh_round_out r i t ok Hnotin).
  - destruct Hin as [Hin|Hin]; [congruence|]. apply IH; assumption.
Qed.

(* a round ticks each of its connections exactly once; the order in which the Go map
   iteration visits them does not matter to any connection *)
Theorem round_order : forall c ss pre post o1 o2 t ok i s,
  NoDup o1 -> NoDup o2 -> (forall j, In j o1 <-> In j o2) -> nth_error ss i = Some s ->
  proj i (mrun c ss (pre ++ round o1 t ok ++ post)) = proj i (mrun c ss (pre ++ round o2 t ok ++ post)).
Proof.
  intros c ss pre post o1 o2 t ok i s N1 N2 Hsame Hs.
  apply (independent c ss _ _ i s Hs). rewrite !projh_app. f_equal. f_equal.
  destruct (in_dec Nat.eq_dec i o1) as [H1|H1].
  - rewrite (projh_round_in o1 i t ok N1 H1), (projh_round_in o2 i t ok N2 (proj1 (Hsame i) H1)). reflexivity.
  - rewrite (projh_round_out o1 i t ok H1). rewrite projh_round_out; [reflexivity|].
    intros H2. apply H1. apply (proj2 (Hsame i) H2).
Qed.

(* ---- the clauses, per connection ---------------------------------------------------
   [pre ++ (e, o) :: post] is the sub-trace of connection i: failures, reception
   times, reset points are those of connection i only. *)
Section PerConnection.
  Variables (c : cfg) (t0s : list Z) (h : list mev) (i : nat) (t0 : Z).
  Hypothesis W : wf c.
  Hypothesis Hi : nth_error t0s i = Some t0.
  Hypothesis Hord : rx_ordered t0 (projh i h).
  Variables (pre post : list item) (e : ev) (o : list obs).
  Hypothesis Hsplit : proj i (mrun c (minit t0s) h) = pre ++ (e, o) :: post.

  Let Hrun : run c (init t0) (projh i h) = pre ++ (e, o) :: post.
  Proof. rewrite <- (proj_minit c t0s h i t0 Hi). exact Hsplit. Qed.

  (* a connection is closed by the keep-alive exactly at ITS failure max+1: never because
     other connections left pings unanswered, always although other connections talk *)
  Lemma multi_keepalive_close : ka c = true -> has_strike o = true ->
    (has_close o = true <-> maxr c <= failures (rev pre)).
  Proof. exact (keepalive_close_exact c t0 (projh i h) W Hord pre post e o Hrun). Qed.

  Lemma multi_only_if_idle : has_strike o = true ->
    was_closed (rev pre) = false /\
    exists tau, tick_time (P_of c t0) e = Some tau /\ period c <> 0 /\
      forall r, In r (t0 :: rx_all (rev pre)) -> r + period c <= tau.
  Proof.
    intros Hs. destruct (acts_only_if_idle c t0 (projh i h) W Hord pre post e o Hrun Hs) as [A [tau [B [C [_ D]]]]].
    split; [exact A|]. exists tau. auto.
  Qed.

  Lemma multi_first_tick : forall tau,
    was_closed (rev pre) = false -> tick_time (P_of c t0) e = Some tau -> period c <> 0 ->
    (forall r, In r (t0 :: rx_all (rev pre)) -> r + period c < tau) ->
    has_strike o = true /\ (ka c = false -> has_close o = true).
  Proof. exact (acts_at_first_idle_tick c t0 (projh i h) W Hord pre post e o Hrun). Qed.
End PerConnection.

(* ---- messages sent by the local side -------------------------------------------------- *)

Lemma sent_inert : forall c s t, step c s (Sent t) = (s, []).
Proof. intros c s t. unfold step. destruct (closed s); reflexivity. Qed.

Lemma sent_not_received : forall t o older, rx_time (Sent t, o) = None /\ is_reset older (Sent t, o) = false.
Proof. intros. split; reflexivity. Qed.

(* removing the sends from a history changes nothing for the monitor *)
Definition not_sent (e : ev) : bool := match e with Sent _ => false | _ => true end.

Lemma final_without_sends : forall c h s, final c s (filter not_sent h) = final c s h.
Proof.
  intros c h. induction h as [|e r IH]; intros s; [reflexivity|].
  cbn [filter]. destruct e; cbn [not_sent final]; try apply IH.
  rewrite sent_inert. cbn [fst]. apply IH.
Qed.

Lemma run_without_sends : forall c h s,
  filter (fun it => not_sent (fst it)) (run c s h) = run c s (filter not_sent h).
Proof.
  intros c h. induction h as [|e r IH]; intros s; [reflexivity|].
  cbn [run]. destruct (step c s e) as [s1 o] eqn:Es.
  destruct e; cbn [filter not_sent fst run]; try (rewrite Es; f_equal; apply IH).
  rewrite sent_inert in Es. inversion Es; subst. apply IH.
Qed.
