(* C18 -- transcription of net/monitor/inactivity/{monitor,keepalive}.go and of
   the places that drive it (udp/client/conn.go Process/CheckExpirations,
   tcp/client/session.go processBuffer/CheckExpirations,
   udp/server/server.go getConn/handleInactivityMonitors,
   pkg/connections/connections.go CheckExpirations,
   options/commonOptions.go WithKeepAlive).  Times and durations are Z
   nanoseconds (time.Time / time.Duration; saturation of time.Add at +-292 years
   is not modelled).  No proofs here. *)
From Coq Require Import ZArith List Bool.
From GoCoap Require Import Gen.MonitorTiming.
Import ListNotations.
Open Scope Z_scope.

Record cfg := {
  period : Z;       (* Monitor.duration *)
  maxr   : Z;       (* KeepAlive.maxRetries (uint32) *)
  ka     : bool     (* true: onInactive = KeepAlive.OnInactive, false: onInactive closes *)
}.

Record st := {
  last    : Z;          (* Monitor.lastActivity *)
  fails   : Z;          (* KeepAlive.numFails   (atomic.Uint32) *)
  token   : Z;          (* KeepAlive.pongToken  (atomic.Uint64) *)
  pending : option Z;   (* KeepAlive.cancelPing: generation whose cancel func is stored *)
  closed  : bool        (* cc.Context().Done() *)
}.

(* the look-ahead the datagram path of the server adds to its tick *)
Definition slack : Z := Gen.MonitorTiming.lookahead.

Inductive ev :=
| Recv (t : Z)                  (* a message that is not an answer to a ping arrives at t: Notify *)
| Pong (g t : Z)                (* the answer to ping generation g arrives at t: Notify, then the receivePong callback of g *)
| PongCb (g : Z)                (* the receivePong callback of generation g alone (component level) *)
| Tick (t : Z) (sendok : bool)  (* housekeeping: CheckInactivity(t); sendok = sendPing succeeds if called *)
| Dgram (t : Z) (sendok : bool) (* udp server getConn for an existing peer: CheckExpirations(t + slack), then Notify unless closed *)
| Frag (t : Z)                  (* stream connection (tcp/client/session.go Run): a socket read at t returned bytes after
                                   which processBuffer decoded no complete message (ErrShortRead, or fewer bytes than the
                                   header announces): the bytes are buffered, Notify is NOT called *)
| Sent (t : Z)                  (* the LOCAL endpoint transmitted a message at t (udp/client/conn.go WriteMessage ->
                                   writeMessage / writeMessageAsync, Do; tcp/client/conn.go WriteMessage; a notification,
                                   a request, a confirmable message whose acknowledgement never comes): the write path
                                   does not touch the monitor -- no Notify, no OnActive *).

Inductive obs := Cancel (g : Z) | Ping (g : Z) | PingFail (g : Z) | Close.

Definition init (t0 : Z) : st := {| last := t0; fails := 0; token := 0; pending := None; closed := false |}.

(* Monitor.Notify: stamp; with keep-alive wiring onActive = KeepAlive.OnActive = resetFails *)
Definition notify (c : cfg) (s : st) (t : Z) : st :=
  {| last := t; fails := if ka c then 0 else fails s; token := token s; pending := pending s; closed := closed s |}.

(* the closure handed to sendPing: if pongToken.Load() == g then resetFails *)
Definition pong_cb (s : st) (g : Z) : st :=
  if token s =? g
  then {| last := last s; fails := 0; token := token s; pending := pending s; closed := closed s |}
  else s.

Definition cancel_obs (s : st) : list obs := match pending s with Some g => [Cancel g] | None => [] end.

(* KeepAlive.OnInactive *)
Definition ka_on_inactive (c : cfg) (s : st) (sendok : bool) : st * list obs :=
  let v := (fails s + 1) mod 2 ^ 32 in
  if v >? maxr c then
    ({| last := last s; fails := v; token := token s; pending := None; closed := true |}, cancel_obs s ++ [Close])
  else
    let g := (token s + 1) mod 2 ^ 64 in
    if sendok then
      ({| last := last s; fails := v; token := g; pending := Some g; closed := closed s |}, cancel_obs s ++ [Ping g])
    else
      ({| last := last s; fails := v; token := g; pending := None; closed := closed s |}, cancel_obs s ++ [PingFail g]).

Definition on_inactive (c : cfg) (s : st) (sendok : bool) : st * list obs :=
  if ka c then ka_on_inactive c s sendok
  else ({| last := last s; fails := fails s; token := token s; pending := pending s; closed := true |}, [Close]).

(* Monitor.CheckInactivity(now): duration == 0 disables; now.After(last.Add(duration)) *)
Definition check (c : cfg) (s : st) (now : Z) (sendok : bool) : st * list obs :=
  if period c =? 0 then (s, [])
  else if now >? last s + period c then on_inactive c s sendok
  else (s, []).

(* One event on a connection.  Closed connections are skipped by the drivers
   (Connections.CheckExpirations, Server.handleInactivityMonitors: case
   <-cc.Context().Done(): continue) and receive nothing. *)
Definition step (c : cfg) (s : st) (e : ev) : st * list obs :=
  if closed s then (s, [])
  else match e with
  | Recv t => (notify c s t, [])
  | Pong g t => (pong_cb (notify c s t) g, [])
  | PongCb g => (pong_cb s g, [])
  | Tick t ok => check c s t ok
  | Dgram t ok =>
      let '(s1, o) := check c s (t + slack) ok in
      if closed s1 then (s1, o) else (notify c s1 t, o)
  | Frag _ => (s, [])
  | Sent _ => (s, [])
  end.

Fixpoint run (c : cfg) (s : st) (h : list ev) : list (ev * list obs) :=
  match h with
  | [] => []
  | e :: r => let '(s1, o) := step c s e in (e, o) :: run c s1 r
  end.

Fixpoint final (c : cfg) (s : st) (h : list ev) : st :=
  match h with
  | [] => s
  | e :: r => final c (fst (step c s e)) r
  end.

(* ---- several connections made from ONE option value ----------------------------
   options/commonOptions.go: WithInactivityMonitor / WithKeepAlive (their Apply methods) store a
   closure in cfg.CreateInactivityMonitor; every call of the closure -- one per
   connection: udp/server getOrCreateConn "monitor := s.cfg.CreateInactivityMonitor()",
   tcp/server, every client built from the cfg -- runs inactivity.NewKeepAlive and
   inactivity.NewWithOnActive afresh.  So each connection owns a whole [st] (stamp,
   failure count, ping generation, cancel slot); the connections share only the
   immutable [cfg].  An event of the system names the connection it happens on. *)
Definition mev := (nat * ev)%type.

Fixpoint upd {A : Type} (i : nat) (x : A) (l : list A) : list A :=
  match l, i with
  | [], _ => []
  | _ :: r, O => x :: r
  | y :: r, S j => y :: upd j x r
  end.

Definition mstep (c : cfg) (ss : list st) (me : mev) : list st * list obs :=
  match nth_error ss (fst me) with
  | None => (ss, [])
  | Some s => let '(s1, o) := step c s (snd me) in (upd (fst me) s1 ss, o)
  end.

Fixpoint mrun (c : cfg) (ss : list st) (h : list mev) : list (mev * list obs) :=
  match h with
  | [] => []
  | me :: r => let '(ss1, o) := mstep c ss me in (me, o) :: mrun c ss1 r
  end.

(* connection i is created at (t0s !! i) *)
Definition minit (t0s : list Z) : list st := map init t0s.

(* a housekeeping round (udp/server handleInactivityMonitors over getConns(),
   pkg/connections CheckExpirations over copyConnections(): both iterate over a Go
   map) ticks the connections one after the other, in SOME order, with the same now *)
Definition round (order : list nat) (t : Z) (ok : bool) : list mev := map (fun i => (i, Tick t ok)) order.

(* ---- stream connections, byte level -------------------------------------------
   tcp/client/session.go Run: for { processBuffer(buffer); n := Read(readBuf); buffer.Write(readBuf[:n]) }.
   A byte-level history is what the socket and the housekeeping clock do: *)
Inductive bev :=
| BRead (t : Z) (n : nat)        (* one successful socket read at t returns the next n bytes of the peer's stream *)
| BTick (t : Z) (sendok : bool). (* housekeeping tick *)

(* what a read that completed k messages means for the monitor: processBuffer calls
   Notify once per decoded message (k times, all within the same read), and not at
   all when no message is complete *)
Definition read_evs (k : nat) (t : Z) : list ev :=
  match k with O => [Frag t] | _ => repeat (Recv t) k end.

(* options.WithKeepAlive: duration = timeout / time.Duration(maxRetries+1), the
   sum computed in uint32; None = integer divide by zero (run-time panic) *)
Definition ka_period (timeout maxRetries : Z) : option Z :=
  let d := (maxRetries + 1) mod 2 ^ 32 in
  if d =? 0 then None else Some (Z.quot timeout d).
