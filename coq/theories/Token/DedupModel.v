(* Token/DedupModel.v -- the message-ID layer of a datagram connection in front of the token table, as the code is:

     udp/client/conn.go  handleReq             -> receive program  [DRecv del m]:
                           msgIDMutex.TryLock/Lock(mid)   (the peer's CON / NON messages only)      D0
                           checkResponseCache: responseMsgCache.Load(mid)  (CON / NON only)          DCheck
                             found  -> the cached reply is sent again, the message is NOT handled    result DDup
                           handle(w, req)  = the receive program of Token/Model.v ([Deliver])         DIn
                           processResponse: a confirmable message the handler did not answer gets the
                             bare ACK, stored with addResponseToCache(mid); a non-confirmable message
                             nobody answered and an ACK (piggybacked response) store nothing;
                             deferred Unlock(mid)                                                    DStore
                         doInternal            -> [DCall cid tok m] = [Call cid tok m] of Token/Model.v
     pkg/cache           CheckExpirations      -> [DExpire mid]: the entry of mid is removed (its
                                                  EXCHANGE_LIFETIME is over). Time is not modelled: "within
                                                  EXCHANGE_LIFETIME" = no [DExpire mid] in the programs.

   A received message is (type, message ID of the sender's numbering, response): the response is that of
   Token/Model.v (instance, token, request it was produced for); retransmissions of a response are further
   [DRecv] with the same instance, type and message ID. Several receive threads may run (the reader replaces its
   loop while the old one is inside a handler): the per-message-ID lock then serialises the copies of one message.
   Storing into the cache and releasing the lock (two consecutive statements of the lock holder, nobody else
   touches this message ID in between) are one action.

   [dact_bypass] is the variant the property excludes (refutation only): the cache is not consulted when a
   token handler is registered for the token of the message. *)
From Coq Require Import ZArith List Bool Arith.
From GoCoap Require Import Base.Interleave Token.Model.
Import ListNotations.
Open Scope Z_scope.

Inductive mtype := TCon | TNon | TAck.
Definition dedupable (t : mtype) : bool := match t with TAck => false | _ => true end.
Record dmsg := mkM { m_typ : mtype; m_mid : Z; m_r : resp }.

Definition zmem (x : Z) (l : list Z) : bool := existsb (Z.eqb x) l.
Definition zrem (x : Z) (l : list Z) : list Z := filter (fun y => negb (x =? y)) l.

Record dst := mkD {
  cache : list Z;      (* responseMsgCache: the message IDs that have a stored reply *)
  locked : list Z;     (* msgIDMutex: the message IDs being handled *)
  tok_st : st          (* token table, channels, wire, fall-through (Token/Model.v) *)
}.
Definition dempty : dst := mkD [] [] empty.
Definition with_tok (s : dst) (x : st) : dst := mkD (cache s) (locked s) x.

Inductive dop :=
| DCall (cid : nat) (tok : list Z) (m : mode)      (* one execution of doInternal *)
| DRecv (del : bool) (m : dmsg)                    (* one execution of handleReq for the received response m *)
| DExpire (mid : Z).                               (* the cached reply of mid expires *)
Inductive dres :=
| DRet (x : res)      (* what doInternal / handle returned *)
| DDup                (* answered from the response cache, not handled *)
| DExpired.
Inductive dloc :=
| D0                        (* handleReq: before the message-ID lock; doInternal: start *)
| DCheck                    (* lock held, before checkResponseCache *)
| DIn (o : op) (l : loc)    (* inside handle / doInternal: operation o of Token/Model.v at its location l *)
| DStore (x : res).         (* handle returned x; processResponse and the deferred Unlock are pending *)

Section WithHash.
  Variable hash : list Z -> Z.

  Definition dlift (o : op) (l : loc) (s : dst) (fin : res -> dloc * option dres) : option (dloc * dst * option dres) :=
    match act hash o l (tok_st s) with
    | None => None
    | Some (l', i', None) => Some (DIn o l', with_tok s i', None)
    | Some (_, i', Some x) => let '(b, d) := fin x in Some (b, with_tok s i', d)
    end.

  Definition unlock (m : dmsg) (s : dst) : list Z :=
    if dedupable (m_typ m) then zrem (m_mid m) (locked s) else locked s.

  Definition dact (o : dop) (l : dloc) (s : dst) : option (dloc * dst * option dres) :=
    match o, l with
    | DCall cid tok m, D0 => dlift (Call cid tok m) L0 s (fun x => (D0, Some (DRet x)))
    | DCall _ _ _, DIn o' l' => dlift o' l' s (fun x => (D0, Some (DRet x)))
    | DRecv del m, D0 =>
        (* if req.Type() == Confirmable || NonConfirmable { l := cc.msgIDMutex.Lock(reqMid); defer l.Unlock() } *)
        if dedupable (m_typ m) then
          if zmem (m_mid m) (locked s) then None
          else Some (DCheck, mkD (cache s) (m_mid m :: locked s) (tok_st s), None)
        else Some (DIn (Deliver del (m_r m)) L0, s, None)
    | DRecv del m, DCheck =>
        (* if ok, _ := cc.checkResponseCache(req, w); ok { return } *)
        if zmem (m_mid m) (cache s) then Some (DCheck, mkD (cache s) (unlock m s) (tok_st s), Some DDup)
        else Some (DIn (Deliver del (m_r m)) L0, s, None)
    | DRecv del m, DIn o' l' =>
        (* cc.handle(w, req) *)
        dlift o' l' s (fun x => (DStore x, None))
    | DRecv del m, DStore x =>
        (* cc.processResponse(reqType, reqMessageID, w): sendJustAcknowledgeMessage -> addResponseToCache *)
        Some (DStore x,
              mkD (match m_typ m with TCon => m_mid m :: cache s | _ => cache s end) (unlock m s) (tok_st s),
              Some (DRet x))
    | DExpire mid, D0 => Some (D0, mkD (zrem mid (cache s)) (locked s) (tok_st s), Some DExpired)
    | _, _ => None
    end.

  Definition dinit_loc (_ : dop) : dloc := D0.
  Definition dno_lp (_ : dloc) : option dres := None.

  Definition dconfig := Interleave.config dst dop dloc dres.
  Definition dthread := Interleave.thread dop dloc dres.
  Definition devent := @Interleave.event dop dres.

  Definition dstep : dconfig -> nat -> dconfig := Interleave.step dst dop dloc dres dinit_loc dact dno_lp.
  Definition dexec : list nat -> dconfig -> dconfig := Interleave.exec dst dop dloc dres dinit_loc dact dno_lp.
  Definition dinit (progs : list (list dop)) : dconfig := Interleave.init dst dop dloc dres dempty progs.
  Definition drun (progs : list (list dop)) (sched : list nat) : dconfig := dexec sched (dinit progs).

  (* The variant the property excludes: "a request is waiting for this message: do not take it for a duplicate" --
     the response cache is consulted only when no token handler is registered for the token of the message. *)
  Definition dact_bypass (o : dop) (l : dloc) (s : dst) : option (dloc * dst * option dres) :=
    match o, l with
    | DRecv del m, DCheck =>
        match tget (hash (r_tok (m_r m))) (tbl (tok_st s)) with
        | Some _ => Some (DIn (Deliver del (m_r m)) L0, s, None)
        | None => dact o l s
        end
    | _, _ => dact o l s
    end.
  Definition dstep_bypass : dconfig -> nat -> dconfig := Interleave.step dst dop dloc dres dinit_loc dact_bypass dno_lp.
  Definition drun_bypass (progs : list (list dop)) (sched : list nat) : dconfig :=
    fold_left dstep_bypass sched (dinit progs).
End WithHash.
