(* Token/Run.v -- correspondence evaluator for C03.

   A case is a history observed on a real udp/client.Conn or tcp/client.Conn:
   calls issued (Do/Get/Post on goroutines), acknowledgements, responses and
   cancellations injected by the scripted peer, and after each event the calls
   that returned (class, token, payload tag = request it was produced for and
   response instance) and whether the message reached the default handler.

   [agrees]: the history is replayed on the machine of Model.v -- thread cid
   runs [Call cid tok m], one more thread runs the [Deliver]s in arrival order;
   the schedule is derived from the events (a call proceeds past its wait when
   it is acknowledged and its channel is filled, or when it is cancelled) -- and
   the returns / fall-throughs of the machine must equal the observed ones.
   [pclass]: the property classifier of Spec.v on the observed history, with
   Token.Hash = CRC-64/ISO. *)
From Coq Require Import ZArith NArith List Bool Arith.
From GoCoap Require Import Base.Cases Base.Interleave Observe.Model Token.Model Token.Spec.
Import ListNotations.
Open Scope Z_scope.

Definition hash : list Z -> Z := crc64.

Inductive case := Case (evs : list oev).

Definition cfg := Token.Model.config.

(* ---------- programs from the events ---------- *)
Definition observed_cls (cid : nat) (evs : list oev) : Z :=
  match find (fun r => Nat.eqb (o_cid r) cid) (flat_map o_rets evs) with
  | Some r => o_cls r
  | None => -1
  end.

Definition caller_progs (evs : list oev) : list (list op) :=
  flat_map (fun e => match o_k e with
                     | KStart cid tok _ =>
                         let c := observed_cls cid evs in
                         [[Call cid tok (if c =? 2 then MCancel else if c =? 3 then MWriteFail else MWait)]]
                     | _ => []
                     end) evs.

Definition recv_prog (evs : list oev) : list op :=
  flat_map (fun e => match o_k e with
                     | KResp del false rid tok f _ => [Deliver del (mkR rid tok f)]
                     | _ => []
                     end) evs.

(* cids must be 0,1,2,... in the order of the KStart events (thread id = cid) *)
Fixpoint cids_ok (n : nat) (evs : list oev) : bool :=
  match evs with
  | [] => true
  | e :: q => match o_k e with
              | KStart cid _ _ => Nat.eqb cid n && cids_ok (S n) q
              | _ => cids_ok n q
              end
  end.

(* ---------- schedule fragments ---------- *)
Definition cur_of (c : cfg) (t : nat) : option (tstate op loc res) :=
  match nth_error (threads _ _ _ _ c) t with Some th => Some (cur _ _ _ th) | None => None end.

Definition stp (c : cfg) (t : nat) : cfg := mstep hash c t.

(* step thread t until it is idle or parked at its wait (at most n steps) *)
Fixpoint advance (n : nat) (c : cfg) (t : nat) : cfg :=
  match n with
  | O => c
  | S n' =>
      match cur_of c t with
      | Some Idle => c
      | Some (Running (Call _ _ _) LWait) => c
      | Some _ => advance n' (stp c t) t
      | None => c
      end
  end.

Definition ready (c : cfg) (cancelled acked : list nat) (cid : nat) : bool :=
  match cur_of c cid with
  | Some (Running (Call id tok m) LWait) =>
      match m with
      | MCancel => mem cid cancelled
      | _ => mem cid acked && match cget (id, tok) (chans (shared _ _ _ _ c)) with Some _ => true | None => false end
      end
  | _ => false
  end.

Definition settle (ncall : nat) (c : cfg) (cancelled acked : list nat) : cfg :=
  fold_left (fun c cid => if ready c cancelled acked cid then advance 4 (stp c cid) cid else c) (seq 0 ncall) c.

(* ---------- what the machine produced during one event ---------- *)
Definition res_cls (r : res) : Z :=
  match r with ROk _ => 0 | RExists => 1 | RCtx => 2 | RWrite => 3 | _ => 4 end.

Definition ret_of (e : event) : list oret :=
  match e with
  | ERes _ _ (Call cid tok _) (ROk r) => [mkRet cid 0 (r_tok r) (r_for r) (r_id r)]
  | ERes _ _ (Call cid tok _) r => [mkRet cid (res_cls r) [] 0 0]
  | _ => []
  end.
Definition fell_of (e : event) : bool :=
  match e with ERes _ _ (Deliver _ _) RFall => true | _ => false end.

Fixpoint insert_ret (x : oret) (l : list oret) : list oret :=
  match l with [] => [x] | y :: r => if Nat.leb (o_cid x) (o_cid y) then x :: l else y :: insert_ret x r end.
Definition sort_rets (l : list oret) : list oret := fold_right insert_ret [] l.

Definition ret_eqb (a b : oret) : bool :=
  Nat.eqb (o_cid a) (o_cid b) && (o_cls a =? o_cls b) && tok_eqb (o_tok a) (o_tok b)
  && Nat.eqb (o_for a) (o_for b) && Nat.eqb (o_rid a) (o_rid b).
Fixpoint rets_eqb (a b : list oret) : bool :=
  match a, b with
  | [], [] => true
  | x :: p, y :: q => ret_eqb x y && rets_eqb p q
  | _, _ => false
  end.

Record rstate := mkRS { r_c : cfg; r_cancelled : list nat; r_acked : list nat }.

Definition run_ev (ncall : nat) (s : rstate) (e : oev) : rstate * bool :=
  let c := r_c s in
  let '(c1, can, ack) :=
    match o_k e with
    | KStart cid _ a => (advance 6 (stp c cid) cid, r_cancelled s, if a then cid :: r_acked s else r_acked s)
    | KAck cid => (c, r_cancelled s, cid :: r_acked s)
    | KResp _ dedup _ _ _ ackfor =>
        (if dedup then c else advance 4 (stp c ncall) ncall, r_cancelled s,
         match ackfor with Some x => x :: r_acked s | None => r_acked s end)
    | KCancel cid => (c, cid :: r_cancelled s, r_acked s)
    | KBurst _ => (c, r_cancelled s, r_acked s)   (* only in block-wise layer cases (BwRun.v) *)
    end in
  let c2 := settle ncall c1 can ack in
  let fresh := firstn (length (rhist _ _ _ _ c2) - length (rhist _ _ _ _ c)) (rhist _ _ _ _ c2) in
  let ok := rets_eqb (sort_rets (flat_map ret_of fresh)) (sort_rets (o_rets e))
            && Bool.eqb (existsb fell_of fresh) (o_fell e) in
  (mkRS c2 can ack, ok).

Fixpoint run_evs (ncall : nat) (s : rstate) (l : list oev) : bool :=
  match l with
  | [] => true
  | e :: q => let '(s', ok) := run_ev ncall s e in ok && run_evs ncall s' q
  end.

Definition agrees (c : case) : bool :=
  match c with Case evs =>
    let cp := caller_progs evs in
    cids_ok 0 evs &&
    run_evs (length cp) (mkRS (minit (cp ++ [recv_prog evs])) [] []) evs
  end.

Definition pclass (c : case) : N := match c with Case evs => c03_class hash evs end.

Definition mismatches (cs : list case) : list N := bad_indices (fun c => negb (agrees c)) cs.
Definition property_failures (cs : list case) : list (N * N) := classes pclass cs.
