(* Token/ReasmModel.v -- the reassembly state of block-wise responses WITH its validity, as the code is:

     net/blockwise/blockwise.go  processReceivedMessage (Block2 response), getCachedReceivedMessage,
                                 getValidUntil, Do (sending cache + deferred Delete), CheckExpirations
     pkg/cache/cache.go        Element.IsExpired, Cache.Load (an expired element is NOT returned),
                                 Cache.LoadOrStore (an expired element is REPLACED), Cache.CheckExpirations
                                 (expired elements are removed, onExpire runs)

   Token/BwModel.v has no time: its receiving cache never loses an element. Here an element of
   receivingMessagesCache carries its validity ([e_valid]; validUntil = the deadline of the request whose block
   created it, or creation + transfer timeout) and the machine has the events "the validity of the elements is
   over" and "the periodic sweep runs". The token table below the block-wise layer is not repeated here: the
   machine says which assembled bodies are handed to next(w, .) and of which blocks they consist.

   A block is identified by the request the peer produced it for ([b_for]), its number and its M bit. Every block
   with M = 1 is full-size, so the bytes reassembled so far are [length (e_parts e)] blocks (as in BwModel.v).
   Requests are GET/DELETE without body, no Observe, no ETag (or always the same ETag).

   The machine is sequential (a list of events): the receive path handles one message at a time and the guard of
   an element serialises what is done to it; interleavings of the token table are the subject of Model.v /
   BwModel.v. The look-up is a parameter of the step function: [load_valid] is Cache.Load; [load_any] is the
   look-up WITHOUT the IsExpired test (for a refutation only). *)
From Coq Require Import ZArith List Bool Arith.
Import ListNotations.
Open Scope Z_scope.

Record blk := mkBlk { b_for : nat; b_num : nat; b_more : bool }.

(* an element of receivingMessagesCache: the producers (requests) of the blocks appended so far, in order *)
Record entry := mkE { e_parts : list nat; e_valid : bool }.

Definition rcache := list (Z * entry).
Fixpoint eget (k : Z) (l : rcache) : option entry :=
  match l with
  | [] => None
  | (k', v) :: q => if k =? k' then Some v else eget k q
  end.
Definition edel (k : Z) (l : rcache) : rcache := filter (fun p => negb (k =? fst p)) l.
Definition eset (k : Z) (v : entry) (l : rcache) : rcache := (k, v) :: edel k l.

(* sendingMessagesCache: key -> the Do that stored its request there *)
Definition holders := list (Z * nat).
Fixpoint hget (k : Z) (l : holders) : option nat :=
  match l with
  | [] => None
  | (k', v) :: q => if k =? k' then Some v else hget k q
  end.
Definition hdel (k : Z) (l : holders) : holders := filter (fun p => negb (k =? fst p)) l.

Record rst := mkRS { holder : holders; rcached : rcache }.
Definition rempty : rst := mkRS [] [].

Inductive rsev :=
| RStart (cid : nat) (k : Z)     (* BlockWise.Do of request cid, key k = Token.Hash: LoadOrStore on the sending cache *)
| RBlock (k : Z) (b : blk)       (* BlockWise.Handle for a response with Block2 (b_num, b_more) and a token with key k *)
| REnd (cid : nat) (k : Z)       (* the Do of request cid returns (response, cancellation, deadline): deferred Delete by key *)
| RElapse                        (* time passes beyond the validity of every element stored so far; nothing is removed *)
| RSweep.                        (* CheckExpirations: expired elements are removed; the onExpire of a reassembly
                                    element deletes the sending-cache entry under its key *)

Inductive rout :=
| OInvalid (cid : nat)                 (* Do: "invalid token" *)
| ODeliver (k : Z) (parts : list nat)  (* next(w, assembled message): the producers of its blocks, in order *)
| OAsk (k : Z) (n : nat)               (* request for block n written *)
| ORefuse (k : Z).                     (* 4.08 Request Entity Incomplete written *)

(* Cache.Load: an expired element is not returned *)
Definition load_valid (k : Z) (c : rcache) : option entry :=
  match eget k c with
  | Some e => if e_valid e then Some e else None
  | None => None
  end.
(* the look-up without the IsExpired test (LoadWithFunc that takes the guard of whatever is stored) *)
Definition load_any (k : Z) (c : rcache) : option entry := eget k c.

Definition expire_all (c : rcache) : rcache := map (fun p => (fst p, mkE (e_parts (snd p)) false)) c.
(* is the element stored under k valid? *)
Definition kvalid (c : rcache) (k : Z) : bool :=
  match eget k c with Some e => e_valid e | None => false end.
Definition expired_keys (c : rcache) : list Z := filter (fun k => negb (kvalid c k)) (map fst c).
Definition sweep (c : rcache) : rcache := filter (fun p => kvalid c (fst p)) c.

Section Step.
  Variable load : Z -> rcache -> option entry.

  (* the guarded reassembly with element e (getPayloadFromCachedReceivedMessage, off == payloadSize?) *)
  Definition reasm (s : rst) (k : Z) (b : blk) (e : entry) : rst * list rout :=
    let have := length (e_parts e) in
    if Nat.eqb (b_num b) have then
      if b_more b then
        (mkRS (holder s) (eset k (mkE (e_parts e ++ [b_for b]) (e_valid e)) (rcached s)), [OAsk k (S have)])
      else
        (mkRS (holder s) (edel k (rcached s)), [ODeliver k (e_parts e ++ [b_for b])])
    else
      (mkRS (holder s) (eset k e (rcached s)), [OAsk k have]).

  Definition rstep (s : rst) (ev : rsev) : rst * list rout :=
    match ev with
    | RStart cid k =>
        match hget k (holder s) with
        | Some _ => (s, [OInvalid cid])
        | None => (mkRS ((k, cid) :: holder s) (rcached s), [])
        end
    | REnd cid k =>
        match hget k (holder s) with
        | Some _ => (mkRS (hdel k (holder s)) (rcached s), [])   (* by key, whoever stored it *)
        | None => (s, [])
        end
    | RBlock k b =>
        match hget k (holder s) with
        | None => (s, [ORefuse k])                              (* "cannot request body without paired request" *)
        | Some _ =>
            match load k (rcached s) with
            | Some e => reasm s k b e
            | None =>
                if b_more b then
                  (* getCachedReceivedMessage(nil, ...): LoadOrStore of a new element; what is stored under the
                     key is expired (or nothing is stored) and is replaced *)
                  reasm s k b (mkE [] true)
                else if Nat.eqb (b_num b) 0 then (s, [ODeliver k [b_for b]])   (* a one-block body: next(w, r) *)
                else (s, [ORefuse k])                           (* "received last block without previous blocks" *)
            end
        end
    | RElapse => (mkRS (holder s) (expire_all (rcached s)), [])
    | RSweep =>
        (mkRS (fold_left (fun h k => hdel k h) (expired_keys (rcached s)) (holder s)) (sweep (rcached s)), [])
    end.

  Fixpoint rrun (s : rst) (evs : list rsev) : rst * list rout :=
    match evs with
    | [] => (s, [])
    | ev :: q =>
        let '(s1, o1) := rstep s ev in
        let '(s2, o2) := rrun s1 q in
        (s2, o1 ++ o2)
    end.
End Step.
