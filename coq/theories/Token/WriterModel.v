(* Token/WriterModel.v -- who releases the response-writer message on the receive path, as the code is:

     net/responsewriter/responseWriter.go
        ResponseWriter.SetMessage(m)     -> r.cc.ReleaseMessage(r.response); r.response = m
     tcp/client/conn.go  ProcessReceivedMessageWithHandler(req, handler)
        origResp := cc.AcquireMessage(..); w := responsewriter.New(origResp, ..); handler(w, req)
        defer cc.ReleaseMessage(w.Message())        -- w.Message() is evaluated AFTER the handler ran
        if !req.IsHijacked() { cc.ReleaseMessage(req) }
     udp/client/conn.go  ProcessReceivedMessageWithHandler(req, handler)
        the same two releases as deferred functions: w.Message() first, then req

   On the client receive path the handler is BlockWise.Handle around the token dispatch: it replaces the
   writer's message (request for the next block, 4.08) with SetMessage, and the token handler hijacks the
   received message when it hands it to the waiting call (Token/Model.v, action LHand).

   Pooled messages are numbered objects. [process] is the sequence of objects the receive path releases
   while it handles one received message. No proofs here. *)
From Coq Require Import List Bool Arith.
Import ListNotations.

Record wst := mkW { wcur : nat; wreleased : list nat }.

(* ResponseWriter.SetMessage *)
Definition set_message (s : wst) (m : nat) : wst := mkW m (wreleased s ++ [wcur s]).

(* the handler's use of the writer: the messages it passes to SetMessage, in order *)
Definition run_handler (orig : nat) (sets : list nat) : wst := fold_left set_message sets (mkW orig []).

(* ProcessReceivedMessageWithHandler: orig = the acquired writer message, req = the received message,
   hijacked = the handler kept req (handed it to a waiting call) *)
Definition process (tcp : bool) (orig req : nat) (hijacked : bool) (sets : list nat) : list nat :=
  let s := run_handler orig sets in
  let rq := if hijacked then [] else [req] in
  wreleased s ++ (if tcp then rq ++ [wcur s] else [wcur s] ++ rq).

(* The variant the property excludes (for a refutation only): "defer cc.ReleaseMessage(origResp)" right
   after the acquisition -- the object to release is fixed BEFORE the handler runs. *)
Definition process_early (orig req : nat) (hijacked : bool) (sets : list nat) : list nat :=
  let s := run_handler orig sets in
  wreleased s ++ (if hijacked then [] else [req]) ++ [orig].
