(* Token/BwRun.v -- correspondence evaluator for C03, all cases.

   [Case evs]   a history of a connection as in Run.v (evaluated there: machine of Model.v).
   [BwCase evs] a history of a connection with block-wise transfer in which responses arrive in blocks
                (Block2) or back to back: it is replayed on the machine of BwModel.v -- thread cid runs
                [BCall cid tok m] (BlockWise.Do around doInternal), one more thread runs a [BRecv] per received
                message in arrival order; the schedule is derived from the events as in Run.v -- and per
                event the returns, the fall-through, the block numbers the connection asked for and the number
                of 4.08 Request Entity Incomplete it wrote must equal the observed ones; where the harness
                observed the pool, the messages the receive path released while it handled a message must be
                those of WriterModel.process.
   [pclass]: the classifiers of Spec.v / BwSpec.v on the observed history, Token.Hash = CRC-64/ISO. *)
From Coq Require Import ZArith NArith List Bool Arith.
From GoCoap Require Import Base.Cases Base.Interleave Observe.Model Token.Model Token.Spec Token.Run
  Token.BwModel Token.BwSpec Token.WriterModel Token.ReasmModel.
Import ListNotations.
Open Scope Z_scope.

Inductive case := Case (evs : list oev) | BwCase (evs : list bev).

Definition bcfg := BwModel.bconfig.

(* ---------- programs from the events ---------- *)
Definition bobserved_cls (cid : nat) (evs : list bev) : Z :=
  match find (fun r => Nat.eqb (o_cid r) cid) (flat_map b_rets evs) with
  | Some r => o_cls r
  | None => -1
  end.

Definition bcaller_progs (evs : list bev) : list (list bop) :=
  flat_map (fun e => match b_k e with
                     | BStart cid tok _ =>
                         let c := bobserved_cls cid evs in
                         [[BCall cid tok (if c =? 2 then MCancel else if c =? 3 then MWriteFail else MWait)]]
                     | _ => []
                     end) evs.

Definition recv_op (m : bmsg) : list bop :=
  let '(del, dedup, rid, tok, f, _, blk) := m in
  if dedup then [] else [BRecv del (mkR rid tok f) blk].

Definition brecv_prog (evs : list bev) : list bop := flat_map (fun e => flat_map recv_op (msgs_of e)) evs.

Fixpoint bcids_ok (n : nat) (evs : list bev) : bool :=
  match evs with
  | [] => true
  | e :: q => match b_k e with
              | BStart cid _ _ => Nat.eqb cid n && bcids_ok (S n) q
              | _ => bcids_ok n q
              end
  end.

(* ---------- schedule fragments ---------- *)
Definition bcur_of (c : bcfg) (t : nat) : option (tstate bop bloc bres) :=
  match nth_error (threads _ _ _ _ c) t with Some th => Some (cur _ _ _ th) | None => None end.

Definition bstp (c : bcfg) (t : nat) : bcfg := bstep hash c t.

(* step thread t until it is idle or parked at the wait of doInternal (at most n steps) *)
Fixpoint badvance (n : nat) (c : bcfg) (t : nat) : bcfg :=
  match n with
  | O => c
  | S n' =>
      match bcur_of c t with
      | Some Idle => c
      | Some (Running (BCall _ _ _) (BIn _ LWait)) => c
      | Some _ => badvance n' (bstp c t) t
      | None => c
      end
  end.

Definition bready (c : bcfg) (cancelled acked : list nat) (cid : nat) : bool :=
  match bcur_of c cid with
  | Some (Running (BCall id tok m) (BIn _ LWait)) =>
      match m with
      | MCancel => mem cid cancelled
      | _ => mem cid acked && match cget (id, tok) (chans (inner (shared _ _ _ _ c))) with Some _ => true | None => false end
      end
  | _ => false
  end.

Definition bsettle (ncall : nat) (c : bcfg) (cancelled acked : list nat) : bcfg :=
  fold_left (fun c cid => if bready c cancelled acked cid then badvance 6 (bstp c cid) cid else c) (seq 0 ncall) c.

(* ---------- what the machine produced during one event ---------- *)
Definition bret_of (e : bevent) : list oret :=
  match e with
  | ERes _ _ (BCall cid _ _) (BRet (ROk r)) => [mkRet cid 0 (r_tok r) (r_for r) (r_id r)]
  | ERes _ _ (BCall cid _ _) (BRet r) => [mkRet cid (res_cls r) [] 0 0]
  | ERes _ _ (BCall cid _ _) BInvalid => [mkRet cid 1 [] 0 0]
  | _ => []
  end.
Definition bfell_of (e : bevent) : bool :=
  match e with ERes _ _ (BRecv _ _ _) (BRet RFall) => true | _ => false end.
Definition basked_of (e : bevent) : list nat :=
  match e with ERes _ _ (BRecv _ _ _) (BAsked n) => [n] | _ => [] end.
Definition binc_of (e : bevent) : nat :=
  match e with ERes _ _ (BRecv _ _ _) BIncomplete => 1%nat | _ => O end.

Fixpoint nats_eqb (a b : list nat) : bool :=
  match a, b with
  | [], [] => true
  | x :: p, y :: q => Nat.eqb x y && nats_eqb p q
  | _, _ => false
  end.

(* the releases of the receive path while it handled one message are those of WriterModel.process *)
Definition writer_ok (x : bool * bool * bool * list nat) : bool :=
  let '(tcp, hij, set, rels) := x in
  nats_eqb rels (process tcp 0 1 hij (if set then [2%nat] else [])).

Record brstate := mkBRS { br_c : bcfg; br_cancelled : list nat; br_acked : list nat }.

Definition ack_of (m : bmsg) : list nat :=
  let '(_, _, _, _, _, ackfor, _) := m in match ackfor with Some x => [x] | None => [] end.

(* the receive thread handles one message *)
Definition brecv_one (ncall : nat) (c : bcfg) (m : bmsg) : bcfg :=
  let '(_, dedup, _, _, _, _, _) := m in
  if dedup then c else badvance 8 (bstp c ncall) ncall.

Definition brun_ev (ncall : nat) (s : brstate) (e : bev) : brstate * bool :=
  let c := br_c s in
  let '(c1, can, ack) :=
    match b_k e with
    | BStart cid _ a => (badvance 8 (bstp c cid) cid, br_cancelled s, if a then cid :: br_acked s else br_acked s)
    | BAck cid => (c, br_cancelled s, cid :: br_acked s)
    | BMsg m => (brecv_one ncall c m, br_cancelled s, ack_of m ++ br_acked s)
    | BBurst ms => (fold_left (brecv_one ncall) ms c, br_cancelled s, flat_map ack_of ms ++ br_acked s)
    | BCancel cid => (c, cid :: br_cancelled s, br_acked s)
    | BElapse =>
        (* an expired element is not loaded and is replaced by the next LoadOrStore: as good as absent
           (Token/ReasmModel.v load_valid, ReasmProofs.expired_element_not_loaded) *)
        (mkC _ _ _ _ (with_recving (shared _ _ _ _ c) []) (threads _ _ _ _ c) (rhist _ _ _ _ c) (rlin _ _ _ _ c),
         br_cancelled s, br_acked s)
    end in
  let c2 := bsettle ncall c1 can ack in
  let fresh := firstn (length (rhist _ _ _ _ c2) - length (rhist _ _ _ _ c)) (rhist _ _ _ _ c2) in
  let ok := rets_eqb (sort_rets (flat_map bret_of fresh)) (sort_rets (b_rets e))
            && Bool.eqb (existsb bfell_of fresh) (b_fell e)
            && nats_eqb (flat_map basked_of (rev fresh)) (b_asked e)
            && Nat.eqb (list_sum (map binc_of fresh)) (b_inc e)
            && forallb writer_ok (b_wr e) in
  (mkBRS c2 can ack, ok).

Fixpoint brun_evs (ncall : nat) (s : brstate) (l : list bev) : bool :=
  match l with
  | [] => true
  | e :: q => let '(s', ok) := brun_ev ncall s e in ok && brun_evs ncall s' q
  end.

(* ---------- the same history on the reassembly machine with validity (Token/ReasmModel.v) ----------
   BStart -> RStart, a message with Block2 -> RBlock, BElapse -> RElapse, the return of the call that holds its
   key -> REnd; per event the block numbers asked for and the number of 4.08 must be those of the machine. *)
Definition key_of (cid : nat) (all : list bev) : Z :=
  match find (fun e => match b_k e with BStart c _ _ => Nat.eqb c cid | _ => false end) all with
  | Some e => match b_k e with BStart _ tok _ => hash tok | _ => 0 end
  | None => 0
  end.

Definition rblock_of (m : bmsg) : list rsev :=
  let '(_, dedup, _, tok, f, _, blk) := m in
  match blk with
  | Some (num, more) => if dedup then [] else [RBlock (hash tok) (mkBlk f num more)]
  | None => []
  end.

Definition rs_ev (all : list bev) (s : rst) (e : bev) : rst * bool :=
  let evs1 := match b_k e with
              | BStart cid tok _ => [RStart cid (hash tok)]
              | BMsg m => rblock_of m
              | BBurst ms => flat_map rblock_of ms
              | BElapse => [RElapse]
              | _ => []
              end in
  let '(s1, o1) := rrun load_valid s evs1 in
  let ends := flat_map (fun r => let k := key_of (o_cid r) all in
                                 match hget k (holder s1) with
                                 | Some c => if Nat.eqb c (o_cid r) then [REnd c k] else []
                                 | None => []
                                 end) (b_rets e) in
  let '(s2, _) := rrun load_valid s1 ends in
  (s2, nats_eqb (flat_map (fun o => match o with OAsk _ n => [n] | _ => [] end) o1) (b_asked e)
       && Nat.eqb (length (filter (fun o => match o with ORefuse _ => true | _ => false end) o1)) (b_inc e)).

Fixpoint rs_evs (all : list bev) (s : rst) (l : list bev) : bool :=
  match l with
  | [] => true
  | e :: q => let '(s', ok) := rs_ev all s e in ok && rs_evs all s' q
  end.

Definition reasm_agrees (evs : list bev) : bool := rs_evs evs rempty evs.

Definition bw_agrees (evs : list bev) : bool :=
  let cp := bcaller_progs evs in
  bcids_ok 0 evs &&
  brun_evs (length cp) (mkBRS (binit (cp ++ [brecv_prog evs])) [] []) evs &&
  reasm_agrees evs.

Definition agrees (c : case) : bool :=
  match c with
  | Case evs => Token.Run.agrees (Token.Run.Case evs)
  | BwCase evs => bw_agrees evs
  end.

Definition pclass (c : case) : N :=
  match c with
  | Case evs => c03_class hash evs
  | BwCase evs => c03bw_class hash evs
  end.

Definition mismatches (cs : list case) : list N := bad_indices (fun c => negb (agrees c)) cs.
Definition property_failures (cs : list case) : list (N * N) := classes pclass cs.
