(* Token/DedupRun.v -- correspondence evaluator for C03, all cases.

   [Case evs], [BwCase evs]  as in BwRun.v.
   [DdCase evs]  a history of a datagram connection in which every received message is described by its type and
                 message ID (nothing about duplicates is told): it is replayed on the machine of DedupModel.v --
                 thread cid runs [DCall cid tok m], one more thread runs a [DRecv] per received message (and a
                 [DExpire] per message ID received before a "lifetime elapsed" event) in arrival order; the
                 schedule is derived from the events as in Run.v -- and per event the returns, the fall-through to
                 the default handler, whether the response cache had a reply for the message ID (machine: the
                 receive operation ended [DDup]) and the number of acknowledgements written for the message must
                 equal the observed ones.
   [RcCase ops]  one pooled message through several lives (RecycleModel.v), see below.
   [TkCase salt pieces obs]  n = length obs calls of the library's token source (message.GetToken), one after the
                 other, while the system's source of randomness delivers the bytes [ent_gen salt pieces]; per call
                 the token and the number of bytes read during the call. Must equal [SourceModel.tokens n ent].
   [pclass]: the classifiers of Spec.v / BwSpec.v / DedupSpec.v / SourceSpec.v on the observed history,
             Token.Hash = CRC-64/ISO. *)
From Coq Require Import ZArith NArith List Bool Arith.
From GoCoap Require Import Base.Cases Base.Interleave Observe.Model Token.Model Token.Spec Token.Run
  Token.BwModel Token.BwSpec Token.BwRun Token.DedupModel Token.DedupSpec Token.RecycleModel
  Token.SourceModel Token.SourceSpec.
Import ListNotations.
Open Scope Z_scope.

(* one operation on a pooled message; a decode comes with what the harness read afterwards (token, code, body) *)
Inductive rcop :=
| RcUnm (tcp : bool) (tok : list Z) (code : Z) (pl : list Z) (obs : list Z * Z * list Z)
| RcReset
| RcBody (b : list Z).

Inductive case := Case (evs : list oev) | BwCase (evs : list bev) | DdCase (evs : list dev) | RcCase (ops : list rcop)
| TkCase (salt : Z) (pieces : nat) (obs : list (list Z * nat)).

Definition dcfg := DedupModel.dconfig.

Definition typ_of (z : Z) : mtype := if z =? 0 then TCon else if z =? 1 then TNon else TAck.

(* ---------- programs from the events ---------- *)
Definition dobserved_cls (cid : nat) (evs : list dev) : Z :=
  match find (fun r => Nat.eqb (o_cid r) cid) (flat_map d_rets evs) with
  | Some r => o_cls r
  | None => -1
  end.

Definition dcaller_progs (evs : list dev) : list (list dop) :=
  flat_map (fun e => match d_k e with
                     | DStart cid tok _ =>
                         let c := dobserved_cls cid evs in
                         [[DCall cid tok (if c =? 2 then MCancel else if c =? 3 then MWriteFail else MWait)]]
                     | _ => []
                     end) evs.

Fixpoint nodup_z (l : list Z) : list Z :=
  match l with [] => [] | x :: q => if zmem x q then nodup_z q else x :: nodup_z q end.

(* the receive thread's program; [seen]: message IDs received since the last lifetime event *)
Fixpoint drecv_prog (seen : list Z) (evs : list dev) : list dop :=
  match evs with
  | [] => []
  | e :: q =>
      match d_k e with
      | DMsg typ mid del rid tok f _ => DRecv del (mkM (typ_of typ) mid (mkR rid tok f)) :: drecv_prog (mid :: seen) q
      | DLifetime => map DExpire (nodup_z seen) ++ drecv_prog [] q
      | _ => drecv_prog seen q
      end
  end.

Fixpoint dcids_ok (n : nat) (evs : list dev) : bool :=
  match evs with
  | [] => true
  | e :: q => match d_k e with
              | DStart cid _ _ => Nat.eqb cid n && dcids_ok (S n) q
              | _ => dcids_ok n q
              end
  end.

(* ---------- schedule fragments ---------- *)
Definition dcur_of (c : dcfg) (t : nat) : option (tstate dop dloc dres) :=
  match nth_error (threads _ _ _ _ c) t with Some th => Some (cur _ _ _ th) | None => None end.

Definition dstp (c : dcfg) (t : nat) : dcfg := dstep hash c t.

(* step thread t until it is idle or parked at the wait of doInternal (at most n steps) *)
Fixpoint dadvance (n : nat) (c : dcfg) (t : nat) : dcfg :=
  match n with
  | O => c
  | S n' =>
      match dcur_of c t with
      | Some Idle => c
      | Some (Running (DCall _ _ _) (DIn _ LWait)) => c
      | Some _ => dadvance n' (dstp c t) t
      | None => c
      end
  end.

Definition dready (c : dcfg) (cancelled acked : list nat) (cid : nat) : bool :=
  match dcur_of c cid with
  | Some (Running (DCall id tok m) (DIn _ LWait)) =>
      match m with
      | MCancel => mem cid cancelled
      | _ => mem cid acked &&
             match cget (id, tok) (chans (tok_st (shared _ _ _ _ c))) with Some _ => true | None => false end
      end
  | _ => false
  end.

Definition dsettle (ncall : nat) (c : dcfg) (cancelled acked : list nat) : dcfg :=
  fold_left (fun c cid => if dready c cancelled acked cid then dadvance 4 (dstp c cid) cid else c) (seq 0 ncall) c.

(* ---------- what the machine produced during one event ---------- *)
Definition dret_of (e : devent) : list oret :=
  match e with
  | ERes _ _ (DCall cid tok _) (DRet (ROk r)) => [mkRet cid 0 (r_tok r) (r_for r) (r_id r)]
  | ERes _ _ (DCall cid tok _) (DRet r) => [mkRet cid (res_cls r) [] 0 0]
  | _ => []
  end.
Definition dfell_of (e : devent) : bool :=
  match e with ERes _ _ (DRecv _ _) (DRet RFall) => true | _ => false end.
Definition dhit_of (e : devent) : bool :=
  match e with ERes _ _ (DRecv _ _) DDup => true | _ => false end.
(* a confirmable message is acknowledged: with the bare acknowledgement when it was handled, with the cached one
   when it was not. Nothing else is (a non-confirmable copy of a message whose acknowledgement is cached is
   answered from the cache without anything being written: the cached reply is not "modified") *)
Definition dacks_of (e : devent) : nat :=
  match e with
  | ERes _ _ (DRecv _ m) (DRet _) | ERes _ _ (DRecv _ m) DDup => match m_typ m with TCon => 1 | _ => 0 end
  | _ => 0
  end.

Record drstate := mkDRS { dr_c : dcfg; dr_cancelled : list nat; dr_acked : list nat; dr_seen : list Z }.

Definition drun_ev (ncall : nat) (s : drstate) (e : dev) : drstate * bool :=
  let c := dr_c s in
  let '(c1, can, ack, seen) :=
    match d_k e with
    | DStart cid _ a => (dadvance 6 (dstp c cid) cid, dr_cancelled s, (if a then cid :: dr_acked s else dr_acked s), dr_seen s)
    | DAck cid => (c, dr_cancelled s, cid :: dr_acked s, dr_seen s)
    | DMsg _ mid _ _ _ _ ackfor =>
        (dadvance 10 (dstp c ncall) ncall, dr_cancelled s,
         (match ackfor with Some x => x :: dr_acked s | None => dr_acked s end), mid :: dr_seen s)
    | DLifetime =>
        (fold_left (fun c _ => dadvance 4 (dstp c ncall) ncall) (nodup_z (dr_seen s)) c, dr_cancelled s, dr_acked s, [])
    | DCancel cid => (c, cid :: dr_cancelled s, dr_acked s, dr_seen s)
    end in
  let c2 := dsettle ncall c1 can ack in
  let fresh := firstn (length (rhist _ _ _ _ c2) - length (rhist _ _ _ _ c)) (rhist _ _ _ _ c2) in
  let ok := rets_eqb (sort_rets (flat_map dret_of fresh)) (sort_rets (d_rets e))
            && Bool.eqb (existsb dfell_of fresh) (d_fell e)
            && Bool.eqb (existsb dhit_of fresh) (d_hit e)
            && Nat.eqb (list_sum (map dacks_of fresh)) (d_acks e) in
  (mkDRS c2 can ack seen, ok).

Fixpoint drun_evs (ncall : nat) (s : drstate) (l : list dev) : bool :=
  match l with
  | [] => true
  | e :: q => let '(s', ok) := drun_ev ncall s e in ok && drun_evs ncall s' q
  end.

Definition dd_agrees (evs : list dev) : bool :=
  let cp := dcaller_progs evs in
  dcids_ok 0 evs &&
  drun_evs (length cp) (mkDRS (dinit (cp ++ [drecv_prog [] evs])) [] [] []) evs.

(* ---------- RcCase: one pooled message through several lives (Token/RecycleModel.v) ----------
   The harness runs the real pool.Message: UnmarshalWithDecoder of a message the real tcp / udp coder encoded,
   Reset (what Pool.ReleaseMessage does before the message goes back to the pool), SetBody; after every decode it
   reads Token(), Code(), ReadBody(). *)
Definition obs3_eqb (a b : list Z * Z * list Z) : bool :=
  let '(t, c, p) := a in let '(t', c', p') := b in tok_eqb t t' && (c =? c') && tok_eqb p p'.

Definition rc_pop (o : rcop) : pop :=
  match o with
  | RcUnm tcp tok code pl _ => PUnm tcp (mkW tok code pl)
  | RcReset => PReset
  | RcBody b => PBody b
  end.

Fixpoint rc_run (m : pmsg) (l : list rcop) : bool :=
  match l with
  | [] => true
  | o :: q =>
      let m' := papply reset m (rc_pop o) in
      (match o with RcUnm _ _ _ _ obs => obs3_eqb (content m') obs | _ => true end) && rc_run m' q
  end.

(* from the property text: a response decoded into a message that is new or has been released since its last use
   carries the token and the content the peer encoded. 1 = another token, 2 = other content *)
Fixpoint rc_class (released : bool) (l : list rcop) : N :=
  match l with
  | [] => 0%N
  | RcUnm _ tok code pl (t, c, b) :: q =>
      if released && negb (tok_eqb t tok) then 1%N
      else if released && negb ((c =? code) && tok_eqb b pl) then 2%N
      else rc_class false q
  | RcReset :: q => rc_class true q
  | RcBody _ :: q => rc_class false q
  end.

(* ---------- TkCase: the token source (Token/SourceModel.v) ---------- *)
Fixpoint tk_eqb (a b : list (list Z * nat)) : bool :=
  match a, b with
  | [], [] => true
  | (t, k) :: a', (t', k') :: b' => tok_eqb t t' && Nat.eqb k k' && tk_eqb a' b'
  | _, _ => false
  end.
Definition tk_agrees (salt : Z) (pieces : nat) (obs : list (list Z * nat)) : bool :=
  tk_eqb (tokens (length obs) (ent_gen salt pieces)) obs.

Definition agrees (c : case) : bool :=
  match c with
  | TkCase salt pieces obs => tk_agrees salt pieces obs
  | RcCase ops => rc_run fresh ops
  | Case evs => Token.BwRun.agrees (Token.BwRun.Case evs)
  | BwCase evs => Token.BwRun.agrees (Token.BwRun.BwCase evs)
  | DdCase evs => dd_agrees evs
  end.

Definition pclass (c : case) : N :=
  match c with
  | TkCase salt pieces obs => tk_class (ent_gen salt pieces) obs
  | RcCase ops => rc_class true ops
  | Case evs => c03_class hash evs
  | BwCase evs => c03bw_class hash evs
  | DdCase evs => c03dd_class hash evs
  end.

Definition mismatches (cs : list case) : list N := bad_indices (fun c => negb (agrees c)) cs.
Definition property_failures (cs : list case) : list (N * N) := classes pclass cs.
