(* Token/DedupProofs.v -- C03 for retransmitted responses: for all programs (any number of caller threads with
   any tokens -- re-used or not -- and outcomes, any number of receive threads handling any lists of messages:
   any types, message IDs, tokens, copies, and cache expirations) and all schedules of the machine of DedupModel.v. *)
From Coq Require Import ZArith List Bool Arith Lia.
From GoCoap Require Import Base.Interleave Observe.Model Token.Model Token.Spec Token.Proofs Token.DedupModel Token.DedupSpec.
Import ListNotations.
Local Open Scope nat_scope.
Local Arguments zmem : simpl never.
Local Arguments zrem : simpl never.
Local Arguments occ_ch : simpl never.

(* ---------- sets of message IDs ---------- *)
Lemma zmem_cons : forall x y l, zmem x (y :: l) = (Z.eqb x y || zmem x l)%bool.
Proof. reflexivity. Qed.

Lemma occ_ch_cons : forall i w r l, occ_ch i ((w, r) :: l) = b2n (Nat.eqb (r_id r) i) + occ_ch i l.
Proof. reflexivity. Qed.

Lemma zmem_zrem_same : forall x l, zmem x (zrem x l) = false.
Proof.
  induction l as [|y l IH]; [reflexivity|]. unfold zrem in *. cbn [filter].
  destruct (Z.eqb_spec x y) as [->|N]; cbn [negb]; [exact IH|].
  rewrite zmem_cons. destruct (Z.eqb_spec x y); [contradiction|exact IH].
Qed.

Lemma zmem_zrem_other : forall x y l, x <> y -> zmem x (zrem y l) = zmem x l.
Proof.
  intros x y l N. induction l as [|z l IH]; [reflexivity|]. unfold zrem in *. cbn [filter].
  destruct (Z.eqb_spec y z) as [->|N']; cbn [negb].
  - rewrite zmem_cons. destruct (Z.eqb_spec x z); [contradiction|exact IH].
  - rewrite !zmem_cons, IH. reflexivity.
Qed.

Lemma zmem_In : forall x l, zmem x l = true <-> In x l.
Proof.
  intros x l. unfold zmem. rewrite existsb_exists. split.
  - intros (y & Hy & E). apply Z.eqb_eq in E. subst; auto.
  - intros H. exists x. split; [auto|apply Z.eqb_refl].
Qed.

(* ---------- sums over lists ---------- *)
Lemma gsum_upd : forall (A : Type) (f : A -> nat) l t x old,
  nth_error l t = Some old -> sum (map f (upd t x l)) + f old = sum (map f l) + f x.
Proof.
  induction l as [|a l IH]; intros [|t] x old H; cbn in *; try discriminate.
  - inversion H; subst. lia.
  - specialize (IH t x old H). lia.
Qed.

Lemma gsum_le : forall (A : Type) (f g : A -> nat) l,
  (forall a, In a l -> f a <= g a) -> sum (map f l) <= sum (map g l).
Proof.
  induction l as [|a l IH]; cbn; intros H; [lia|].
  pose proof (H a (or_introl eq_refl)). assert (sum (map f l) <= sum (map g l)) by (apply IH; intros; apply H; auto). lia.
Qed.

Section Machine.
  Variable hash : list Z -> Z.

  Notation dthr c := (threads dst dop dloc dres c).
  Notation dsh c := (shared dst dop dloc dres c).
  Notation dhist c := (rhist dst dop dloc dres c).
  Notation dlin c := (rlin dst dop dloc dres c).
  Notation dmkC := (mkC dst dop dloc dres).
  Notation dmkT := (mkT dop dloc dres).
  Notation dcur th := (cur dop dloc dres th).
  Notation dtodo th := (todo dop dloc dres th).
  Notation didx th := (idx dop dloc dres th).

  Lemma dstep_ind : forall (P : dconfig -> Prop) c t,
    P c ->
    (forall th o rest, nth_error (dthr c) t = Some th -> dcur th = Idle -> dtodo th = o :: rest ->
       P (dmkC (dsh c) (upd t (dmkT rest (Running o D0) (didx th)) (dthr c)) (EInv t (didx th) o :: dhist c) (dlin c))) ->
    (forall th o l l' s' d, nth_error (dthr c) t = Some th -> dcur th = Running o l ->
       dact hash o l (dsh c) = Some (l', s', d) ->
       P (dmkC s' (upd t (dmkT (dtodo th) (match d with None => Running o l' | Some r => Finished o r end) (didx th)) (dthr c))
               (dhist c) (dlin c))) ->
    (forall th o r, nth_error (dthr c) t = Some th -> dcur th = Finished o r ->
       P (dmkC (dsh c) (upd t (dmkT (dtodo th) Idle (S (didx th))) (dthr c)) (ERes t (didx th) o r :: dhist c) (dlin c))) ->
    P (dstep hash c t).
  Proof.
    intros P c t HP HInv HAct HRes.
    unfold dstep; unfold Interleave.step.
    destruct (nth_error (dthr c) t) as [th|] eqn:Hth; [|exact HP].
    destruct (dcur th) as [|o l|o r] eqn:Hc.
    - destruct (dtodo th) as [|o rest] eqn:Htodo; [exact HP|].
      apply (HInv th o rest); auto.
    - destruct (dact hash o l (dsh c)) as [[[l' s'] d]|] eqn:Hact; [|exact HP].
      unfold dno_lp. apply (HAct th o l l' s' d); auto.
    - apply (HRes th o r); auto.
  Qed.

  Lemma drun_ind : forall (P : dconfig -> Prop) progs,
    P (dinit progs) -> (forall c t, P c -> P (dstep hash c t)) -> forall sched, P (drun hash progs sched).
  Proof.
    intros P progs H0 HS sched. unfold drun, dexec, exec.
    revert H0. generalize (dinit progs). induction sched as [|t sched IH]; intros c Hc; cbn; auto.
    apply IH. apply HS; auto.
  Qed.

  Lemma dnth_upd_inv : forall (l : list (Interleave.thread dop dloc dres)) t t' x th' old,
    nth_error l t = Some old -> nth_error (upd t x l) t' = Some th' ->
    (t' = t /\ th' = x) \/ (t' <> t /\ nth_error l t' = Some th').
  Proof.
    intros l t t' x th' old Ho H. destruct (Nat.eq_dec t t') as [<-|N].
    - erewrite nth_upd_eq in H by eauto. inversion H; auto.
    - rewrite nth_upd_neq in H by auto. right; auto.
  Qed.

  Lemma dlift_inv : forall o l s fin l' s' d,
    dlift hash o l s fin = Some (l', s', d) ->
    exists li i' di, act hash o l (tok_st s) = Some (li, i', di) /\ s' = with_tok s i' /\
      match di with
      | None => l' = DIn o li /\ d = None
      | Some x => (l', d) = fin x
      end.
  Proof.
    intros o l s fin l' s' d H. unfold dlift in H.
    destruct (act hash o l (tok_st s)) as [[[li i'] di]|] eqn:E; [|discriminate].
    exists li, i', di. split; [reflexivity|].
    destruct di as [x|].
    - destruct (fin x) as [b dd] eqn:Ef. inversion H; subst. split; reflexivity.
    - inversion H; subst. split; [reflexivity|split; reflexivity].
  Qed.

  (* ================= invariant 1: tokens, provenance, shape of the running operations ================= *)
  Section Inv1.
    Variable progs : list (list dop).

    Definition dfrom_peer (r : resp) : Prop := exists del m, In (DRecv del m) (dall_ops progs) /\ m_r m = r.

    Definition jres_ok (o : op) (x : res) : Prop :=
      match o, x with
      | Call _ tok _, ROk r => hash (r_tok r) = hash tok /\ dfrom_peer r
      | _, _ => True
      end.
    Definition jloc_ok (o : op) (l : loc) : Prop :=
      match o, l with
      | Deliver _ r, LHand w => hash (r_tok r) = hash (snd w)
      | Call _ _ _, LUnreg x => jres_ok o x
      | _, _ => True
      end.
    Definition jop_ok (o : op) : Prop := match o with Deliver _ r => dfrom_peer r | Call _ _ _ => True end.
    Definition jst_ok (s : st) : Prop :=
      (forall k w, In (k, w) (tbl s) -> k = hash (snd w)) /\
      (forall w r, In (w, r) (chans s) -> hash (r_tok r) = hash (snd w) /\ dfrom_peer r).

    (* one action of Token/Model.v (as in BwProofs.act_ok, for this machine's provenance predicate) *)
    Lemma jact_ok : forall o l s l' s' d,
      jst_ok s -> jop_ok o -> jloc_ok o l -> act hash o l s = Some (l', s', d) ->
      jst_ok s' /\ jloc_ok o l' /\ (forall x, d = Some x -> jres_ok o x).
    Proof.
      intros o l s l' s' d [Ht Hch] Hop Hl Hact.
      destruct o as [cid tok m|del r]; destruct l as [| | |x|w]; cbn in Hact; try discriminate.
      - destruct (tget (hash tok) (tbl s)) as [w0|] eqn:Eg; inversion Hact; subst l' s' d; clear Hact.
        + split; [split; auto|]. split; [exact I|]. intros x E; inversion E; subst; exact I.
        + split; [split; cbn; auto|].
          * intros k w [E|H]; [inversion E; subst; reflexivity|apply In_tdel in H; apply Ht; tauto].
          * split; [exact I|intros x E; discriminate].
      - destruct m; inversion Hact; subst l' s' d; clear Hact;
          (split; [split; cbn; auto|split; [cbn; auto|intros x E; discriminate]]).
      - destruct m.
        + destruct (cget (cid, tok) (chans s)) as [r|] eqn:Eg; inversion Hact; subst l' s' d; clear Hact.
          apply cget_In in Eg. destruct (Hch _ _ Eg) as [Hh Hfp]. cbn in Hh.
          split; [split; cbn; auto|].
          * intros w r' H. apply In_cdel in H. auto.
          * split; [cbn; auto|intros x E; discriminate].
        + inversion Hact; subst l' s' d; clear Hact.
          split; [split; cbn; auto|split; [cbn; auto|intros x E; discriminate]].
        + destruct (cget (cid, tok) (chans s)) as [r|] eqn:Eg; inversion Hact; subst l' s' d; clear Hact.
          apply cget_In in Eg. destruct (Hch _ _ Eg) as [Hh Hfp]. cbn in Hh.
          split; [split; cbn; auto|].
          * intros w r' H. apply In_cdel in H. auto.
          * split; [cbn; auto|intros x E; discriminate].
      - inversion Hact; subst l' s' d; clear Hact.
        split; [split; cbn; auto|].
        + intros k w H. apply In_tdel in H. apply Ht. tauto.
        + split; [exact Hl|]. intros x' E; inversion E; subst. exact Hl.
      - destruct (tget (hash (r_tok r)) (tbl s)) as [w|] eqn:Eg; inversion Hact; subst l' s' d; clear Hact.
        + apply tget_In in Eg. pose proof (Ht _ _ Eg) as Hk.
          split; [split; cbn; auto|].
          * intros k w' H. destruct del; [apply In_tdel in H; apply Ht; tauto|apply Ht; auto].
          * split; [cbn; auto|intros x E; discriminate].
        + split; [split; cbn; auto|]. split; [exact I|]. intros x E; inversion E; subst; exact I.
      - destruct (cget w (chans s)) as [r0|] eqn:Eg; inversion Hact; subst l' s' d; clear Hact.
        + split; [split; auto|]. split; [exact Hl|]. intros x E; inversion E; subst; exact I.
        + split; [split; cbn; auto|].
          * intros w' r' [E|H]; [inversion E; subst; split; auto|auto].
          * split; [exact Hl|]. intros x E; inversion E; subst; exact I.
    Qed.

    Definition dres_ok (o : dop) (x : dres) : Prop :=
      match o, x with
      | DCall cid tok m, DRet y => jres_ok (Call cid tok m) y
      | _, _ => True
      end.

    Definition dcur_ok (cu : tstate dop dloc dres) : Prop :=
      match cu with
      | Idle => True
      | Running o l =>
          In o (dall_ops progs) /\
          match o, l with
          | DCall cid tok m, DIn o' l' => o' = Call cid tok m /\ jloc_ok o' l'
          | DRecv del m, DIn o' l' => o' = Deliver del (m_r m) /\ jloc_ok o' l'
          | DRecv _ _, D0 => True
          | DRecv _ _, _ => True
          | DCall _ _ _, D0 => True
          | DExpire _, D0 => True
          | _, _ => False
          end
      | Finished o x => In o (dall_ops progs) /\ dres_ok o x
      end.

    Record dinv1 (c : dconfig) : Prop := {
      j_st : jst_ok (tok_st (dsh c));
      j_thr : forall t th, nth_error (dthr c) t = Some th ->
                dcur_ok (dcur th) /\ (forall o, In o (dtodo th) -> In o (dall_ops progs));
      j_hist : forall t n o x, In (ERes t n o x) (dhist c) -> In o (dall_ops progs) /\ dres_ok o x
    }.

    Lemma dinv1_init : dinv1 (dinit progs).
    Proof.
      constructor; cbn.
      - split; intros ? ? [].
      - intros t th H. rewrite nth_error_map in H.
        destruct (nth_error progs t) as [p|] eqn:Hp; cbn in H; inversion H; subst; cbn.
        split; [exact I|]. intros o Ho. unfold dall_ops. apply in_concat. exists p. split; auto.
        eapply nth_error_In; eauto.
      - intros t n o x [].
    Qed.

    Lemma dinv1_step : forall c t, dinv1 c -> dinv1 (dstep hash c t).
    Proof.
      intros c t HI. apply dstep_ind; [exact HI| | |].
      - (* invocation *)
        intros th o rest Hth Hc Htodo.
        destruct (j_thr c HI t th Hth) as [_ Htd].
        constructor; cbn.
        + apply (j_st c HI).
        + intros t' th' H'. destruct (dnth_upd_inv _ _ _ _ _ _ Hth H') as [[-> ->]|[N H'']]; cbn.
          * split; [split; [apply Htd; rewrite Htodo; left; reflexivity|destruct o; exact I]|].
            intros o' Ho'. apply Htd. rewrite Htodo. right; auto.
          * apply (j_thr c HI t' th' H'').
        + intros t' n o' x [E|H]; [discriminate|]. apply (j_hist c HI _ _ _ _ H).
      - (* atomic action *)
        intros th o l l' s' d Hth Hc Hact.
        destruct (j_thr c HI t th Hth) as [Hcur Htd]. rewrite Hc in Hcur. cbn in Hcur.
        destruct Hcur as [Hop Hl].
        assert (Hthr : forall cu', dcur_ok cu' ->
                   forall t' th', nth_error (upd t (dmkT (dtodo th) cu' (didx th)) (dthr c)) t' = Some th' ->
                   dcur_ok (dcur th') /\ (forall o, In o (dtodo th') -> In o (dall_ops progs))).
        { intros cu' Hcu t' th' H'. destruct (dnth_upd_inv _ _ _ _ _ _ Hth H') as [[-> ->]|[N H'']]; cbn.
          - split; auto.
          - apply (j_thr c HI t' th' H''). }
        assert (Hlift : forall o' l0 (fin : res -> dloc * option dres),
                   jop_ok o' -> jloc_ok o' l0 ->
                   dlift hash o' l0 (dsh c) fin = Some (l', s', d) ->
                   (forall li, jloc_ok o' li -> dcur_ok (Running o (DIn o' li))) ->
                   (forall x, jres_ok o' x -> dcur_ok (match snd (fin x) with None => Running o (fst (fin x)) | Some r => Finished o r end)) ->
                   dinv1 (dmkC s' (upd t (dmkT (dtodo th) (match d with None => Running o l' | Some r => Finished o r end) (didx th)) (dthr c))
                               (dhist c) (dlin c))).
        { intros o' l0 fin Hio Hil Hlf Hrun Hfin.
          destruct (dlift_inv _ _ _ _ _ _ _ Hlf) as (li & i' & di & Ha & -> & Hd).
          destruct (jact_ok o' l0 (tok_st (dsh c)) li i' di (j_st c HI) Hio Hil Ha) as (Hst' & Hli & Hres).
          constructor; cbn; [exact Hst'| |apply (j_hist c HI)].
          apply Hthr. destruct di as [x|].
          - specialize (Hfin x (Hres x eq_refl)). destruct (fin x) as [b dd]. inversion Hd; subst. exact Hfin.
          - destruct Hd as [-> ->]. apply Hrun; auto. }
        destruct o as [cid tok m|del m|mid]; destruct l as [| |o' l0|x]; cbn in Hl; try contradiction; cbn [dact] in Hact.
        + (* DCall, D0 *)
          apply (Hlift (Call cid tok m) L0 _ I I Hact).
          * intros li Hli. cbn. split; [exact Hop|split; [reflexivity|exact Hli]].
          * intros x Hx. cbn. split; [exact Hop|exact Hx].
        + (* DCall, DIn *)
          destruct Hl as [-> Hl0].
          apply (Hlift (Call cid tok m) l0 _ I Hl0 Hact).
          * intros li Hli. cbn. split; [exact Hop|split; [reflexivity|exact Hli]].
          * intros x Hx. cbn. split; [exact Hop|exact Hx].
        + (* DRecv, D0 *)
          destruct (dedupable (m_typ m)).
          * destruct (zmem (m_mid m) (locked (dsh c))); [discriminate|]. inversion Hact; subst l' s' d; clear Hact.
            constructor; cbn; [apply (j_st c HI)| |apply (j_hist c HI)].
            apply Hthr. cbn. split; [exact Hop|exact I].
          * inversion Hact; subst l' s' d; clear Hact.
            constructor; cbn; [apply (j_st c HI)| |apply (j_hist c HI)].
            apply Hthr. cbn. split; [exact Hop|split; [reflexivity|exact I]].
        + (* DRecv, DCheck *)
          destruct (zmem (m_mid m) (cache (dsh c))); inversion Hact; subst l' s' d; clear Hact.
          * constructor; cbn; [apply (j_st c HI)| |apply (j_hist c HI)].
            apply Hthr. cbn. split; [exact Hop|exact I].
          * constructor; cbn; [apply (j_st c HI)| |apply (j_hist c HI)].
            apply Hthr. cbn. split; [exact Hop|split; [reflexivity|exact I]].
        + (* DRecv, DIn *)
          destruct Hl as [-> Hl0].
          assert (Hfp : jop_ok (Deliver del (m_r m))) by (cbn; exists del, m; auto).
          apply (Hlift (Deliver del (m_r m)) l0 _ Hfp Hl0 Hact).
          * intros li Hli. cbn. split; [exact Hop|split; [reflexivity|exact Hli]].
          * intros x Hx. cbn. split; [exact Hop|exact I].
        + (* DRecv, DStore *)
          inversion Hact; subst l' s' d; clear Hact.
          constructor; cbn; [apply (j_st c HI)| |apply (j_hist c HI)].
          apply Hthr. cbn. split; [exact Hop|exact I].
        + (* DExpire *)
          inversion Hact; subst l' s' d; clear Hact.
          constructor; cbn; [apply (j_st c HI)| |apply (j_hist c HI)].
          apply Hthr. cbn. split; [exact Hop|exact I].
      - (* return *)
        intros th o x Hth Hc.
        destruct (j_thr c HI t th Hth) as [Hcur Htd]. rewrite Hc in Hcur. cbn in Hcur.
        constructor; cbn; [apply (j_st c HI)| |].
        + intros t' th' H'. destruct (dnth_upd_inv _ _ _ _ _ _ Hth H') as [[-> ->]|[N H'']]; cbn; auto.
          apply (j_thr c HI t' th' H'').
        + intros t' n o' x' [E|H]; [inversion E; subst; auto|apply (j_hist c HI _ _ _ _ H)].
    Qed.

    Lemma dinv1_run : forall sched, dinv1 (drun hash progs sched).
    Proof. intros. apply drun_ind; [apply dinv1_init|intros; apply dinv1_step; auto]. Qed.
  End Inv1.

  Theorem d_own_token_hash : forall progs sched t n cid tok m r,
    In (ERes t n (DCall cid tok m) (DRet (ROk r))) (dhist (drun hash progs sched)) ->
    hash (r_tok r) = hash tok /\ dfrom_peer progs r /\ In (DCall cid tok m) (dall_ops progs).
  Proof.
    intros progs sched t n cid tok m r H.
    destruct (j_hist progs _ (dinv1_run progs sched) _ _ _ _ H) as [Ho [Hh Hp]]. auto.
  Qed.

  Lemma dop_toks_in : forall progs o tok, In o (dall_ops progs) -> In tok (dop_toks o) -> In tok (dall_toks progs).
  Proof. intros progs o tok Ho Ht. unfold dall_toks. apply in_flat_map. exists o; auto. Qed.

  Theorem d_own_token_holds : forall progs sched,
    hash_inj_on hash (dall_toks progs) -> d_own_token (dhist (drun hash progs sched)).
  Proof.
    intros progs sched Hinj t n cid tok m r H.
    destruct (d_own_token_hash _ _ _ _ _ _ _ _ H) as (Hh & (del & mm & Hp & Er) & Ho).
    apply Hinj; auto.
    - apply (dop_toks_in progs (DRecv del mm)); [auto|left; rewrite Er; reflexivity].
    - apply (dop_toks_in progs (DCall cid tok m)); [auto|left; reflexivity].
  Qed.

  (* ---------- a copy whose message ID has a cached reply is not handled ---------- *)
  Theorem duplicate_not_handled_step : forall (c : dconfig) t th del m,
    nth_error (dthr c) t = Some th -> dcur th = Running (DRecv del m) DCheck ->
    zmem (m_mid m) (cache (dsh c)) = true ->
    tok_st (dsh (dstep hash c t)) = tok_st (dsh c) /\ cache (dsh (dstep hash c t)) = cache (dsh c) /\
    nth_error (dthr (dstep hash c t)) t = Some (dmkT (dtodo th) (Finished (DRecv del m) DDup) (didx th)).
  Proof.
    intros c t th del m Hth Hc Hz.
    unfold dstep; unfold Interleave.step. rewrite Hth, Hc. cbn [dact]. rewrite Hz. cbn.
    split; [reflexivity|]. split; [reflexivity|]. eapply nth_upd_eq; eauto.
  Qed.

  (* ================= invariant 2: a retransmitted response is handed on once ================= *)
  Section Inv2.
    Variable progs : list (list dop).
    Variable i : nat.      (* the response instance *)
    Variable x : Z.        (* the message ID of its copies *)
    Hypothesis Hcopies : retransmitted_with progs i x.
    Hypothesis Hlife : within_lifetime progs x.

    (* thread holds the lock of message ID x *)
    Definition hold (cu : tstate dop dloc dres) : nat :=
      match cu with
      | Running (DRecv _ m) D0 => 0
      | Running (DRecv _ m) _ => b2n (dedupable (m_typ m) && (m_mid m =? x)%Z)
      | _ => 0
      end.
    (* thread handles a copy of i that was not found in the cache *)
    Definition past (cu : tstate dop dloc dres) : nat :=
      match cu with
      | Running (DRecv _ m) (DIn _ _) => b2n (Nat.eqb (r_id (m_r m)) i)
      | Running (DRecv _ m) (DStore _) => b2n (Nat.eqb (r_id (m_r m)) i)
      | _ => 0
      end.
    (* thread carries response instance i (on its way to a channel / out of a channel) *)
    Definition carry (cu : tstate dop dloc dres) : nat :=
      match cu with
      | Running (DRecv _ m) (DIn _ _) => b2n (Nat.eqb (r_id (m_r m)) i)
      | Running (DCall _ _ _) (DIn _ (LUnreg r)) => occ_res i r
      | Finished (DCall _ _ _) (DRet r) => occ_res i r
      | _ => 0
      end.
    Definition occ_dev (e : devent) : nat :=
      match e with ERes _ _ (DCall _ _ _) (DRet r) => occ_res i r | _ => 0 end.

    Definition sumt (f : tstate dop dloc dres -> nat) (c : dconfig) : nat :=
      sum (map (fun th => f (dcur th)) (dthr c)).
    Definition live (c : dconfig) : nat :=
      sumt carry c + occ_ch i (chans (tok_st (dsh c))) + sum (map occ_dev (dhist c)).
    Arguments sumt f c : simpl never.
    Arguments live c : simpl never.

    Record dinv2 (c : dconfig) : Prop := {
      k_mutex : sumt hold c = b2n (zmem x (locked (dsh c)));
      k_live : live c <= 1;
      k_cred : 1 <= live c -> zmem x (cache (dsh c)) = true \/ 1 <= sumt past c
    }.

    Lemma past_le_hold : forall c, dinv1 progs c -> sumt past c <= sumt hold c.
    Proof.
      intros c HI. unfold sumt. apply gsum_le. intros th Hin.
      apply In_nth_error in Hin. destruct Hin as [t Hth].
      destruct (j_thr progs c HI t th Hth) as [Hcur _].
      destruct (dcur th) as [|o l|o r]; cbn; try lia.
      destruct o as [cid tok m|del m|mid]; cbn; try lia.
      destruct Hcur as [Hop _].
      destruct l as [| |o' l0|y]; cbn; try lia;
        (destruct (Nat.eqb_spec (r_id (m_r m)) i) as [E|N]; cbn; [|lia];
         destruct (Hcopies del m Hop E) as [-> ->]; cbn; rewrite Z.eqb_refl; cbn; lia).
    Qed.

    Lemma dinv2_init : dinv2 (dinit progs).
    Proof.
      assert (Hz : forall f : tstate dop dloc dres -> nat, f Idle = 0 -> sumt f (dinit progs) = 0).
      { intros f Hf. unfold sumt, dinit, init; cbn. clear Hcopies Hlife.
        induction progs as [|p q IH]; cbn; auto. rewrite Hf. exact IH. }
      constructor.
      - rewrite Hz by reflexivity. reflexivity.
      - unfold live, occ_ch. rewrite Hz by reflexivity. cbn. lia.
      - unfold live, occ_ch. rewrite Hz by reflexivity. cbn. lia.
    Qed.

    Lemma sumt_upd : forall f (c : dconfig) t th cu' s' h l,
      nth_error (dthr c) t = Some th ->
      sumt f (dmkC s' (upd t (dmkT (dtodo th) cu' (didx th)) (dthr c)) h l) + f (dcur th) = sumt f c + f cu'.
    Proof.
      intros f c t th cu' s' h l Hth. unfold sumt. cbn.
      apply (gsum_upd _ (fun th => f (dcur th)) (dthr c) t (dmkT (dtodo th) cu' (didx th)) th Hth).
    Qed.

    Lemma sumt_upd' : forall f (c : dconfig) t th td cu' ix s' h l,
      nth_error (dthr c) t = Some th ->
      sumt f (dmkC s' (upd t (dmkT td cu' ix) (dthr c)) h l) + f (dcur th) = sumt f c + f cu'.
    Proof.
      intros f c t th td cu' ix s' h l Hth. unfold sumt. cbn.
      apply (gsum_upd _ (fun th => f (dcur th)) (dthr c) t (dmkT td cu' ix) th Hth).
    Qed.

    Lemma b2n_le1 : forall b, b2n b <= 1.
    Proof. destruct b; cbn; lia. Qed.

    Ltac close Kc :=
      constructor; unfold live; cbn [shared rhist map sum occ_dev cache locked tok_st with_tok chans] in *; rewrite ?occ_ch_cons;
      [ lia | lia
      | let H := fresh "H" in intros H; destruct Kc as [Kc|Kc]; [lia | left; exact Kc | right; lia] ].

    Lemma dinv2_step : forall c t, dinv1 progs c -> dinv2 c -> dinv2 (dstep hash c t).
    Proof.
      intros c t HJ HK.
      pose proof (dinv1_step progs c t HJ) as HJ'. revert HJ'.
      apply dstep_ind; [intros _; exact HK| | |].
      - (* invocation: nothing moves *)
        intros th o rest Hth Hc Htodo HJ'.
        pose proof (sumt_upd' hold c t th rest (Running o D0) (didx th) (dsh c) (EInv t (didx th) o :: dhist c) (dlin c) Hth) as Sh.
        pose proof (sumt_upd' past c t th rest (Running o D0) (didx th) (dsh c) (EInv t (didx th) o :: dhist c) (dlin c) Hth) as Sp.
        pose proof (sumt_upd' carry c t th rest (Running o D0) (didx th) (dsh c) (EInv t (didx th) o :: dhist c) (dlin c) Hth) as Sc.
        rewrite Hc in Sh, Sp, Sc.
        assert (E0 : hold (Running o D0) = 0 /\ past (Running o D0) = 0 /\ carry (Running o D0) = 0)
          by (destruct o; cbn; auto).
        destruct E0 as (E1 & E2 & E3). rewrite E1 in Sh. rewrite E2 in Sp. rewrite E3 in Sc.
        cbn [hold past carry] in Sh, Sp, Sc.
        destruct HK as [Km Kl Kc]. unfold live in *. close Kc.
      - (* atomic action *)
        intros th o l l' s' d Hth Hc Hact HJ'.
        set (cu' := match d with None => Running o l' | Some r => Finished o r end) in *.
        pose proof (sumt_upd hold c t th cu' s' (dhist c) (dlin c) Hth) as Sh.
        pose proof (sumt_upd past c t th cu' s' (dhist c) (dlin c) Hth) as Sp.
        pose proof (sumt_upd carry c t th cu' s' (dhist c) (dlin c) Hth) as Sc.
        pose proof (past_le_hold _ HJ) as PH. pose proof (past_le_hold _ HJ') as PH'.
        rewrite Hc in Sh, Sp, Sc.
        destruct (j_thr progs c HJ t th Hth) as [Hcur _]. rewrite Hc in Hcur. cbn in Hcur.
        destruct Hcur as [Hop Hl].
        destruct HK as [Km Kl Kc]. unfold live in *.
        pose proof (b2n_le1 (zmem x (locked (dsh c)))) as Bz.
        destruct o as [cid tok m|del m|mid]; destruct l as [| |o' l0|y]; cbn in Hl; try contradiction; cbn [dact] in Hact.
        + (* DCall, D0: register *)
          destruct (dlift_inv _ _ _ _ _ _ _ Hact) as (li & i' & di & Ha & -> & Hd).
          cbn in Ha. destruct (tget (hash tok) (tbl (tok_st (dsh c)))); inversion Ha; subst li i' di; clear Ha.
          * inversion Hd; subst l' d. subst cu'. cbn in *. close Kc.
          * destruct Hd as [-> ->]. subst cu'. cbn in *. close Kc.
        + (* DCall, DIn *)
          destruct Hl as [-> Hl0].
          destruct (dlift_inv _ _ _ _ _ _ _ Hact) as (li & i' & di & Ha & -> & Hd).
          destruct l0 as [| | |r|w]; cbn in Ha; try discriminate.
          * destruct (tget (hash tok) (tbl (tok_st (dsh c)))); inversion Ha; subst li i' di; clear Ha.
            -- inversion Hd; subst l' d. subst cu'. cbn in *. close Kc.
            -- destruct Hd as [-> ->]. subst cu'. cbn in *. close Kc.
          * destruct m; inversion Ha; subst li i' di; clear Ha; destruct Hd as [-> ->]; subst cu'; cbn in *; close Kc.
          * destruct m.
            -- destruct (cget (cid, tok) (chans (tok_st (dsh c)))) as [r|] eqn:Eg; inversion Ha; subst li i' di; clear Ha.
               destruct Hd as [-> ->]. subst cu'. pose proof (occ_cdel i _ _ _ Eg) as Hcd. cbn in *. close Kc.
            -- inversion Ha; subst li i' di; clear Ha. destruct Hd as [-> ->]. subst cu'. cbn in *. close Kc.
            -- destruct (cget (cid, tok) (chans (tok_st (dsh c)))) as [r|] eqn:Eg; inversion Ha; subst li i' di; clear Ha.
               destruct Hd as [-> ->]. subst cu'. pose proof (occ_cdel i _ _ _ Eg) as Hcd. cbn in *. close Kc.
          * inversion Ha; subst li i' di; clear Ha. inversion Hd; subst l' d. subst cu'. cbn in *. close Kc.
        + (* DRecv, D0 *)
          destruct (dedupable (m_typ m)) eqn:Ed.
          * destruct (zmem (m_mid m) (locked (dsh c))) eqn:Ez; [discriminate|].
            inversion Hact; subst l' s' d; clear Hact. subst cu'. cbn in *. rewrite Ed in *. cbn in *.
            assert (Hz : b2n (zmem x (m_mid m :: locked (dsh c))) = b2n (m_mid m =? x)%Z + b2n (zmem x (locked (dsh c)))).
            { rewrite zmem_cons. destruct (Z.eqb_spec (m_mid m) x) as [E|N].
              - rewrite <- E. rewrite Z.eqb_refl, Ez. reflexivity.
              - destruct (Z.eqb_spec x (m_mid m)); [congruence|]. reflexivity. }
            close Kc.
          * inversion Hact; subst l' s' d; clear Hact. subst cu'. cbn in *.
            destruct (Nat.eqb_spec (r_id (m_r m)) i) as [E|N].
            -- destruct (Hcopies del m Hop E) as [Ht _]. rewrite Ht in Ed. discriminate.
            -- rewrite Ed in *. cbn in *. close Kc.
        + (* DRecv, DCheck *)
          destruct (zmem (m_mid m) (cache (dsh c))) eqn:Ez; inversion Hact; subst l' s' d; clear Hact; subst cu'.
          * (* answered from the cache *)
            unfold unlock in *. destruct (dedupable (m_typ m)) eqn:Ed; cbn in *; rewrite ?Ed in *; cbn in *.
            -- assert (Hz : b2n (zmem x (zrem (m_mid m) (locked (dsh c)))) + b2n (m_mid m =? x)%Z = b2n (zmem x (locked (dsh c)))).
               { destruct (Z.eqb_spec (m_mid m) x) as [E|N].
                 - rewrite E in *. rewrite ?Z.eqb_refl in *. rewrite zmem_zrem_same. cbn in *. lia.
                 - rewrite zmem_zrem_other by congruence. cbn. lia. }
               close Kc.
            -- close Kc.
          * (* not in the cache: handled *)
            cbn in *. destruct (Nat.eqb_spec (r_id (m_r m)) i) as [E|N]; cbn in *.
            -- destruct (Hcopies del m Hop E) as [Ht Hm]. rewrite Ht, Hm in *. cbn in *. rewrite Z.eqb_refl in *. cbn in *.
               (* this thread holds the lock of x: nobody else is past the check; x is not cached: nothing of i is alive *)
               assert (Hp0 : sumt past c = 0) by lia.
               assert (Hl0 : sumt carry c + occ_ch i (chans (tok_st (dsh c))) + sum (map occ_dev (dhist c)) = 0).
               { destruct (Nat.eq_dec (sumt carry c + occ_ch i (chans (tok_st (dsh c))) + sum (map occ_dev (dhist c))) 0) as [Z0|NZ]; [exact Z0|].
                 destruct Kc as [Kc|Kc]; [lia|congruence|lia]. }
               constructor; unfold live; cbn [shared rhist]; [lia|lia|]. intros _. right. lia.
            -- close Kc.
        + (* DRecv, DIn *)
          destruct Hl as [-> Hl0].
          destruct (dlift_inv _ _ _ _ _ _ _ Hact) as (li & i' & di & Ha & -> & Hd).
          destruct l0 as [| | |r|w]; cbn in Ha; try discriminate.
          * destruct (tget (hash (r_tok (m_r m))) (tbl (tok_st (dsh c)))); inversion Ha; subst li i' di; clear Ha.
            -- destruct Hd as [-> ->]. subst cu'. cbn in *. close Kc.
            -- inversion Hd; subst l' d. subst cu'. cbn in *. close Kc.
          * destruct (cget w (chans (tok_st (dsh c)))); inversion Ha; subst li i' di; clear Ha;
              inversion Hd; subst l' d; subst cu'; cbn in *; rewrite ?occ_ch_cons; close Kc.
        + (* DRecv, DStore *)
          inversion Hact; subst l' s' d; clear Hact. subst cu'. unfold unlock in *. cbn in *.
          assert (Hz : b2n (zmem x (if dedupable (m_typ m) then zrem (m_mid m) (locked (dsh c)) else locked (dsh c)))
                       + b2n (dedupable (m_typ m) && (m_mid m =? x)%Z) = b2n (zmem x (locked (dsh c)))).
          { destruct (dedupable (m_typ m)) eqn:Ed; cbn in *; rewrite ?Ed in *; cbn in *; [|lia].
            destruct (Z.eqb_spec (m_mid m) x) as [E|N].
            - rewrite E in *. rewrite ?Z.eqb_refl in *. rewrite zmem_zrem_same. cbn in *. lia.
            - rewrite zmem_zrem_other by congruence. cbn in *. lia. }
          constructor; unfold live; cbn [shared rhist cache locked tok_st]; [lia|lia|].
          intros H. destruct (Nat.eqb_spec (r_id (m_r m)) i) as [E|N]; cbn in *.
          -- destruct (Hcopies del m Hop E) as [Ht Hm]. rewrite Ht, Hm. left. rewrite zmem_cons, Z.eqb_refl. reflexivity.
          -- destruct Kc as [Kc|Kc]; [lia| |right; lia].
             left. destruct (m_typ m); auto. rewrite zmem_cons, Kc. apply orb_true_r.
        + (* DExpire *)
          inversion Hact; subst l' s' d; clear Hact. subst cu'. cbn in *.
          assert (mid <> x) by (intros ->; apply Hlife; exact Hop).
          constructor; unfold live; cbn [shared rhist cache locked tok_st]; [lia|lia|].
          intros H0. destruct Kc as [Kc|Kc]; [lia| |right; lia].
          left. rewrite zmem_zrem_other by congruence. exact Kc.
      - (* return *)
        intros th o r Hth Hc HJ'.
        pose proof (sumt_upd' hold c t th (dtodo th) Idle (S (didx th)) (dsh c) (ERes t (didx th) o r :: dhist c) (dlin c) Hth) as Sh.
        pose proof (sumt_upd' past c t th (dtodo th) Idle (S (didx th)) (dsh c) (ERes t (didx th) o r :: dhist c) (dlin c) Hth) as Sp.
        pose proof (sumt_upd' carry c t th (dtodo th) Idle (S (didx th)) (dsh c) (ERes t (didx th) o r :: dhist c) (dlin c) Hth) as Sc.
        rewrite Hc in Sh, Sp, Sc. cbn [hold past carry] in Sh, Sp.
        destruct HK as [Km Kl Kc]. unfold live in *.
        assert (Ec : carry (Finished o r) = occ_dev (ERes t (didx th) o r)) by (destruct o; destruct r; reflexivity).
        assert (E0 : carry Idle = 0) by reflexivity.
        constructor; unfold live; cbn [shared rhist map sum]; [lia|lia|].
        intros H. destruct Kc as [Kc|Kc]; [lia|left; exact Kc|right; lia].
    Qed.

    Lemma dinv12_run : forall sched, dinv1 progs (drun hash progs sched) /\ dinv2 (drun hash progs sched).
    Proof.
      intros sched.
      apply (drun_ind (fun c => dinv1 progs c /\ dinv2 c)); [split; [apply dinv1_init|apply dinv2_init]|].
      intros c t [H1 H2]. split; [apply dinv1_step; auto|apply dinv2_step; auto].
    Qed.
  End Inv2.

  (* a response whose copies are confirmable messages with one message ID, all received within the lifetime of the
     cached acknowledgement, is returned by at most one call -- however many copies arrive, whenever, on however
     many receive loops, and whatever tokens the calls carry *)
  Theorem dedup_at_most_one : forall progs sched i x,
    retransmitted_with progs i x -> within_lifetime progs x ->
    d_at_most_one i (dhist (drun hash progs sched)).
  Proof.
    intros progs sched i x Hc Hl t n cid tok m r t' n' cid' tok' m' r' H1 H2 E1 E2.
    destruct (dinv12_run progs i x Hc Hl sched) as [_ [_ Kl _]].
    unfold live in Kl.
    apply (sum_le1_unique _ (occ_dev i) (dhist (drun hash progs sched))); auto; try lia.
    - cbn. rewrite E1, Nat.eqb_refl. cbn. lia.
    - cbn. rewrite E2, Nat.eqb_refl. cbn. lia.
  Qed.

  (* once a request has been answered with the response produced for it, no other call -- in particular no later
     request that re-uses the token -- returns content produced for that request *)
  Theorem answered_content_not_returned_again : forall progs sched t n cid tok m r t' n' cid' tok' m' r' x,
    one_response_per_request progs ->
    retransmitted_with progs (r_id r) x -> within_lifetime progs x ->
    In (ERes t n (DCall cid tok m) (DRet (ROk r))) (dhist (drun hash progs sched)) ->
    In (ERes t' n' (DCall cid' tok' m') (DRet (ROk r'))) (dhist (drun hash progs sched)) ->
    r_for r' = r_for r ->
    ERes t n (DCall cid tok m) (DRet (ROk r)) = ERes t' n' (DCall cid' tok' m') (DRet (ROk r')).
  Proof.
    intros progs sched t n cid tok m r t' n' cid' tok' m' r' x H1 Hc Hl Ha Hb Ef.
    destruct (d_own_token_hash _ _ _ _ _ _ _ _ Ha) as (_ & (del & mm & Hp & Er) & _).
    destruct (d_own_token_hash _ _ _ _ _ _ _ _ Hb) as (_ & (del' & mm' & Hp' & Er') & _).
    assert (Ei : r_id r' = r_id r).
    { rewrite <- Er, <- Er'. apply (H1 del' mm' del mm Hp' Hp). rewrite Er, Er'. exact Ef. }
    apply (dedup_at_most_one progs sched (r_id r) x Hc Hl _ _ _ _ _ _ _ _ _ _ _ _ Ha Hb eq_refl Ei).
  Qed.
End Machine.

(* ================= concrete runs (Token.Hash = CRC-64/ISO) ================= *)
Local Open Scope Z_scope.
Definition tokR : list Z := [84; 1].     (* 5401 *)

(* Two requests with one token, one after the other; the peer answers each with a separate confirmable response
   (message IDs 7001, 7002) and, not having seen the acknowledgement of the first, sends it again while the second
   request is outstanding. *)
Definition reuse_progs (t : mtype) : list (list dop) :=
  [[DCall 0 tokR MWait; DCall 1 tokR MWait];
   [DRecv true (mkM t 7001 (mkR 1 tokR 0)); DRecv true (mkM t 7001 (mkR 1 tokR 0)); DRecv true (mkM TCon 7002 (mkR 2 tokR 1))]].
(* request 1, response 1, return; request 2; the copy of response 1; response 2; whatever is left of call 2 *)
Definition reuse_sched : list nat :=
  ([0; 0; 0] ++ [1; 1; 1; 1; 1; 1; 1] ++ [0; 0; 0] ++ [0; 0; 0] ++ [1; 1; 1; 1; 1; 1; 1] ++ [1; 1; 1; 1; 1; 1; 1] ++ [0; 0; 0])%nat.

Definition ret_of_call (cid : nat) (h : list devent) : list resp :=
  flat_map (fun e => match e with
                     | ERes _ _ (DCall c _ _) (DRet (ROk r)) => if Nat.eqb c cid then [r] else []
                     | _ => []
                     end) h.

(* the machine of the code: the copy is answered from the cache, call 1 returns the response produced for it *)
Theorem retransmission_not_returned :
  let h := rhist dst dop dloc dres (drun crc64 (reuse_progs TCon) reuse_sched) in
  ret_of_call 0 h = [mkR 1 tokR 0] /\ ret_of_call 1 h = [mkR 2 tokR 1] /\
  In (ERes 1 1 (DRecv true (mkM TCon 7001 (mkR 1 tokR 0))) DDup) h.
Proof. vm_compute. split; [reflexivity|]. split; [reflexivity|]. tauto. Qed.

(* the cache is by-passed when a request waits for the token: the same programs and schedule end with call 1
   returning the content produced for call 0 -- response 1 is returned by two calls *)
Theorem bypass_refuted :
  retransmitted_with (reuse_progs TCon) 1 7001 /\ within_lifetime (reuse_progs TCon) 7001 /\
  let h := rhist dst dop dloc dres (drun_bypass crc64 (reuse_progs TCon) reuse_sched) in
  ret_of_call 0 h = [mkR 1 tokR 0] /\ ret_of_call 1 h = [mkR 1 tokR 0] /\ ~ d_at_most_one 1 h.
Proof.
  split.
  { intros del m H E. cbn in H.
    repeat (destruct H as [H|H]; [try discriminate H; inversion H; subst; cbn in E; try discriminate E; auto|]); contradiction. }
  split.
  { intros H. cbn in H. repeat (destruct H as [H|H]; [discriminate H|]). contradiction. }
  cbv zeta.
  assert (H0 : In (ERes 0 0 (DCall 0 tokR MWait) (DRet (ROk (mkR 1 tokR 0))))
                  (rhist dst dop dloc dres (drun_bypass crc64 (reuse_progs TCon) reuse_sched))) by (vm_compute; tauto).
  assert (H1 : In (ERes 0 1 (DCall 1 tokR MWait) (DRet (ROk (mkR 1 tokR 0))))
                  (rhist dst dop dloc dres (drun_bypass crc64 (reuse_progs TCon) reuse_sched))) by (vm_compute; tauto).
  split; [vm_compute; reflexivity|]. split; [vm_compute; reflexivity|].
  intros H. specialize (H _ _ _ _ _ _ _ _ _ _ _ _ H0 H1 eq_refl eq_refl). discriminate H.
Qed.

(* Without the hypothesis that the copies are confirmable the statement is false of the code: the connection keeps
   no record of a non-confirmable message that nobody answered, so a second copy of it (same message ID) is handled
   like a new message and the later call with the token returns it (known finding, class 12). *)
Theorem non_confirmable_duplicate_refuted :
  let h := rhist dst dop dloc dres (drun crc64 (reuse_progs TNon) reuse_sched) in
  ret_of_call 0 h = [mkR 1 tokR 0] /\ ret_of_call 1 h = [mkR 1 tokR 0] /\ ~ d_at_most_one 1 h.
Proof.
  cbv zeta.
  assert (H0 : In (ERes 0 0 (DCall 0 tokR MWait) (DRet (ROk (mkR 1 tokR 0))))
                  (rhist dst dop dloc dres (drun crc64 (reuse_progs TNon) reuse_sched))) by (vm_compute; tauto).
  assert (H1 : In (ERes 0 1 (DCall 1 tokR MWait) (DRet (ROk (mkR 1 tokR 0))))
                  (rhist dst dop dloc dres (drun crc64 (reuse_progs TNon) reuse_sched))) by (vm_compute; tauto).
  split; [vm_compute; reflexivity|]. split; [vm_compute; reflexivity|].
  intros H. specialize (H _ _ _ _ _ _ _ _ _ _ _ _ H0 H1 eq_refl eq_refl). discriminate H.
Qed.

(* after the cached acknowledgement has expired the message ID is fresh again *)
Definition expire_progs : list (list dop) :=
  [[DCall 0 tokR MWait; DCall 1 tokR MWait];
   [DRecv true (mkM TCon 7001 (mkR 1 tokR 0)); DExpire 7001; DRecv true (mkM TCon 7001 (mkR 2 tokR 1))]].
Definition expire_sched : list nat :=
  ([0; 0; 0] ++ [1; 1; 1; 1; 1; 1; 1] ++ [0; 0; 0] ++ [0; 0; 0] ++ [1; 1; 1] ++ [1; 1; 1; 1; 1; 1; 1] ++ [0; 0; 0])%nat.
Theorem expired_id_is_fresh :
  let h := rhist dst dop dloc dres (drun crc64 expire_progs expire_sched) in
  ret_of_call 0 h = [mkR 1 tokR 0] /\ ret_of_call 1 h = [mkR 2 tokR 1].
Proof. vm_compute. split; reflexivity. Qed.
