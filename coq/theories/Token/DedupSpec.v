(* Token/DedupSpec.v -- property C03 for duplicated (retransmitted) responses on a datagram connection, written
   from the property text and RFC 7252 section 4.5, not from the code.

   "... the peer answers them in any order with any mix of piggybacked, separate, delayed or DUPLICATED responses,
    every request call that returns successfully returns a response carrying its own token and the content the
    peer produced for that request. A response is never delivered to a different caller or TO TWO CALLERS ..."

   A peer that has not seen the acknowledgement of a confirmable response sends it again with the same message ID
   (RFC 7252 4.2); a recipient recognises the copy by its message ID within EXCHANGE_LIFETIME, acknowledges it
   again and processes the response only once (4.5). The copy may arrive after the request it answers has
   completed and while a later request -- which may carry the same token, tokens are the caller's to choose -- is
   outstanding: that later call must not return it.

   Part 1: propositions over the histories of the machine of DedupModel.v.
   Part 2: executable classifier of an observed history in which every received message is described by its type
   and message ID (what is a duplicate is decided here, by the RFC's rule, not reported by the harness). *)
From Coq Require Import ZArith NArith List Bool Arith.
From GoCoap Require Import Base.Interleave Token.Model Token.Spec Token.DedupModel.
Import ListNotations.
Open Scope Z_scope.

(* ---------- Part 1 ---------- *)
Definition d_own_token (rh : list devent) : Prop :=
  forall t n cid tok m r, In (ERes t n (DCall cid tok m) (DRet (ROk r))) rh -> r_tok r = tok.

(* response instance i is returned by at most one call instance *)
Definition d_at_most_one (i : nat) (rh : list devent) : Prop :=
  forall t n cid tok m r t' n' cid' tok' m' r',
    In (ERes t n (DCall cid tok m) (DRet (ROk r))) rh ->
    In (ERes t' n' (DCall cid' tok' m') (DRet (ROk r'))) rh ->
    r_id r = i -> r_id r' = i ->
    ERes t n (DCall cid tok m) (DRet (ROk r)) = ERes t' n' (DCall cid' tok' m') (DRet (ROk r')).

Definition dall_ops (progs : list (list dop)) : list dop := concat progs.
Definition dop_toks (o : dop) : list (list Z) :=
  match o with DCall _ tok _ => [tok] | DRecv _ m => [r_tok (m_r m)] | DExpire _ => [] end.
Definition dall_toks (progs : list (list dop)) : list (list Z) := flat_map dop_toks (dall_ops progs).

(* every copy of response instance i is a confirmable message with message ID x (the peer retransmits) ... *)
Definition retransmitted_with (progs : list (list dop)) (i : nat) (x : Z) : Prop :=
  forall del m, In (DRecv del m) (dall_ops progs) -> r_id (m_r m) = i -> m_typ m = TCon /\ m_mid m = x.
(* ... and all copies arrive within EXCHANGE_LIFETIME of the first *)
Definition within_lifetime (progs : list (list dop)) (x : Z) : Prop := ~ In (DExpire x) (dall_ops progs).

(* the peer produces one response per request (its copies are the same instance) *)
Definition one_response_per_request (progs : list (list dop)) : Prop :=
  forall del m del' m', In (DRecv del m) (dall_ops progs) -> In (DRecv del' m') (dall_ops progs) ->
    r_for (m_r m) = r_for (m_r m') -> r_id (m_r m) = r_id (m_r m').

(* ---------- Part 2: observed histories ---------- *)
(* message types on the wire: 0 CON, 1 NON, 2 ACK *)
Inductive dkind :=
| DStart (cid : nat) (tok : list Z) (acked : bool)
| DAck (cid : nat)
| DMsg (typ mid : Z) (del : bool) (rid : nat) (tok : list Z) (for_ : nat) (ackfor : option nat)
| DLifetime                      (* EXCHANGE_LIFETIME elapses: what was received so far is forgotten *)
| DCancel (cid : nat).

(* d_hit: the response cache had a reply for the message's ID; d_acks: acknowledgements with the message's ID the
   connection wrote during the event *)
Record dev := mkDev { d_k : dkind; d_rets : list oret; d_fell : bool; d_hit : bool; d_acks : nat }.

Record dstate := mkDS {
  ds_o : ostate;
  ds_con : list Z;                  (* message IDs of the confirmable messages received within the lifetime *)
  ds_arr : list (nat * Z * Z)       (* (rid, typ, mid) of every message received so far *)
}.

Section Class.
  Variable hash : list Z -> Z.

  (* RFC 7252 4.5: a CON or NON message that carries the message ID of a confirmable message received within
     EXCHANGE_LIFETIME is a duplicate of it *)
  Definition is_dup (s : dstate) (typ mid : Z) : bool := ((typ =? 0) || (typ =? 1)) && zmem mid (ds_con s).

  Definition to_oev (s : dstate) (e : dev) : oev :=
    mkOev (match d_k e with
           | DStart cid tok a => KStart cid tok a
           | DAck cid => KAck cid
           | DMsg typ mid del rid tok f ackfor => KResp del (is_dup s typ mid) rid tok f ackfor
           | DLifetime => KBurst []
           | DCancel cid => KCancel cid
           end) (d_rets e) (d_fell e).

  (* the known finding (class 12): a call returned content produced for another request, and every copy of the
     returned response instance received so far -- there are at least two -- was a NON-CONFIRMABLE message with one
     and the same message ID. The connection keeps no record of non-confirmable messages it did not answer
     (RFC 7252 4.5: it SHOULD), so it cannot tell such a copy from a new message. As soon as one copy was
     confirmable the failure is class 2: those the connection has to recognise. *)
  Definition wrong_ret (r : oret) : bool := (o_cls r =? 0) && negb (Nat.eqb (o_for r) (o_cid r)).
  Definition copies (rid : nat) (arr : list (nat * Z * Z)) : list (nat * Z * Z) :=
    filter (fun a => Nat.eqb (fst (fst a)) rid) arr.
  Definition non_copies_only (rid : nat) (arr : list (nat * Z * Z)) : bool :=
    match copies rid arr with
    | a :: (_ :: _) as l => forallb (fun b => (snd (fst b) =? 1) && (snd b =? snd a)) l
    | _ => false
    end.
  Definition known_non_duplicate (arr : list (nat * Z * Z)) (rets : list oret) : bool :=
    match find wrong_ret rets with
    | Some r => non_copies_only (o_rid r) arr
    | None => false
    end.

  Definition dev_class (s : dstate) (e : dev) : N * dstate :=
    let '(c, o') := ev_class hash (ds_o s) (to_oev s e) in
    let arr := match d_k e with DMsg typ mid _ rid _ _ _ => (rid, typ, mid) :: ds_arr s | _ => ds_arr s end in
    let con := match d_k e with
               | DMsg typ mid _ _ _ _ _ => if typ =? 0 then mid :: ds_con s else ds_con s
               | DLifetime => []
               | _ => ds_con s
               end in
    ((if N.eqb c 2 && known_non_duplicate arr (d_rets e) then 12 else c)%N, mkDS o' con arr).

  Fixpoint devs_class (s : dstate) (l : list dev) : N :=
    match l with
    | [] => 0%N
    | e :: q => let '(c, s') := dev_class s e in if N.eqb c 0 then devs_class s' q else c
    end.

  Definition c03dd_class (l : list dev) : N := devs_class (mkDS (mkO [] [] [] [] [] []) [] []) l.
End Class.
