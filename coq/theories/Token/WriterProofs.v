(* Token/WriterProofs.v -- the receive path releases every message it owns exactly once, and never the
   message it handed to a waiting call: for every handler behaviour (any sequence of SetMessage). *)
From Coq Require Import List Bool Arith Lia.
From GoCoap Require Import Token.WriterModel.
Import ListNotations.

Lemma run_handler_app : forall sets s,
  wreleased (fold_left set_message sets s) ++ [wcur (fold_left set_message sets s)] =
  wreleased s ++ [wcur s] ++ sets.
Proof.
  induction sets as [|m sets IH]; intros s; cbn.
  - reflexivity.
  - rewrite IH. cbn. rewrite <- app_assoc. reflexivity.
Qed.

(* what the handler's SetMessage calls released plus what the writer holds at the end = the acquired
   message and everything passed to SetMessage, in that order *)
Lemma handler_conservation : forall orig sets,
  wreleased (run_handler orig sets) ++ [wcur (run_handler orig sets)] = orig :: sets.
Proof. intros. unfold run_handler. rewrite run_handler_app. reflexivity. Qed.

(* the objects released while one received message is handled: the writer's messages and, unless it was
   handed to a waiting call, the received message *)
Theorem process_perm : forall tcp orig req hijacked sets x,
  In x (process tcp orig req hijacked sets) <->
  In x (orig :: sets) \/ (hijacked = false /\ x = req).
Proof.
  intros tcp orig req hijacked sets x. unfold process.
  pose proof (handler_conservation orig sets) as HC.
  set (s := run_handler orig sets) in *.
  assert (Hw : In x (wreleased s ++ [wcur s]) <-> In x (orig :: sets)) by (rewrite HC; tauto).
  rewrite in_app_iff in Hw.
  destruct tcp; destruct hijacked; cbn; repeat rewrite in_app_iff; cbn; cbn in Hw; intuition congruence.
Qed.

(* ... each of them exactly once *)
Theorem process_once : forall tcp orig req hijacked sets,
  NoDup (orig :: req :: sets) -> NoDup (process tcp orig req hijacked sets).
Proof.
  intros tcp orig req hijacked sets HN. unfold process.
  pose proof (handler_conservation orig sets) as HC.
  set (s := run_handler orig sets) in *.
  assert (Hos : NoDup (orig :: sets)).
  { inversion HN as [|a l Hni HN']; subst. inversion HN' as [|b l' Hni' HN'']; subst.
    constructor; [|exact HN'']. intros H. apply Hni. right; exact H. }
  assert (Hreq : ~ In req (orig :: sets)).
  { inversion HN as [|a l Hni HN']; subst. inversion HN' as [|b l' Hni' HN'']; subst.
    intros [E|H]; [apply Hni; left; auto|contradiction]. }
  rewrite <- HC in Hos, Hreq.
  destruct hijacked; cbn.
  - destruct tcp; cbn; exact Hos.
  - destruct tcp; cbn.
    + apply (NoDup_Add (Add_app req (wreleased s) [wcur s])). split; assumption.
    + replace (wreleased s ++ [wcur s; req]) with ((wreleased s ++ [wcur s]) ++ [req])
        by (rewrite <- app_assoc; reflexivity).
      apply (NoDup_Add (Add_app req (wreleased s ++ [wcur s]) [])).
      rewrite app_nil_r. split; assumption.
Qed.

(* in particular: a received message that was handed to a waiting call is not released by the receive path *)
Corollary hijacked_not_released : forall tcp orig req sets,
  NoDup (orig :: req :: sets) -> ~ In req (process tcp orig req true sets).
Proof.
  intros tcp orig req sets HN H. apply process_perm in H. destruct H as [H|[H _]]; [|discriminate].
  inversion HN as [|a l Hni HN']; subst. inversion HN' as [|b l' Hni' HN'']; subst.
  destruct H as [E|H]; [apply Hni; left; auto|contradiction].
Qed.

(* ---------- the variant with the release deferred before the handler ---------- *)
(* as soon as the handler replaces the writer's message, the acquired message is released twice and the
   message the writer holds at the end is never released *)
Theorem early_release_refuted : forall orig req hijacked m sets,
  NoDup (orig :: req :: m :: sets) ->
  ~ NoDup (process_early orig req hijacked (m :: sets)) /\
  ~ In (wcur (run_handler orig (m :: sets))) (process_early orig req hijacked (m :: sets)).
Proof.
  intros orig req hijacked m sets HN.
  pose proof (handler_conservation orig (m :: sets)) as HC.
  unfold process_early. set (s := run_handler orig (m :: sets)) in *.
  (* the first release of the handler is that of orig *)
  assert (Hhd : exists q, wreleased s = orig :: q /\ q ++ [wcur s] = m :: sets).
  { destruct (wreleased s) as [|a q] eqn:E.
    - cbn in HC. inversion HC.
    - cbn in HC. injection HC as E1 E2. exists q. split; [rewrite E1; reflexivity|exact E2]. }
  destruct Hhd as (q & Hq & Hq2). rewrite Hq. split.
  - intros H. cbn in H. apply NoDup_cons_iff in H. destruct H as [Hni _]. apply Hni.
    rewrite in_app_iff. right. rewrite in_app_iff. right. left; reflexivity.
  - (* the final message is one of m :: sets: not orig, not req, and it occurs once in q ++ [cur] *)
    assert (Hcur : In (wcur s) (m :: sets)) by (rewrite <- Hq2; rewrite in_app_iff; right; left; reflexivity).
    assert (HN1 : ~ In orig (req :: m :: sets)) by (apply NoDup_cons_iff in HN; tauto).
    assert (HN2 : NoDup (req :: m :: sets)) by (apply NoDup_cons_iff in HN; tauto).
    assert (HN3 : ~ In req (m :: sets)) by (apply NoDup_cons_iff in HN2; tauto).
    assert (Hms : NoDup (m :: sets)) by (apply NoDup_cons_iff in HN2; tauto).
    assert (Ho : wcur s <> orig).
    { intros E. apply HN1. right. rewrite <- E. exact Hcur. }
    assert (Hr : wcur s <> req).
    { intros E. apply HN3. rewrite <- E. exact Hcur. }
    assert (Hnq : ~ In (wcur s) q).
    { rewrite <- Hq2 in Hms. apply NoDup_remove_2 in Hms. rewrite app_nil_r in Hms. exact Hms. }
    cbn [app]. intros H. destruct H as [E|H]; [apply Ho; symmetry; exact E|].
    rewrite in_app_iff in H. destruct H as [H|H]; [contradiction|].
    rewrite in_app_iff in H. destruct H as [H|[E|[]]]; [|apply Ho; symmetry; exact E].
    destruct hijacked; [contradiction|]. destruct H as [E|[]]. apply Hr; symmetry; exact E.
Qed.
