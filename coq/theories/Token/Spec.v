(* Token/Spec.v -- property C03 written from its text, not from the code.

   "Whenever any number of requests with distinct tokens are outstanding
    concurrently on one connection and the peer answers them in any order with
    any mix of piggybacked, separate, delayed or duplicated responses, every
    request call that returns successfully returns a response carrying its own
    token and the content the peer produced for that request. A response is
    never delivered to a different caller or to two callers, and a second
    request issued with a token that is still outstanding is rejected rather
    than displacing the first."

   Part 1: the clauses as propositions over call/return histories of the
   machine of Model.v (what the theorems are about).
   Part 2: the same clauses as an executable classifier of an OBSERVED history
   of a real connection (what bin/check evaluates on the implementation's
   output; 0 = holds). *)
From Coq Require Import ZArith NArith List Bool Arith.
From GoCoap Require Import Base.Interleave Token.Model.
Import ListNotations.
Open Scope Z_scope.

(* ---------- Part 1: histories of the machine ---------- *)

(* every successful call returns a response with its own token *)
Definition own_token (rh : list event) : Prop :=
  forall t n cid tok m r, In (ERes t n (Call cid tok m) (ROk r)) rh -> r_tok r = tok.

(* ... and the content the peer produced for that request *)
Definition own_content (rh : list event) : Prop :=
  forall t n cid tok m r, In (ERes t n (Call cid tok m) (ROk r)) rh -> r_for r = cid.

(* a response instance is returned by at most one call instance *)
Definition at_most_one (rh : list event) : Prop :=
  forall t n cid tok m r t' n' cid' tok' m' r',
    In (ERes t n (Call cid tok m) (ROk r)) rh ->
    In (ERes t' n' (Call cid' tok' m') (ROk r')) rh ->
    r_id r = r_id r' ->
    ERes t n (Call cid tok m) (ROk r) = ERes t' n' (Call cid' tok' m') (ROk r').

(* the tokens in play are told apart by the hash *)
Definition hash_inj_on (hash : list Z -> Z) (toks : list (list Z)) : Prop :=
  forall a b, In a toks -> In b toks -> hash a = hash b -> a = b.

(* vocabulary of a program *)
Definition op_toks (o : op) : list (list Z) :=
  match o with Call _ tok _ => [tok] | Deliver _ r => [r_tok r] end.
Definition all_ops (progs : list (list op)) : list op := concat progs.
Definition all_toks (progs : list (list op)) : list (list Z) := flat_map op_toks (all_ops progs).
Definition op_rid (o : op) : list nat := match o with Deliver _ r => [r_id r] | _ => [] end.
Definition resp_ids (progs : list (list op)) : list nat := flat_map op_rid (all_ops progs).
Definition op_call (o : op) : list (nat * list Z) := match o with Call cid tok _ => [(cid, tok)] | _ => [] end.
Definition calls (progs : list (list op)) : list (nat * list Z) := flat_map op_call (all_ops progs).

(* the peer is honest: a response produced for request c carries c's token *)
Definition honest (progs : list (list op)) : Prop :=
  forall del r, In (Deliver del r) (all_ops progs) ->
    forall cid tok, In (cid, tok) (calls progs) -> r_tok r = tok -> r_for r = cid.

(* ---------- Part 2: observed histories ---------- *)

Inductive okind :=
| KStart (cid : nat) (tok : list Z) (acked : bool)   (* a call is issued; acked: no acknowledgement needed (NON / stream) *)
| KAck (cid : nat)                                   (* empty ACK for the request of cid *)
| KResp (del dedup : bool) (rid : nat) (tok : list Z) (for_ : nat) (ackfor : option nat)
                                                     (* a response arrives; ackfor: piggybacked on the ACK of that call;
                                                        dedup: a confirmable duplicate (same message ID), answered from the
                                                        response cache below the token layer (C05) *)
| KCancel (cid : nat)                                (* the call's context is cancelled *)
| KBurst (rs : list (bool * bool * nat * list Z * nat * option nat)).
                                                     (* responses (del, dedup, rid, tok, for, ackfor) that arrive back to
                                                        back: the calls they answer are looked at after the last one *)

(* result classes of a call: 0 ok, 1 key already exists, 2 context, 3 other error, 9 hang/panic *)
Definition tok_eqb (a b : list Z) : bool := if list_eq_dec Z.eq_dec a b then true else false.

Record oret := mkRet { o_cid : nat; o_cls : Z; o_tok : list Z; o_for : nat; o_rid : nat }.
Record oev := mkOev { o_k : okind; o_rets : list oret; o_fell : bool }.

Definition mem (x : nat) (l : list nat) : bool := existsb (Nat.eqb x) l.
Definition count (x : nat) (l : list nat) : nat := length (filter (Nat.eqb x) l).

(* The one pair of tokens recorded as a known finding (F18, KNOWN_FINDINGS.txt): 42 and 422ff4422ff442b2 have
   the same CRC-64/ISO. Class 5 is reserved for histories in which exactly these two tokens are confused;
   any other pair of distinct tokens that the connection treats as equal is class 10, so that a new
   confusion is never reported (and suppressed) as the known one. *)
Definition known_a : list Z := [66].
Definition known_b : list Z := [66; 47; 244; 66; 47; 244; 66; 178].
Definition known_pair (a b : list Z) : bool :=
  (tok_eqb a known_a && tok_eqb b known_b) || (tok_eqb a known_b && tok_eqb b known_a).

Record ostate := mkO {
  outst : list (nat * list Z);   (* accepted, not yet returned *)
  finished : list (list Z);      (* tokens of the accepted calls that have returned *)
  ackd : list nat;
  answered : list nat;           (* a response for it has arrived while it was outstanding *)
  injected : list nat;           (* rids of the datagrams / frames received so far *)
  returned : list nat            (* rids returned by successful calls so far *)
}.

Section Class.
  Variable hash : list Z -> Z.

  Definition tok_of (cid : nat) (l : list (nat * list Z)) : option (list Z) :=
    match find (fun p => Nat.eqb (fst p) cid) l with Some p => Some (snd p) | None => None end.

  (* class of one return, given the state before the event's returns are taken out *)
  Definition ret_class (s : ostate) (rets_before : list nat) (r : oret) : N :=
    if o_cls r =? 9 then 8%N
    else if negb (o_cls r =? 0) then 0%N
    else match tok_of (o_cid r) (outst s) with
         | None => 8%N
         | Some tok =>
             if negb (tok_eqb (o_tok r) tok)
             then (if known_pair (o_tok r) tok then 5%N else if hash (o_tok r) =? hash tok then 10%N else 1%N)
             else if negb (Nat.eqb (o_for r) (o_cid r)) then 2%N
             else if Nat.ltb (count (o_rid r) (injected s)) (S (count (o_rid r) (returned s ++ rets_before))) then 3%N
             else 0%N
         end.

  Fixpoint rets_class (s : ostate) (before : list nat) (l : list oret) : N :=
    match l with
    | [] => 0%N
    | r :: q => let c := ret_class s before r in
                if N.eqb c 0 then rets_class s (if o_cls r =? 0 then o_rid r :: before else before) q else c
    end.

  Definition same_tok_outst (tok : list Z) (s : ostate) : bool := existsb (fun p => tok_eqb (snd p) tok) (outst s).
  Definition known_pair_outst (tok : list Z) (s : ostate) : bool := existsb (fun p => known_pair (snd p) tok) (outst s).
  Definition used_before (tok : list Z) (s : ostate) : bool := existsb (tok_eqb tok) (finished s).

  Definition returned_now (cid : nat) (l : list oret) : bool := existsb (fun r => Nat.eqb (o_cid r) cid) l.
  Definition rejected_now (cid : nat) (l : list oret) : bool :=
    existsb (fun r => Nat.eqb (o_cid r) cid && (o_cls r =? 1)) l.

  Definition remove_returned (l : list oret) (o : list (nat * list Z)) : list (nat * list Z) :=
    filter (fun p => negb (returned_now (fst p) l)) o.

  (* a response arrives: piggybacked, it acknowledges; if it is for an outstanding call with this very token
     (and no other outstanding token has the same key) that call is answered. The set of outstanding calls
     does not change here. *)
  Definition resp_arrives (s : ostate) (m : bool * bool * nat * list Z * nat * option nat) : ostate :=
    let '(del, dedup, rid, tok, f, ackfor) := m in
    let hit := negb dedup && existsb (fun p => Nat.eqb (fst p) f && tok_eqb (snd p) tok) (outst s)
               && Nat.eqb (length (filter (fun p => hash (snd p) =? hash tok) (outst s))) 1 in
    mkO (outst s) (finished s) (match ackfor with Some c => c :: ackd s | None => ackd s end)
        (if hit then f :: answered s else answered s) (rid :: injected s) (returned s).

  (* (class, next state) of one observed event *)
  Definition ev_class (s : ostate) (e : oev) : N * ostate :=
    let rets := o_rets e in
    (* the state in which this event's returns are judged *)
    let s1 :=
      match o_k e with
      | KStart cid tok a =>
          mkO (if rejected_now cid rets then outst s else outst s ++ [(cid, tok)]) (finished s)
              (if a then cid :: ackd s else ackd s) (answered s) (injected s) (returned s)
      | KAck cid => mkO (outst s) (finished s) (cid :: ackd s) (answered s) (injected s) (returned s)
      | KResp del dedup rid tok f ackfor => resp_arrives s (del, dedup, rid, tok, f, ackfor)
      | KCancel cid => s
      | KBurst rs => fold_left resp_arrives rs s
      end in
    let kind_class : N :=
      match o_k e with
      | KStart cid tok a =>
          if rejected_now cid rets then
            (* refused: fine if a call with this very token is outstanding. Otherwise: the known pair (5); a
               token whose earlier call has returned, i.e. a registration left behind (7); some other,
               different token is outstanding and was taken for this one (10); nothing outstanding (7) *)
            (if same_tok_outst tok s then 0
             else if known_pair_outst tok s then 5
             else if used_before tok s then 7
             else match outst s with [] => 7 | _ => 10 end)%N
          else (if same_tok_outst tok s then 4 else 0)%N
      | _ => 0%N
      end in
    let rc := rets_class s1 [] rets in
    (* an acknowledged, answered, outstanding call has to return at this event *)
    let live : N :=
      if forallb (fun p => negb (mem (fst p) (ackd s1) && mem (fst p) (answered s1)) || returned_now (fst p) rets) (outst s1)
      then 0%N else 6%N in
    let c := if negb (N.eqb kind_class 0) then kind_class else if negb (N.eqb rc 0) then rc else live in
    (c, mkO (remove_returned rets (outst s1))
            (map snd (filter (fun p => returned_now (fst p) rets) (outst s1)) ++ finished s1) (ackd s1) (answered s1) (injected s1)
            (map o_rid (filter (fun r => o_cls r =? 0) rets) ++ returned s1)).

  Fixpoint evs_class (s : ostate) (l : list oev) : N :=
    match l with
    | [] => 0%N
    | e :: q => let '(c, s') := ev_class s e in if N.eqb c 0 then evs_class s' q else c
    end.

  Definition c03_class (l : list oev) : N := evs_class (mkO [] [] [] [] [] []) l.
End Class.
