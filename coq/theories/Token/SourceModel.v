(* Token/SourceModel.v -- the token source of the library, as the code is:

     message/getToken.go  GetToken:  b := make(Token, 8); _, err := rand.Read(b); err != nil -> (nil, err); (b, nil)

   "random 8-byte tokens by default" (udp/tcp/dtls client and server configurations: cfg.GetToken = message.GetToken;
   net/client.Client.NewGetRequest / NewPostRequest / ... take the token of a request from it).

   The system's source of randomness is not modelled as a distribution: it is the sequence [ent] of the bytes
   crypto/rand.Read delivers, in the order in which they are delivered (a finite supply; a supply shorter than the
   read = the read fails). GetToken has no state of its own: the state of the source is what is left of [ent].
   What the theorems say is which bytes of [ent] a token is made of; "random" then means what the reader wants it
   to mean for [ent] (SourceProofs.v: if the 8-byte pieces of [ent] differ, the tokens differ).

   [block_get B] is NOT the code: it is the seeded variant "one read of B bytes per B/8 tokens" whose offset is
   wrapped before the 'block used up' test (refutation only). *)
From Coq Require Import ZArith List Bool Arith.
Import ListNotations.

Definition tok_len : nat := 8.

(* one call: (token, bytes read from the system during the call, what is left of the supply) *)
Definition get_token (ent : list Z) : option (list Z * nat * list Z) :=
  if length ent <? tok_len then None
  else Some (firstn tok_len ent, tok_len, skipn tok_len ent).

(* n calls one after the other (any goroutines: GetToken shares nothing but the system's source, whose reads are
   atomic); stops at the first failing read *)
Fixpoint tokens (n : nat) (ent : list Z) : list (list Z * nat) :=
  match n with
  | O => []
  | S n' =>
      match get_token ent with
      | Some (t, k, ent') => (t, k) :: tokens n' ent'
      | None => []
      end
  end.

(* ---------- the variant with a block of random bytes (refutation only) ---------- *)
Record bsrc := mkB { b_buf : list Z; b_off : nat; b_ok : bool }.
Definition bsrc0 : bsrc := mkB [] 0 false.

Definition block_get (B : nat) (s : bsrc) (ent : list Z) : option (list Z * nat * bsrc * list Z) :=
  let fill := negb (b_ok s) || (b_off s =? B) in
  if fill && (length ent <? B) then None
  else
    let '(buf, off, k, ent') := if fill then (firstn B ent, 0, B, skipn B ent) else (b_buf s, b_off s, 0, ent) in
    Some (firstn tok_len (skipn off buf), k, mkB buf ((off + tok_len) mod B) true, ent').

Fixpoint block_tokens (B : nat) (n : nat) (s : bsrc) (ent : list Z) : list (list Z * nat) :=
  match n with
  | O => []
  | S n' =>
      match block_get B s ent with
      | Some (t, k, s', ent') => (t, k) :: block_tokens B n' s' ent'
      | None => []
      end
  end.
