(* Token/BwModel.v -- the block-wise layer of a client connection around the token table, as the code is:

     net/blockwise/blockwise.go
        BlockWise.Do               -> caller program   LoadOrStore on sendingMessagesCache (refused: "invalid token");
                                                       do(r) = doInternal (the four actions of Token/Model.v [Call]);
                                                       deferred sendingMessagesCache.Delete, installed AFTER the check
        BlockWise.Handle for a response
          without Block2           -> next(w, r): the dispatch of Token/Model.v [Deliver]
          with Block2 (num, more)  -> processReceivedMessage: getSentRequest (the paired request in
                                      sendingMessagesCache; absent: "cannot request body without paired request",
                                      4.08 Request Entity Incomplete); receivingMessagesCache.Load;
                                      guarded reassembly (LoadOrStore, append when num*size = bytes so far);
                                      last block appended: Delete and next(w, assembled message);
                                      otherwise a request for the next missing block (w.SetMessage)
     udp/client/conn.go  do, handle   -> BlockWise.Do around doInternal; next = LoadAndDelete + handler ([del] = true)
     tcp/client/conn.go  do, handle, blockwiseHandle -> the same; next = Load + handler ([del] = false)

   Shared state: the two caches of the block-wise layer, the state of Token/Model.v ([inner]: token table,
   channels, wire, fall-through), the blocks answered 4.08 and the block requests written.

   Limits of the transcription (stated in notes/C03.md): requests are GET/DELETE without a body (Do goes
   straight to do(r); the restart rule for POST/PUT does not apply); no Observe option, no observation
   registered with the connection (getSentRequestFromOutside finds nothing), no ETag; every block with M=1 is
   full-size (SZX of the transfer), so the bytes reassembled so far are [have] full blocks; cache expiry is
   not modelled (no time); Load and the guarded section of the reassembly are one action each and the guard
   found by the Load is the cached one at the time of the guarded section. Reassembly itself is C04's subject
   (Blockwise/): here it only decides WHEN a response is handed to the token table. *)
From Coq Require Import ZArith List Bool Arith.
From GoCoap Require Import Base.Interleave Token.Model.
Import ListNotations.
Open Scope Z_scope.

(* receivingMessagesCache: key -> (message created from the first block stored, full blocks appended) *)
Definition rtable := list (Z * (resp * nat)).
Fixpoint rget (k : Z) (l : rtable) : option (resp * nat) :=
  match l with
  | [] => None
  | (k', v) :: q => if k =? k' then Some v else rget k q
  end.
Definition rdel (k : Z) (l : rtable) : rtable := filter (fun p => negb (k =? fst p)) l.
Definition rset (k : Z) (v : resp * nat) (l : rtable) : rtable := (k, v) :: rdel k l.

Record bst := mkB {
  sending : table;               (* sendingMessagesCache: key -> the Do that stored its request there *)
  recving : rtable;              (* receivingMessagesCache *)
  inner : st;                    (* token table, channels, wire, fall-through (Token/Model.v) *)
  refused : list resp;           (* blocks answered with 4.08 Request Entity Incomplete *)
  asked : list (list Z * nat)    (* requests for a further block written by the receive path: (token, number) *)
}.
Definition bempty : bst := mkB [] [] empty [] [].

Definition with_sending (s : bst) (x : table) : bst := mkB x (recving s) (inner s) (refused s) (asked s).
Definition with_recving (s : bst) (x : rtable) : bst := mkB (sending s) x (inner s) (refused s) (asked s).
Definition with_inner (s : bst) (x : st) : bst := mkB (sending s) (recving s) x (refused s) (asked s).
Definition refuse (s : bst) (r : resp) : bst := mkB (sending s) (recving s) (inner s) (refused s ++ [r]) (asked s).
Definition ask (s : bst) (x : rtable) (tok : list Z) (n : nat) : bst :=
  mkB (sending s) x (inner s) (refused s) (asked s ++ [(tok, n)]).

Inductive bop :=
| BCall (cid : nat) (tok : list Z) (m : mode)                   (* one execution of BlockWise.Do *)
| BRecv (del : bool) (r : resp) (blk : option (nat * bool)).    (* one execution of BlockWise.Handle for the received
                                                                   response r; blk: its Block2 option (num, more) *)
Inductive bres :=
| BInvalid            (* BlockWise.Do: errors.New("invalid token") *)
| BRet (x : res)      (* what doInternal / the dispatch returned *)
| BIncomplete         (* 4.08 written *)
| BAsked (n : nat).   (* request for block n written *)

Inductive bloc :=
| B0                  (* Do: before LoadOrStore; Handle: before getSentRequest / next *)
| BIn (o : op) (l : loc)   (* inside do(r) / next(w, .): operation o of Token/Model.v at its location l *)
| BUnreg (x : res)    (* Do: do(r) returned x, the deferred Delete is pending *)
| BLook               (* block: the paired request was found; before receivingMessagesCache.Load *)
| BAsm.               (* block: before the guarded reassembly *)

Section WithHash.
  Variable hash : list Z -> Z.

  (* one action of the inner operation o at l, lifted; [fin] says what the operation's return means here *)
  Definition lift (o : op) (l : loc) (s : bst) (fin : res -> bloc * option bres) : option (bloc * bst * option bres) :=
    match act hash o l (inner s) with
    | None => None
    | Some (l', i', None) => Some (BIn o l', with_inner s i', None)
    | Some (_, i', Some x) => let '(b, d) := fin x in Some (b, with_inner s i', d)
    end.

  Definition bact (o : bop) (l : bloc) (s : bst) : option (bloc * bst * option bres) :=
    match o, l with
    | BCall cid tok m, B0 =>
        (* _, loaded := b.sendingMessagesCache.LoadOrStore(r.Token().Hash(), ...); if loaded { return "invalid token" } *)
        match tget (hash tok) (sending s) with
        | Some _ => Some (B0, s, Some BInvalid)
        | None => Some (BIn (Call cid tok m) L0, with_sending s (tset (hash tok) (cid, tok) (sending s)), None)
        end
    | BCall cid tok m, BIn o' l' =>
        (* defer b.sendingMessagesCache.Delete(...) is installed by now; return do(r) *)
        lift o' l' s (fun x => (BUnreg x, None))
    | BCall cid tok m, BUnreg x =>
        (* deferred: b.sendingMessagesCache.Delete(r.Token().Hash()) -- by key *)
        Some (BUnreg x, with_sending s (tdel (hash tok) (sending s)), Some (BRet x))
    | BRecv del r None, B0 =>
        (* no Block2 option: next(w, r) *)
        lift (Deliver del r) L0 s (fun x => (B0, Some (BRet x)))
    | BRecv del r _, BIn o' l' =>
        lift o' l' s (fun x => (B0, Some (BRet x)))
    | BRecv del r (Some (num, more)), B0 =>
        (* sentRequest := b.getSentRequest(token); if sentRequest == nil: "cannot request body without paired request" *)
        match tget (hash (r_tok r)) (sending s) with
        | None => Some (B0, refuse s r, Some BIncomplete)
        | Some _ => Some (BLook, s, None)
        end
    | BRecv del r (Some (num, more)), BLook =>
        (* b.receivingMessagesCache.Load(tokenStr) *)
        match rget (hash (r_tok r)) (recving s) with
        | Some _ => Some (BAsm, s, None)
        | None =>
            if more then Some (BAsm, s, None)
            else if Nat.eqb num 0 then Some (BIn (Deliver del r) L0, s, None)          (* a one-block body: next(w, r) *)
            else Some (BLook, refuse s r, Some BIncomplete)                          (* "received last block without previous blocks" *)
        end
    | BRecv del r (Some (num, more)), BAsm =>
        (* getCachedReceivedMessage (LoadOrStore + guard), getPayloadFromCachedReceivedMessage, off == payloadSize? *)
        let k := hash (r_tok r) in
        let '(r0, have) := match rget k (recving s) with Some e => e | None => (r, O) end in
        if Nat.eqb num have then
          if more then
            (* appended; ask for block have+1 *)
            Some (BAsm, ask s (rset k (r0, S have) (recving s)) (r_tok r) (S have), Some (BAsked (S have)))
          else
            (* the last block: receivingMessagesCache.Delete; next(w, cachedReceivedMessage) *)
            Some (BIn (Deliver del r0) L0, with_recving s (rdel k (recving s)), None)
        else
          (* not the block that is missing: ask for block payloadSize / size *)
          Some (BAsm, ask s (rset k (r0, have) (recving s)) (r_tok r) have, Some (BAsked have))
    | _, _ => None
    end.

  Definition binit_loc (_ : bop) : bloc := B0.
  Definition bno_lp (_ : bloc) : option bres := None.

  Definition bconfig := Interleave.config bst bop bloc bres.
  Definition bthread := Interleave.thread bop bloc bres.
  Definition bevent := @Interleave.event bop bres.

  Definition bstep : bconfig -> nat -> bconfig := Interleave.step bst bop bloc bres binit_loc bact bno_lp.
  Definition bexec : list nat -> bconfig -> bconfig := Interleave.exec bst bop bloc bres binit_loc bact bno_lp.
  Definition binit (progs : list (list bop)) : bconfig := Interleave.init bst bop bloc bres bempty progs.
  Definition brun (progs : list (list bop)) (sched : list nat) : bconfig := bexec sched (binit progs).
End WithHash.

(* The variant the property excludes (for a refutation only): the deferred Delete is installed BEFORE the
   register-if-absent check, so a refused Do deletes by key on its way out. *)
Section Early.
  Variable hash : list Z -> Z.
  Definition bact_early (o : bop) (l : bloc) (s : bst) : option (bloc * bst * option bres) :=
    match o, l with
    | BCall cid tok m, B0 =>
        match tget (hash tok) (sending s) with
        | Some _ => Some (B0, with_sending s (tdel (hash tok) (sending s)), Some BInvalid)
        | None => Some (BIn (Call cid tok m) L0, with_sending s (tset (hash tok) (cid, tok) (sending s)), None)
        end
    | _, _ => bact hash o l s
    end.
  Definition bstep_early : bconfig -> nat -> bconfig := Interleave.step bst bop bloc bres binit_loc bact_early bno_lp.
  Definition brun_early (progs : list (list bop)) (sched : list nat) : bconfig :=
    fold_left bstep_early sched (binit progs).
End Early.
