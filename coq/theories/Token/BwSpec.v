(* Token/BwSpec.v -- property C03 for a connection with block-wise transfer, written from its text.

   "... every request call that returns successfully returns a response carrying its own token and the
    content the peer produced for that request. ... a second request issued with a token that is still
    outstanding is rejected rather than displacing the first."

   With block-wise transfer the peer may produce the content for a request as a sequence of blocks
   (RFC 7959 Block2); the response has arrived when its blocks 0..n-1 have arrived in order. "Not displaced"
   then also means: as long as the first request is outstanding, the blocks of its response are accepted --
   the connection does not answer them with 4.08 Request Entity Incomplete -- and when the last one has
   arrived the first request completes with the whole body.

   Part 1: propositions over the machine of BwModel.v (what the theorems are about).
   Part 2: executable classifier of an OBSERVED history (bin/check evaluates it on the implementation's
   output; 0 = holds; classes as in Spec.v plus 11). *)
From Coq Require Import ZArith NArith List Bool Arith.
From GoCoap Require Import Base.Interleave Token.Model Token.Spec Token.BwModel.
Import ListNotations.
Open Scope Z_scope.

(* ---------- Part 1 ---------- *)

(* every successful Do returns a response with its own token ... *)
Definition bw_own_token (rh : list bevent) : Prop :=
  forall t n cid tok m r, In (ERes t n (BCall cid tok m) (BRet (ROk r))) rh -> r_tok r = tok.
(* ... and the content the peer produced for that request *)
Definition bw_own_content (rh : list bevent) : Prop :=
  forall t n cid tok m r, In (ERes t n (BCall cid tok m) (BRet (ROk r))) rh -> r_for r = cid.

(* vocabulary of a program *)
Definition bop_toks (o : bop) : list (list Z) :=
  match o with BCall _ tok _ => [tok] | BRecv _ r _ => [r_tok r] end.
Definition ball_ops (progs : list (list bop)) : list bop := concat progs.
Definition ball_toks (progs : list (list bop)) : list (list Z) := flat_map bop_toks (ball_ops progs).
Definition bop_call (o : bop) : list (nat * list Z) := match o with BCall cid tok _ => [(cid, tok)] | _ => [] end.
Definition bcalls (progs : list (list bop)) : list (nat * list Z) := flat_map bop_call (ball_ops progs).

(* the peer is honest: a message produced for request c carries c's token *)
Definition bhonest (progs : list (list bop)) : Prop :=
  forall del r blk, In (BRecv del r blk) (ball_ops progs) ->
    forall cid tok, In (cid, tok) (bcalls progs) -> r_tok r = tok -> r_for r = cid.

(* a Do that has registered its request and has not yet run its deferred Delete *)
Definition holds_request (cu : tstate bop bloc bres) : option (nat * list Z) :=
  match cu with
  | Running (BCall cid tok _) (BIn _ _) => Some (cid, tok)
  | Running (BCall cid tok _) (BUnreg _) => Some (cid, tok)
  | _ => None
  end.

(* the first request is not displaced: whoever holds a request finds it in the sending cache *)
Definition paired_kept (hash : list Z -> Z) (c : bconfig) : Prop :=
  forall t th w, nth_error (threads bst bop bloc bres c) t = Some th ->
    holds_request (cur bop bloc bres th) = Some w ->
    tget (hash (snd w)) (sending (shared bst bop bloc bres c)) = Some w.

(* ---------- Part 2: observed histories ---------- *)

(* a received message: del, dedup, rid, tok, for, ackfor as in Spec.KResp; blk = its Block2 option (num, more) *)
Definition bmsg := (bool * bool * nat * list Z * nat * option nat * option (nat * bool))%type.

Inductive bkind :=
| BStart (cid : nat) (tok : list Z) (acked : bool)
| BAck (cid : nat)
| BMsg (m : bmsg)
| BBurst (ms : list bmsg)     (* messages that arrive back to back *)
| BCancel (cid : nat)
| BElapse.                    (* time passes: the validity of whatever the block-wise layer has stored is over (the
                                 deadline of the requests that gave up has passed); the periodic sweep has not run.
                                 The property does not depend on time: nothing arrives, nobody has to return *)

(* an observed event: the calls that returned, fall-through to the default handler, the block numbers the
   connection asked for, the number of 4.08 Request Entity Incomplete it wrote, and (where observed) per
   received message what the receive path released: (stream?, received message hijacked, writer message
   replaced, releases: 0 = the writer's acquired message, 1 = the received message, 2 = the replacement) *)
Record bev := mkBev { b_k : bkind; b_rets : list oret; b_fell : bool; b_asked : list nat; b_inc : nat;
                      b_wr : list (bool * bool * bool * list nat) }.

Definition prog_of (rid : nat) (p : list (nat * nat)) : nat :=
  match find (fun x => Nat.eqb (fst x) rid) p with Some x => snd x | None => O end.
Definition prog_set (rid n : nat) (p : list (nat * nat)) : list (nat * nat) :=
  (rid, n) :: filter (fun x => negb (Nat.eqb (fst x) rid)) p.

Section Class.
  Variable hash : list Z -> Z.

  (* is this message the next block of its response? ([p]: blocks of each response that arrived in order so far) *)
  Definition in_order (p : list (nat * nat)) (m : bmsg) : bool :=
    let '(_, dedup, rid, _, _, _, blk) := m in
    match blk with Some (num, _) => negb dedup && Nat.eqb num (prog_of rid p) | None => false end.

  (* has the response arrived completely with this message? *)
  Definition completes (p : list (nat * nat)) (m : bmsg) : bool :=
    let '(_, _, _, _, _, _, blk) := m in
    match blk with None => true | Some (_, more) => in_order p m && negb more end.

  Definition advance_prog (p : list (nat * nat)) (m : bmsg) : list (nat * nat) :=
    let '(_, _, rid, _, _, _, _) := m in
    if in_order p m then prog_set rid (S (prog_of rid p)) p else p.

  (* the message is a block, in order, of the response for a call that is outstanding with this very token
     (and no other outstanding token has its key) *)
  Definition for_outstanding (s : ostate) (p : list (nat * nat)) (m : bmsg) : bool :=
    let '(_, _, _, tok, f, _, _) := m in
    in_order p m
    && existsb (fun q => Nat.eqb (fst q) f && tok_eqb (snd q) tok) (outst s)
    && Nat.eqb (length (filter (fun q => hash (snd q) =? hash tok) (outst s))) 1.

  Definition resp6 (m : bmsg) : bool * bool * nat * list Z * nat * option nat :=
    let '(del, dedup, rid, tok, f, ackfor, _) := m in (del, dedup, rid, tok, f, ackfor).

  (* the part of a burst that Spec.v looks at: complete responses as they are; of a block that does not complete
     its response only the acknowledgement it may carry (as a response nobody waits for: number 0 is never used
     for a response, token [] is no call's token) *)
  Definition as_resp (p : list (nat * nat)) (m : bmsg) : bool * bool * nat * list Z * nat * option nat :=
    if completes p m then resp6 m
    else let '(del, _, _, _, f, ackfor, _) := m in (del, true, O, [], f, ackfor).

  Fixpoint burst_resps (p : list (nat * nat)) (ms : list bmsg) : list (bool * bool * nat * list Z * nat * option nat) :=
    match ms with
    | [] => []
    | m :: q => as_resp p m :: burst_resps (advance_prog p m) q
    end.

  (* the event in the vocabulary of Spec.v *)
  Definition as_oev (p : list (nat * nat)) (e : bev) : oev :=
    let k := match b_k e with
             | BStart cid tok a => KStart cid tok a
             | BAck cid => KAck cid
             | BCancel cid => KCancel cid
             | BMsg m => KBurst (burst_resps p [m])
             | BBurst ms => KBurst (burst_resps p ms)
             | BElapse => KBurst []
             end in
    mkOev k (b_rets e) (b_fell e).

  Definition msgs_of (e : bev) : list bmsg :=
    match b_k e with BMsg m => [m] | BBurst ms => ms | _ => [] end.

  (* some block of this event was owed to an outstanding call, and the connection answered 4.08 *)
  Fixpoint owed (s : ostate) (p : list (nat * nat)) (ms : list bmsg) : bool :=
    match ms with
    | [] => false
    | m :: q => for_outstanding s p m || owed s (advance_prog p m) q
    end.

  Fixpoint bevs_class (s : ostate) (p : list (nat * nat)) (l : list bev) : N :=
    match l with
    | [] => 0%N
    | e :: q =>
        if owed s p (msgs_of e) && negb (Nat.eqb (b_inc e) 0) then 11%N
        else
          let '(c, s') := ev_class hash s (as_oev p e) in
          if N.eqb c 0 then bevs_class s' (fold_left advance_prog (msgs_of e) p) q else c
    end.

  Definition c03bw_class (l : list bev) : N := bevs_class (mkO [] [] [] [] [] []) [] l.
End Class.
