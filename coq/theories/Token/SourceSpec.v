(* Token/SourceSpec.v -- what C03 needs from the library's token source, written from the property text.

   "Whenever any number of requests with distinct tokens are outstanding ... every request call that returns
    successfully returns a response carrying its own token and the content the peer produced for that request"
   quantified over "all token values including caller-chosen and colliding ones"; mechanism "random 8-byte tokens
   by default".

   For a caller-chosen token the caller answers for the premise "distinct tokens". For a request made with
   Get/Post/... the LIBRARY chooses the token, so the library has to make the premise true: two requests must not
   get the same token as long as the system's source of randomness gives them different bytes. Otherwise a
   response the peer produced for the one request (say: late, the caller has given up) is returned by the other
   request's call -- with "its own" token and the content of a different request, and no caller did anything wrong. *)
From Coq Require Import ZArith NArith List Bool Arith.
From GoCoap Require Import Base.Bytes Token.Model Token.Spec Token.SourceModel.
Import ListNotations.

(* the k-th 8-byte piece of the random bytes *)
Definition piece (k : nat) (ent : list Z) : list Z := firstn tok_len (skipn (tok_len * k) ent).
Definition pieces (n : nat) (ent : list Z) : list (list Z) := map (fun k => piece k ent) (seq 0 n).

(* the system delivered different bytes for different requests *)
Definition fresh_pieces (n : nat) (ent : list Z) : Prop := NoDup (pieces n ent).

(* the tokens of the calls of the programs (in the order in which the programs list them) are the tokens the
   source hands out one after the other *)
Definition library_chosen (progs : list (list op)) (ent : list Z) : Prop :=
  map snd (calls progs) = map fst (tokens (length (calls progs)) ent).

(* the peer answers requests that were made, with the token of the request it answers (any order, any delay,
   any duplication, any number of answers) *)
Definition faithful (progs : list (list op)) : Prop :=
  forall del r, In (Deliver del r) (all_ops progs) -> In (r_for r, r_tok r) (calls progs).

(* ---------- observed: n calls of the token source ---------- *)
Fixpoint bmem (t : list Z) (l : list (list Z)) : bool :=
  match l with [] => false | x :: q => bytes_eqb t x || bmem t q end.
Fixpoint nodup_b (l : list (list Z)) : bool :=
  match l with [] => true | x :: q => negb (bmem x q) && nodup_b q end.

(* 13 = the source returned one token twice although the pieces of randomness it was given all differ *)
Definition tk_class (ent : list Z) (obs : list (list Z * nat)) : N :=
  if nodup_b (pieces (length obs) ent) && negb (nodup_b (map fst obs)) then 13%N else 0%N.

(* ---------- the random bytes of a case: piece k = x_k big-endian, x_0 = salt, x_(k+1) = a x_k + c mod 2^64
   (full period: the pieces of one case all differ). harness/c03tk.go c3Entropy mirrors it ---------- *)
Local Open Scope Z_scope.
Definition lcg_next (x : Z) : Z := (x * 6364136223846793005 + 1442695040888963407) mod 2 ^ 64.
Definition be8 (x : Z) : list Z :=
  [x / 2 ^ 56 mod 256; x / 2 ^ 48 mod 256; x / 2 ^ 40 mod 256; x / 2 ^ 32 mod 256;
   x / 2 ^ 24 mod 256; x / 2 ^ 16 mod 256; x / 2 ^ 8 mod 256; x mod 256].
Fixpoint ent_gen (x : Z) (n : nat) : list Z :=
  match n with O => [] | S n' => be8 x ++ ent_gen (lcg_next x) n' end.
