(* Token/RecycleProofs.v -- whatever the previous lives of a pooled message, a response decoded into it after
   Reset reads exactly as the peer encoded it (property C03: "returns ... the content the peer produced for that
   request"); false when Reset keeps the payload field, on a stream transport only. *)
From Coq Require Import ZArith List Bool.
From GoCoap Require Import Token.RecycleModel.
Import ListNotations.
Open Scope Z_scope.

Lemma unmarshal_after_reset : forall m tcp w, content (unmarshal tcp w (reset m)) = wire_content w.
Proof.
  intros m tcp w. unfold unmarshal, decode, reset, content, wire_content. cbn [p_tok p_code p_payload p_body].
  destruct tcp; destruct (w_payload w); reflexivity.
Qed.

(* for ALL previous lives (any decodes with either coder, any bodies set, any releases) *)
Theorem recycled_reads_own_content : forall ops tcp w,
  content (papply reset (lives reset (ops ++ [PReset])) (PUnm tcp w)) = wire_content w.
Proof.
  intros ops tcp w. unfold lives. rewrite fold_left_app. cbn [fold_left papply].
  apply unmarshal_after_reset.
Qed.

(* the datagram coder always assigns the payload: there even a Reset that keeps the field does not show *)
Theorem datagram_decode_overwrites : forall m w, content (unmarshal false w m) = wire_content w.
Proof.
  intros m w. unfold unmarshal, decode, content, wire_content. cbn [p_tok p_code p_payload p_body].
  destruct (w_payload w); reflexivity.
Qed.

(* a 2.05 with payload, release, then a 2.02 without payload decoded with the stream coder into the same message *)
Definition keep_ops : list pop := [PUnm true (mkW [1] 69 [104; 105]); PReset].
Theorem recycle_keep_refuted :
  content (papply reset_keep (lives reset_keep keep_ops) (PUnm true (mkW [2] 66 []))) = ([2], 66, [104; 105]) /\
  content (papply reset (lives reset keep_ops) (PUnm true (mkW [2] 66 []))) = ([2], 66, []).
Proof. split; vm_compute; reflexivity. Qed.
