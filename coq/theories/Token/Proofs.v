From Coq Require Import ZArith List Bool Arith Lia.
From GoCoap Require Import Base.Interleave Token.Model Token.Spec.
Import ListNotations.
