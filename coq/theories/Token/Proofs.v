(* Token/Proofs.v -- C03 for all programs (numbers of callers, token
   assignments, response lists, modes) and all schedules of the machine of
   Model.v, by invariants preserved by every step. *)
From Coq Require Import ZArith List Bool Arith Lia.
From GoCoap Require Import Base.Interleave Observe.Model Token.Model Token.Spec.
Import ListNotations.
Local Open Scope nat_scope.

(* ---------- tables and channels ---------- *)
Lemma tget_In : forall k l w, tget k l = Some w -> In (k, w) l.
Proof.
  induction l as [|[k' v] l IH]; cbn; intros w H; [discriminate|].
  destruct (Z.eqb_spec k k') as [->|N].
  - inversion H; subst; left; reflexivity.
  - right; auto.
Qed.

Lemma In_tdel : forall k p l, In p (tdel k l) -> In p l /\ fst p <> k.
Proof.
  intros k p l H. apply filter_In in H. destruct H as [H1 H2]. split; auto.
  intros E. subst k. rewrite Z.eqb_refl in H2. discriminate.
Qed.

Lemma tget_tdel_same : forall k l, tget k (tdel k l) = None.
Proof.
  induction l as [|[k' v] l IH]; cbn; auto.
  destruct (Z.eqb_spec k k') as [->|N]; cbn; auto.
  destruct (Z.eqb_spec k k'); [contradiction|auto].
Qed.

Lemma weqb_true : forall a b, weqb a b = true -> a = b.
Proof. unfold weqb; intros a b; destruct (waiter_eq_dec a b); [auto|discriminate]. Qed.

Lemma cget_In : forall w l r, cget w l = Some r -> In (w, r) l.
Proof.
  induction l as [|[w' r'] l IH]; cbn; intros r H; [discriminate|].
  destruct (weqb w w') eqn:E.
  - apply weqb_true in E. inversion H; subst. left; reflexivity.
  - right; auto.
Qed.

Lemma In_cdel : forall w p l, In p (cdel w l) -> In p l.
Proof. intros w p l H. apply filter_In in H. tauto. Qed.

(* ---------- the machine, step by step ---------- *)
Section Machine.
  Variable hash : list Z -> Z.

  Notation config := (Token.Model.config).
  Notation thr c := (threads st op loc res c).
  Notation sh c := (shared st op loc res c).
  Notation hist c := (rhist st op loc res c).
  Notation lin c := (rlin st op loc res c).
  Notation mkC := (mkC st op loc res).
  Notation mkT := (mkT op loc res).
  Notation tcur th := (cur op loc res th).
  Notation ttodo th := (todo op loc res th).
  Notation tidx th := (idx op loc res th).

  (* every step is one of: nothing, an invocation, an atomic action, a return *)
  Lemma mstep_ind : forall (P : config -> Prop) c t,
    P c ->
    (forall th o rest, nth_error (thr c) t = Some th -> tcur th = Idle -> ttodo th = o :: rest ->
       P (mkC (sh c) (upd t (mkT rest (Running o L0) (tidx th)) (thr c)) (EInv t (tidx th) o :: hist c) (lin c))) ->
    (forall th o l l' s' d, nth_error (thr c) t = Some th -> tcur th = Running o l ->
       act hash o l (sh c) = Some (l', s', d) ->
       P (mkC s' (upd t (mkT (ttodo th) (match d with None => Running o l' | Some r => Finished o r end) (tidx th)) (thr c))
              (hist c) (lin c))) ->
    (forall th o r, nth_error (thr c) t = Some th -> tcur th = Finished o r ->
       P (mkC (sh c) (upd t (mkT (ttodo th) Idle (S (tidx th))) (thr c)) (ERes t (tidx th) o r :: hist c) (lin c))) ->
    P (mstep hash c t).
  Proof.
    intros P c t HP HInv HAct HRes.
    unfold mstep; unfold Interleave.step.
    destruct (nth_error (thr c) t) as [th|] eqn:Hth; [|exact HP].
    destruct (tcur th) as [|o l|o r] eqn:Hc.
    - destruct (ttodo th) as [|o rest] eqn:Htodo; [exact HP|].
      apply (HInv th o rest); auto.
    - destruct (act hash o l (sh c)) as [[[l' s'] d]|] eqn:Hact; [|exact HP].
      unfold no_lp. apply (HAct th o l l' s' d); auto.
    - apply (HRes th o r); auto.
  Qed.

  Lemma run_ind : forall (P : config -> Prop) progs,
    P (minit progs) -> (forall c t, P c -> P (mstep hash c t)) -> forall sched, P (run hash progs sched).
  Proof.
    intros P progs H0 HS sched. unfold run, mexec, exec.
    revert H0. generalize (minit progs). induction sched as [|t sched IH]; intros c Hc; cbn; auto.
    apply IH. apply HS; auto.
  Qed.

  Lemma nth_upd_inv : forall (l : list (Interleave.thread op loc res)) t t' x th' old,
    nth_error l t = Some old -> nth_error (upd t x l) t' = Some th' ->
    (t' = t /\ th' = x) \/ (t' <> t /\ nth_error l t' = Some th').
  Proof.
    intros l t t' x th' old Ho H. destruct (Nat.eq_dec t t') as [<-|N].
    - erewrite nth_upd_eq in H by eauto. inversion H; auto.
    - rewrite nth_upd_neq in H by auto. right; auto.
  Qed.

  (* ================= invariant 1: tokens and provenance ================= *)
  Section Inv1.
    Variable progs : list (list op).

    Definition from_peer (r : resp) : Prop := exists del, In (Deliver del r) (all_ops progs).

    Definition res_ok (o : op) (x : res) : Prop :=
      match o, x with
      | Call cid tok _, ROk r => hash (r_tok r) = hash tok /\ from_peer r
      | _, _ => True
      end.

    Definition cur_ok (cu : tstate op loc res) : Prop :=
      match cu with
      | Idle => True
      | Running o l =>
          In o (all_ops progs) /\
          match o, l with
          | Deliver _ r, LHand w => hash (r_tok r) = hash (snd w)
          | Call _ _ _, LUnreg x => res_ok o x
          | _, _ => True
          end
      | Finished o x => In o (all_ops progs) /\ res_ok o x
      end.

    Record inv1 (c : config) : Prop := {
      i_tbl : forall k w, In (k, w) (tbl (sh c)) -> k = hash (snd w) /\ In w (calls progs);
      i_chan : forall w r, In (w, r) (chans (sh c)) -> hash (r_tok r) = hash (snd w) /\ from_peer r;
      i_thr : forall t th, nth_error (thr c) t = Some th ->
                cur_ok (tcur th) /\ (forall o, In o (ttodo th) -> In o (all_ops progs));
      i_hist : forall t n o x, In (ERes t n o x) (hist c) -> In o (all_ops progs) /\ res_ok o x
    }.

    Lemma in_calls : forall cid tok m, In (Call cid tok m) (all_ops progs) -> In (cid, tok) (calls progs).
    Proof.
      intros cid tok m H. unfold calls. apply in_flat_map. exists (Call cid tok m). split; auto. left; reflexivity.
    Qed.

    Lemma inv1_init : inv1 (minit progs).
    Proof.
      constructor; cbn.
      - intros k w [].
      - intros w r [].
      - intros t th H. rewrite nth_error_map in H.
        destruct (nth_error progs t) as [p|] eqn:Hp; cbn in H; inversion H; subst; cbn.
        split; [exact I|]. intros o Ho. unfold all_ops. apply in_concat. exists p. split; auto.
        eapply nth_error_In; eauto.
      - intros t n o x [].
    Qed.

    Lemma inv1_step : forall c t, inv1 c -> inv1 (mstep hash c t).
    Proof.
      intros c t HI. apply mstep_ind; [exact HI| | |].
      - (* invocation *)
        intros th o rest Hth Hc Htodo.
        destruct (i_thr c HI t th Hth) as [_ Htd].
        constructor; cbn.
        + apply (i_tbl c HI).
        + apply (i_chan c HI).
        + intros t' th' H'. destruct (nth_upd_inv _ _ _ _ _ _ Hth H') as [[-> ->]|[N H'']]; cbn.
          * split; [split; [apply Htd; rewrite Htodo; left; reflexivity|destruct o; exact I]|].
            intros o' Ho'. apply Htd. rewrite Htodo. right; auto.
          * apply (i_thr c HI t' th' H'').
        + intros t' n o' x [E|H]; [discriminate|]. apply (i_hist c HI _ _ _ _ H).
      - (* atomic action *)
        intros th o l l' s' d Hth Hc Hact.
        destruct (i_thr c HI t th Hth) as [Hcur Htd]. rewrite Hc in Hcur. cbn in Hcur.
        destruct Hcur as [Hop Hl].
        assert (Hthr : forall cu', (In o (all_ops progs) -> cur_ok cu') ->
                   forall t' th', nth_error (upd t (mkT (ttodo th) cu' (tidx th)) (thr c)) t' = Some th' ->
                   cur_ok (tcur th') /\ (forall o, In o (ttodo th') -> In o (all_ops progs))).
        { intros cu' Hcu t' th' H'. destruct (nth_upd_inv _ _ _ _ _ _ Hth H') as [[-> ->]|[N H'']]; cbn.
          - split; auto.
          - apply (i_thr c HI t' th' H''). }
        destruct o as [cid tok m|del r]; destruct l as [| | |x|w]; cbn in Hact; try discriminate.
        + (* Register *)
          destruct (tget (hash tok) (tbl (sh c))) as [w0|] eqn:Eg; inversion Hact; subst l' s' d; clear Hact.
          * constructor; cbn; [apply (i_tbl c HI)|apply (i_chan c HI)| |apply (i_hist c HI)].
            apply Hthr. intros; cbn; auto.
          * constructor; cbn; [|apply (i_chan c HI)| |apply (i_hist c HI)].
            -- intros k w [E|H].
               ++ inversion E; subst; cbn. split; [reflexivity|]. eapply in_calls; eauto.
               ++ apply In_tdel in H. apply (i_tbl c HI). tauto.
            -- apply Hthr. intros; cbn; auto.
        + (* Send *)
          destruct m; inversion Hact; subst l' s' d; clear Hact;
            (constructor; cbn; [apply (i_tbl c HI)|apply (i_chan c HI)| |apply (i_hist c HI)]);
            apply Hthr; intros; cbn; auto.
        + (* Wait *)
          destruct m.
          * destruct (cget (cid, tok) (chans (sh c))) as [r|] eqn:Eg; inversion Hact; subst l' s' d; clear Hact.
            apply cget_In in Eg. destruct (i_chan c HI _ _ Eg) as [Hh Hfp]. cbn in Hh.
            constructor; cbn; [apply (i_tbl c HI)| | |apply (i_hist c HI)].
            -- intros w r' H. apply In_cdel in H. apply (i_chan c HI); auto.
            -- apply Hthr. intros; cbn; auto.
          * inversion Hact; subst l' s' d; clear Hact.
            constructor; cbn; [apply (i_tbl c HI)|apply (i_chan c HI)| |apply (i_hist c HI)].
            apply Hthr. intros; cbn; auto.
          * destruct (cget (cid, tok) (chans (sh c))) as [r|] eqn:Eg; inversion Hact; subst l' s' d; clear Hact.
            apply cget_In in Eg. destruct (i_chan c HI _ _ Eg) as [Hh Hfp]. cbn in Hh.
            constructor; cbn; [apply (i_tbl c HI)| | |apply (i_hist c HI)].
            -- intros w r' H. apply In_cdel in H. apply (i_chan c HI); auto.
            -- apply Hthr. intros; cbn; auto.
        + (* Unregister *)
          inversion Hact; subst l' s' d; clear Hact.
          constructor; cbn; [|apply (i_chan c HI)| |apply (i_hist c HI)].
          * intros k w H. apply In_tdel in H. apply (i_tbl c HI). tauto.
          * apply Hthr. intros; cbn; auto.
        + (* Deliver: table lookup *)
          destruct (tget (hash (r_tok r)) (tbl (sh c))) as [w|] eqn:Eg; inversion Hact; subst l' s' d; clear Hact.
          * apply tget_In in Eg. destruct (i_tbl c HI _ _ Eg) as [Hk _].
            constructor; cbn; [|apply (i_chan c HI)| |apply (i_hist c HI)].
            -- intros k w' H. destruct del; [apply In_tdel in H; apply (i_tbl c HI); tauto|apply (i_tbl c HI); auto].
            -- apply Hthr. intros; cbn; auto.
          * constructor; cbn; [apply (i_tbl c HI)|apply (i_chan c HI)| |apply (i_hist c HI)].
            apply Hthr. intros; cbn; auto.
        + (* Deliver: hand over *)
          destruct (cget w (chans (sh c))) as [r0|] eqn:Eg; inversion Hact; subst l' s' d; clear Hact.
          * constructor; cbn; [apply (i_tbl c HI)|apply (i_chan c HI)| |apply (i_hist c HI)].
            apply Hthr. intros; cbn; auto.
          * constructor; cbn; [apply (i_tbl c HI)| | |apply (i_hist c HI)].
            -- intros w' r' [E|H]; [inversion E; subst; split; [auto|exists del; auto]|apply (i_chan c HI); auto].
            -- apply Hthr. intros; cbn; auto.
      - (* return *)
        intros th o x Hth Hc.
        destruct (i_thr c HI t th Hth) as [Hcur Htd]. rewrite Hc in Hcur. cbn in Hcur.
        constructor; cbn; [apply (i_tbl c HI)|apply (i_chan c HI)| |].
        + intros t' th' H'. destruct (nth_upd_inv _ _ _ _ _ _ Hth H') as [[-> ->]|[N H'']]; cbn; auto.
          apply (i_thr c HI t' th' H'').
        + intros t' n o' x' [E|H]; [inversion E; subst; auto|apply (i_hist c HI _ _ _ _ H)].
    Qed.

    Lemma inv1_run : forall sched, inv1 (run hash progs sched).
    Proof. intros. apply run_ind; [apply inv1_init|intros; apply inv1_step; auto]. Qed.
  End Inv1.

  (* ---------- consequences of invariant 1 ---------- *)
  Theorem own_token_hash : forall progs sched t n cid tok m r,
    In (ERes t n (Call cid tok m) (ROk r)) (hist (run hash progs sched)) ->
    hash (r_tok r) = hash tok /\ from_peer progs r /\ In (Call cid tok m) (all_ops progs).
  Proof.
    intros progs sched t n cid tok m r H.
    destruct (i_hist progs _ (inv1_run progs sched) _ _ _ _ H) as [Ho [Hh Hp]]. auto.
  Qed.

  Lemma op_toks_in : forall progs o tok, In o (all_ops progs) -> In tok (op_toks o) -> In tok (all_toks progs).
  Proof. intros progs o tok Ho Ht. unfold all_toks. apply in_flat_map. exists o; auto. Qed.

  Theorem own_token_holds : forall progs sched,
    hash_inj_on hash (all_toks progs) -> own_token (hist (run hash progs sched)).
  Proof.
    intros progs sched Hinj t n cid tok m r H.
    destruct (own_token_hash _ _ _ _ _ _ _ _ H) as (Hh & [del Hp] & Ho).
    apply Hinj; auto.
    - apply (op_toks_in progs (Deliver del r)); [auto|left; reflexivity].
    - apply (op_toks_in progs (Call cid tok m)); [auto|left; reflexivity].
  Qed.

  Theorem own_content_holds : forall progs sched,
    hash_inj_on hash (all_toks progs) -> honest progs -> own_content (hist (run hash progs sched)).
  Proof.
    intros progs sched Hinj Hhon t n cid tok m r H.
    pose proof (own_token_holds progs sched Hinj _ _ _ _ _ _ H) as Ht.
    destruct (own_token_hash _ _ _ _ _ _ _ _ H) as (Hh & [del Hp] & Ho).
    eapply Hhon; eauto. eapply in_calls; eauto.
  Qed.

  (* ---------- a second request with a token that is in the table ---------- *)
  Lemma dup_rejected_act : forall cid tok m s w,
    tget (hash tok) (tbl s) = Some w ->
    act hash (Call cid tok m) L0 s = Some (L0, s, Some RExists).
  Proof. intros cid tok m s w H; cbn. rewrite H. reflexivity. Qed.

  Lemma accepted_act : forall cid tok m s l' s' d,
    act hash (Call cid tok m) L0 s = Some (l', s', d) -> d <> Some RExists ->
    tget (hash tok) (tbl s) = None /\ tget (hash tok) (tbl s') = Some (cid, tok).
  Proof.
    intros cid tok m s l' s' d H Hd; cbn in H.
    destruct (tget (hash tok) (tbl s)) eqn:E; inversion H; subst; [congruence|].
    split; auto. cbn. rewrite Z.eqb_refl. reflexivity.
  Qed.

  Theorem dup_rejected_step : forall c t th cid tok m w,
    nth_error (thr c) t = Some th -> tcur th = Running (Call cid tok m) L0 ->
    tget (hash tok) (tbl (sh c)) = Some w ->
    sh (mstep hash c t) = sh c /\
    nth_error (thr (mstep hash c t)) t = Some (mkT (ttodo th) (Finished (Call cid tok m) RExists) (tidx th)).
  Proof.
    intros c t th cid tok m w Hth Hc Hg.
    unfold mstep; unfold Interleave.step. rewrite Hth, Hc.
    rewrite (dup_rejected_act cid tok m (sh c) w Hg). cbn.
    split; [reflexivity|]. eapply nth_upd_eq; eauto.
  Qed.

  (* ---------- a refusal is caused by a call with the same token ---------- *)
  Lemma calls_toks : forall progs w, In w (calls progs) -> In (snd w) (all_toks progs).
  Proof.
    intros progs w H. unfold calls in H. apply in_flat_map in H. destruct H as (o & Ho & Hw).
    destruct o as [cid tok m|del r]; cbn in Hw; [|contradiction].
    destruct Hw as [<-|[]]. apply (op_toks_in progs (Call cid tok m)); [auto|left; reflexivity].
  Qed.

  (* if the hash tells the tokens in play apart, the entry that makes LoadOrStore refuse a call was
     registered by a call of the programs with the very same token: two different tokens never
     stand in each other's way *)
  Theorem refused_same_token : forall progs sched t th cid tok m w,
    hash_inj_on hash (all_toks progs) ->
    let c := run hash progs sched in
    nth_error (thr c) t = Some th -> tcur th = Running (Call cid tok m) L0 ->
    tget (hash tok) (tbl (sh c)) = Some w -> snd w = tok /\ In w (calls progs).
  Proof.
    intros progs sched t th cid tok m w Hinj c Hth Hc Hg.
    pose proof (inv1_run progs sched) as HI. fold c in HI.
    apply tget_In in Hg. destruct (i_tbl progs c HI _ _ Hg) as [Hk Hw].
    destruct (i_thr progs c HI t th Hth) as [Hcur _]. rewrite Hc in Hcur. destruct Hcur as [Ho _].
    split; [|exact Hw].
    apply Hinj; [apply calls_toks; exact Hw| |symmetry; exact Hk].
    apply (op_toks_in progs (Call cid tok m)); [exact Ho|left; reflexivity].
  Qed.

  (* ---------- the deferred removal ---------- *)
  Lemma NoDup_map_inj : forall (A B : Type) (f : A -> B) l a b,
    NoDup (map f l) -> In a l -> In b l -> f a = f b -> a = b.
  Proof.
    induction l as [|x l IH]; cbn; intros a b HN Ha Hb E; [contradiction|].
    inversion HN as [|y q Hnin HN']; subst.
    destruct Ha as [->|Ha]; destruct Hb as [->|Hb]; auto.
    - exfalso. apply Hnin. rewrite E. apply in_map; auto.
    - exfalso. apply Hnin. rewrite <- E. apply in_map; auto.
  Qed.

  (* if no two calls of the programs have tokens with the same hash, a call's
     deferred LoadAndDelete finds its own entry or none *)
  Theorem unregister_own_distinct : forall progs sched t th cid tok m x w,
    NoDup (map (fun p => hash (snd p)) (calls progs)) ->
    let c := run hash progs sched in
    nth_error (thr c) t = Some th -> tcur th = Running (Call cid tok m) (LUnreg x) ->
    tget (hash tok) (tbl (sh c)) = Some w -> w = (cid, tok).
  Proof.
    intros progs sched t th cid tok m x w HN c Hth Hc Hg.
    pose proof (inv1_run progs sched) as HI. fold c in HI.
    apply tget_In in Hg. destruct (i_tbl progs c HI _ _ Hg) as [Hk Hw].
    destruct (i_thr progs c HI t th Hth) as [Hcur _]. rewrite Hc in Hcur. destruct Hcur as [Ho _].
    apply in_calls in Ho.
    eapply (NoDup_map_inj _ _ (fun p => hash (snd p))); eauto.
  Qed.

  (* ================= invariant 2: a response instance is in one place ================= *)
  Definition b2n (b : bool) : nat := if b then 1 else 0.
  Fixpoint sum (l : list nat) : nat := match l with [] => 0 | x :: r => x + sum r end.
  Definition occ_op (i : nat) (o : op) : nat :=
    match o with Deliver _ r => b2n (Nat.eqb (r_id r) i) | _ => 0 end.
  Definition occ_res (i : nat) (x : res) : nat :=
    match x with ROk r => b2n (Nat.eqb (r_id r) i) | _ => 0 end.
  Definition occ_cur (i : nat) (cu : tstate op loc res) : nat :=
    match cu with
    | Idle => 0
    | Running (Deliver _ r) _ => b2n (Nat.eqb (r_id r) i)
    | Running (Call _ _ _) (LUnreg x) => occ_res i x
    | Running _ _ => 0
    | Finished (Call _ _ _) x => occ_res i x
    | Finished _ _ => 0
    end.
  Definition occ_th (i : nat) (th : Interleave.thread op loc res) : nat :=
    sum (map (occ_op i) (ttodo th)) + occ_cur i (tcur th).
  Definition occ_ch (i : nat) (l : chanset) : nat := sum (map (fun p => b2n (Nat.eqb (r_id (snd p)) i)) l).
  Definition occ_ev (i : nat) (e : event) : nat :=
    match e with ERes _ _ (Call _ _ _) x => occ_res i x | _ => 0 end.
  Definition total (i : nat) (c : config) : nat :=
    sum (map (occ_th i) (thr c)) + occ_ch i (chans (sh c)) + sum (map (occ_ev i) (hist c)).

  Lemma sum_app : forall a b, sum (a ++ b) = sum a + sum b.
  Proof. induction a; cbn; intros; auto. rewrite IHa. lia. Qed.

  Lemma sum_upd : forall (f : Interleave.thread op loc res -> nat) l t x old,
    nth_error l t = Some old -> sum (map f (upd t x l)) + f old = sum (map f l) + f x.
  Proof.
    induction l as [|a l IH]; intros [|t] x old H; cbn in *; try discriminate.
    - inversion H; subst. lia.
    - specialize (IH t x old H). lia.
  Qed.

  Lemma sum_filter_le : forall (A : Type) (f : A -> nat) p l, sum (map f (filter p l)) <= sum (map f l).
  Proof. induction l as [|a l IH]; cbn; auto. destruct (p a); cbn; lia. Qed.

  Lemma occ_cdel_le : forall i w l, occ_ch i (cdel w l) <= occ_ch i l.
  Proof. intros; unfold occ_ch, cdel; apply sum_filter_le. Qed.

  Lemma occ_cdel : forall i w l r, cget w l = Some r ->
    occ_ch i (cdel w l) + b2n (Nat.eqb (r_id r) i) <= occ_ch i l.
  Proof.
    intros i w. unfold occ_ch, cdel.
    induction l as [|[w' r'] l IH]; cbn [cget]; intros r H; [discriminate|].
    cbn [filter fst]. destruct (weqb w w') eqn:E; cbn [negb map sum snd].
    - inversion H; subst.
      pose proof (sum_filter_le _ (fun p : waiter * resp => b2n (Nat.eqb (r_id (snd p)) i))
                    (fun p => negb (weqb w (fst p))) l). lia.
    - specialize (IH r H). lia.
  Qed.

  Lemma occ_upd : forall i l t x old, nth_error l t = Some old ->
    sum (map (occ_th i) (upd t x l)) + (sum (map (occ_op i) (ttodo old)) + occ_cur i (tcur old)) =
    sum (map (occ_th i) l) + (sum (map (occ_op i) (ttodo x)) + occ_cur i (tcur x)).
  Proof. intros i l t x old H. apply (sum_upd (occ_th i) l t x old H). Qed.

  Lemma total_step : forall i c t, total i (mstep hash c t) <= total i c.
  Proof.
    intros i c t. apply mstep_ind; [lia| | |].
    - intros th o rest Hth Hc Htodo. unfold total; cbn.
      pose proof (occ_upd i (thr c) t (mkT rest (Running o L0) (tidx th)) th Hth) as HS.
      rewrite Hc, Htodo in HS. cbn in HS.
      destruct o; cbn in *; unfold occ_ch in *; cbn in *; lia.
    - intros th o l l' s' d Hth Hc Hact. unfold total; cbn.
      pose proof (occ_upd i (thr c) t
                    (mkT (ttodo th) (match d with None => Running o l' | Some r => Finished o r end) (tidx th)) th Hth) as HS.
      rewrite Hc in HS. cbn in HS.
      destruct o as [cid tok m|del r]; destruct l as [| | |x|w]; cbn in Hact; try discriminate.
      + destruct (tget (hash tok) (tbl (sh c))); inversion Hact; subst; cbn in *; unfold occ_ch in *; cbn in *; lia.
      + destruct m; inversion Hact; subst; cbn in *; unfold occ_ch in *; cbn in *; lia.
      + destruct m.
        * destruct (cget (cid, tok) (chans (sh c))) as [r|] eqn:Eg; inversion Hact; subst; cbn in *.
          pose proof (occ_cdel i _ _ _ Eg). unfold occ_ch in *; cbn in *; lia.
        * inversion Hact; subst; cbn in *; unfold occ_ch in *; cbn in *; lia.
        * destruct (cget (cid, tok) (chans (sh c))) as [r|] eqn:Eg; inversion Hact; subst; cbn in *.
          pose proof (occ_cdel i _ _ _ Eg). unfold occ_ch in *; cbn in *; lia.
      + inversion Hact; subst; cbn in *; unfold occ_ch in *; cbn in *; lia.
      + destruct (tget (hash (r_tok r)) (tbl (sh c))); inversion Hact; subst; cbn in *; unfold occ_ch in *; cbn in *; lia.
      + destruct (cget w (chans (sh c))); inversion Hact; subst; cbn in *; unfold occ_ch in *; cbn in *; lia.
    - intros th o x Hth Hc. unfold total; cbn.
      pose proof (occ_upd i (thr c) t (mkT (ttodo th) Idle (S (tidx th))) th Hth) as HS.
      rewrite Hc in HS. cbn in HS.
      destruct o; cbn in *; unfold occ_ch in *; cbn in *; lia.
  Qed.

  Lemma total_run : forall i progs sched, total i (run hash progs sched) <= total i (minit progs).
  Proof.
    intros i progs sched.
    apply (run_ind (fun c => total i c <= total i (minit progs))); [lia|].
    intros c t H. pose proof (total_step i c t). lia.
  Qed.

  Lemma total_init : forall i progs, total i (minit progs) = sum (map (occ_op i) (all_ops progs)).
  Proof.
    intros i progs. unfold total, minit, init; cbn. unfold occ_ch; cbn.
    rewrite !Nat.add_0_r. unfold all_ops.
    induction progs as [|p progs IH]; cbn; auto.
    rewrite map_app, sum_app, <- IH. unfold occ_th; cbn. lia.
  Qed.

  Lemma occ_pos_in : forall i ops, 1 <= sum (map (occ_op i) ops) -> In i (flat_map op_rid ops).
  Proof.
    induction ops as [|o ops IH]; cbn; intros H; [lia|].
    apply in_or_app. destruct o as [cid tok m|del r]; cbn in *.
    - right; apply IH; lia.
    - destruct (Nat.eqb_spec (r_id r) i) as [->|N]; cbn in *; [left; left; reflexivity|right; apply IH; lia].
  Qed.

  Lemma occ_nodup : forall i ops, NoDup (flat_map op_rid ops) -> sum (map (occ_op i) ops) <= 1.
  Proof.
    induction ops as [|o ops IH]; cbn; intros H; [lia|].
    destruct o as [cid tok m|del r]; cbn in *; [apply IH; auto|].
    inversion H as [|y q Hnin HN]; subst. specialize (IH HN).
    destruct (Nat.eqb_spec (r_id r) i) as [E|N]; cbn; [|lia].
    subst i. assert (~ 1 <= sum (map (occ_op (r_id r)) ops)) by (intros H1; apply Hnin, occ_pos_in; auto). lia.
  Qed.

  Lemma sum_in_le : forall (A : Type) (f : A -> nat) l e, In e l -> f e <= sum (map f l).
  Proof. induction l as [|a l IH]; cbn; intros e H; [contradiction|]. destruct H as [->|H]; [lia|]. specialize (IH e H). lia. Qed.

  Lemma sum_le1_unique : forall (A : Type) (f : A -> nat) l e1 e2,
    sum (map f l) <= 1 -> In e1 l -> In e2 l -> 1 <= f e1 -> 1 <= f e2 -> e1 = e2.
  Proof.
    induction l as [|a l IH]; cbn; intros e1 e2 HS H1 H2 F1 F2; [contradiction|].
    destruct H1 as [->|H1]; destruct H2 as [->|H2]; auto.
    - pose proof (sum_in_le _ f l e2 H2). lia.
    - pose proof (sum_in_le _ f l e1 H1). lia.
    - apply IH; auto. lia.
  Qed.

  Theorem at_most_one_holds : forall progs sched,
    NoDup (resp_ids progs) -> at_most_one (hist (run hash progs sched)).
  Proof.
    intros progs sched HN t n cid tok m r t' n' cid' tok' m' r' H1 H2 E.
    pose proof (total_run (r_id r) progs sched) as HT.
    rewrite total_init in HT. pose proof (occ_nodup (r_id r) (all_ops progs) HN) as H0.
    unfold total in HT.
    apply (sum_le1_unique _ (occ_ev (r_id r)) (hist (run hash progs sched))); auto; try lia.
    - cbn. rewrite Nat.eqb_refl. cbn. lia.
    - cbn. rewrite <- E, Nat.eqb_refl. cbn. lia.
  Qed.
End Machine.

(* ================= refutations on the concrete hash (CRC-64/ISO) ================= *)
Local Open Scope Z_scope.
Definition tokA : list Z := [66].                                   (* 42 *)
Definition tokB : list Z := [66; 47; 244; 66; 47; 244; 66; 178].    (* 422ff4422ff442b2 *)

Lemma crc_collision : crc64 tokA = crc64 tokB /\ tokA <> tokB.
Proof. split; [vm_compute; reflexivity|discriminate]. Qed.

(* one call with token 42; the peer sends a response with the colliding token *)
Definition collide_progs : list (list op) := [[Call 0 tokA MWait]; [Deliver true (mkR 0 tokB 7)]].
Definition collide_sched : list nat := [0; 0; 0; 1; 1; 1; 1; 0; 0; 0]%nat.

Theorem own_token_refuted :
  NoDup (resp_ids collide_progs) /\
  In (ERes 0 0 (Call 0 tokA MWait) (ROk (mkR 0 tokB 7)))
     (rhist st op loc res (run crc64 collide_progs collide_sched)) /\
  ~ own_token (rhist st op loc res (run crc64 collide_progs collide_sched)).
Proof.
  assert (HI : In (ERes 0 0 (Call 0 tokA MWait) (ROk (mkR 0 tokB 7)))
                  (rhist st op loc res (run crc64 collide_progs collide_sched))).
  { vm_compute. left. reflexivity. }
  split; [repeat constructor; intros []|]. split; [exact HI|].
  intros H. specialize (H _ _ _ _ _ _ HI). discriminate H.
Qed.

(* ... and a call with the colliding token is refused while the first is outstanding *)
Definition collide_progs2 : list (list op) := [[Call 0 tokA MWait]; [Call 1 tokB MWait]].
Theorem distinct_token_refused :
  In (ERes 1 0 (Call 1 tokB MWait) RExists)
     (rhist st op loc res (run crc64 collide_progs2 [0; 0; 0; 1; 1; 1]%nat)).
Proof. vm_compute. left. reflexivity. Qed.

(* the deferred LoadAndDelete deletes by key. Two calls with one token:
   A registers and sends; its response arrives (the receive path removes A's
   entry and fills A's channel); before A wakes up, B registers the same token
   (the key is free) and sends; A takes its response and its deferred removal
   deletes B's entry; the response produced for B finds no entry and falls
   through to the default handler; B waits forever. *)
Definition tokT : list Z := [7].
Definition steal_progs : list (list op) :=
  [[Call 0 tokT MWait]; [Call 1 tokT MWait]; [Deliver true (mkR 0 tokT 0); Deliver true (mkR 1 tokT 1)]].
Definition steal_prefix : list nat := [0; 0; 0; 2; 2; 2; 2; 1; 1; 1; 0]%nat.
Definition steal_sched : list nat := (steal_prefix ++ [0; 0; 2; 2; 2])%nat.

Theorem unregister_own_refuted :
  (* at the moment A is about to run its deferred removal, the entry under its key is B's *)
  (let c := run crc64 steal_progs steal_prefix in
   nth_error (threads st op loc res c) 0 =
     Some (mkT op loc res [] (Running (Call 0 tokT MWait) (LUnreg (ROk (mkR 0 tokT 0)))) 0) /\
   tget (crc64 tokT) (tbl (shared st op loc res c)) = Some (1%nat, tokT)) /\
  (* afterwards B's registration is gone, B's response went to the default handler, B is blocked *)
  (let c := run crc64 steal_progs steal_sched in
   tbl (shared st op loc res c) = [] /\
   fall (shared st op loc res c) = [mkR 1 tokT 1] /\
   nth_error (threads st op loc res c) 1 = Some (mkT op loc res [] (Running (Call 1 tokT MWait) LWait) 0) /\
   enabled st op loc res (act crc64) c 1 = false /\
   (forall t, t <> 1%nat -> enabled st op loc res (act crc64) c t = false)).
Proof.
  split.
  - vm_compute. split; reflexivity.
  - vm_compute. repeat split; try reflexivity.
    intros [|[|[|t]]] H; try reflexivity. destruct t; reflexivity.
Qed.
