(* Token/RecycleModel.v -- a pooled message on its way through several lives, as far as the content a caller
   reads from a received response is concerned; as the code is:

     message/pool/message.go  Message.Reset (called by Pool.ReleaseMessage before the message goes back to the
                              pool), Message.UnmarshalWithDecoder (r.body = nil; decode; a body is made from
                              msg.Payload iff len(msg.Payload) > 0), SetBody
     tcp/coder/coder.go       DecodeWithHeader: m.Payload is assigned only `if len(data) > 0`
     udp/coder/coder.go       Decode: m.Payload = data (nil when empty), always

   The response a Do returns is the very message the receive path decoded the peer's bytes into (hijacked, handed
   over through the token table), and that message comes from the pool: what it held in its previous life must
   not show. Token, code and payload are what the model keeps (options are decoded into a truncated slice in
   both coders and are C01/C02's subject). [reset_keep] is Reset without `r.msg.Payload = nil` (for a
   refutation only). *)
From Coq Require Import ZArith List Bool.
Import ListNotations.
Open Scope Z_scope.

Record pmsg := mkPM { p_tok : list Z; p_code : Z; p_payload : list Z; p_body : option (list Z) }.
Definition fresh : pmsg := mkPM [] 0 [] None.                (* pool.NewMessage *)

(* what the peer encoded *)
Record wire := mkW { w_tok : list Z; w_code : Z; w_payload : list Z }.

Definition decode (tcp : bool) (w : wire) (m : pmsg) : pmsg :=
  let pl := if tcp then match w_payload w with [] => p_payload m | x => x end else w_payload w in
  mkPM (w_tok w) (w_code w) pl (p_body m).

Definition unmarshal (tcp : bool) (w : wire) (m : pmsg) : pmsg :=
  let m1 := decode tcp w (mkPM (p_tok m) (p_code m) (p_payload m) None) in
  mkPM (p_tok m1) (p_code m1) (p_payload m1) (match p_payload m1 with [] => None | x => Some x end).

Definition reset (m : pmsg) : pmsg := mkPM [] 0 [] None.
Definition reset_keep (m : pmsg) : pmsg := mkPM [] 0 (p_payload m) None.

(* SetBody (a life as a request or as the response writer's message): the payload field is not touched *)
Definition set_body (b : list Z) (m : pmsg) : pmsg := mkPM (p_tok m) (p_code m) (p_payload m) (Some b).

(* what a caller reads: Token(), Code(), ReadBody() *)
Definition content (m : pmsg) : list Z * Z * list Z :=
  (p_tok m, p_code m, match p_body m with Some b => b | None => [] end).
Definition wire_content (w : wire) : list Z * Z * list Z := (w_tok w, w_code w, w_payload w).

Inductive pop :=
| PUnm (tcp : bool) (w : wire)   (* UnmarshalWithDecoder with the tcp / udp coder *)
| PReset                         (* Reset (ReleaseMessage) *)
| PBody (b : list Z).            (* SetBody *)

Section Lives.
  Variable rst : pmsg -> pmsg.
  Definition papply (m : pmsg) (o : pop) : pmsg :=
    match o with
    | PUnm tcp w => unmarshal tcp w m
    | PReset => rst m
    | PBody b => set_body b m
    end.
  Definition lives (ops : list pop) : pmsg := fold_left papply ops fresh.
End Lives.
