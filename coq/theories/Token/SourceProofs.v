(* Token/SourceProofs.v -- the token source: which random bytes a token is made of, and what follows for C03.

   tokens_are_pieces       as long as the supply lasts, the k-th call returns exactly the k-th 8-byte piece of the
                           random bytes and reads exactly 8 bytes (no call fails)
   tokens_use_every_byte_once   the tokens, one after the other, are the first 8n random bytes: no byte is used
                           for two tokens, none is skipped
   tokens_distinct         different pieces => different tokens, for any number of calls
   honest_of_faithful      distinct tokens of the calls + a peer that answers requests with their tokens => [honest]
   library_tokens_own_content   a connection whose calls all carry library-chosen tokens: every successful call
                           returns its own token and the content produced for it (all programs, all schedules)
   block_source_repeats    the variant with a block of B random bytes whose offset is wrapped before the 'used up'
                           test: for 4096 it returns token 0 again as token 512 although all pieces differ, and on
                           the token-table machine the late response to call 0 is returned by call 1 (refutation) *)
From Coq Require Import ZArith NArith List Bool Arith Lia.
From GoCoap Require Import Base.Bytes Base.Interleave Observe.Model Token.Model Token.Spec Token.Proofs
  Token.SourceModel Token.SourceSpec.
Import ListNotations.
Local Open Scope nat_scope.

Lemma firstn_add {A} (a b : nat) : forall l : list A, firstn (a + b) l = firstn a l ++ firstn b (skipn a l).
Proof.
  induction a as [|a IH]; intros l; [reflexivity|].
  destruct l as [|x l]; cbn [plus firstn skipn app].
  - rewrite firstn_nil. reflexivity.
  - rewrite IH. reflexivity.
Qed.

Lemma skipn_add {A} (a b : nat) : forall l : list A, skipn (a + b) l = skipn b (skipn a l).
Proof.
  induction a as [|a IH]; intros l; [reflexivity|].
  destruct l as [|x l]; cbn [plus skipn].
  - rewrite skipn_nil. reflexivity.
  - apply IH.
Qed.

Lemma piece_S k ent : piece (S k) ent = piece k (skipn tok_len ent).
Proof.
  unfold piece. replace (tok_len * S k) with (tok_len + tok_len * k) by lia.
  rewrite skipn_add. reflexivity.
Qed.

Lemma get_token_some ent : tok_len <= length ent ->
  get_token ent = Some (firstn tok_len ent, tok_len, skipn tok_len ent).
Proof.
  intros H. unfold get_token. destruct (length ent <? tok_len) eqn:E; [|reflexivity].
  apply Nat.ltb_lt in E. lia.
Qed.

Theorem tokens_are_pieces : forall n ent, tok_len * n <= length ent ->
  tokens n ent = map (fun k => (piece k ent, tok_len)) (seq 0 n).
Proof.
  induction n as [|n IH]; intros ent H; [reflexivity|].
  cbn [tokens]. rewrite get_token_some by lia.
  rewrite IH by (rewrite skipn_length; lia).
  cbn [seq map].
  assert (E0 : piece 0 ent = firstn tok_len ent) by (unfold piece; rewrite Nat.mul_0_r; reflexivity).
  rewrite E0. apply f_equal.
  rewrite <- seq_shift, map_map. apply map_ext. intros k. rewrite piece_S. reflexivity.
Qed.

Corollary tokens_never_fail : forall n ent, tok_len * n <= length ent -> length (tokens n ent) = n.
Proof. intros n ent H. rewrite tokens_are_pieces by exact H. rewrite map_length, seq_length. reflexivity. Qed.

Corollary tokens_fst : forall n ent, tok_len * n <= length ent -> map fst (tokens n ent) = pieces n ent.
Proof.
  intros n ent H. rewrite tokens_are_pieces by exact H. rewrite map_map. reflexivity.
Qed.

Theorem tokens_use_every_byte_once : forall n ent, tok_len * n <= length ent ->
  concat (map fst (tokens n ent)) = firstn (tok_len * n) ent.
Proof.
  induction n as [|n IH]; intros ent H.
  - rewrite Nat.mul_0_r. reflexivity.
  - cbn [tokens]. rewrite get_token_some by lia. cbn [map fst concat].
    rewrite IH by (rewrite skipn_length; lia).
    replace (tok_len * S n) with (tok_len + tok_len * n) by lia. rewrite firstn_add. reflexivity.
Qed.

Theorem tokens_distinct : forall n ent, tok_len * n <= length ent ->
  fresh_pieces n ent -> NoDup (map fst (tokens n ent)).
Proof. intros n ent H F. rewrite tokens_fst by exact H. exact F. Qed.

(* ---------- what follows on the token table ---------- *)
Lemma nodup_snd_inj {A B} (l : list (A * B)) : NoDup (map snd l) ->
  forall a a' b, In (a, b) l -> In (a', b) l -> a = a'.
Proof.
  induction l as [|[x y] l IH]; intros ND a a' b H1 H2; [destruct H1|].
  cbn [map snd] in ND. inversion ND as [|? ? Hn ND']; subst.
  destruct H1 as [H1|H1], H2 as [H2|H2].
  - congruence.
  - inversion H1; subst. exfalso. apply Hn. apply in_map_iff. exists (a', b). split; [reflexivity|exact H2].
  - inversion H2; subst. exfalso. apply Hn. apply in_map_iff. exists (a, b). split; [reflexivity|exact H1].
  - exact (IH ND' a a' b H1 H2).
Qed.

Theorem honest_of_faithful : forall progs,
  NoDup (map snd (calls progs)) -> faithful progs -> honest progs.
Proof.
  intros progs ND F del r Hr cid tok Hc Ht.
  specialize (F del r Hr). rewrite Ht in F.
  exact (nodup_snd_inj (calls progs) ND (r_for r) cid tok F Hc).
Qed.

Notation hist c := (rhist st op loc res c).

Theorem library_tokens_own_content : forall hash progs sched ent,
  tok_len * length (calls progs) <= length ent ->
  fresh_pieces (length (calls progs)) ent ->
  library_chosen progs ent ->
  hash_inj_on hash (all_toks progs) -> faithful progs ->
  forall t n cid tok m r,
    In (ERes t n (Call cid tok m) (ROk r)) (hist (run hash progs sched)) -> r_tok r = tok /\ r_for r = cid.
Proof.
  intros hash progs sched ent Hlen Hfresh Hlib Hinj Hf t n cid tok m r Hin.
  assert (ND : NoDup (map snd (calls progs))).
  { rewrite Hlib. apply tokens_distinct; assumption. }
  split.
  - exact (own_token_holds hash progs sched Hinj t n cid tok m r Hin).
  - exact (own_content_holds hash progs sched Hinj (honest_of_faithful progs ND Hf) t n cid tok m r Hin).
Qed.

(* ---------- refutation: tokens cut from a block of random bytes, offset wrapped before the 'used up' test ---------- *)
Lemma bmem_In t l : bmem t l = false -> ~ In t l.
Proof.
  induction l as [|x l IH]; intros H; [intros []|].
  cbn [bmem] in H. apply orb_false_iff in H. destruct H as [H1 H2].
  intros [E|E]; [|exact (IH H2 E)].
  subst x. unfold bytes_eqb in H1.
  assert (R : forall a : list Z, list_eqb Z.eqb a a = true).
  { induction a as [|z a IHa]; [reflexivity|]. cbn [list_eqb]. rewrite Z.eqb_refl, IHa. reflexivity. }
  rewrite R in H1. discriminate.
Qed.

Lemma nodup_b_NoDup l : nodup_b l = true -> NoDup l.
Proof.
  induction l as [|x l IH]; intros H; [constructor|].
  cbn [nodup_b] in H. apply andb_true_iff in H. destruct H as [H1 H2].
  constructor; [apply bmem_In; apply negb_true_iff; exact H1|exact (IH H2)].
Qed.

Definition blk_ent : list Z := ent_gen 1%Z 1024.
Definition blk_obs : list (list Z * nat) := block_tokens 4096 513 bsrc0 blk_ent.
Definition blk_tok (k : nat) : list Z := nth k (map fst blk_obs) [].
(* call 0 gives up, its response arrives while call 1 -- 512 requests later -- waits *)
Definition blk_progs : list (list op) :=
  [[Call 0 (blk_tok 0) MCancel]; [Call 1 (blk_tok 512) MWait]; [Deliver true (mkR 0 (blk_tok 0) 0)]].
Definition blk_sched : list nat := [0; 0; 0; 0; 0; 1; 1; 1; 2; 2; 2; 1; 1; 1]%nat.

Theorem block_source_repeats :
  fresh_pieces 1024 blk_ent /\ length blk_ent = 8 * 1024 /\ length blk_obs = 513 /\
  map snd blk_obs = 4096 :: repeat 0 512 /\
  blk_tok 512 = blk_tok 0 /\
  tk_class blk_ent blk_obs = 13%N /\
  tk_class blk_ent (tokens 513 blk_ent) = 0%N /\
  faithful blk_progs /\
  In (ERes 1 0 (Call 1 (blk_tok 512) MWait) (ROk (mkR 0 (blk_tok 0) 0))) (hist (run crc64 blk_progs blk_sched)).
Proof.
  refine (conj _ (conj _ (conj _ (conj _ (conj _ (conj _ (conj _ (conj _ _)))))))).
  - apply nodup_b_NoDup. vm_compute. reflexivity.
  - vm_compute. reflexivity.
  - vm_compute. reflexivity.
  - vm_compute. reflexivity.
  - vm_compute. reflexivity.
  - vm_compute. reflexivity.
  - vm_compute. reflexivity.
  - intros del r H. vm_compute in H. destruct H as [H|[H|[H|[]]]]; try discriminate H.
    inversion H; subst. vm_compute. left. reflexivity.
  - vm_compute. tauto.
Qed.
