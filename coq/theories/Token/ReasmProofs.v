(* Token/ReasmProofs.v -- the reassembly state with validity (Token/ReasmModel.v) and property C03:

   "every request call that returns successfully returns ... the content the peer produced for that request"

   read for a block-wise response: the body that is handed on under a key consists of blocks the peer produced for
   ONE request, the request that holds the key at that moment -- never of blocks left behind by an earlier request
   that used the token.

   Hypothesis [timely] (what the property's "outstanding" means for the peer and for a request that gives up):
     - the peer produces blocks for the request that holds the key (no block of an earlier request arrives late);
     - when a request ends, no VALID reassembly element is left under its key: the transfer was completed (the
       element was consumed) or the request ended at its deadline (the element's validity is that deadline).
   For ALL event lists that satisfy it: [reasm_own_content]. The test of the validity in the look-up is what the
   proof rests on: with [load_any] the statement is false ([reasm_stale_refuted]).
   [expired_as_absent]: as long as no sweep runs, the machine started from a state and from the same state without
   its expired elements produces the same outputs (that is how Token/BwRun.v treats the event "time passes"). *)
From Coq Require Import ZArith List Bool Arith Lia.
From GoCoap Require Import Token.ReasmModel.
Import ListNotations.
Open Scope Z_scope.

(* ---------- spec ---------- *)
Definition own_body (s : rst) (o : rout) : Prop :=
  match o with
  | ODeliver k parts => exists cid, hget k (holder s) = Some cid /\ Forall (eq cid) parts
  | _ => True
  end.

Definition timely (s : rst) (ev : rsev) : Prop :=
  match ev with
  | RBlock k b => forall cid, hget k (holder s) = Some cid -> b_for b = cid
  | REnd _ k => load_valid k (rcached s) = None
  | _ => True
  end.

Fixpoint timely_run (s : rst) (evs : list rsev) : Prop :=
  match evs with
  | [] => True
  | ev :: q => timely s ev /\ timely_run (fst (rstep load_valid s ev)) q
  end.

(* every valid element belongs to the request that holds its key and consists of blocks produced for it *)
Definition clean (s : rst) : Prop :=
  forall k e, eget k (rcached s) = Some e -> e_valid e = true ->
    exists cid, hget k (holder s) = Some cid /\ Forall (eq cid) (e_parts e).

(* ---------- tables ---------- *)
Lemma eget_cdel : forall k k' c, eget k' (edel k c) = if k =? k' then None else eget k' c.
Proof.
  intros k k' c. induction c as [|[k0 v] q IH]; cbn [edel filter eget fst].
  - destruct (k =? k'); reflexivity.
  - fold (edel k q). destruct (k =? k0) eqn:E0; cbn [negb].
    + rewrite IH. destruct (k =? k') eqn:E; [reflexivity|].
      apply Z.eqb_eq in E0. subst k0. rewrite Z.eqb_sym, E. reflexivity.
    + cbn [eget]. rewrite IH. destruct (k' =? k0) eqn:E1; [|reflexivity].
      apply Z.eqb_eq in E1. subst k0. rewrite E0. reflexivity.
Qed.

Lemma eget_cset : forall k k' v c, eget k' (eset k v c) = if k =? k' then Some v else eget k' c.
Proof.
  intros k k' v c. unfold eset. cbn [eget]. rewrite eget_cdel, (Z.eqb_sym k' k).
  destruct (k =? k'); reflexivity.
Qed.

Lemma hget_hdel : forall k k' h, hget k' (hdel k h) = if k =? k' then None else hget k' h.
Proof.
  intros k k' h. induction h as [|[k0 v] q IH]; cbn [hdel filter hget fst].
  - destruct (k =? k'); reflexivity.
  - fold (hdel k q). destruct (k =? k0) eqn:E0; cbn [negb].
    + rewrite IH. destruct (k =? k') eqn:E; [reflexivity|].
      apply Z.eqb_eq in E0. subst k0. rewrite Z.eqb_sym, E. reflexivity.
    + cbn [hget]. rewrite IH. destruct (k' =? k0) eqn:E1; [|reflexivity].
      apply Z.eqb_eq in E1. subst k0. rewrite E0. reflexivity.
Qed.

Lemma hget_hdel_list : forall ks k h, ~ In k ks -> hget k (fold_left (fun h k => hdel k h) ks h) = hget k h.
Proof.
  induction ks as [|k0 q IH]; intros k h Hn; cbn [fold_left]; [reflexivity|].
  rewrite IH by (intro H; apply Hn; right; exact H).
  rewrite hget_hdel. destruct (k0 =? k) eqn:E; [|reflexivity].
  apply Z.eqb_eq in E. exfalso. apply Hn. left. exact E.
Qed.

Lemma eget_expire_all : forall k c,
  eget k (expire_all c) = match eget k c with Some e => Some (mkE (e_parts e) false) | None => None end.
Proof.
  intros k c. induction c as [|[k0 v] q IH]; cbn [expire_all map eget fst snd]; [reflexivity|].
  fold (expire_all q). destruct (k =? k0); [reflexivity|exact IH].
Qed.

Lemma eget_filter_key : forall (f : Z -> bool) k c,
  eget k (filter (fun p => f (fst p)) c) = if f k then eget k c else None.
Proof.
  intros f k c. induction c as [|[k0 v] q IH]; cbn [filter eget fst].
  - destruct (f k); reflexivity.
  - destruct (f k0) eqn:F0; cbn [eget].
    + destruct (k =? k0) eqn:E.
      * apply Z.eqb_eq in E. subst k0. rewrite F0. reflexivity.
      * exact IH.
    + rewrite IH. destruct (k =? k0) eqn:E; [|reflexivity].
      apply Z.eqb_eq in E. subst k0. rewrite F0. reflexivity.
Qed.

Lemma eget_sweep : forall k c, eget k (sweep c) = if kvalid c k then eget k c else None.
Proof. intros k c. unfold sweep. apply eget_filter_key. Qed.

Lemma expired_keys_invalid : forall k c, In k (expired_keys c) -> kvalid c k = false.
Proof.
  intros k c H. unfold expired_keys in H. apply filter_In in H. destruct H as [_ H].
  destruct (kvalid c k); [discriminate|reflexivity].
Qed.

(* ---------- one step ---------- *)
Lemma reasm_clean : forall s k b e cid s' o,
  clean s -> hget k (holder s) = Some cid -> b_for b = cid -> Forall (eq cid) (e_parts e) ->
  reasm s k b e = (s', o) ->
  clean s' /\ Forall (own_body s) o /\ holder s' = holder s.
Proof.
  intros s k b e cid s' o Hc Hh Hf Hp Hr. unfold reasm in Hr.
  assert (Hparts : Forall (eq cid) (e_parts e ++ [b_for b])).
  { apply Forall_app. split; [exact Hp|]. constructor; [symmetry; exact Hf|constructor]. }
  destruct (Nat.eqb (b_num b) (length (e_parts e))).
  - destruct (b_more b); inversion Hr; subst s' o; clear Hr.
    + split; [|split; [repeat constructor|reflexivity]].
      intros k' e' Hg Hv. cbn [rcached holder] in *. rewrite eget_cset in Hg.
      destruct (k =? k') eqn:E.
      * apply Z.eqb_eq in E. subst k'. inversion Hg; subst e'. cbn [e_parts]. exists cid. split; assumption.
      * apply Hc; assumption.
    + split; [|split; [|reflexivity]].
      * intros k' e' Hg Hv. cbn [rcached holder] in *. rewrite eget_cdel in Hg.
        destruct (k =? k'); [discriminate|]. apply Hc; assumption.
      * constructor; [|constructor]. cbn [own_body]. exists cid. split; assumption.
  - inversion Hr; subst s' o; clear Hr.
    split; [|split; [repeat constructor|reflexivity]].
    intros k' e' Hg Hv. cbn [rcached holder] in *. rewrite eget_cset in Hg.
    destruct (k =? k') eqn:E.
    + apply Z.eqb_eq in E. subst k'. inversion Hg; subst e'. exists cid. split; assumption.
    + apply Hc; assumption.
Qed.

Lemma step_clean : forall s ev s' o,
  clean s -> timely s ev -> rstep load_valid s ev = (s', o) ->
  clean s' /\ Forall (own_body s) o /\
  (forall k cid, hget k (holder s') = Some cid -> hget k (holder s) = Some cid \/ ev = RStart cid k).
Proof.
  intros s ev s' o Hc Ht Hs. destruct ev as [cid k|k b|cid k| |]; cbn [rstep] in Hs.
  - (* RStart *)
    destruct (hget k (holder s)) eqn:Hh; inversion Hs; subst s' o; clear Hs.
    + split; [exact Hc|]. split; [repeat constructor|]. intros; left; assumption.
    + split; [|split; [constructor|]].
      * intros k' e' Hg Hv. cbn [rcached holder] in *. destruct (Hc k' e' Hg Hv) as (c' & Hh' & Hp).
        exists c'. split; [|exact Hp]. cbn [hget]. destruct (k' =? k) eqn:E; [|exact Hh'].
        apply Z.eqb_eq in E. subst k'. rewrite Hh in Hh'. discriminate.
      * intros k' c' Hg. cbn [holder hget] in Hg. destruct (k' =? k) eqn:E.
        -- apply Z.eqb_eq in E. subst k'. inversion Hg; subst c'. right; reflexivity.
        -- left; exact Hg.
  - (* RBlock *)
    cbn [timely] in Ht.
    destruct (hget k (holder s)) as [cid|] eqn:Hh.
    2:{ inversion Hs; subst s' o. split; [exact Hc|]. split; [repeat constructor|]. intros; left; assumption. }
    specialize (Ht cid eq_refl).
    unfold load_valid in Hs. destruct (eget k (rcached s)) as [e|] eqn:Hg.
    + destruct (e_valid e) eqn:Hv.
      * destruct (Hc k e Hg Hv) as (c' & Hh' & Hp). rewrite Hh in Hh'. inversion Hh'; subst c'.
        destruct (reasm_clean s k b e cid s' o Hc Hh Ht Hp Hs) as (H1 & H2 & H3).
        split; [exact H1|]. split; [exact H2|]. intros k' c' Hk. rewrite H3 in Hk. left; exact Hk.
      * destruct (b_more b).
        -- destruct (reasm_clean s k b (mkE [] true) cid s' o Hc Hh Ht (Forall_nil _) Hs)
             as (H1 & H2 & H3).
           split; [exact H1|]. split; [exact H2|]. intros k' c' Hk. rewrite H3 in Hk. left; exact Hk.
        -- destruct (Nat.eqb (b_num b) 0); inversion Hs; subst s' o; (split; [exact Hc|]); (split; [|intros; left; assumption]).
           ++ constructor; [|constructor]. cbn [own_body]. exists cid. split; [exact Hh|]. constructor; [symmetry; exact Ht|constructor].
           ++ repeat constructor.
    + destruct (b_more b).
      * destruct (reasm_clean s k b (mkE [] true) cid s' o Hc Hh Ht (Forall_nil _) Hs)
          as (H1 & H2 & H3).
        split; [exact H1|]. split; [exact H2|]. intros k' c' Hk. rewrite H3 in Hk. left; exact Hk.
      * destruct (Nat.eqb (b_num b) 0); inversion Hs; subst s' o; (split; [exact Hc|]); (split; [|intros; left; assumption]).
        -- constructor; [|constructor]. cbn [own_body]. exists cid. split; [exact Hh|]. constructor; [symmetry; exact Ht|constructor].
        -- repeat constructor.
  - (* REnd *)
    cbn [timely] in Ht.
    destruct (hget k (holder s)) eqn:Hh; inversion Hs; subst s' o; clear Hs.
    + split; [|split; [constructor|]].
      * intros k' e' Hg Hv. cbn [rcached holder] in *. destruct (Hc k' e' Hg Hv) as (c' & Hh' & Hp).
        exists c'. split; [|exact Hp]. rewrite hget_hdel. destruct (k =? k') eqn:E; [|exact Hh'].
        apply Z.eqb_eq in E. subst k'. unfold load_valid in Ht. rewrite Hg, Hv in Ht. discriminate.
      * intros k' c' Hg. cbn [holder] in Hg. rewrite hget_hdel in Hg. destruct (k =? k'); [discriminate|]. left; exact Hg.
    + split; [exact Hc|]. split; [constructor|]. intros; left; assumption.
  - (* RElapse *)
    inversion Hs; subst s' o; clear Hs. split; [|split; [constructor|intros; left; assumption]].
    intros k' e' Hg Hv. cbn [rcached] in Hg. rewrite eget_expire_all in Hg.
    destruct (eget k' (rcached s)); [|discriminate]. inversion Hg; subst e'. discriminate.
  - (* RSweep *)
    inversion Hs; subst s' o; clear Hs. split; [|split; [constructor|]].
    + intros k' e' Hg Hv. cbn [rcached holder] in *. rewrite eget_sweep in Hg.
      destruct (kvalid (rcached s) k') eqn:Hk; [|discriminate].
      destruct (Hc k' e' Hg Hv) as (c' & Hh' & Hp). exists c'. split; [|exact Hp].
      rewrite hget_hdel_list; [exact Hh'|]. intro Hin. apply expired_keys_invalid in Hin. congruence.
    + intros k' c' Hg. cbn [holder] in Hg. left.
      revert Hg. generalize (expired_keys (rcached s)) (holder s). intros ks. induction ks as [|k0 q IH]; intros h Hg; cbn [fold_left] in Hg.
      * exact Hg.
      * apply IH in Hg. rewrite hget_hdel in Hg. destruct (k0 =? k'); [discriminate|exact Hg].
Qed.

(* ---------- all event lists ---------- *)
Lemma run_own_content : forall evs s (P : Z -> nat -> Prop),
  clean s ->
  (forall k cid, hget k (holder s) = Some cid -> P k cid) ->
  (forall cid k, In (RStart cid k) evs -> P k cid) ->
  timely_run s evs ->
  forall k parts, In (ODeliver k parts) (snd (rrun load_valid s evs)) ->
    exists cid, P k cid /\ Forall (eq cid) parts.
Proof.
  induction evs as [|ev q IH]; intros s P Hc Hh Hev Ht k parts Hin; cbn [rrun snd] in Hin; [contradiction|].
  destruct Ht as [Ht1 Ht2].
  destruct (rstep load_valid s ev) as [s1 o1] eqn:Hs. cbn [fst] in Ht2.
  destruct (rrun load_valid s1 q) as [s2 o2] eqn:Hr. cbn [snd] in Hin.
  destruct (step_clean s ev s1 o1 Hc Ht1 Hs) as (Hc1 & Ho & Hh1).
  apply in_app_or in Hin. destruct Hin as [Hin|Hin].
  - rewrite Forall_forall in Ho. specialize (Ho _ Hin). cbn [own_body] in Ho.
    destruct Ho as (cid & Hg & Hp). exists cid. split; [apply Hh; exact Hg|exact Hp].
  - apply (IH s1 P Hc1); try assumption.
    + intros k' c' Hg. destruct (Hh1 k' c' Hg) as [H|H]; [apply Hh; exact H|]. apply Hev. left. exact H.
    + intros c' k' H. apply Hev. right. exact H.
    + rewrite Hr. exact Hin.
Qed.

Lemma clean_empty : clean rempty.
Proof. intros k e H. discriminate. Qed.

Theorem reasm_own_content : forall evs,
  timely_run rempty evs ->
  forall k parts, In (ODeliver k parts) (snd (rrun load_valid rempty evs)) ->
    exists cid, In (RStart cid k) evs /\ Forall (eq cid) parts.
Proof.
  intros evs Ht k parts Hin.
  apply (run_own_content evs rempty (fun k cid => In (RStart cid k) evs) clean_empty); try assumption.
  - intros k' c' H. discriminate.
  - intros c' k' H. exact H.
Qed.

(* ---------- without the validity test the statement is false ---------- *)
(* request 0 (key 7) receives block 0 of 3 and ends at its deadline; request 1 re-uses the token *)
Definition stale_evs : list rsev :=
  [RStart 0 7; RBlock 7 (mkBlk 0 0 true); RElapse; REnd 0 7;
   RStart 1 7; RBlock 7 (mkBlk 1 0 true); RBlock 7 (mkBlk 1 1 true); RBlock 7 (mkBlk 1 2 false)].

Lemma stale_evs_timely : timely_run rempty stale_evs.
Proof. cbn. repeat split; intros; try congruence; auto. Qed.

Theorem reasm_stale_refuted :
  timely_run rempty stale_evs /\
  snd (rrun load_any rempty stale_evs) = [OAsk 7 1; OAsk 7 1; OAsk 7 2; ODeliver 7 [0; 1; 1]%nat] /\
  snd (rrun load_valid rempty stale_evs) = [OAsk 7 1; OAsk 7 1; OAsk 7 2; ODeliver 7 [1; 1; 1]%nat].
Proof. split; [exact stale_evs_timely|]. split; vm_compute; reflexivity. Qed.

(* ---------- an expired element is as good as absent (until the sweep) ---------- *)
Definition purge (s : rst) : rst := mkRS (holder s) (sweep (rcached s)).

Lemma load_valid_sweep : forall k c, load_valid k (sweep c) = load_valid k c.
Proof.
  intros k c. unfold load_valid. rewrite eget_sweep. unfold kvalid.
  destruct (eget k c) as [e|]; [|reflexivity]. destruct (e_valid e) eqn:E; [rewrite E|]; reflexivity.
Qed.

Theorem expired_as_absent_look_up : forall k s, load_valid k (rcached (purge s)) = load_valid k (rcached s).
Proof. intros k s. apply load_valid_sweep. Qed.

(* ---------- expired elements are invisible (until the sweep) ---------- *)
(* two states with the same holders and the same VALID elements *)
Definition same_valid (s t : rst) : Prop :=
  holder s = holder t /\ forall k, load_valid k (rcached s) = load_valid k (rcached t).

Lemma load_valid_eset : forall k k' v c,
  load_valid k' (eset k v c) = if k =? k' then (if e_valid v then Some v else None) else load_valid k' c.
Proof. intros. unfold load_valid. rewrite eget_cset. destruct (k =? k'); reflexivity. Qed.

Lemma load_valid_edel : forall k k' c, load_valid k' (edel k c) = if k =? k' then None else load_valid k' c.
Proof. intros. unfold load_valid. rewrite eget_cdel. destruct (k =? k'); reflexivity. Qed.

Lemma load_valid_expire_all : forall k c, load_valid k (expire_all c) = None.
Proof. intros. unfold load_valid. rewrite eget_expire_all. destruct (eget k c); reflexivity. Qed.

Lemma purge_same_valid : forall s, same_valid (purge s) s.
Proof. intros s. split; [reflexivity|]. intros k. apply load_valid_sweep. Qed.

Lemma reasm_same_valid : forall s t k b e,
  same_valid s t ->
  snd (reasm s k b e) = snd (reasm t k b e) /\ same_valid (fst (reasm s k b e)) (fst (reasm t k b e)).
Proof.
  intros s t k b e [Hh Hl]. unfold reasm.
  destruct (Nat.eqb (b_num b) (length (e_parts e))); [destruct (b_more b)|]; cbn [fst snd]; (split; [reflexivity|]);
    (split; [exact Hh|]); intros k'; cbn [rcached].
  - rewrite !load_valid_eset. destruct (k =? k'); [reflexivity|apply Hl].
  - rewrite !load_valid_edel. destruct (k =? k'); [reflexivity|apply Hl].
  - rewrite !load_valid_eset. destruct (k =? k'); [reflexivity|apply Hl].
Qed.

Lemma step_same_valid : forall s t ev,
  same_valid s t -> ev <> RSweep ->
  snd (rstep load_valid s ev) = snd (rstep load_valid t ev) /\
  same_valid (fst (rstep load_valid s ev)) (fst (rstep load_valid t ev)).
Proof.
  intros s t ev HS Hne. pose proof HS as [Hh Hl]. destruct ev as [cid k|k b|cid k| |]; cbn [rstep]; [| | | |congruence].
  - rewrite <- Hh. destruct (hget k (holder s)); cbn [fst snd]; (split; [reflexivity|]); [exact HS|].
    split; cbn [holder rcached]; [rewrite Hh; reflexivity|exact Hl].
  - rewrite <- Hh, <- (Hl k). destruct (hget k (holder s)); [|split; [reflexivity|exact HS]].
    destruct (load_valid k (rcached s)) as [e|].
    + apply reasm_same_valid; exact HS.
    + destruct (b_more b); [apply reasm_same_valid; exact HS|].
      destruct (Nat.eqb (b_num b) 0); split; try reflexivity; exact HS.
  - rewrite <- Hh. destruct (hget k (holder s)); cbn [fst snd]; (split; [reflexivity|]); [|exact HS].
    split; cbn [holder rcached]; [rewrite Hh; reflexivity|exact Hl].
  - cbn [fst snd]. split; [reflexivity|]. split; cbn [holder rcached]; [exact Hh|].
    intros k. rewrite !load_valid_expire_all. reflexivity.
Qed.

Theorem run_same_valid : forall evs s t,
  same_valid s t -> ~ In RSweep evs ->
  snd (rrun load_valid s evs) = snd (rrun load_valid t evs).
Proof.
  induction evs as [|ev q IH]; intros s t HS Hn; cbn [rrun]; [reflexivity|].
  assert (Hne : ev <> RSweep) by (intro E; apply Hn; left; exact E).
  destruct (step_same_valid s t ev HS Hne) as [Ho Hs].
  destruct (rstep load_valid s ev) as [s1 o1]. destruct (rstep load_valid t ev) as [t1 o1'].
  cbn [fst snd] in Ho, Hs. subst o1'.
  specialize (IH s1 t1 Hs (fun H => Hn (or_intror H))).
  destruct (rrun load_valid s1 q) as [s2 o2]. destruct (rrun load_valid t1 q) as [t2 o2'].
  cbn [snd] in IH |- *. rewrite IH. reflexivity.
Qed.

(* as long as no sweep runs, a state and the state without its expired elements produce the same outputs *)
Theorem expired_as_absent : forall evs s,
  ~ In RSweep evs -> snd (rrun load_valid (purge s) evs) = snd (rrun load_valid s evs).
Proof. intros evs s Hn. apply run_same_valid; [apply purge_same_valid|exact Hn]. Qed.
