(* Token/BwProofs.v -- C03 for a connection with block-wise transfer: for all programs (any number of
   threads running BlockWise.Do with any tokens and outcomes, any number of receive threads handling any
   lists of messages: whole responses and blocks with any numbers, in any order) and all schedules of the
   machine of BwModel.v. *)
From Coq Require Import ZArith List Bool Arith Lia.
From GoCoap Require Import Base.Interleave Observe.Model Token.Model Token.Spec Token.Proofs Token.BwModel Token.BwSpec.
Import ListNotations.
Local Open Scope nat_scope.

(* ---------- tables ---------- *)
Lemma tget_tset_same : forall k v l, tget k (tset k v l) = Some v.
Proof. intros; cbn. rewrite Z.eqb_refl. reflexivity. Qed.

Lemma tget_tdel_other : forall k k' l, k <> k' -> tget k (tdel k' l) = tget k l.
Proof.
  intros k k' l N. induction l as [|[k0 v] l IH]; [reflexivity|].
  unfold tdel in *. cbn [filter fst]. destruct (Z.eqb_spec k' k0) as [->|N0]; cbn [negb].
  - cbn [tget]. destruct (Z.eqb_spec k k0); [contradiction|exact IH].
  - cbn [tget]. destruct (Z.eqb_spec k k0); [reflexivity|exact IH].
Qed.

Lemma tget_tset_other : forall k k' v l, k <> k' -> tget k (tset k' v l) = tget k l.
Proof.
  intros k k' v l N; cbn. destruct (Z.eqb_spec k k'); [contradiction|]. apply tget_tdel_other; auto.
Qed.

Lemma rget_In : forall k l e, rget k l = Some e -> In (k, e) l.
Proof.
  induction l as [|[k' v] l IH]; cbn; intros e H; [discriminate|].
  destruct (Z.eqb_spec k k') as [->|N].
  - inversion H; subst; left; reflexivity.
  - right; auto.
Qed.

Lemma In_rdel : forall k p l, In p (rdel k l) -> In p l.
Proof. intros k p l H. apply filter_In in H. tauto. Qed.

Section Machine.
  Variable hash : list Z -> Z.

  Notation bthr c := (threads bst bop bloc bres c).
  Notation bsh c := (shared bst bop bloc bres c).
  Notation bhist c := (rhist bst bop bloc bres c).
  Notation blin c := (rlin bst bop bloc bres c).
  Notation bmkC := (mkC bst bop bloc bres).
  Notation bmkT := (mkT bop bloc bres).
  Notation bcur th := (cur bop bloc bres th).
  Notation btodo th := (todo bop bloc bres th).
  Notation bidx th := (idx bop bloc bres th).

  (* every step is one of: nothing, an invocation, an atomic action, a return *)
  Lemma bstep_ind : forall (P : bconfig -> Prop) c t,
    P c ->
    (forall th o rest, nth_error (bthr c) t = Some th -> bcur th = Idle -> btodo th = o :: rest ->
       P (bmkC (bsh c) (upd t (bmkT rest (Running o B0) (bidx th)) (bthr c)) (EInv t (bidx th) o :: bhist c) (blin c))) ->
    (forall th o l l' s' d, nth_error (bthr c) t = Some th -> bcur th = Running o l ->
       bact hash o l (bsh c) = Some (l', s', d) ->
       P (bmkC s' (upd t (bmkT (btodo th) (match d with None => Running o l' | Some r => Finished o r end) (bidx th)) (bthr c))
               (bhist c) (blin c))) ->
    (forall th o r, nth_error (bthr c) t = Some th -> bcur th = Finished o r ->
       P (bmkC (bsh c) (upd t (bmkT (btodo th) Idle (S (bidx th))) (bthr c)) (ERes t (bidx th) o r :: bhist c) (blin c))) ->
    P (bstep hash c t).
  Proof.
    intros P c t HP HInv HAct HRes.
    unfold bstep; unfold Interleave.step.
    destruct (nth_error (bthr c) t) as [th|] eqn:Hth; [|exact HP].
    destruct (bcur th) as [|o l|o r] eqn:Hc.
    - destruct (btodo th) as [|o rest] eqn:Htodo; [exact HP|].
      apply (HInv th o rest); auto.
    - destruct (bact hash o l (bsh c)) as [[[l' s'] d]|] eqn:Hact; [|exact HP].
      unfold bno_lp. apply (HAct th o l l' s' d); auto.
    - apply (HRes th o r); auto.
  Qed.

  Lemma brun_ind : forall (P : bconfig -> Prop) progs,
    P (binit progs) -> (forall c t, P c -> P (bstep hash c t)) -> forall sched, P (brun hash progs sched).
  Proof.
    intros P progs H0 HS sched. unfold brun, bexec, exec.
    revert H0. generalize (binit progs). induction sched as [|t sched IH]; intros c Hc; cbn; auto.
    apply IH. apply HS; auto.
  Qed.

  Lemma bnth_upd_inv : forall (l : list (Interleave.thread bop bloc bres)) t t' x th' old,
    nth_error l t = Some old -> nth_error (upd t x l) t' = Some th' ->
    (t' = t /\ th' = x) \/ (t' <> t /\ nth_error l t' = Some th').
  Proof.
    intros l t t' x th' old Ho H. destruct (Nat.eq_dec t t') as [<-|N].
    - erewrite nth_upd_eq in H by eauto. inversion H; auto.
    - rewrite nth_upd_neq in H by auto. right; auto.
  Qed.

  (* what the lifted inner action can produce *)
  Lemma lift_inv : forall o l s fin l' s' d,
    lift hash o l s fin = Some (l', s', d) ->
    exists li i' di, act hash o l (inner s) = Some (li, i', di) /\ s' = with_inner s i' /\
      match di with
      | None => l' = BIn o li /\ d = None
      | Some x => (l', d) = fin x
      end.
  Proof.
    intros o l s fin l' s' d H. unfold lift in H.
    destruct (act hash o l (inner s)) as [[[li i'] di]|] eqn:E; [|discriminate].
    exists li, i', di. split; [reflexivity|].
    destruct di as [x|].
    - destruct (fin x) as [b dd] eqn:Ef. inversion H; subst. split; reflexivity.
    - inversion H; subst. split; [reflexivity|split; reflexivity].
  Qed.

  (* ================= the paired request of an outstanding Do stays in the sending cache ================= *)
  Record sinv (c : bconfig) : Prop := {
    s_kept : paired_kept hash c;
    s_uniq : forall t1 t2 th1 th2 w1 w2, t1 <> t2 ->
               nth_error (bthr c) t1 = Some th1 -> nth_error (bthr c) t2 = Some th2 ->
               holds_request (bcur th1) = Some w1 -> holds_request (bcur th2) = Some w2 ->
               hash (snd w1) <> hash (snd w2)
  }.

  Lemma sinv_init : forall progs, sinv (binit progs).
  Proof.
    intros progs. constructor.
    - intros t th w H Hh. cbn in H. rewrite nth_error_map in H.
      destruct (nth_error progs t); cbn in H; inversion H; subst. cbn in Hh. discriminate.
    - intros t1 t2 th1 th2 w1 w2 _ H1 _ Hh _. cbn in H1. rewrite nth_error_map in H1.
      destruct (nth_error progs t1); cbn in H1; inversion H1; subst. cbn in Hh. discriminate.
  Qed.

  (* a step that leaves the sending cache alone and does not change whether thread t holds a request *)
  Lemma sinv_same : forall c t th cu' s' h l,
    sinv c -> nth_error (bthr c) t = Some th ->
    sending s' = sending (bsh c) ->
    holds_request cu' = holds_request (bcur th) ->
    sinv (bmkC s' (upd t (bmkT (btodo th) cu' (bidx th)) (bthr c)) h l).
  Proof.
    intros c t th cu' s' h l HI Hth Hs Hh. constructor.
    - intros t' th' w H' Hw. cbn in H', Hw |- *. rewrite Hs.
      destruct (bnth_upd_inv _ _ _ _ _ _ Hth H') as [[-> ->]|[N H'']].
      + cbn in Hw. rewrite Hh in Hw. apply (s_kept c HI t th w Hth Hw).
      + apply (s_kept c HI t' th' w H'' Hw).
    - intros t1 t2 th1 th2 w1 w2 N H1 H2 Hw1 Hw2. cbn in H1, H2.
      destruct (bnth_upd_inv _ _ _ _ _ _ Hth H1) as [[-> ->]|[N1 H1']];
        destruct (bnth_upd_inv _ _ _ _ _ _ Hth H2) as [[-> ->]|[N2 H2']].
      + congruence.
      + cbn in Hw1. rewrite Hh in Hw1. apply (s_uniq c HI t t2 th th2 w1 w2); auto.
      + cbn in Hw2. rewrite Hh in Hw2. apply (s_uniq c HI t1 t th1 th w1 w2); auto.
      + apply (s_uniq c HI t1 t2 th1 th2 w1 w2); auto.
  Qed.

  Lemma sinv_step : forall c t, sinv c -> sinv (bstep hash c t).
  Proof.
    intros c t HI. apply bstep_ind; [exact HI| | |].
    - (* invocation *)
      intros th o rest Hth Hc Htodo.
      pose proof (sinv_same c t th (Running o B0) (bsh c) (EInv t (bidx th) o :: bhist c) (blin c) HI Hth eq_refl) as H.
      rewrite Hc in H. specialize (H ltac:(destruct o; reflexivity)).
      (* the todo list differs from the one sinv_same builds: rebuild *)
      constructor.
      + intros t' th' w H' Hw. cbn in H', Hw |- *.
        destruct (bnth_upd_inv _ _ _ _ _ _ Hth H') as [[-> ->]|[N H'']].
        * cbn in Hw. destruct o; discriminate.
        * apply (s_kept c HI t' th' w H'' Hw).
      + intros t1 t2 th1 th2 w1 w2 N H1 H2 Hw1 Hw2. cbn in H1, H2.
        destruct (bnth_upd_inv _ _ _ _ _ _ Hth H1) as [[-> ->]|[N1 H1']];
          destruct (bnth_upd_inv _ _ _ _ _ _ Hth H2) as [[-> ->]|[N2 H2']].
        * congruence.
        * cbn in Hw1. destruct o; discriminate.
        * cbn in Hw2. destruct o; discriminate.
        * apply (s_uniq c HI t1 t2 th1 th2 w1 w2); auto.
    - (* atomic action *)
      intros th o l l' s' d Hth Hc Hact.
      destruct o as [cid tok m|del r blk].
      + (* BlockWise.Do *)
        destruct l as [|o' li|x| |]; cbn in Hact; try discriminate.
        * (* LoadOrStore on the sending cache *)
          destruct (tget (hash tok) (sending (bsh c))) as [w0|] eqn:Eg; inversion Hact; subst l' s' d; clear Hact.
          -- apply sinv_same; auto. rewrite Hc. reflexivity.
          -- (* accepted: nobody who holds a request has this key *)
             assert (Hother : forall t' th' w', t' <> t -> nth_error (bthr c) t' = Some th' ->
                       holds_request (bcur th') = Some w' -> hash (snd w') <> hash tok).
             { intros t' th' w' N H' Hw' E. pose proof (s_kept c HI t' th' w' H' Hw') as K.
               rewrite E in K. congruence. }
             constructor.
             ++ intros t' th' w H' Hw. cbn in H', Hw.
                change (tget (hash (snd w)) (tset (hash tok) (cid, tok) (sending (bsh c))) = Some w).
                destruct (bnth_upd_inv _ _ _ _ _ _ Hth H') as [[-> ->]|[N H'']].
                ** cbn in Hw. inversion Hw; subst w. apply tget_tset_same.
                ** rewrite tget_tset_other by (eapply Hother; eauto). apply (s_kept c HI t' th' w H'' Hw).
             ++ intros t1 t2 th1 th2 w1 w2 N H1 H2 Hw1 Hw2. cbn in H1, H2.
                destruct (bnth_upd_inv _ _ _ _ _ _ Hth H1) as [[-> ->]|[N1 H1']];
                  destruct (bnth_upd_inv _ _ _ _ _ _ Hth H2) as [[-> ->]|[N2 H2']].
                ** congruence.
                ** cbn in Hw1. inversion Hw1; subst w1. cbn. intros E. eapply Hother; eauto.
                ** cbn in Hw2. inversion Hw2; subst w2. cbn. eapply Hother; eauto.
                ** apply (s_uniq c HI t1 t2 th1 th2 w1 w2); auto.
        * (* inside do(r) *)
          apply lift_inv in Hact. destruct Hact as (l2 & i' & di & Ha & -> & Hd).
          apply sinv_same; auto. rewrite Hc.
          destruct di as [x|]; [inversion Hd; subst; reflexivity|destruct Hd as [-> ->]; reflexivity].
        * (* the deferred Delete *)
          inversion Hact; subst l' s' d; clear Hact.
          assert (Hme : holds_request (bcur th) = Some (cid, tok)) by (rewrite Hc; reflexivity).
          constructor.
          -- intros t' th' w H' Hw. cbn in H', Hw.
             change (tget (hash (snd w)) (tdel (hash tok) (sending (bsh c))) = Some w).
             destruct (bnth_upd_inv _ _ _ _ _ _ Hth H') as [[-> ->]|[N H'']].
             ++ cbn in Hw. discriminate.
             ++ rewrite tget_tdel_other.
                ** apply (s_kept c HI t' th' w H'' Hw).
                ** apply (s_uniq c HI t' t th' th w (cid, tok)); auto.
          -- intros t1 t2 th1 th2 w1 w2 N H1 H2 Hw1 Hw2. cbn in H1, H2.
             destruct (bnth_upd_inv _ _ _ _ _ _ Hth H1) as [[-> ->]|[N1 H1']];
               destruct (bnth_upd_inv _ _ _ _ _ _ Hth H2) as [[-> ->]|[N2 H2']].
             ++ congruence.
             ++ cbn in Hw1. discriminate.
             ++ cbn in Hw2. discriminate.
             ++ apply (s_uniq c HI t1 t2 th1 th2 w1 w2); auto.
      + (* BlockWise.Handle: never touches the sending cache *)
        assert (Hs : sending s' = sending (bsh c)).
        { destruct blk as [[num more]|]; destruct l as [|o' li|x| |]; cbn in Hact; try discriminate.
          - destruct (tget (hash (r_tok r)) (sending (bsh c))); inversion Hact; reflexivity.
          - apply lift_inv in Hact. destruct Hact as (l2 & i' & di & _ & -> & _). reflexivity.
          - destruct (rget (hash (r_tok r)) (recving (bsh c))); [inversion Hact; reflexivity|].
            destruct more; [inversion Hact; reflexivity|].
            destruct (Nat.eqb num 0); inversion Hact; reflexivity.
          - destruct (rget (hash (r_tok r)) (recving (bsh c))) as [[r0 have]|];
              (destruct (Nat.eqb num _); [destruct more|]; inversion Hact; reflexivity).
          - apply lift_inv in Hact. destruct Hact as (l2 & i' & di & _ & -> & _). reflexivity.
          - apply lift_inv in Hact. destruct Hact as (l2 & i' & di & _ & -> & _). reflexivity. }
        apply sinv_same; auto. rewrite Hc. destruct d; reflexivity.
    - (* return *)
      intros th o x Hth Hc.
      constructor.
      + intros t' th' w H' Hw. cbn in H', Hw |- *.
        destruct (bnth_upd_inv _ _ _ _ _ _ Hth H') as [[-> ->]|[N H'']].
        * cbn in Hw. discriminate.
        * apply (s_kept c HI t' th' w H'' Hw).
      + intros t1 t2 th1 th2 w1 w2 N H1 H2 Hw1 Hw2. cbn in H1, H2.
        destruct (bnth_upd_inv _ _ _ _ _ _ Hth H1) as [[-> ->]|[N1 H1']];
          destruct (bnth_upd_inv _ _ _ _ _ _ Hth H2) as [[-> ->]|[N2 H2']].
        * congruence.
        * cbn in Hw1. discriminate.
        * cbn in Hw2. discriminate.
        * apply (s_uniq c HI t1 t2 th1 th2 w1 w2); auto.
  Qed.

  Theorem paired_kept_run : forall progs sched, paired_kept hash (brun hash progs sched).
  Proof.
    intros progs sched. apply s_kept. apply brun_ind; [apply sinv_init|intros; apply sinv_step; auto].
  Qed.

  (* two Do calls that are both past the register-if-absent check have different keys *)
  Theorem one_holder_per_key : forall progs sched t1 t2 th1 th2 w1 w2,
    let c := brun hash progs sched in
    t1 <> t2 -> nth_error (bthr c) t1 = Some th1 -> nth_error (bthr c) t2 = Some th2 ->
    holds_request (bcur th1) = Some w1 -> holds_request (bcur th2) = Some w2 -> hash (snd w1) <> hash (snd w2).
  Proof.
    intros progs sched t1 t2 th1 th2 w1 w2 c. apply s_uniq.
    apply brun_ind; [apply sinv_init|intros; apply sinv_step; auto].
  Qed.

  (* ---------- a second Do with a token that is in the sending cache ---------- *)
  Theorem bw_dup_rejected_step : forall (c : bconfig) t th cid tok m w,
    nth_error (bthr c) t = Some th -> bcur th = Running (BCall cid tok m) B0 ->
    tget (hash tok) (sending (bsh c)) = Some w ->
    bsh (bstep hash c t) = bsh c /\
    nth_error (bthr (bstep hash c t)) t = Some (bmkT (btodo th) (Finished (BCall cid tok m) BInvalid) (bidx th)).
  Proof.
    intros c t th cid tok m w Hth Hc Hg.
    unfold bstep; unfold Interleave.step. rewrite Hth, Hc. cbn. rewrite Hg. cbn.
    split; [reflexivity|]. eapply nth_upd_eq; eauto.
  Qed.

  Lemma bw_accepted_act : forall cid tok m s l' s' d,
    bact hash (BCall cid tok m) B0 s = Some (l', s', d) -> d <> Some BInvalid ->
    tget (hash tok) (sending s) = None /\ tget (hash tok) (sending s') = Some (cid, tok).
  Proof.
    intros cid tok m s l' s' d H Hd; cbn in H.
    destruct (tget (hash tok) (sending s)) eqn:E; inversion H; subst; [congruence|].
    split; auto. cbn. rewrite Z.eqb_refl. reflexivity.
  Qed.

  (* ---------- a block of the response for an outstanding Do finds the paired request ---------- *)
  Theorem block_not_refused : forall progs sched t th w t' th' del r num more,
    let c := brun hash progs sched in
    nth_error (bthr c) t = Some th -> holds_request (bcur th) = Some w ->
    nth_error (bthr c) t' = Some th' -> bcur th' = Running (BRecv del r (Some (num, more))) B0 ->
    hash (r_tok r) = hash (snd w) ->
    bsh (bstep hash c t') = bsh c /\
    nth_error (bthr (bstep hash c t')) t' =
      Some (bmkT (btodo th') (Running (BRecv del r (Some (num, more))) BLook) (bidx th')).
  Proof.
    intros progs sched t th w t' th' del r num more c Hth Hw Hth' Hc' Hk.
    pose proof (paired_kept_run progs sched t th w Hth Hw) as K. fold c in K. rewrite <- Hk in K.
    unfold bstep; unfold Interleave.step. rewrite Hth', Hc'. cbn. rewrite K. cbn.
    split; [reflexivity|]. eapply nth_upd_eq; eauto.
  Qed.

  (* ================= tokens and provenance ================= *)
  Section Inv.
    Variable progs : list (list bop).

    Definition bfrom_peer (r : resp) : Prop := exists del blk, In (BRecv del r blk) (ball_ops progs).

    Definition ires_ok (o : op) (x : res) : Prop :=
      match o, x with
      | Call _ tok _, ROk r => hash (r_tok r) = hash tok /\ bfrom_peer r
      | _, _ => True
      end.
    Definition iloc_ok (o : op) (l : loc) : Prop :=
      match o, l with
      | Deliver _ r, LHand w => hash (r_tok r) = hash (snd w)
      | Call _ _ _, LUnreg x => ires_ok o x
      | _, _ => True
      end.
    Definition iop_ok (o : op) : Prop := match o with Deliver _ r => bfrom_peer r | Call _ _ _ => True end.
    Definition st_ok (s : st) : Prop :=
      (forall k w, In (k, w) (tbl s) -> k = hash (snd w)) /\
      (forall w r, In (w, r) (chans s) -> hash (r_tok r) = hash (snd w) /\ bfrom_peer r).

    (* one action of Token/Model.v *)
    Lemma act_ok : forall o l s l' s' d,
      st_ok s -> iop_ok o -> iloc_ok o l -> act hash o l s = Some (l', s', d) ->
      st_ok s' /\ iloc_ok o l' /\ (forall x, d = Some x -> ires_ok o x).
    Proof.
      intros o l s l' s' d [Ht Hch] Hop Hl Hact.
      destruct o as [cid tok m|del r]; destruct l as [| | |x|w]; cbn in Hact; try discriminate.
      - destruct (tget (hash tok) (tbl s)) as [w0|] eqn:Eg; inversion Hact; subst l' s' d; clear Hact.
        + split; [split; auto|]. split; [exact I|]. intros x E; inversion E; subst; exact I.
        + split; [split; cbn; auto|].
          * intros k w [E|H]; [inversion E; subst; reflexivity|apply In_tdel in H; apply Ht; tauto].
          * split; [exact I|intros x E; discriminate].
      - destruct m; inversion Hact; subst l' s' d; clear Hact;
          (split; [split; cbn; auto|split; [cbn; auto|intros x E; discriminate]]).
      - destruct m.
        + destruct (cget (cid, tok) (chans s)) as [r|] eqn:Eg; inversion Hact; subst l' s' d; clear Hact.
          apply cget_In in Eg. destruct (Hch _ _ Eg) as [Hh Hfp]. cbn in Hh.
          split; [split; cbn; auto|].
          * intros w r' H. apply In_cdel in H. auto.
          * split; [cbn; auto|intros x E; discriminate].
        + inversion Hact; subst l' s' d; clear Hact.
          split; [split; cbn; auto|split; [cbn; auto|intros x E; discriminate]].
        + destruct (cget (cid, tok) (chans s)) as [r|] eqn:Eg; inversion Hact; subst l' s' d; clear Hact.
          apply cget_In in Eg. destruct (Hch _ _ Eg) as [Hh Hfp]. cbn in Hh.
          split; [split; cbn; auto|].
          * intros w r' H. apply In_cdel in H. auto.
          * split; [cbn; auto|intros x E; discriminate].
      - inversion Hact; subst l' s' d; clear Hact.
        split; [split; cbn; auto|].
        + intros k w H. apply In_tdel in H. apply Ht. tauto.
        + split; [exact Hl|]. intros x' E; inversion E; subst. exact Hl.
      - destruct (tget (hash (r_tok r)) (tbl s)) as [w|] eqn:Eg; inversion Hact; subst l' s' d; clear Hact.
        + apply tget_In in Eg. pose proof (Ht _ _ Eg) as Hk.
          split; [split; cbn; auto|].
          * intros k w' H. destruct del; [apply In_tdel in H; apply Ht; tauto|apply Ht; auto].
          * split; [cbn; auto|intros x E; discriminate].
        + split; [split; cbn; auto|]. split; [exact I|]. intros x E; inversion E; subst; exact I.
      - destruct (cget w (chans s)) as [r0|] eqn:Eg; inversion Hact; subst l' s' d; clear Hact.
        + split; [split; auto|]. split; [exact Hl|]. intros x E; inversion E; subst; exact I.
        + split; [split; cbn; auto|].
          * intros w' r' [E|H]; [inversion E; subst; split; auto|auto].
          * split; [exact Hl|]. intros x E; inversion E; subst; exact I.
    Qed.

    Definition bres_ok (o : bop) (x : bres) : Prop :=
      match o, x with
      | BCall cid tok m, BRet y => ires_ok (Call cid tok m) y
      | _, _ => True
      end.

    Definition bcur_ok (cu : tstate bop bloc bres) : Prop :=
      match cu with
      | Idle => True
      | Running o l =>
          In o (ball_ops progs) /\
          match o, l with
          | BCall cid tok m, BIn o' l' => o' = Call cid tok m /\ iloc_ok o' l'
          | BCall cid tok m, BUnreg x => ires_ok (Call cid tok m) x
          | BRecv _ _ _, BIn o' l' => iop_ok o' /\ iloc_ok o' l' /\ (exists del' r', o' = Deliver del' r')
          | _, _ => True
          end
      | Finished o x => In o (ball_ops progs) /\ bres_ok o x
      end.

    Record binv (c : bconfig) : Prop := {
      b_st : st_ok (inner (bsh c));
      b_rcv : forall k e, In (k, e) (recving (bsh c)) -> bfrom_peer (fst e);
      b_thr : forall t th, nth_error (bthr c) t = Some th ->
                bcur_ok (bcur th) /\ (forall o, In o (btodo th) -> In o (ball_ops progs));
      b_hist : forall t n o x, In (ERes t n o x) (bhist c) -> In o (ball_ops progs) /\ bres_ok o x
    }.

    Lemma binv_init : binv (binit progs).
    Proof.
      constructor; cbn.
      - split; intros ? ? [].
      - intros k e [].
      - intros t th H. rewrite nth_error_map in H.
        destruct (nth_error progs t) as [p|] eqn:Hp; cbn in H; inversion H; subst; cbn.
        split; [exact I|]. intros o Ho. unfold ball_ops. apply in_concat. exists p. split; auto.
        eapply nth_error_In; eauto.
      - intros t n o x [].
    Qed.

    Lemma binv_step : forall c t, binv c -> binv (bstep hash c t).
    Proof.
      intros c t HI. apply bstep_ind; [exact HI| | |].
      - (* invocation *)
        intros th o rest Hth Hc Htodo.
        destruct (b_thr c HI t th Hth) as [_ Htd].
        constructor; cbn.
        + apply (b_st c HI).
        + apply (b_rcv c HI).
        + intros t' th' H'. destruct (bnth_upd_inv _ _ _ _ _ _ Hth H') as [[-> ->]|[N H'']]; cbn.
          * split; [split; [apply Htd; rewrite Htodo; left; reflexivity|destruct o; exact I]|].
            intros o' Ho'. apply Htd. rewrite Htodo. right; auto.
          * apply (b_thr c HI t' th' H'').
        + intros t' n o' x [E|H]; [discriminate|]. apply (b_hist c HI _ _ _ _ H).
      - (* atomic action *)
        intros th o l l' s' d Hth Hc Hact.
        destruct (b_thr c HI t th Hth) as [Hcur Htd]. rewrite Hc in Hcur. cbn in Hcur.
        destruct Hcur as [Hop Hl].
        assert (Hthr : forall cu', bcur_ok cu' ->
                   forall t' th', nth_error (upd t (bmkT (btodo th) cu' (bidx th)) (bthr c)) t' = Some th' ->
                   bcur_ok (bcur th') /\ (forall o, In o (btodo th') -> In o (ball_ops progs))).
        { intros cu' Hcu t' th' H'. destruct (bnth_upd_inv _ _ _ _ _ _ Hth H') as [[-> ->]|[N H'']]; cbn.
          - split; auto.
          - apply (b_thr c HI t' th' H''). }
        (* the lifted inner action, for both kinds of operation *)
        assert (Hlift : forall o' li fin,
                   iop_ok o' -> iloc_ok o' li ->
                   lift hash o' li (bsh c) fin = Some (l', s', d) ->
                   (forall lx, iloc_ok o' lx -> bcur_ok (Running o (BIn o' lx))) ->
                   (forall x, ires_ok o' x -> bcur_ok (match snd (fin x) with None => Running o (fst (fin x)) | Some y => Finished o y end)) ->
                   binv (bmkC s' (upd t (bmkT (btodo th) (match d with None => Running o l' | Some r => Finished o r end) (bidx th)) (bthr c))
                             (bhist c) (blin c))).
        { intros o' li fin Hio Hil Hli Hrun Hfin.
          apply lift_inv in Hli. destruct Hli as (l2 & i' & di & Ha & -> & Hd).
          destruct (act_ok o' li (inner (bsh c)) l2 i' di (b_st c HI) Hio Hil Ha) as (Hst' & Hl2 & Hres).
          constructor; cbn; [exact Hst'|apply (b_rcv c HI)| |apply (b_hist c HI)].
          apply Hthr. destruct di as [x|].
          - specialize (Hfin x (Hres x eq_refl)). destruct (fin x) as [b dd]. inversion Hd; subst. exact Hfin.
          - destruct Hd as [-> ->]. apply Hrun; auto. }
        destruct o as [cid tok m|del r blk].
        + (* BlockWise.Do *)
          destruct l as [|o' li|x| |]; cbn in Hact; try discriminate.
          * destruct (tget (hash tok) (sending (bsh c))) as [w0|] eqn:Eg; inversion Hact; subst l' s' d; clear Hact.
            -- constructor; cbn; [apply (b_st c HI)|apply (b_rcv c HI)| |apply (b_hist c HI)].
               apply Hthr. cbn. split; [exact Hop|exact I].
            -- constructor; cbn; [apply (b_st c HI)|apply (b_rcv c HI)| |apply (b_hist c HI)].
               apply Hthr. cbn. split; [exact Hop|]. split; [reflexivity|exact I].
          * destruct Hl as [-> Hli].
            apply (Hlift (Call cid tok m) li (fun x => (BUnreg x, None))).
            -- exact I.
            -- exact Hli.
            -- exact Hact.
            -- intros lx Hlx. cbn. split; [exact Hop|]. split; [reflexivity|exact Hlx].
            -- intros x Hx. cbn. split; [exact Hop|exact Hx].
          * inversion Hact; subst l' s' d; clear Hact.
            constructor; cbn; [apply (b_st c HI)|apply (b_rcv c HI)| |apply (b_hist c HI)].
            apply Hthr. cbn. split; [exact Hop|exact Hl].
        + (* BlockWise.Handle *)
          assert (Hr : bfrom_peer r) by (exists del, blk; exact Hop).
          assert (HIn : forall o' li, iop_ok o' /\ iloc_ok o' li /\ (exists del' r', o' = Deliver del' r') ->
                    lift hash o' li (bsh c) (fun x => (B0, Some (BRet x))) = Some (l', s', d) ->
                    binv (bmkC s' (upd t (bmkT (btodo th) (match d with None => Running (BRecv del r blk) l' | Some y => Finished (BRecv del r blk) y end) (bidx th)) (bthr c))
                              (bhist c) (blin c))).
          { intros o' li (Hio & Hli & Hex) Hact'.
            apply (Hlift o' li (fun x => (B0, Some (BRet x)))).
            - exact Hio.
            - exact Hli.
            - exact Hact'.
            - intros lx Hlx. cbn. split; [exact Hop|]. split; [exact Hio|]. split; [exact Hlx|exact Hex].
            - intros x Hx. cbn. split; [exact Hop|exact I]. }
          destruct blk as [[num more]|]; destruct l as [|o' li|x| |]; cbn in Hact; try discriminate.
          * (* block: getSentRequest *)
            destruct (tget (hash (r_tok r)) (sending (bsh c))); inversion Hact; subst l' s' d; clear Hact;
              (constructor; cbn; [apply (b_st c HI)|apply (b_rcv c HI)| |apply (b_hist c HI)]);
              apply Hthr; cbn; (split; [exact Hop|exact I]).
          * apply (HIn o' li Hl Hact).
          * (* block: receivingMessagesCache.Load *)
            destruct (rget (hash (r_tok r)) (recving (bsh c))).
            -- inversion Hact; subst l' s' d; clear Hact.
               constructor; cbn; [apply (b_st c HI)|apply (b_rcv c HI)| |apply (b_hist c HI)].
               apply Hthr; cbn; (split; [exact Hop|exact I]).
            -- destruct more.
               ++ inversion Hact; subst l' s' d; clear Hact.
                  constructor; cbn; [apply (b_st c HI)|apply (b_rcv c HI)| |apply (b_hist c HI)].
                  apply Hthr; cbn; (split; [exact Hop|exact I]).
               ++ destruct (Nat.eqb num 0); inversion Hact; subst l' s' d; clear Hact;
                    (constructor; cbn; [apply (b_st c HI)|apply (b_rcv c HI)| |apply (b_hist c HI)]);
                    apply Hthr; cbn; (split; [exact Hop|]).
                  ** split; [exact Hr|]. split; [exact I|eauto].
                  ** exact I.
          * (* block: guarded reassembly *)
            assert (Hr0 : forall r0 have,
                      match rget (hash (r_tok r)) (recving (bsh c)) with Some e => e | None => (r, O) end = (r0, have) ->
                      bfrom_peer r0).
            { intros r0 have E. destruct (rget (hash (r_tok r)) (recving (bsh c))) as [e|] eqn:Eg.
              - apply rget_In in Eg. apply (b_rcv c HI) in Eg. subst e. exact Eg.
              - inversion E; subst. exact Hr. }
            destruct (match rget (hash (r_tok r)) (recving (bsh c)) with Some e => e | None => (r, O) end) as [r0 have] eqn:Ee.
            specialize (Hr0 r0 have eq_refl).
            assert (Hset : forall n k e, In (k, e) (rset (hash (r_tok r)) (r0, n) (recving (bsh c))) -> bfrom_peer (fst e)).
            { intros n k e [E|H]; [inversion E; subst; exact Hr0|apply In_rdel in H; apply (b_rcv c HI) in H; exact H]. }
            destruct (Nat.eqb num have); [destruct more|]; inversion Hact; subst l' s' d; clear Hact.
            -- constructor; cbn; [apply (b_st c HI)|apply Hset| |apply (b_hist c HI)].
               apply Hthr; cbn; (split; [exact Hop|exact I]).
            -- constructor; cbn; [apply (b_st c HI)| | |apply (b_hist c HI)].
               ++ intros k e H. apply In_rdel in H. apply (b_rcv c HI) in H. exact H.
               ++ apply Hthr; cbn. split; [exact Hop|]. split; [exact Hr0|]. split; [exact I|eauto].
            -- constructor; cbn; [apply (b_st c HI)|apply Hset| |apply (b_hist c HI)].
               apply Hthr; cbn; (split; [exact Hop|exact I]).
          * (* whole response: next(w, r) *)
            apply (HIn (Deliver del r) L0); [|exact Hact].
            split; [exact Hr|]. split; [exact I|eauto].
          * apply (HIn o' li Hl Hact).
      - (* return *)
        intros th o x Hth Hc.
        destruct (b_thr c HI t th Hth) as [Hcur Htd]. rewrite Hc in Hcur. cbn in Hcur.
        constructor; cbn; [apply (b_st c HI)|apply (b_rcv c HI)| |].
        + intros t' th' H'. destruct (bnth_upd_inv _ _ _ _ _ _ Hth H') as [[-> ->]|[N H'']]; cbn; auto.
          apply (b_thr c HI t' th' H'').
        + intros t' n o' x' [E|H]; [inversion E; subst; auto|apply (b_hist c HI _ _ _ _ H)].
    Qed.

    Lemma binv_run : forall sched, binv (brun hash progs sched).
    Proof. intros. apply brun_ind; [apply binv_init|intros; apply binv_step; auto]. Qed.
  End Inv.

  Theorem bw_own_token_hash : forall progs sched t n cid tok m r,
    In (ERes t n (BCall cid tok m) (BRet (ROk r))) (bhist (brun hash progs sched)) ->
    hash (r_tok r) = hash tok /\ bfrom_peer progs r /\ In (BCall cid tok m) (ball_ops progs).
  Proof.
    intros progs sched t n cid tok m r H.
    destruct (b_hist progs _ (binv_run progs sched) _ _ _ _ H) as [Ho [Hh Hp]]. auto.
  Qed.

  Lemma bop_toks_in : forall progs o tok, In o (ball_ops progs) -> In tok (bop_toks o) -> In tok (ball_toks progs).
  Proof. intros progs o tok Ho Ht. unfold ball_toks. apply in_flat_map. exists o; auto. Qed.

  Theorem bw_own_token_holds : forall progs sched,
    hash_inj_on hash (ball_toks progs) -> bw_own_token (bhist (brun hash progs sched)).
  Proof.
    intros progs sched Hinj t n cid tok m r H.
    destruct (bw_own_token_hash _ _ _ _ _ _ _ _ H) as (Hh & (del & blk & Hp) & Ho).
    apply Hinj; auto.
    - apply (bop_toks_in progs (BRecv del r blk)); [auto|left; reflexivity].
    - apply (bop_toks_in progs (BCall cid tok m)); [auto|left; reflexivity].
  Qed.

  Theorem bw_own_content_holds : forall progs sched,
    hash_inj_on hash (ball_toks progs) -> bhonest progs -> bw_own_content (bhist (brun hash progs sched)).
  Proof.
    intros progs sched Hinj Hhon t n cid tok m r H.
    pose proof (bw_own_token_holds progs sched Hinj _ _ _ _ _ _ H) as Ht.
    destruct (bw_own_token_hash _ _ _ _ _ _ _ _ H) as (Hh & (del & blk & Hp) & Ho).
    eapply Hhon; eauto. unfold bcalls. apply in_flat_map. exists (BCall cid tok m). split; [auto|left; reflexivity].
  Qed.
End Machine.

(* ================= the variant with the Delete deferred before the check ================= *)
(* Two Do calls with one token and the two blocks of the response to the first: with the deferred Delete
   installed before the register-if-absent check the refused second Do removes the first one's request
   (the first Do is still waiting) and the first block is answered 4.08. *)
Definition tokD : list Z := [113%Z].
Definition displace_progs : list (list bop) :=
  [[BCall 0 tokD MWait]; [BCall 1 tokD MWait];
   [BRecv true (mkR 1 tokD 0) (Some (0, true)); BRecv true (mkR 1 tokD 0) (Some (1, false))]].
Definition displace_sched : list nat := [0; 0; 0; 0; 1; 1; 1; 2; 2; 2; 2; 2; 2].

Theorem early_delete_displaces :
  let c := brun_early crc64 displace_progs displace_sched in
  nth_error (threads bst bop bloc bres c) 0 =
    Some (mkT bop bloc bres [] (Running (BCall 0 tokD MWait) (BIn (Call 0 tokD MWait) LWait)) 0) /\
  In (ERes 1 0 (BCall 1 tokD MWait) BInvalid) (rhist bst bop bloc bres c) /\
  sending (shared bst bop bloc bres c) = [] /\
  In (ERes 2 0 (BRecv true (mkR 1 tokD 0) (Some (0, true))) BIncomplete) (rhist bst bop bloc bres c) /\
  In (ERes 2 1 (BRecv true (mkR 1 tokD 0) (Some (1, false))) BIncomplete) (rhist bst bop bloc bres c).
Proof. vm_compute. repeat split; auto 10. Qed.

(* the same programs on the machine of the code: the second Do is refused, the request of the first stays,
   both blocks are accepted and the first Do is handed the response *)
Definition keep_sched : list nat := [0; 0; 0; 0; 1; 1; 1; 2; 2; 2; 2; 2; 2; 2; 2; 2; 2; 2; 2; 0; 0; 0; 0].

Theorem late_delete_keeps :
  let c := brun crc64 displace_progs keep_sched in
  In (ERes 1 0 (BCall 1 tokD MWait) BInvalid) (rhist bst bop bloc bres c) /\
  In (ERes 2 0 (BRecv true (mkR 1 tokD 0) (Some (0, true))) (BAsked 1)) (rhist bst bop bloc bres c) /\
  In (ERes 0 0 (BCall 0 tokD MWait) (BRet (ROk (mkR 1 tokD 0)))) (rhist bst bop bloc bres c) /\
  refused (shared bst bop bloc bres c) = [] /\ sending (shared bst bop bloc bres c) = [].
Proof. vm_compute. repeat split; auto 10. Qed.
