(* Token/Model.v -- the token table of a client connection, as the code is:

     udp/client/conn.go  doInternal            -> caller program  Register; Send; Wait; Unregister
                         handle                -> receive program LoadAndDelete; handler
     tcp/client/conn.go  doInternal, handle    -> the same two programs
                         blockwiseHandle       -> receive program with Load instead of LoadAndDelete ([del = false])
     pkg/sync/map.go     LoadOrStore (one write-locked section), LoadAndDelete, Load
                                               -> one atomic action each on [tbl]
     message/getToken.go Token.Hash            -> the parameter [hash] (CRC-64/ISO in Run.v)

   Shared state: the token table  hash -> waiter, one one-slot channel per
   waiter, the list of requests written to the peer and the list of messages
   that fell through to the observation / default handler. A waiter is the
   continuation stored by doInternal: it is identified by the call (its
   number [cid]) and annotated with the call's token (a ghost: the closure
   only holds the channel).

   Threads (Base/Interleave.v): a thread is a list of operations, an operation a
   sequence of atomic actions. [Call cid tok m] is one execution of doInternal,
   [Deliver del r] one execution of handle for the received response [r].
   The peer is not modelled: the programs of the receive threads are arbitrary
   lists of responses (any tokens, any order, duplicates). Delays are schedules.

   [mode] resolves the select at the end of doInternal: [MWait] takes the
   response, [MCancel] takes a context/connection-closed branch (enabled at any
   time, also when a response is in the channel: Go picks any ready case),
   [MWriteFail] is a failing write. *)
From Coq Require Import ZArith List Bool Arith.
From GoCoap Require Import Base.Interleave.
Import ListNotations.
Open Scope Z_scope.

Record resp := mkR {
  r_id : nat;          (* which response instance (datagram / frame) this is *)
  r_tok : list Z;      (* the token it carries *)
  r_for : nat          (* the request the peer produced it for (stands for the content) *)
}.

Definition waiter := (nat * list Z)%type.

Definition waiter_eq_dec : forall a b : waiter, {a = b} + {a <> b}.
Proof. decide equality; [apply (list_eq_dec Z.eq_dec)|apply Nat.eq_dec]. Defined.
Definition weqb (a b : waiter) : bool := if waiter_eq_dec a b then true else false.

(* ---------- pkg/sync.Map[uint64, HandlerFunc] ---------- *)
Definition table := list (Z * waiter).
Fixpoint tget (k : Z) (l : table) : option waiter :=
  match l with
  | [] => None
  | (k', v) :: r => if k =? k' then Some v else tget k r
  end.
Definition tdel (k : Z) (l : table) : table := filter (fun p => negb (k =? fst p)) l.
Definition tset (k : Z) (v : waiter) (l : table) : table := (k, v) :: tdel k l.

(* ---------- the one-slot channels (respChan of each call) ---------- *)
Definition chanset := list (waiter * resp).
Fixpoint cget (w : waiter) (l : chanset) : option resp :=
  match l with
  | [] => None
  | (w', r) :: q => if weqb w w' then Some r else cget w q
  end.
Definition cdel (w : waiter) (l : chanset) : chanset := filter (fun p => negb (weqb w (fst p))) l.

Record st := mkS {
  tbl : table;                     (* tokenHandlerContainer *)
  chans : chanset;                 (* content of the respChan of each call *)
  wire : list (nat * list Z);      (* requests written to the session *)
  fall : list resp                 (* passed on to observationHandler.Handle *)
}.
Definition empty : st := mkS [] [] [] [].

Inductive mode := MWait | MCancel | MWriteFail.
Inductive op :=
| Call (cid : nat) (tok : list Z) (m : mode)
| Deliver (del : bool) (r : resp).
Inductive res :=
| ROk (r : resp)        (* doInternal returned (resp, nil) *)
| RExists               (* ErrKeyAlreadyExists *)
| RCtx                  (* context done / connection closed *)
| RWrite                (* write error *)
| RFall                 (* handle: no entry, passed on *)
| RSent (w : waiter)    (* handle: handed to the waiter's channel *)
| RDropped (w : waiter) (* handle: channel full, dropped (hijacked) *).
Inductive loc := L0 | LSend | LWait | LUnreg (r : res) | LHand (w : waiter).

Section WithHash.
  Variable hash : list Z -> Z.

  Definition act (o : op) (l : loc) (s : st) : option (loc * st * option res) :=
    match o, l with
    | Call cid tok m, L0 =>
        (* tokenHandlerContainer.LoadOrStore(token.Hash(), handler) *)
        match tget (hash tok) (tbl s) with
        | Some _ => Some (L0, s, Some RExists)
        | None => Some (LSend, mkS (tset (hash tok) (cid, tok) (tbl s)) (chans s) (wire s) (fall s), None)
        end
    | Call cid tok m, LSend =>
        (* cc.writeMessage(req); the deferred LoadAndDelete is installed by now *)
        match m with
        | MWriteFail => Some (LUnreg RWrite, s, None)
        | _ => Some (LWait, mkS (tbl s) (chans s) (wire s ++ [(cid, tok)]) (fall s), None)
        end
    | Call cid tok m, LWait =>
        (* select { ctx.Done / cc.Done / resp := <-respChan } *)
        match m with
        | MCancel => Some (LUnreg RCtx, s, None)
        | _ =>
            match cget (cid, tok) (chans s) with
            | Some r => Some (LUnreg (ROk r), mkS (tbl s) (cdel (cid, tok) (chans s)) (wire s) (fall s), None)
            | None => None
            end
        end
    | Call cid tok m, LUnreg r =>
        (* deferred: tokenHandlerContainer.LoadAndDelete(token.Hash()) -- whatever is stored there *)
        Some (LUnreg r, mkS (tdel (hash tok) (tbl s)) (chans s) (wire s) (fall s), Some r)
    | Deliver del r, L0 =>
        (* h, ok := tokenHandlerContainer.LoadAndDelete(m.Token().Hash())   (Load in tcp blockwiseHandle) *)
        match tget (hash (r_tok r)) (tbl s) with
        | Some w => Some (LHand w,
                          mkS (if del then tdel (hash (r_tok r)) (tbl s) else tbl s) (chans s) (wire s) (fall s),
                          None)
        | None => Some (L0, mkS (tbl s) (chans s) (wire s) (fall s ++ [r]), Some RFall)
        end
    | Deliver del r, LHand w =>
        (* r.Hijack(); select { case respChan <- r: default: } *)
        match cget w (chans s) with
        | None => Some (LHand w, mkS (tbl s) ((w, r) :: chans s) (wire s) (fall s), Some (RSent w))
        | Some _ => Some (LHand w, s, Some (RDropped w))
        end
    | _, _ => None
    end.

  Definition init_loc (_ : op) : loc := L0.
  Definition no_lp (_ : loc) : option res := None.

  Definition config := Interleave.config st op loc res.
  Definition thread := Interleave.thread op loc res.
  Definition event := @Interleave.event op res.

  Definition mstep : config -> nat -> config := Interleave.step st op loc res init_loc act no_lp.
  Definition mexec : list nat -> config -> config := Interleave.exec st op loc res init_loc act no_lp.
  Definition minit (progs : list (list op)) : config := Interleave.init st op loc res empty progs.
  Definition run (progs : list (list op)) (sched : list nat) : config := mexec sched (minit progs).
End WithHash.
