(* The response writer's slot (Pool/Model.v: wop, wtrace, wdisc):
   - a writer program that keeps the ownership discipline produces an accepted trace (wdisc_accepted);
   - acceptance is invariant under an injective renaming of the objects (accepted_ren);
   - every return point of the block-wise receive path as modelled (bw_receive_ops) is disciplined, hence accepted
     over any pairwise distinct objects (path_bw_receive_ok);
   - installing the next-block request early AND releasing it by hand on the early return is rejected. *)
From Coq Require Import ZArith NArith List Bool Lia.
From GoCoap Require Import Pool.Model Pool.Spec Pool.Proofs.
Import ListNotations.
Open Scope Z_scope.

Definition st (t : list lc) (o : Z) : ostate + N := run_obj Live (project o t).
Definition all_of (o : Z) (u : list lc) : Prop := Forall (fun e => obj e = o) u.

Lemma project_all_same o u : all_of o u -> project o u = u.
Proof.
  induction 1 as [|e u He Hu IH]; [reflexivity|]. unfold project in *. cbn [filter]. rewrite He, Z.eqb_refl, IH. reflexivity.
Qed.

Lemma project_all_other o o' u : all_of o u -> o <> o' -> project o' u = [].
Proof.
  intros H Hne. apply project_nil_if_absent. intros e He. unfold all_of in H. rewrite Forall_forall in H. rewrite (H e He). exact Hne.
Qed.

Lemma st_app_same t u o s s' : all_of o u -> st t o = inl s -> run_obj s u = inl s' -> st (t ++ u) o = inl s'.
Proof.
  unfold st. intros Hu Hs Hr. rewrite project_app, (project_all_same o u Hu). rewrite (run_obj_app _ _ _ _ Hs). exact Hr.
Qed.

Lemma st_app_other t u o o' : all_of o u -> o <> o' -> st (t ++ u) o' = st t o'.
Proof. unfold st. intros Hu Hne. rewrite project_app, (project_all_other o o' u Hu Hne), app_nil_r. reflexivity. Qed.

Lemma project_app_other t u o o' : all_of o u -> o <> o' -> project o' (t ++ u) = project o' t.
Proof. intros Hu Hne. rewrite project_app, (project_all_other o o' u Hu Hne), app_nil_r. reflexivity. Qed.

Lemma zmem_In o l : zmem o l = true <-> In o l.
Proof.
  unfold zmem. rewrite existsb_exists. split.
  - intros [x [Hin Heq]]. apply Z.eqb_eq in Heq. subst. exact Hin.
  - intros Hin. exists o. split; [exact Hin|apply Z.eqb_refl].
Qed.

Lemma zmem_notIn o l : zmem o l = false <-> ~ In o l.
Proof.
  rewrite <- zmem_In. destruct (zmem o l); split; intros H.
  - discriminate.
  - exfalso. apply H. reflexivity.
  - intros H'. discriminate.
  - reflexivity.
Qed.

Lemma zdel_In x o l : In x (zdel o l) <-> In x l /\ x <> o.
Proof.
  unfold zdel. rewrite filter_In. split; intros [H1 H2]; split; try exact H1.
  - intros ->. rewrite Z.eqb_refl in H2. discriminate.
  - apply negb_true_iff. apply Z.eqb_neq. exact H2.
Qed.

Lemma zdel_NoDup o l : NoDup l -> NoDup (zdel o l).
Proof. unfold zdel. apply NoDup_filter. Qed.

(* what is known after a prefix t of the trace: t is accepted; everything the code has, and the writer's message
   while the writer still has it, is Live; the writer's message is not among the code's; nothing outside `seen`
   occurs in t *)
Record winv (t : list lc) (c : Z) (ended : bool) (own seen : list Z) : Prop := {
  wi_acc : forall o, exists s, st t o = inl s;
  wi_own : forall o, In o own -> st t o = inl Live;
  wi_cur : ended = false -> st t c = inl Live /\ ~ In c own;
  wi_nodup : NoDup own;
  wi_fresh : forall o, ~ In o seen -> project o t = [];
  wi_sub : forall o, In o own -> In o seen;
  wi_cseen : In c seen }.

(* appending the events u of ONE object o that is Live and known *)
Lemma winv_step t u o s' c ended own seen c' ended' own' :
  winv t c ended own seen -> all_of o u -> st t o = inl Live -> run_obj Live u = inl s' -> In o seen ->
  (forall x, In x own' -> In x own /\ (x = o -> s' = Live)) ->
  (ended' = false -> (c' <> o \/ s' = Live) /\ ((ended = false /\ c' = c) \/ In c' own) /\ ~ In c' own') ->
  NoDup own' -> In c' seen ->
  winv (t ++ u) c' ended' own' seen.
Proof.
  intros I Hu Hst Hr Hos Hown Hcur Hnd Hcs. destruct I as [Iacc Iown Icur Ind Ifresh Isub Icseen].
  assert (Hso : st (t ++ u) o = inl s') by (apply (st_app_same t u o Live s' Hu Hst Hr)).
  constructor.
  - intros x. destruct (Z.eq_dec o x) as [<-|Hne]; [eexists; exact Hso|]. rewrite (st_app_other t u o x Hu Hne). apply Iacc.
  - intros x Hx. destruct (Hown x Hx) as [Hx0 Hxo]. destruct (Z.eq_dec o x) as [<-|Hne].
    + rewrite Hso, (Hxo eq_refl). reflexivity.
    + rewrite (st_app_other t u o x Hu Hne). apply Iown. exact Hx0.
  - intros He. destruct (Hcur He) as [Hc1 [Hc2 Hc3]]. split; [|exact Hc3].
    destruct (Z.eq_dec o c') as [<-|Hne].
    + destruct Hc1 as [Hc1|Hc1]; [contradiction|]. rewrite Hso, Hc1. reflexivity.
    + rewrite (st_app_other t u o c' Hu Hne). destruct Hc2 as [[He0 ->]|Hin]; [exact (proj1 (Icur He0))|exact (Iown c' Hin)].
  - exact Hnd.
  - intros x Hx. assert (o <> x) by (intros ->; contradiction). rewrite (project_app_other t u o x Hu H). apply Ifresh. exact Hx.
  - intros x Hx. apply Isub. exact (proj1 (Hown x Hx)).
  - exact Hcs.
Qed.

Lemma all_of_rel o : all_of o (rel o).          Proof. repeat constructor. Qed.
Lemma all_of_lend o : all_of o (handler_use o). Proof. repeat constructor. Qed.

Lemma wdisc_sound : forall ops t c ended own seen,
  winv t c ended own seen -> wdisc c ended own seen ops = true -> accepted (t ++ wtrace c ops).
Proof.
  induction ops as [|op ops IH]; intros t c ended own seen I H.
  - cbn [wtrace]. rewrite app_nil_r. exact (wi_acc _ _ _ _ _ I).
  - destruct op as [o|o|o|o|o|o|]; cbn [wdisc wtrace] in *.
    + (* WAcq *) apply andb_true_iff in H as [Hf H]. apply negb_true_iff, zmem_notIn in Hf.
      apply (IH t c ended (o :: own) (o :: seen)); [|exact H]. destruct I as [Iacc Iown Icur Ind Ifresh Isub Icseen]. constructor.
      * exact Iacc.
      * intros x [<-|Hx]; [unfold st; rewrite (Ifresh _ Hf); reflexivity|exact (Iown x Hx)].
      * intros He. destruct (Icur He) as [H1 H2]. split; [exact H1|]. intros [<-|Hx]; [exact (Hf Icseen)|exact (H2 Hx)].
      * constructor; [intros Hx; exact (Hf (Isub _ Hx))|exact Ind].
      * intros x Hx. apply Ifresh. intros Hs. apply Hx. right. exact Hs.
      * intros x [<-|Hx]; [left; reflexivity|right; exact (Isub x Hx)].
      * right. exact Icseen.
    + (* WRel *) apply andb_true_iff in H as [Hm H]. apply zmem_In in Hm. rewrite app_assoc.
      apply (IH (t ++ rel o) c ended (zdel o own) seen); [|exact H].
      apply (winv_step t (rel o) o Pooled c ended own seen); try exact I.
      * apply all_of_rel. * exact (wi_own _ _ _ _ _ I o Hm). * reflexivity. * exact (wi_sub _ _ _ _ _ I o Hm).
      * intros x Hx. apply zdel_In in Hx as [Hx Hne]. split; [exact Hx|intros ->; contradiction].
      * intros He. destruct (wi_cur _ _ _ _ _ I He) as [_ Hc]. split; [left; intros ->; exact (Hc Hm)|]. split; [left; split; [exact He|reflexivity]|].
        intros Hx. apply zdel_In in Hx as [Hx _]. exact (Hc Hx).
      * apply zdel_NoDup. exact (wi_nodup _ _ _ _ _ I). * exact (wi_cseen _ _ _ _ _ I).
    + (* WSet *) apply andb_true_iff in H as [Hm H]. apply andb_true_iff in Hm as [He Hm]. apply negb_true_iff in He. apply zmem_In in Hm.
      destruct (wi_cur _ _ _ _ _ I He) as [Hcl Hcn]. rewrite app_assoc.
      apply (IH (t ++ rel c) o ended (zdel o own) seen); [|exact H].
      apply (winv_step t (rel c) c Pooled c ended own seen); try exact I.
      * apply all_of_rel. * exact Hcl. * reflexivity. * exact (wi_cseen _ _ _ _ _ I).
      * intros x Hx. apply zdel_In in Hx as [Hx Hne]. split; [exact Hx|intros ->; contradiction].
      * intros _. split; [left; intros ->; exact (Hcn Hm)|]. split; [right; exact Hm|]. intros Hx. apply zdel_In in Hx as [_ Hx]. exact (Hx eq_refl).
      * apply zdel_NoDup. exact (wi_nodup _ _ _ _ _ I). * exact (wi_sub _ _ _ _ _ I o Hm).
    + (* WSwap *) apply andb_true_iff in H as [Hm H]. apply andb_true_iff in Hm as [He Hm]. apply negb_true_iff in He. apply zmem_In in Hm.
      destruct (wi_cur _ _ _ _ _ I He) as [Hcl Hcn].
      apply (IH t o ended (c :: zdel o own) seen); [|exact H]. destruct I as [Iacc Iown Icur Ind Ifresh Isub Icseen]. constructor.
      * exact Iacc.
      * intros x [<-|Hx]; [exact Hcl|]. apply zdel_In in Hx as [Hx _]. exact (Iown x Hx).
      * intros _. split; [exact (Iown o Hm)|]. intros [->|Hx]; [exact (Hcn Hm)|]. apply zdel_In in Hx as [_ Hx]. exact (Hx eq_refl).
      * constructor; [intros Hx; apply zdel_In in Hx as [Hx _]; exact (Hcn Hx)|apply zdel_NoDup; exact Ind].
      * exact Ifresh.
      * intros x [<-|Hx]; [exact Icseen|]. apply zdel_In in Hx as [Hx _]. exact (Isub x Hx).
      * exact (Isub o Hm).
    + (* WLend *) apply andb_true_iff in H as [Hm H]. apply zmem_In in Hm. rewrite app_assoc.
      apply (IH (t ++ handler_use o) c ended own seen); [|exact H].
      apply (winv_step t (handler_use o) o Live c ended own seen); try exact I.
      * apply all_of_lend. * exact (wi_own _ _ _ _ _ I o Hm). * reflexivity. * exact (wi_sub _ _ _ _ _ I o Hm).
      * intros x Hx. split; [exact Hx|reflexivity].
      * intros He. destruct (wi_cur _ _ _ _ _ I He) as [_ Hc]. split; [right; reflexivity|]. split; [left; split; [exact He|reflexivity]|exact Hc].
      * exact (wi_nodup _ _ _ _ _ I). * exact (wi_cseen _ _ _ _ _ I).
    + (* WGive *) apply andb_true_iff in H as [Hm H]. apply zmem_In in Hm.
      apply (IH t c ended (zdel o own) seen); [|exact H]. destruct I as [Iacc Iown Icur Ind Ifresh Isub Icseen]. constructor.
      * exact Iacc.
      * intros x Hx. apply zdel_In in Hx as [Hx _]. exact (Iown x Hx).
      * intros He. destruct (Icur He) as [H1 H2]. split; [exact H1|]. intros Hx. apply zdel_In in Hx as [Hx _]. exact (H2 Hx).
      * apply zdel_NoDup. exact Ind.
      * exact Ifresh.
      * intros x Hx. apply zdel_In in Hx as [Hx _]. exact (Isub x Hx).
      * exact Icseen.
    + (* WEnd *) apply andb_true_iff in H as [He H]. apply negb_true_iff in He.
      destruct (wi_cur _ _ _ _ _ I He) as [Hcl Hcn]. rewrite app_assoc.
      apply (IH (t ++ rel c) c true own seen); [|exact H].
      apply (winv_step t (rel c) c Pooled c ended own seen); try exact I.
      * apply all_of_rel. * exact Hcl. * reflexivity. * exact (wi_cseen _ _ _ _ _ I).
      * intros x Hx. split; [exact Hx|intros ->; contradiction].
      * intros Hf. discriminate.
      * exact (wi_nodup _ _ _ _ _ I). * exact (wi_cseen _ _ _ _ _ I).
Qed.

(* a receive path starts with the writer's message w and the received message m *)
Theorem wdisc_accepted : forall w m ops, w <> m -> wdisc w false [m] [w; m] ops = true -> accepted (wtrace w ops).
Proof.
  intros w m ops Hne H. change (accepted ([] ++ wtrace w ops)). apply (wdisc_sound ops [] w false [m] [w; m]); [|exact H].
  constructor.
  - intros o. exists Live. reflexivity.
  - intros o _. reflexivity.
  - intros _. split; [reflexivity|]. intros [Hx|[]]. exact (Hne (eq_sym Hx)).
  - constructor; [intros []|constructor].
  - intros o _. reflexivity.
  - intros o [<-|[]]. right. left. reflexivity.
  - left. reflexivity.
Qed.

Corollary wdisc_satisfies_property : forall w m ops, w <> m -> wdisc w false [m] [w; m] ops = true -> c12_class (wtrace w ops) = 0%N.
Proof. intros w m ops Hne H. apply accepted_satisfies_property. exact (wdisc_accepted w m ops Hne H). Qed.

Theorem wdisc_safe : forall w m ops, w <> m ->
  wdisc w false [m] [w; m] ops = true -> accepted (wtrace w ops) /\ c12_class (wtrace w ops) = 0%N.
Proof. intros w m ops Hne H. split; [exact (wdisc_accepted w m ops Hne H)|exact (wdisc_satisfies_property w m ops Hne H)]. Qed.

(* ---------- renaming ---------- *)

Lemma auto_step_ren f s e : auto_step s (ren f e) = auto_step s e.
Proof. destruct e; reflexivity. Qed.

Lemma run_obj_ren f : forall t s, run_obj s (map (ren f) t) = run_obj s t.
Proof.
  induction t as [|e t IH]; intros s; [reflexivity|]. cbn [map run_obj]. rewrite auto_step_ren.
  destruct (auto_step s e); [apply IH|reflexivity].
Qed.

Lemma obj_ren f e : obj (ren f e) = f (obj e).
Proof. destruct e; reflexivity. Qed.

Lemma project_ren f x : forall t, (forall e, In e t -> f (obj e) = f x -> obj e = x) ->
  project (f x) (map (ren f) t) = map (ren f) (project x t).
Proof.
  induction t as [|e t IH]; intros Hinj; [reflexivity|]. unfold project in *. cbn [map filter]. rewrite obj_ren.
  assert (IHt := IH (fun e' He' => Hinj e' (or_intror He'))).
  destruct (Z.eqb_spec (obj e) x) as [Heq|Hne].
  - rewrite Heq, Z.eqb_refl. cbn [map]. rewrite IHt. reflexivity.
  - destruct (Z.eqb_spec (f (obj e)) (f x)) as [Hf|Hf]; [exfalso; exact (Hne (Hinj e (or_introl eq_refl) Hf))|exact IHt].
Qed.

Theorem accepted_ren : forall f t, (forall x y, In x (objs t) -> In y (objs t) -> f x = f y -> x = y) ->
  (accepted t <-> accepted (map (ren f) t)).
Proof.
  intros f t Hinj. split; intros Hacc o.
  - destruct (in_dec Z.eq_dec o (map f (objs t))) as [Hin|Hnin].
    + apply in_map_iff in Hin as [x [<- Hx]].
      rewrite (project_ren f x t), run_obj_ren; [apply Hacc|].
      intros e He Hf. apply Hinj; [apply in_map; exact He|exact Hx|exact Hf].
    + rewrite (project_nil_if_absent o (map (ren f) t)); [exists Live; reflexivity|].
      intros e He Heq. apply in_map_iff in He as [e0 [<- He0]]. rewrite obj_ren in Heq. apply Hnin. rewrite <- Heq.
      apply in_map. apply in_map. exact He0.
  - destruct (in_dec Z.eq_dec o (objs t)) as [Hin|Hnin].
    + destruct (Hacc (f o)) as [s Hs]. rewrite (project_ren f o t), run_obj_ren in Hs; [exists s; exact Hs|].
      intros e He Hf. apply Hinj; [apply in_map; exact He|exact Hin|exact Hf].
    + rewrite (project_nil_if_absent o t); [exists Live; reflexivity|].
      intros e He Heq. apply Hnin. rewrite <- Heq. apply in_map. exact He.
Qed.

Lemma env_f_inj env n : NoDup env -> length env = n -> forall x y, 0 <= x < Z.of_nat n -> 0 <= y < Z.of_nat n -> env_f env x = env_f env y -> x = y.
Proof.
  intros Hnd Hlen x y Hx Hy Heq. unfold env_f in Heq.
  assert (Z.to_nat x = Z.to_nat y) by (apply (proj1 (NoDup_nth env 0) Hnd); [lia|lia|exact Heq]). lia.
Qed.

(* ---------- the block-wise receive path ---------- *)

Definition in_range (n : Z) (t : list lc) : bool := forallb (fun x => (0 <=? x) && (x <? n)) (objs t).

Lemma bw_receive_ops_ok : forall k sr has wc stale ops, bw_receive_ops k sr has wc stale = Some ops ->
  wdisc 0 false [1] [0; 1] ops = true /\ in_range 7 (wtrace 0 ops) = true.
Proof.
  intros k sr has wc stale ops H.
  destruct k as [[|]|[|]| | |[|]| |[|]| |]; destruct sr, has, wc, stale; cbv in H; try discriminate;
    injection H as <-; split; vm_compute; reflexivity.
Qed.

Lemma ren_env_accepted t env n : in_range (Z.of_nat n) t = true -> NoDup env -> length env = n ->
  (accepted t <-> accepted (map (ren (env_f env)) t)).
Proof.
  intros Hr Hnd Hlen. apply accepted_ren. unfold in_range in Hr. rewrite forallb_forall in Hr.
  intros x y Hx Hy. apply (env_f_inj env n Hnd Hlen).
  - specialize (Hr x Hx). apply andb_true_iff in Hr as [H1 H2]. apply Z.leb_le in H1. apply Z.ltb_lt in H2. lia.
  - specialize (Hr y Hy). apply andb_true_iff in Hr as [H1 H2]. apply Z.leb_le in H1. apply Z.ltb_lt in H2. lia.
Qed.

(* every return point of the receive path, on any seven pairwise distinct objects *)
Theorem path_bw_receive_ok : forall k sr has wc stale env, NoDup env -> length env = 7%nat ->
  accepted (path_bw_receive k sr has wc stale env).
Proof.
  intros k sr has wc stale env Hnd Hlen. unfold path_bw_receive.
  destruct (bw_receive_ops k sr has wc stale) as [ops|] eqn:E; [|apply accepted_nil].
  destruct (bw_receive_ops_ok k sr has wc stale ops E) as [Hd Hr].
  apply (ren_env_accepted (wtrace 0 ops) env 7 Hr Hnd Hlen).
  apply (wdisc_accepted 0 1 ops); [discriminate|exact Hd].
Qed.

(* the early install + release by hand: not disciplined, and rejected by the monitor on any objects *)
Theorem bw_early_install_restart_rejected : forall sr has wc env, NoDup env -> length env = 7%nat ->
  wdisc 0 false [1] [0; 1] (bw_early_install_restart_ops sr has wc) = false /\
  check (map (ren (env_f env)) (wtrace 0 (bw_early_install_restart_ops sr has wc))) <> 0%N.
Proof.
  intros sr has wc env Hnd Hlen. split; [destruct sr, has, wc; vm_compute; reflexivity|].
  intros C. apply check_accepts in C.
  apply (ren_env_accepted (wtrace 0 (bw_early_install_restart_ops sr has wc)) env 7) in C; [|destruct sr, has, wc; vm_compute; reflexivity|exact Hnd|exact Hlen].
  destruct (C 3) as [s Hs]. destruct sr, has, wc; vm_compute in Hs; discriminate.
Qed.
