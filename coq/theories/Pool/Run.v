From Coq Require Import ZArith NArith List Bool.
From GoCoap Require Import Base.Cases Pool.Model Pool.Spec Pool.Bounded.
Import ListNotations.
Open Scope Z_scope.

(* Trace: a scenario's complete lifecycle trace; maxpool = total capacity of the pools used.
   PoolSeq: what a sequential script of acquires and releases on one pool of capacity maxpool observed
   (was the released message put back? did the acquire hand out a recycled message?) *)
Inductive case :=
| Trace (maxpool : Z) (t : list lc)
| PoolSeq (maxpool : Z) (ops : list sop)
| Hung (t : list lc).   (* the scenario did not return (or panicked); t = what had been recorded by then *)

(* the observed trace must be a run of the pool automaton: classes 1-5 are ownership violations (property),
   6 means the implementation left the automaton (recycle without release, hand-out of a non-pooled object);
   a sequential script must be, step by step, what the counter model of Pool/Bounded.v predicts *)
Definition agrees (c : case) : bool :=
  match c with
  | Trace mx t => negb (N.eqb (check t) 6) && (pooled_after t <=? mx)
  | PoolSeq mx ops => seq_ok mx 0 0 ops
  | Hung _ => false   (* the model has no hanging or panicking run *)
  end.

Definition pclass (c : case) : N := match c with Trace _ t | Hung t => c12_class t | PoolSeq _ _ => 0%N end.

Definition mismatches (cs : list case) : list N := bad_indices (fun c => negb (agrees c)) cs.
Definition property_failures (cs : list case) : list (N * N) := classes pclass cs.
