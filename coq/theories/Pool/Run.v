From Coq Require Import ZArith NArith List Bool.
From GoCoap Require Import Base.Cases Pool.Model Pool.Spec Pool.Bounded Pool.HandOverModel.
Import ListNotations.
Open Scope Z_scope.

(* Trace: a scenario's complete lifecycle trace; maxpool = total capacity of the pools used.
   PoolSeq: what a sequential script of acquires and releases on one pool of capacity maxpool observed
   (was the released message put back? did the acquire hand out a recycled message?) *)
Inductive case :=
| Trace (maxpool : Z) (t : list lc)
| PoolSeq (maxpool : Z) (ops : list sop)
| Hung (t : list lc)    (* the scenario did not return (or panicked); t = what had been recorded by then *)
| Exchange (steps : list bw_step)    (* family E: the datagrams of one scripted block-wise exchange, one window each *)
| PingX (maxrt : Z) (obs : list ping_obs)   (* family K: the life of one AsyncPing, one window per finisher *)
| GiveUp (gate : Z) (reached returned : bool) (t : list lc)
| Sweep (gate : Z) (reached : bool) (entries_swept entries_end : Z) (window t : list lc)
| HandOver (k : ho_kind) (late : Z) (t : list lc).
   (* family G: a block-wise call given up while a receive path is at its gate-th access to the caller's request;
      reached = the receive path got that far; returned = Do returned while the receive path was held there *)
   (* family X: the expiry sweep of net/blockwise run while the receive path of a block is held at its gate-th access to
      the partially received message of its transfer (reached = it got that far; otherwise the sweep ran after the
      receive path had returned); entries_swept / entries_end = size of receivingMessagesCache after the sweep / at the
      end; window = the lifecycle events of the goroutine that ran the sweep, during the sweep *)

   (* family H: a response handed to the caller waiting in Do (k: the received message itself / the message reassembled
      from blocks), the application using and releasing it the moment Do returns; late = the number of accesses the
      library made to the handed-over message after the hand-over (each held until the application had released it) *)

(* ---- comparison of an observed window with the model's path, up to the names of the objects ----
   canon renames the objects in the order of their first occurrence; the hand-out of a recycled object
   (Reacq o true) starts a new object and leaves no event (the model's objects are lives, not addresses); Rec
   events are left out on both sides (a full pool refuses a release: Rel without Rec, see refused_release_safe;
   whether a Rec is legal where it stands is checked on the complete trace of the scenario) *)
Fixpoint zlookup (k : Z) (m : list (Z * Z)) : option Z :=
  match m with [] => None | (k', v) :: r => if k =? k' then Some v else zlookup k r end.

Fixpoint canon_go (m : list (Z * Z)) (n : Z) (t : list lc) : list lc :=
  match t with
  | [] => []
  | Reacq o true :: r => canon_go (filter (fun p => negb (fst p =? o)) m) n r
  | Rec _ :: r => canon_go m n r
  | e :: r => match zlookup (obj e) m with
              | Some c => ren (fun _ => c) e :: canon_go m n r
              | None => ren (fun _ => n) e :: canon_go ((obj e, n) :: m) (n + 1) r
              end
  end.
Definition canon (t : list lc) : list lc := canon_go [] 0 t.

Definition lc_eqb (a b : lc) : bool :=
  match a, b with
  | Rel x, Rel y | Rec x, Rec y | Hold x, Hold y | AppRel x, AppRel y | Use x, Use y => x =? y
  | Reacq x p, Reacq y q | Unhold x p, Unhold y q => (x =? y) && Bool.eqb p q
  | _, _ => false
  end.
Fixpoint lcs_eqb (a b : list lc) : bool :=
  match a, b with
  | [], [] => true
  | x :: r, y :: s => lc_eqb x y && lcs_eqb r s
  | _, _ => false
  end.

(* the steps of an exchange against the model: for what was observed of each datagram (bw_kind etc.) the window
   must be, event by event, the model's path (Pool/Model.v: bw_receive_ops; the copy of the sent request exists
   iff a call is in progress whose sending entry has not been deleted and a block option was decoded; a reassembly entry exists iff an earlier step left
   one), and receivingMessagesCache must hold as many entries as the model says *)
Fixpoint bw_agrees (entries dead : list Z) (steps : list bw_step) : bool :=
  match steps with
  | [] => true
  | BwStep tok call blk k wc stale n win :: r =>
      match bw_receive_ops k (bw_has_sent_request call blk dead) (zmem tok entries) wc stale with
      | None => false
      | Some ops =>
          let entries' := bw_entries_after k tok entries in
          lcs_eqb (canon win) (canon (wtrace 0 ops)) && (Z.of_nat (length entries') =? n) &&
          bw_agrees entries' (bw_dead_after k call dead) r
      end
  end.

Fixpoint bw_class (steps : list bw_step) : N :=
  match steps with
  | [] => 0%N
  | BwStep _ _ _ _ _ _ _ win :: r => let c := c12_class win in if N.eqb c 0 then bw_class r else c
  end.

(* the windows of a ping against ping_step (Pool/Model.v): the first finisher releases the ping message (the pong also
   the writer message used for the dispatch), a sweep before the last retransmission releases the copy it sent, whoever
   comes after the entry has gone does nothing *)
Fixpoint ping_agrees (maxrt : nat) (s : pstate) (next : Z) (obs : list ping_obs) : bool :=
  match obs with
  | [] => true
  | PObs f win :: r =>
      let '(s', next', w) := ping_step maxrt false s next f in
      lcs_eqb (canon win) (canon w) && ping_agrees maxrt s' next' r
  end.

Fixpoint ping_class (obs : list ping_obs) : N :=
  match obs with
  | [] => 0%N
  | PObs _ win :: r => let c := c12_class win in if N.eqb c 0 then ping_class r else c
  end.

(* the observed trace must be a run of the pool automaton: classes 1-5 are ownership violations (property),
   6 means the implementation left the automaton (recycle without release, hand-out of a non-pooled object);
   a sequential script must be, step by step, what the counter model of Pool/Bounded.v predicts *)
Definition agrees (c : case) : bool :=
  match c with
  | Trace mx t => negb (N.eqb (check t) 6) && (pooled_after t <=? mx)
  | PoolSeq mx ops => seq_ok mx 0 0 ops
  | Hung _ => false   (* the model has no hanging or panicking run *)
  | Exchange steps => bw_agrees [] [] steps
  | PingX maxrt obs => ping_agrees (Z.to_nat maxrt) (PPending 0) 1 obs
  | GiveUp _ reached returned t =>
      (* Pool/Use.v giveup_caller_waits: while a receive path that found the entry is inside its locked section the
         caller has not got past its Delete - Do cannot have returned *)
      negb (reached && returned) && negb (N.eqb (check t) 6)
  | Sweep _ _ swept fin win t =>
      (* Pool/Model.v step_s SwKeep: the sweep removes the expired entry and gives nothing back to the pool; the handler
         that goes on working on the message does not put the entry back *)
      lcs_eqb (canon win) (canon (sweep_window SwKeep 0)) && (swept =? 0) && (fin =? 0) && negb (N.eqb (check t) 6)
  | HandOver k late t =>
      (* Pool/HandOverModel.v handover_code: the receive path makes no access to the message after the channel send *)
      (late =? Z.of_nat (snd (handover_code k))) && negb (N.eqb (check t) 6)
  end.

Definition pclass (c : case) : N :=
  match c with
  | Trace _ t | Hung t | GiveUp _ _ _ t | Sweep _ _ _ _ _ t | HandOver _ _ t => c12_class t
  | PoolSeq _ _ => 0%N
  | Exchange steps => bw_class steps
  | PingX _ obs => ping_class obs
  end.

Definition mismatches (cs : list case) : list N := bad_indices (fun c => negb (agrees c)) cs.
Definition property_failures (cs : list case) : list (N * N) := classes pclass cs.
