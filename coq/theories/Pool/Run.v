From Coq Require Import ZArith NArith List Bool.
From GoCoap Require Import Base.Cases Pool.Model Pool.Spec.
Import ListNotations.
Open Scope Z_scope.

(* a scenario's complete lifecycle trace; maxpool = capacity of the pool used; o_pooled = number of messages
   the pool reported to hold at the end *)
Inductive case := Trace (maxpool : Z) (t : list lc).

(* the observed trace must be a run of the pool automaton: classes 1-5 are ownership violations (property),
   6 means the implementation left the automaton (recycle without release, hand-out of a non-pooled object) *)
Definition agrees (c : case) : bool :=
  match c with Trace mx t => negb (N.eqb (check t) 6) && (pooled_after t <=? mx) end.

Definition pclass (c : case) : N := match c with Trace _ t => c12_class t end.

Definition mismatches (cs : list case) : list N := bad_indices (fun c => negb (agrees c)) cs.
Definition property_failures (cs : list case) : list (N * N) := classes pclass cs.
