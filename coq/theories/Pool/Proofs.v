From Coq Require Import ZArith NArith List Bool Lia.
From GoCoap Require Import Pool.Model Pool.Spec.
Import ListNotations.
Open Scope Z_scope.

(* ---------- 1. the automaton's accepted traces satisfy the property as stated (Spec.scan) ---------- *)

Definition sim (s : ostate) (f : flags) : Prop :=
  match s with
  | Live => in_pool f = false /\ app_holds f = false
  | Held => in_pool f = false /\ app_holds f = true /\ app_releasing f = false
  | Releasing => in_pool f = false /\ app_releasing f = true
  | Freed | Pooled => in_pool f = true
  end.

Lemma sim_run : forall t s f, sim s f -> (exists s', run_obj s t = inl s') -> scan f t = 0%N.
Proof.
  induction t as [|e t IH]; intros s f Hs [s' Hr]; [reflexivity|].
  cbn [run_obj] in Hr. destruct (auto_step s e) as [s1|c] eqn:E; [|discriminate].
  assert (G : forall f1, sim s1 f1 -> scan f1 t = 0%N) by (intros f1 H1; apply (IH s1 f1 H1); eauto).
  destruct e as [o|o|o ok|o|o same|o|o]; destruct s; cbn [auto_step] in E; try discriminate;
    cbn [sim] in Hs; cbn [scan];
    try (destruct ok; [|discriminate]); try (destruct same; [|discriminate]);
    injection E as <-;
    repeat match goal with H : _ /\ _ |- _ => destruct H end;
    repeat match goal with H : in_pool f = _ |- _ => rewrite H end;
    repeat match goal with H : app_holds f = _ |- _ => rewrite H end;
    repeat match goal with H : app_releasing f = _ |- _ => rewrite H end;
    cbn [andb negb]; rewrite ?andb_false_r;
    apply G; cbn [sim in_pool app_holds app_releasing]; repeat split; auto.
Qed.

Definition accepted (t : list lc) : Prop := forall o, exists s, run_obj Live (project o t) = inl s.

Lemma first_class_spec t os : first_class t os = 0%N -> forall o, In o os -> exists s, run_obj Live (project o t) = inl s.
Proof.
  induction os as [|o0 os IH]; intros H o Hin; [destruct Hin|]. cbn [first_class] in H.
  destruct (run_obj Live (project o0 t)) as [s|c] eqn:E.
  - destruct Hin as [<-|Hin]; [eauto|auto].
  - (* a violation class is never 0 *)
    exfalso. clear -E H. subst c.
    assert (G : forall t s, run_obj s t <> inr 0%N).
    { induction t0 as [|e r IHr]; intros s; cbn [run_obj]; [discriminate|].
      destruct (auto_step s e) as [s1|c1] eqn:A; [apply IHr|].
      destruct e as [o|o|o ok|o|o same|o|o]; destruct s; cbn [auto_step] in A; try discriminate; try (injection A as <-; discriminate);
        try (destruct ok; [discriminate|injection A as <-; discriminate]); try (destruct same; [discriminate|injection A as <-; discriminate]). }
    exact (G _ _ E).
Qed.

Lemma objects_complete : forall t acc e, In e t -> In (obj e) (objects t acc).
Proof.
  assert (Mono : forall t acc x, In x acc -> In x (objects t acc)).
  { induction t as [|e t IH]; intros acc x H; cbn [objects]; [exact H|].
    destruct (existsb (Z.eqb (obj e)) acc); apply IH; [exact H|right; exact H]. }
  induction t as [|e0 t IH]; intros acc e Hin; [destruct Hin|]. cbn [objects].
  destruct Hin as [->|Hin].
  - destruct (existsb (Z.eqb (obj e)) acc) eqn:X.
    + apply Mono. apply existsb_exists in X as [x [Hx Hq]]. apply Z.eqb_eq in Hq. subst. exact Hx.
    + apply Mono. left. reflexivity.
  - destruct (existsb (Z.eqb (obj e0)) acc); apply IH; exact Hin.
Qed.

Lemma project_nil_if_absent o t : (forall e, In e t -> obj e <> o) -> project o t = [].
Proof.
  induction t as [|e t IH]; intros H; [reflexivity|]. cbn [project filter].
  destruct (Z.eqb_spec (obj e) o) as [E|E]; [exfalso; apply (H e); [left; reflexivity|exact E]|].
  apply IH. intros e' Hin. apply H. right. exact Hin.
Qed.

Theorem check_accepts : forall t, check t = 0%N -> accepted t.
Proof.
  intros t H o. destruct (in_dec Z.eq_dec o (objects t [])) as [Hin|Hn].
  - apply (first_class_spec t _ H o Hin).
  - rewrite project_nil_if_absent; [eexists; reflexivity|].
    intros e He E. apply Hn. rewrite <- E. apply objects_complete. exact He.
Qed.

Lemma spec_first_zero t : forall os, (forall o, In o os -> scan {| in_pool := false; app_holds := false; app_releasing := false |} (project o t) = 0%N) ->
  spec_first t os = 0%N.
Proof.
  induction os as [|o os IH]; intros H; [reflexivity|]. cbn [spec_first].
  rewrite (H o (or_introl eq_refl)). cbn. apply IH. intros o' Hin. apply H. right. exact Hin.
Qed.

(* every trace accepted by the ownership automaton satisfies C12 as stated *)
Theorem accepted_satisfies_property : forall t, accepted t -> c12_class t = 0%N.
Proof.
  intros t H. unfold c12_class. apply spec_first_zero. intros o _.
  apply (sim_run _ Live); [split; reflexivity|apply H].
Qed.

(* ---------- 2. interleaving: paths that use disjoint objects cannot disturb each other ---------- *)

Inductive merge : list lc -> list lc -> list lc -> Prop :=
| merge_nil : merge [] [] []
| merge_l e a b t : merge a b t -> merge (e :: a) b (e :: t)
| merge_r e a b t : merge a b t -> merge a (e :: b) (e :: t).

Lemma project_merge_l o a b t : merge a b t -> (forall e, In e b -> obj e <> o) -> project o t = project o a.
Proof.
  induction 1 as [|e a b t M IH|e a b t M IH]; intros H; [reflexivity| |].
  - cbn [project filter]. unfold project in IH. rewrite IH by exact H. reflexivity.
  - cbn [project filter]. destruct (Z.eqb_spec (obj e) o) as [E|E].
    + exfalso. apply (H e); [left; reflexivity|exact E].
    + apply IH. intros e' Hin. apply H. right. exact Hin.
Qed.

Lemma merge_sym a b t : merge a b t -> merge b a t.
Proof. induction 1; constructor; assumption. Qed.

Definition disjoint (a b : list lc) : Prop := forall x y, In x a -> In y b -> obj x <> obj y.

Theorem interleaving_safe : forall a b t, merge a b t -> disjoint a b -> accepted a -> accepted b -> accepted t.
Proof.
  intros a b t M D Ha Hb o.
  destruct (in_dec Z.eq_dec o (map obj b)) as [Hin|Hn].
  - (* o belongs to b: no event of a touches it *)
    rewrite (project_merge_l o b a t (merge_sym _ _ _ M)); [apply Hb|].
    intros e He E. apply in_map_iff in Hin as [y [Hy Hyin]]. apply (D e y He Hyin). congruence.
  - rewrite (project_merge_l o a b t M); [apply Ha|].
    intros e He E. apply Hn. apply in_map_iff. exists e. split; assumption.
Qed.

(* ---------- 3. the library's paths are accepted ---------- *)

Ltac path_case o :=
  repeat match goal with
  | |- context [?x =? o] => destruct (Z.eqb_spec x o); subst
  end.

Theorem path_receive_ok : forall req resp, req <> resp -> accepted (path_receive req resp).
Proof.
  intros req resp Hne o. unfold path_receive, project. cbn [filter obj].
  destruct (Z.eqb_spec req o) as [E1|E1]; destruct (Z.eqb_spec resp o) as [E2|E2]; subst; try contradiction; cbn; eauto.
Qed.

Theorem path_receive_hijacked_ok : forall msg resp, msg <> resp -> accepted (path_receive_hijacked msg resp).
Proof.
  intros msg resp Hne o. unfold path_receive_hijacked, project. cbn [filter obj].
  destruct (Z.eqb_spec msg o) as [E1|E1]; destruct (Z.eqb_spec resp o) as [E2|E2]; subst; try contradiction; cbn; eauto.
Qed.

Lemma run_obj_app s t1 t2 s1 : run_obj s t1 = inl s1 -> run_obj s (t1 ++ t2) = run_obj s1 t2.
Proof.
  revert s. induction t1 as [|e t1 IH]; intros s H; cbn [run_obj app] in *; [injection H as <-; reflexivity|].
  destruct (auto_step s e); [apply IH; exact H|discriminate].
Qed.

Lemma project_app o a b : project o (a ++ b) = project o a ++ project o b.
Proof. unfold project. apply filter_app. Qed.

(* temporaries of retransmissions: each is released once; distinct from each other and from req/clone *)
Theorem path_request_ok : forall req clone tmps,
  NoDup (req :: clone :: tmps) -> accepted (path_request req clone tmps).
Proof.
  intros req clone tmps Hnd o. unfold path_request. rewrite project_app.
  inversion Hnd as [|? ? Hr Hnd1]; subst. inversion Hnd1 as [|? ? Hc Hnd2]; subst.
  assert (Htmp : forall l, NoDup l -> (In o l -> run_obj Live (project o (concat (map (fun t => [Rel t; Rec t]) l))) = inl Pooled)
                          /\ (~ In o l -> project o (concat (map (fun t => [Rel t; Rec t]) l)) = [])).
  { induction l as [|x l IH]; intros Hl; [split; [intros []|reflexivity]|].
    inversion Hl as [|? ? Hx Hl']; subst. destruct (IH Hl') as [I1 I2]. cbn [map concat]. rewrite project_app.
    split.
    - intros [->|Hin].
      + unfold project at 1. cbn [filter obj]. rewrite Z.eqb_refl. cbn [app]. rewrite I2 by exact Hx. reflexivity.
      + assert (x <> o) by (intros ->; contradiction).
        unfold project at 1. cbn [filter obj]. destruct (Z.eqb_spec x o); [contradiction|]. cbn [app]. apply I1; exact Hin.
    - intros Hn. unfold project at 1. cbn [filter obj].
      destruct (Z.eqb_spec x o) as [->|_]; [exfalso; apply Hn; left; reflexivity|]. cbn [app]. apply I2. intros H. apply Hn. right; exact H. }
  destruct (Htmp tmps Hnd2) as [T1 T2].
  destruct (in_dec Z.eq_dec o tmps) as [Hin|Hn].
  - (* o is a temporary: the tail does not mention it *)
    assert (o <> req) by (intros ->; apply Hr; right; exact Hin).
    assert (o <> clone) by (intros ->; apply Hc; exact Hin).
    rewrite (run_obj_app _ _ _ _ (T1 Hin)). unfold project. cbn [filter obj].
    destruct (Z.eqb_spec clone o); [congruence|]. destruct (Z.eqb_spec req o); [congruence|]. cbn. eauto.
  - rewrite (T2 Hn). cbn [app]. unfold project. cbn [filter obj].
    assert (req <> clone) by (intros ->; apply Hr; left; reflexivity).
    destruct (Z.eqb_spec clone o); destruct (Z.eqb_spec req o); subst; try contradiction; cbn; eauto.
Qed.

(* a message released twice, or released by the library while the application holds it, is rejected *)
Theorem double_release_rejected : forall o pre, run_obj Live (project o pre) = inl Pooled ->
  check (pre ++ [Rel o]) <> 0%N.
Proof.
  intros o pre H C. apply check_accepts in C. destruct (C o) as [s Hs].
  rewrite project_app, (run_obj_app _ _ _ _ H) in Hs. unfold project in Hs. cbn [filter obj] in Hs.
  rewrite Z.eqb_refl in Hs. cbn in Hs. discriminate.
Qed.

Theorem release_while_held_rejected : forall o pre, run_obj Live (project o pre) = inl Held ->
  check (pre ++ [Rel o]) <> 0%N.
Proof.
  intros o pre H C. apply check_accepts in C. destruct (C o) as [s Hs].
  rewrite project_app, (run_obj_app _ _ _ _ H) in Hs. unfold project in Hs. cbn [filter obj] in Hs.
  rewrite Z.eqb_refl in Hs. cbn in Hs. discriminate.
Qed.

(* ---------- 4. n-ary interleavings ---------- *)

(* t is an interleaving of the traces ls: every step takes the head of one of them *)
Inductive interleave : list (list lc) -> list lc -> Prop :=
| il_nil : forall ls, Forall (fun l => l = []) ls -> interleave ls []
| il_cons : forall pre e a post t, interleave (pre ++ a :: post) t -> interleave (pre ++ (e :: a) :: post) (e :: t).

Definition pairwise_disjoint (ls : list (list lc)) : Prop := ForallOrdPairs disjoint ls.

Lemma merge_nil_l t : merge [] t t.
Proof. induction t; constructor; assumption. Qed.

Lemma merge_app a b : merge a b (a ++ b).
Proof. induction a as [|e a IH]; [apply merge_nil_l|constructor; exact IH]. Qed.

(* an interleaving of l :: ls is a binary merge of l with an interleaving of ls *)
Lemma interleave_split : forall lls t, interleave lls t -> forall l ls, lls = l :: ls ->
  exists t', interleave ls t' /\ merge l t' t.
Proof.
  induction 1 as [lls Hall|pre e a post t Hil IH]; intros l ls Heq.
  - subst lls. inversion Hall as [|? ? Hl Hls]; subst. exists []. split; [constructor; exact Hls|constructor].
  - destruct pre as [|p0 pre'].
    + cbn [app] in Heq. injection Heq as <- <-.
      destruct (IH a post eq_refl) as [t' [I M]]. exists t'. split; [exact I|constructor; exact M].
    + cbn [app] in Heq. injection Heq as <- <-.
      destruct (IH p0 (pre' ++ a :: post) eq_refl) as [t' [I M]].
      exists (e :: t'). split; [constructor; exact I|constructor; exact M].
Qed.

Lemma interleave_In : forall ls t, interleave ls t -> forall x, In x t -> exists l, In l ls /\ In x l.
Proof.
  induction 1 as [ls Hall|pre e a post t Hil IH]; intros x Hx; [destruct Hx|].
  destruct Hx as [<-|Hx].
  - exists (e :: a). split; [apply in_or_app; right; left; reflexivity|left; reflexivity].
  - destruct (IH x Hx) as [l [Hl Hxl]]. apply in_app_or in Hl as [Hl|[<-|Hl]].
    + exists l. split; [apply in_or_app; left; exact Hl|exact Hxl].
    + exists (e :: a). split; [apply in_or_app; right; left; reflexivity|right; exact Hxl].
    + exists l. split; [apply in_or_app; right; right; exact Hl|exact Hxl].
Qed.

Lemma accepted_nil : accepted [].
Proof. intros o. exists Live. reflexivity. Qed.

Theorem interleaving_safe_n : forall ls t, interleave ls t -> pairwise_disjoint ls -> Forall accepted ls -> accepted t.
Proof.
  induction ls as [|l ls IH]; intros t Hil Hd Ha.
  - inversion Hil as [? ?|pre e a post t0 ? Heq]; subst; [apply accepted_nil|].
    destruct pre; discriminate.
  - destruct (interleave_split _ _ Hil l ls eq_refl) as [t' [I M]].
    inversion Hd as [|? ? Hhead Htail]; subst. inversion Ha as [|? ? Hal Hals]; subst.
    apply (interleaving_safe l t' t M); [|exact Hal|apply IH; assumption].
    intros x y Hx Hy. destruct (interleave_In _ _ I y Hy) as [l' [Hl' Hyl']].
    rewrite Forall_forall in Hhead. exact (Hhead l' Hl' x y Hx Hyl').
Qed.

(* running the traces one after the other is one of the interleavings *)
Lemma interleave_concat : forall ls, interleave ls (concat ls).
Proof.
  assert (G : forall rest done, Forall (fun l => l = []) done -> interleave (done ++ rest) (concat rest)).
  { induction rest as [|l rest IHr]; intros done Hd.
    - rewrite app_nil_r. constructor. exact Hd.
    - revert done Hd. induction l as [|e l IHl]; intros done Hd.
      + cbn [concat app]. replace (done ++ [] :: rest) with ((done ++ [[]]) ++ rest) by (rewrite <- app_assoc; reflexivity).
        apply IHr. apply Forall_app. split; [exact Hd|constructor; [reflexivity|constructor]].
      + cbn [concat app]. apply (il_cons done e l rest). apply (IHl done Hd). }
  intros ls. apply (G ls []). constructor.
Qed.

Lemma disjoint_sym a b : disjoint a b -> disjoint b a.
Proof. intros H x y Hx Hy E. exact (H y x Hy Hx (eq_sym E)). Qed.

Lemma accepted_app a b : accepted a -> accepted b -> disjoint a b -> accepted (a ++ b).
Proof. intros Ha Hb D. exact (interleaving_safe a b (a ++ b) (merge_app a b) D Ha Hb). Qed.

(* ---------- 5. a release the pool refuses (the pool is full: no Rec event) ---------- *)

Lemma run_obj_prefix : forall t1 t2 s s', run_obj s (t1 ++ t2) = inl s' -> exists s1, run_obj s t1 = inl s1.
Proof.
  induction t1 as [|e t1 IH]; intros t2 s s' H; [eexists; reflexivity|].
  cbn [app run_obj] in *. destruct (auto_step s e) as [s1|c]; [exact (IH t2 s1 s' H)|discriminate].
Qed.

(* dropping a Rec event after which its object is not used any more (it was not put back, so nobody can get it
   from the pool) keeps a trace accepted: every path theorem also covers its variants under a full pool *)
Theorem refused_release_safe : forall a o b,
  accepted (a ++ Rec o :: b) -> (forall e, In e b -> obj e <> o) -> accepted (a ++ b).
Proof.
  intros a o b H Hb o'. destruct (H o') as [s Hs]. rewrite project_app in *.
  destruct (Z.eq_dec o o') as [<-|Hne].
  - rewrite (project_nil_if_absent o b Hb), app_nil_r. exact (run_obj_prefix _ _ _ _ Hs).
  - replace (project o' (Rec o :: b)) with (project o' b) in Hs; [eauto|].
    unfold project. cbn [filter obj]. destruct (Z.eqb_spec o o'); [contradiction|reflexivity].
Qed.
