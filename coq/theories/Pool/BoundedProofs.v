(* The pool never holds more than maxNumMessages messages, under any interleaving of acquires and releases. *)
From Coq Require Import ZArith NArith List Bool Lia.
From GoCoap Require Import Pool.Bounded.
Import ListNotations.
Open Scope Z_scope.

Definition cnt (p : thread -> bool) (l : list thread) : Z := Z.of_nat (length (filter p l)).
Definition b2z (b : bool) : Z := if b then 1 else 0.
Definition isCASed (th : thread) : bool := match at_ th with RelCASed => true | _ => false end.
Definition isGot (th : thread) : bool := match at_ th with AcqGot => true | _ => false end.

Lemma cnt_cons p x l : cnt p (x :: l) = b2z (p x) + cnt p l.
Proof. unfold cnt, b2z. cbn [filter]. destruct (p x); cbn [length]; lia. Qed.

Lemma cnt_upd p : forall l i th x, nth_error l i = Some th -> cnt p (upd i x l) = cnt p l - b2z (p th) + b2z (p x).
Proof.
  induction l as [|y l IH]; intros i th x H; [destruct i; discriminate|].
  destruct i as [|j].
  - cbn in H. injection H as ->. cbn [upd]. rewrite !cnt_cons. lia.
  - cbn [nth_error] in H. cbn [upd]. rewrite !cnt_cons. rewrite (IH j th x H). lia.
Qed.

Lemma cnt_nonneg p l : 0 <= cnt p l.
Proof. unfold cnt. lia. Qed.

(* counter = pooled objects + releases between CAS and Put + acquires between Get and Dec + objects lost to the GC *)
Definition inv (mx : Z) (s : pst) : Prop :=
  0 <= inpool s /\ inpool s + cnt isCASed (threads s) + cnt isGot (threads s) <= counter s /\ counter s <= mx.

Lemma step_inv mx s c : 0 <= mx -> inv mx s -> inv mx (step mx s c).
Proof.
  intros Hmx [H0 [H1 H2]]. destruct c as [i take|].
  - cbn [step]. destruct (nth_error (threads s) i) as [th|] eqn:En; [|repeat split; assumption].
    pose proof (cnt_upd isCASed (threads s) i th) as UC. pose proof (cnt_upd isGot (threads s) i th) as UG.
    specialize (fun x => UC x En). specialize (fun x => UG x En).
    assert (Hc : isCASed th = match at_ th with RelCASed => true | _ => false end) by reflexivity.
    assert (Hg : isGot th = match at_ th with AcqGot => true | _ => false end) by reflexivity.
    revert Hc Hg.
    destruct (at_ th) as [|v| |]; destruct (prog th) as [|[|] r]; intros Hc Hg;
      try (repeat split; assumption);
      repeat match goal with
      | |- context [if ?b then _ else _] => destruct b eqn:?
      end;
      unfold inv; cbn [counter inpool threads]; rewrite ?UC, ?UG, ?Hc, ?Hg;
      change (isCASed (mkT ?p ?a)) with (match a with RelCASed => true | _ => false end);
      change (isGot (mkT ?p ?a)) with (match a with AcqGot => true | _ => false end); cbn [b2z];
      repeat match goal with
      | H : _ && _ = true |- _ => apply andb_prop in H as [? ?]
      | H : (_ <? _) = true |- _ => apply Z.ltb_lt in H
      | H : (_ <=? _) = false |- _ => apply Z.leb_gt in H
      | H : (_ =? _) = true |- _ => apply Z.eqb_eq in H
      end; lia.
  - cbn [step]. destruct (0 <? inpool s) eqn:E; [|repeat split; assumption].
    apply Z.ltb_lt in E. unfold inv. cbn [counter inpool threads]. lia.
Qed.

Lemma init_inv mx progs : 0 <= mx -> inv mx (init progs).
Proof.
  intros Hmx. unfold inv, init. cbn [counter inpool threads].
  assert (Z : forall p, (forall th, at_ th = Idle -> p th = false) -> cnt p (map (fun q => mkT q Idle) progs) = 0).
  { intros p Hp. induction progs as [|q progs IH]; [reflexivity|]. cbn [map]. rewrite cnt_cons, IH, Hp; reflexivity. }
  rewrite !Z by (intros th E; unfold isCASed, isGot; rewrite E; reflexivity). lia.
Qed.

Lemma run_inv mx progs sched : 0 <= mx -> inv mx (run mx progs sched).
Proof.
  intros Hmx. unfold run. generalize (init_inv mx progs Hmx). generalize (init progs).
  induction sched as [|c sched IH]; intros s Hs; [exact Hs|]. cbn [fold_left]. apply IH. apply step_inv; assumption.
Qed.

(* under any number of threads, any programs and any schedule (the statement holds for every prefix of a schedule,
   a prefix being a schedule), the pool holds between 0 and maxNumMessages objects and so says its counter *)
Theorem pool_bounded : forall mx progs sched, 0 <= mx ->
  0 <= inpool (run mx progs sched) <= mx /\ 0 <= counter (run mx progs sched) <= mx.
Proof.
  intros mx progs sched Hmx. destruct (run_inv mx progs sched Hmx) as [H0 [H1 H2]].
  pose proof (cnt_nonneg isCASed (threads (run mx progs sched))). pose proof (cnt_nonneg isGot (threads (run mx progs sched))). lia.
Qed.

(* a bound of zero (pool.New(0, 0), the default of the servers) pools nothing *)
Corollary pool_zero_never_pools : forall progs sched, inpool (run 0 progs sched) = 0.
Proof. intros. pose proof (pool_bounded 0 progs sched (Z.le_refl 0)). lia. Qed.

(* ---- the sequential checker used on observed scripts is the threaded model with one thread ---- *)

Definition op_of (o : sop) : op := match o with SRel _ => ORel | SAcq _ => OAcq end.

Fixpoint seq_sched (mx c : Z) (ops : list sop) : list choice :=
  match ops with
  | [] => []
  | SRel _ :: rest =>
      if c <? mx then [Step 0 true; Step 0 true; Step 0 true] ++ seq_sched mx (c + 1) rest
      else [Step 0 true; Step 0 true] ++ seq_sched mx c rest
  | SAcq g :: rest =>
      if g then [Step 0 true; Step 0 true] ++ seq_sched mx (c - 1) rest else [Step 0 false] ++ seq_sched mx c rest
  end.

Fixpoint seq_final (mx c n : Z) (ops : list sop) : Z * Z :=
  match ops with
  | [] => (c, n)
  | SRel _ :: rest => if c <? mx then seq_final mx (c + 1) (n + 1) rest else seq_final mx c n rest
  | SAcq g :: rest => if g then seq_final mx (c - 1) (n - 1) rest else seq_final mx c n rest
  end.

Theorem seq_ok_is_a_run : forall mx ops c n, seq_ok mx c n ops = true ->
  fold_left (step mx) (seq_sched mx c ops) (mkP c n [mkT (map op_of ops) Idle]) =
  mkP (fst (seq_final mx c n ops)) (snd (seq_final mx c n ops)) [mkT [] Idle].
Proof.
  induction ops as [|o ops IH]; intros c n H; [reflexivity|].
  destruct o as [g|r]; cbn [seq_ok] in H; cbn [seq_sched seq_final map op_of].
  - destruct g.
    + apply andb_prop in H as [Hn H]. rewrite fold_left_app. cbn [fold_left step nth_error threads at_ prog upd counter inpool].
      rewrite Hn. cbn [andb]. cbn [fold_left step nth_error threads at_ prog upd counter inpool]. apply IH. exact H.
    + rewrite fold_left_app. cbn [fold_left step nth_error threads at_ prog upd counter inpool andb]. apply IH. exact H.
  - destruct (c <? mx) eqn:E.
    + destruct r; cbn [Bool.eqb] in H; [|discriminate].
      rewrite fold_left_app. cbn [fold_left step nth_error threads at_ prog upd counter inpool].
      assert (E2 : mx <=? c = false) by (apply Z.leb_gt; apply Z.ltb_lt in E; exact E). rewrite E2, Z.eqb_refl.
      cbn [fold_left step nth_error threads at_ prog upd counter inpool]. apply IH. exact H.
    + destruct r; cbn [Bool.eqb] in H; [discriminate|].
      rewrite fold_left_app. cbn [fold_left step nth_error threads at_ prog upd counter inpool].
      assert (E2 : mx <=? c = true) by (apply Z.leb_le; apply Z.ltb_ge in E; exact E). rewrite E2.
      cbn [fold_left]. apply IH. exact H.
Qed.
