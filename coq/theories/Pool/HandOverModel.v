(* ================================================================================================
   The hand-over of a response to the caller that waits for it (round 5).

   udp/client doInternal registers a token handler `func(_, r) { r.Hijack(); select { case respChan <- r: default: } }`
   and waits in `select { ... case resp := <-respChan: return resp, nil }`.  The receive path
   (ProcessReceivedMessageWithHandler -> handleReq -> Conn.handle -> [BlockWise.Handle -> handleReceivedMessage ->
   processReceivedMessage ->] next -> token handler) works on the message c it is going to hand over - the received
   message itself, or, when the response came in blocks, the message reassembled in receivingMessagesCache - and
   then sends it into the channel.  From the channel send on c belongs to the caller: Do returns it, the
   application looks at it and releases it whenever it likes, concurrently with what the receive path still has to
   do (write the empty ACK of a separate response, release the writer message, the copy of the sent request, the
   received last block).

   Step model over the one object c.  Thread 0 is the receive path: `pre` accesses to c (Use c each), the channel
   send (one step, no event), `post` accesses to c afterwards (Use c each; the code as it is has none: see
   handover_code).  Every other thread id is the caller: it waits for the channel (stutters until the send has
   happened), gets c (Do returns), then Hold c / Unhold c true (the application reads the response), AppRel c,
   Rel c (ReleaseMessage entered), Rec c (reset and back in the pool; a schedule that stops before this step is a
   full pool refusing the release).  One access to shared state per step, arbitrary schedules. *)
From Coq Require Import ZArith NArith List Bool.
From GoCoap Require Import Pool.Model.
Import ListNotations.
Open Scope Z_scope.

Inductive ho_rpc :=
| HoPre (pre post : nat)   (* before the channel send: pre accesses to go, post accesses will follow the send *)
| HoPost (post : nat).     (* the message is in the channel / with the caller: post accesses of the receive path to go *)

Inductive ho_cpc :=
| HC0   (* waiting in doInternal's select *)
| HC1   (* got the message: Do has returned *)
| HC2   (* the application looks at it (Hold) *)
| HC3   (* ... is through (Unhold) *)
| HC4   (* announced the release (AppRel) *)
| HC5   (* ReleaseMessage entered (Rel) *)
| HC6.  (* recycled (Rec) *)

Record ho_state := { ho_r : ho_rpc; ho_c : ho_cpc; ho_trace : list lc }.

Definition ho_handed (r : ho_rpc) : bool := match r with HoPost _ => true | HoPre _ _ => false end.
(* accesses of the receive path to c that come AFTER the hand-over and are still to be made *)
Definition ho_late (r : ho_rpc) : nat := match r with HoPre _ p => p | HoPost p => p end.

Definition ho_step_r (c : Z) (st : ho_state) : ho_state :=
  match ho_r st with
  | HoPre (S k) p => {| ho_r := HoPre k p; ho_c := ho_c st; ho_trace := ho_trace st ++ [Use c] |}
  | HoPre O p => {| ho_r := HoPost p; ho_c := ho_c st; ho_trace := ho_trace st |}
  | HoPost (S p) => {| ho_r := HoPost p; ho_c := ho_c st; ho_trace := ho_trace st ++ [Use c] |}
  | HoPost O => st
  end.

Definition ho_step_c (c : Z) (st : ho_state) : ho_state :=
  match ho_c st with
  | HC0 => if ho_handed (ho_r st) then {| ho_r := ho_r st; ho_c := HC1; ho_trace := ho_trace st |} else st
  | HC1 => {| ho_r := ho_r st; ho_c := HC2; ho_trace := ho_trace st ++ [Hold c] |}
  | HC2 => {| ho_r := ho_r st; ho_c := HC3; ho_trace := ho_trace st ++ [Unhold c true] |}
  | HC3 => {| ho_r := ho_r st; ho_c := HC4; ho_trace := ho_trace st ++ [AppRel c] |}
  | HC4 => {| ho_r := ho_r st; ho_c := HC5; ho_trace := ho_trace st ++ [Rel c] |}
  | HC5 => {| ho_r := ho_r st; ho_c := HC6; ho_trace := ho_trace st ++ [Rec c] |}
  | HC6 => st
  end.

Definition ho_step (c : Z) (st : ho_state) (tid : nat) : ho_state :=
  match tid with O => ho_step_r c st | S _ => ho_step_c c st end.

Definition ho_run (c : Z) (sched : list nat) (st : ho_state) : ho_state := fold_left (ho_step c) sched st.

Definition ho_init (pre post : nat) : ho_state := {| ho_r := HoPre pre post; ho_c := HC0; ho_trace := [] |}.

(* How the response reaches the caller: the received message itself (a response in one piece) or the message
   reassembled from the blocks of a block-wise response. *)
Inductive ho_kind := HoDirect | HoReassembled.

(* The code as it is, (pre, post).  HoDirect: Conn.handleReq reads the type and the message ID of the received
   message BEFORE Conn.handle (`reqType`, `reqMessageID`) and passes the copies to processResponse; the token handler
   does nothing after the send; ProcessReceivedMessageWithHandler afterwards looks only at the hijack flag, which is
   not content of the message (an atomic that outlives a release, notes O6 / O10).  HoReassembled:
   processReceivedMessage compares the token of the reassembled message with the token of the exchange and drops the
   request issued for a block-wise notification BEFORE next(w, cachedReceivedMessage) and returns right after it.
   The number of accesses before the send does not matter (they are made while the caller still waits: 2 stands for
   "some"). *)
Definition handover_code (k : ho_kind) : nat * nat :=
  match k with HoDirect => (2%nat, 0%nat) | HoReassembled => (2%nat, 0%nat) end.

(* the two seeded variants: handleReq evaluating req.Type() after Conn.handle; processReceivedMessage reading
   cachedReceivedMessage.Token() after next *)
Definition handover_late_type_read : nat * nat := (2%nat, 1%nat).
Definition handover_late_token_read : nat * nat := (2%nat, 1%nat).
