(* The pool's counter (message/pool/pool.go).  ReleaseMessage:
       for { v := currentMessagesInPool.Load()
             if v >= maxNumMessages { return }              -- dropped, left to the GC
             if currentMessagesInPool.CompareAndSwap(v, v+1) { break } }
       req.Reset(); messagePool.Put(req)
   AcquireMessage:
       v := messagePool.Get(); if v == nil { return NewMessage(ctx) }
       currentMessagesInPool.Dec(); return v
   Every atomic access is one step of a thread; the threads run arbitrary programs of acquires and
   releases and are interleaved by an arbitrary schedule.  sync.Pool may return nil although it holds
   objects (another P's private slot) and the GC may drop pooled objects: both are choices of the schedule. *)
From Coq Require Import ZArith NArith List Bool.
Import ListNotations.
Open Scope Z_scope.

Inductive op := OAcq | ORel.

Inductive pc :=
| Idle                 (* between two operations *)
| RelLoaded (v : Z)    (* ReleaseMessage: Load returned v *)
| RelCASed             (* ReleaseMessage: CompareAndSwap succeeded, Put not yet done *)
| AcqGot.              (* AcquireMessage: Get returned an object, Dec not yet done *)

Record thread := mkT { prog : list op; at_ : pc }.

Record pst := mkP { counter : Z; inpool : Z; threads : list thread }.

Inductive choice :=
| Step (i : nat) (take : bool)   (* thread i takes its next atomic step; take: sync.Pool.Get finds an object if there is one *)
| GC.                            (* the garbage collector drops one pooled object *)

Fixpoint upd {A} (i : nat) (x : A) (l : list A) : list A :=
  match l, i with
  | [], _ => []
  | _ :: r, O => x :: r
  | y :: r, S j => y :: upd j x r
  end.

Definition step (mx : Z) (s : pst) (c : choice) : pst :=
  match c with
  | GC => if 0 <? inpool s then mkP (counter s) (inpool s - 1) (threads s) else s
  | Step i take =>
      match nth_error (threads s) i with
      | None => s
      | Some th =>
          let set t := upd i t (threads s) in
          match at_ th, prog th with
          | Idle, ORel :: _ => mkP (counter s) (inpool s) (set (mkT (prog th) (RelLoaded (counter s))))
          | RelLoaded v, _ :: r =>
              if mx <=? v then mkP (counter s) (inpool s) (set (mkT r Idle))                            (* pool full: dropped *)
              else if counter s =? v then mkP (v + 1) (inpool s) (set (mkT (prog th) RelCASed))         (* CAS succeeded *)
              else mkP (counter s) (inpool s) (set (mkT (prog th) Idle))                                (* CAS failed: load again *)
          | RelCASed, _ :: r => mkP (counter s) (inpool s + 1) (set (mkT r Idle))                       (* Put *)
          | Idle, OAcq :: r =>
              if take && (0 <? inpool s) then mkP (counter s) (inpool s - 1) (set (mkT (prog th) AcqGot))
              else mkP (counter s) (inpool s) (set (mkT r Idle))                                        (* nil: NewMessage *)
          | AcqGot, _ :: r => mkP (counter s - 1) (inpool s) (set (mkT r Idle))                         (* Dec *)
          | _, _ => s
          end
      end
  end.

Definition init (progs : list (list op)) : pst := mkP 0 0 (map (fun p => mkT p Idle) progs).

Definition run (mx : Z) (progs : list (list op)) (sched : list choice) : pst := fold_left (step mx) sched (init progs).

(* ---- what a sequential script observes (harness family Q) ---- *)

Inductive sop :=
| SAcq (got : bool)        (* AcquireMessage; got: the pool handed out a recycled message *)
| SRel (recycled : bool).  (* ReleaseMessage; recycled: the message was put back *)

(* counter and number of pooled objects as the counter model predicts them; false = the observation deviates *)
Fixpoint seq_ok (mx : Z) (c n : Z) (ops : list sop) : bool :=
  match ops with
  | [] => true
  | SRel r :: rest =>
      if Bool.eqb r (c <? mx) then (if r then seq_ok mx (c + 1) (n + 1) rest else seq_ok mx c n rest) else false
  | SAcq g :: rest =>
      if g then (0 <? n) && seq_ok mx (c - 1) (n - 1) rest else seq_ok mx c n rest
  end.

(* number of refused releases in a script (for the harness' non-triviality rule) *)
Definition refused (ops : list sop) : nat := length (filter (fun o => match o with SRel false => true | _ => false end) ops).
