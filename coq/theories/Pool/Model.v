(* Ownership model of pooled messages (message/pool/pool.go + the library's
   acquire/release protocol).  A trace is the global order of lifecycle events
   reported by the verif hook in the pool (Rel, Rec, Reacq) and by the
   application side of the harness (Hold, Unhold, AppRel).  Objects are numbered
   by the harness at first sight; an object that was never seen before is a
   fresh allocation (NewMessage) and starts Live. *)
From Coq Require Import ZArith NArith List Bool.
Import ListNotations.
Open Scope Z_scope.

Inductive lc :=
| Rel (o : Z)                 (* Pool.ReleaseMessage(o) entered *)
| Rec (o : Z)                 (* o was Reset and put back into the pool *)
| Reacq (o : Z) (poison_ok : bool)  (* Pool.AcquireMessage handed out the recycled o; poison pattern intact? *)
| Hold (o : Z)                (* the application legitimately holds o from now on *)
| Unhold (o : Z) (same : bool)(* the hold ends; content unchanged since Hold? *)
| AppRel (o : Z).             (* the application itself is about to release o *)

Definition obj (e : lc) : Z :=
  match e with Rel o | Rec o | Reacq o _ | Hold o | Unhold o _ | AppRel o => o end.

Inductive ostate :=
| Live        (* owned by the library or by the application, not in the pool *)
| Held        (* handed to the application (request in a handler, response of a call, notification) *)
| Releasing   (* the application announced that it releases it *)
| Freed       (* ReleaseMessage entered *)
| Pooled.     (* reset and back in the pool *)

(* result of feeding one event to the per-object automaton: next state or a violation class
   1 double release, 2 released while the application holds it, 3 content changed while held,
   4 written after release (poison broken), 5 handed to the application after release,
   6 pool automaton broken (recycled without release, re-acquired while not pooled, hold mismatch) *)
Definition auto_step (s : ostate) (e : lc) : ostate + N :=
  match e, s with
  | Rel _, Live => inl Freed
  | Rel _, Releasing => inl Freed
  | Rel _, Held => inr 2%N
  | Rel _, (Freed | Pooled) => inr 1%N
  | Rec _, Freed => inl Pooled
  | Rec _, _ => inr 6%N
  | Reacq _ ok, Pooled => if ok then inl Live else inr 4%N
  | Reacq _ _, _ => inr 6%N
  | Hold _, Live => inl Held
  | Hold _, (Freed | Pooled) => inr 5%N
  | Hold _, _ => inr 6%N
  | Unhold _ same, Held => if same then inl Live else inr 3%N
  | Unhold _ _, _ => inr 6%N
  | AppRel _, (Live | Held) => inl Releasing
  | AppRel _, (Freed | Pooled) => inr 1%N
  | AppRel _, Releasing => inr 1%N
  end.

Fixpoint run_obj (s : ostate) (t : list lc) : ostate + N :=
  match t with
  | [] => inl s
  | e :: r => match auto_step s e with inl s' => run_obj s' r | inr c => inr c end
  end.

Definition project (o : Z) (t : list lc) : list lc := filter (fun e => obj e =? o) t.

Fixpoint objects (t : list lc) (acc : list Z) : list Z :=
  match t with
  | [] => acc
  | e :: r => if existsb (Z.eqb (obj e)) acc then objects r acc else objects r (obj e :: acc)
  end.

(* class of the first violating object (0 = trace accepted) *)
Fixpoint first_class (t : list lc) (os : list Z) : N :=
  match os with
  | [] => 0%N
  | o :: r => match run_obj Live (project o t) with inl _ => first_class t r | inr c => c end
  end.

Definition check (t : list lc) : N := first_class t (objects t []).

(* number of objects sitting in the pool after the trace *)
Definition pooled_after (t : list lc) : Z :=
  Z.of_nat (length (filter (fun o => match run_obj Live (project o t) with inl Pooled => true | _ => false end) (objects t []))).

(* ---- the library's paths as lifecycle programs over the objects they use ---- *)

(* receive path, request not hijacked: handler holds the request, response writer message and request released *)
Definition path_receive (req resp : Z) : list lc :=
  [Hold req; Unhold req true; Rel resp; Rec resp; Rel req; Rec req].
(* receive path, message hijacked by a waiting caller: only the writer message is released by the library;
   the caller gets the message and releases it itself *)
Definition path_receive_hijacked (msg resp : Z) : list lc :=
  [Rel resp; Rec resp; Hold msg; Unhold msg true; AppRel msg; Rel msg; Rec msg].
(* a confirmable request of the application: the pending entry's private clone is released when the
   entry is consumed; every retransmission uses a temporary copy; the application releases its request *)
Definition path_request (req clone : Z) (tmps : list Z) : list lc :=
  concat (map (fun t => [Rel t; Rec t]) tmps) ++ [Rel clone; Rec clone; AppRel req; Rel req; Rec req].
(* a recycled object handed out again continues as a fresh one *)
Definition path_reuse (o : Z) (p : list lc) : list lc := Reacq o true :: p.

(* ---- further paths (net/blockwise, net/observation, net/client, AsyncPing, response writer) ---- *)

(* the library releases o and the pool takes it back *)
Definition rel (o : Z) : list lc := [Rel o; Rec o].
Definition rel_all (os : list Z) : list lc := concat (map rel os).
(* o is handed to the application (response of a call), which inspects it and releases it itself *)
Definition app_use (o : Z) : list lc := [Hold o; Unhold o true; AppRel o; Rel o; Rec o].
(* o is lent to the application for the duration of a handler / callback *)
Definition handler_use (o : Z) : list lc := [Hold o; Unhold o true].
Definition opt_path {A} (f : A -> list lc) (x : option A) : list lc := match x with Some a => f a | None => [] end.

(* net/client Client.Get/Post/Put/Delete: the library acquires the request and releases it itself
   (`defer c.cc.ReleaseMessage(req)`), so it is gone before the caller sees the response; clone = the pending
   entry's private copy, tmps = the copies made for retransmissions; resp = None when the call fails *)
Definition path_client_call (req clone : Z) (tmps : list Z) (resp : option Z) : list lc :=
  rel_all tmps ++ rel clone ++ rel req ++ opt_path app_use resp.

(* ResponseWriter.SetMessage(new) inside the library (blockwise continueSendingMessage / processReceivedMessage /
   sendEntityIncomplete): the replaced writer message w is released at once, the installed message s is released by
   the receive path after the write, then the received message m *)
Definition path_bw_block (b : Z * Z * Z) : list lc :=
  let '(w, s, m) := b in rel w ++ rel s ++ rel m.

(* blockwise Do of a request whose body exceeds a block (Client.Post/Put): the first-block request is a temporary
   (cloneMessage; `defer ReleaseMessage`), every 2.31 Continue is answered through SetMessage, the final
   response is handed to the caller *)
Definition path_bw_upload (req tmp : Z) (blocks : list (Z * Z * Z)) (resp : option Z) : list lc :=
  concat (map path_bw_block blocks) ++ rel tmp ++ rel req ++ opt_path app_use resp.

(* a block of a block-wise response: sr = the copy of the sent request (getSentRequest; released when
   processReceivedMessage returns), w = replaced writer message, s = the request for the next block *)
Definition path_bw_fetch_block (b : Z * Z * Z * Z) : list lc :=
  let '(w, sr, s, m) := b in rel w ++ rel sr ++ rel s ++ rel m.

(* block-wise download through Client.Get: `cached` is acquired at the first block, lives in
   receivingMessagesCache while the blocks arrive, and is what the caller finally receives and releases;
   (sr, w, m) = the copy of the sent request, the untouched writer message and the received last block *)
Definition path_bw_download (req : Z) (blocks : list (Z * Z * Z * Z)) (last : Z * Z * Z) (cached : Z) : list lc :=
  let '(sr, w, m) := last in
  concat (map path_bw_fetch_block blocks) ++ rel sr ++ rel w ++ rel m ++ rel req ++ app_use cached.

(* the serving side of a block-wise upload: every block but the last is answered 2.31 through SetMessage; the
   reassembled request `cached` is lent to the handler and never released afterwards (left to the GC) *)
Definition path_bw_serve_upload (blocks : list (Z * Z * Z)) (last : Z * Z) (cached : Z) : list lc :=
  let '(w, m) := last in
  concat (map path_bw_block blocks) ++ handler_use cached ++ rel w ++ rel m.

(* the serving side of a block-wise response (startSendingMessage): the handler's complete response `orig` is
   Swap-ped for its first block s WITHOUT a release: orig stays in sendingMessagesCache (left to the GC when the
   entry goes), except for an observe notification, where it is released at once; later blocks go through
   SetMessage (path_bw_block) *)
Definition path_bw_serve_first (m orig s : Z) (observe : bool) : list lc :=
  handler_use m ++ (if observe then rel orig else []) ++ rel s ++ rel m.

(* net/observation: a notification is lent to the application's callback on the receive path, which then
   releases the writer message and the notification *)
Definition path_notification (n w : Z) : list lc := handler_use n ++ rel w ++ rel n.

(* udp AsyncPing: the request IS the pending entry's message (no clone); each retransmission works on a temporary
   copy; the entry's message is released exactly once when the entry is consumed (pong, cancel, expiry);
   w = writer message used while the pong is dispatched to the entry's handler *)
Definition path_async_ping (req : Z) (tmps : list Z) (w : option Z) : list lc :=
  rel_all tmps ++ rel req ++ opt_path rel w.

(* an application handler that replaces the response: with SetMessage the library releases the old writer
   message (inside the handler) and later the new one; with Swap nothing is released, the old message is the
   application's, which releases it itself *)
Definition path_handler_setmessage (m w new : Z) : list lc :=
  [Hold m; Rel w; Rec w; Unhold m true] ++ rel new ++ rel m.
Definition path_handler_swap (m w new : Z) : list lc :=
  [Hold m; Unhold m true] ++ rel new ++ rel m ++ [AppRel w; Rel w; Rec w].

(* the objects a trace mentions *)
Definition objs (t : list lc) : list Z := map obj t.
Definition objs3 (l : list (Z * Z * Z)) : list Z := concat (map (fun b => let '(a, b, c) := b in [a; b; c]) l).
Definition objs4 (l : list (Z * Z * Z * Z)) : list Z := concat (map (fun b => let '(a, b, c, d) := b in [a; b; c; d]) l).
Definition olist (x : option Z) : list Z := match x with Some a => [a] | None => [] end.
