(* Ownership model of pooled messages (message/pool/pool.go + the library's
   acquire/release protocol).  A trace is the global order of lifecycle events
   reported by the verif hook in the pool (Rel, Rec, Reacq) and by the
   application side of the harness (Hold, Unhold, AppRel).  Objects are numbered
   by the harness at first sight; an object that was never seen before is a
   fresh allocation (NewMessage) and starts Live. *)
From Coq Require Import ZArith NArith List Bool.
Import ListNotations.
Open Scope Z_scope.

Inductive lc :=
| Rel (o : Z)                 (* Pool.ReleaseMessage(o) entered *)
| Rec (o : Z)                 (* o was Reset and put back into the pool *)
| Reacq (o : Z) (poison_ok : bool)  (* Pool.AcquireMessage handed out the recycled o; poison pattern intact? *)
| Hold (o : Z)                (* the application legitimately holds o from now on *)
| Unhold (o : Z) (same : bool)(* the hold ends; content unchanged since Hold? *)
| AppRel (o : Z).             (* the application itself is about to release o *)

Definition obj (e : lc) : Z :=
  match e with Rel o | Rec o | Reacq o _ | Hold o | Unhold o _ | AppRel o => o end.

Inductive ostate :=
| Live        (* owned by the library or by the application, not in the pool *)
| Held        (* handed to the application (request in a handler, response of a call, notification) *)
| Releasing   (* the application announced that it releases it *)
| Freed       (* ReleaseMessage entered *)
| Pooled.     (* reset and back in the pool *)

(* result of feeding one event to the per-object automaton: next state or a violation class
   1 double release, 2 released while the application holds it, 3 content changed while held,
   4 written after release (poison broken), 5 handed to the application after release,
   6 pool automaton broken (recycled without release, re-acquired while not pooled, hold mismatch) *)
Definition auto_step (s : ostate) (e : lc) : ostate + N :=
  match e, s with
  | Rel _, Live => inl Freed
  | Rel _, Releasing => inl Freed
  | Rel _, Held => inr 2%N
  | Rel _, (Freed | Pooled) => inr 1%N
  | Rec _, Freed => inl Pooled
  | Rec _, _ => inr 6%N
  | Reacq _ ok, Pooled => if ok then inl Live else inr 4%N
  | Reacq _ _, _ => inr 6%N
  | Hold _, Live => inl Held
  | Hold _, (Freed | Pooled) => inr 5%N
  | Hold _, _ => inr 6%N
  | Unhold _ same, Held => if same then inl Live else inr 3%N
  | Unhold _ _, _ => inr 6%N
  | AppRel _, (Live | Held) => inl Releasing
  | AppRel _, (Freed | Pooled) => inr 1%N
  | AppRel _, Releasing => inr 1%N
  end.

Fixpoint run_obj (s : ostate) (t : list lc) : ostate + N :=
  match t with
  | [] => inl s
  | e :: r => match auto_step s e with inl s' => run_obj s' r | inr c => inr c end
  end.

Definition project (o : Z) (t : list lc) : list lc := filter (fun e => obj e =? o) t.

Fixpoint objects (t : list lc) (acc : list Z) : list Z :=
  match t with
  | [] => acc
  | e :: r => if existsb (Z.eqb (obj e)) acc then objects r acc else objects r (obj e :: acc)
  end.

(* class of the first violating object (0 = trace accepted) *)
Fixpoint first_class (t : list lc) (os : list Z) : N :=
  match os with
  | [] => 0%N
  | o :: r => match run_obj Live (project o t) with inl _ => first_class t r | inr c => c end
  end.

Definition check (t : list lc) : N := first_class t (objects t []).

(* number of objects sitting in the pool after the trace *)
Definition pooled_after (t : list lc) : Z :=
  Z.of_nat (length (filter (fun o => match run_obj Live (project o t) with inl Pooled => true | _ => false end) (objects t []))).

(* ---- the library's paths as lifecycle programs over the objects they use ---- *)

(* receive path, request not hijacked: handler holds the request, response writer message and request released *)
Definition path_receive (req resp : Z) : list lc :=
  [Hold req; Unhold req true; Rel resp; Rec resp; Rel req; Rec req].
(* receive path, message hijacked by a waiting caller: only the writer message is released by the library;
   the caller gets the message and releases it itself *)
Definition path_receive_hijacked (msg resp : Z) : list lc :=
  [Rel resp; Rec resp; Hold msg; Unhold msg true; AppRel msg; Rel msg; Rec msg].
(* a confirmable request of the application: the pending entry's private clone is released when the
   entry is consumed; every retransmission uses a temporary copy; the application releases its request *)
Definition path_request (req clone : Z) (tmps : list Z) : list lc :=
  concat (map (fun t => [Rel t; Rec t]) tmps) ++ [Rel clone; Rec clone; AppRel req; Rel req; Rec req].
(* a recycled object handed out again continues as a fresh one *)
Definition path_reuse (o : Z) (p : list lc) : list lc := Reacq o true :: p.
