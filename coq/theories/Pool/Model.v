(* Ownership model of pooled messages (message/pool/pool.go + the library's
   acquire/release protocol).  A trace is the global order of lifecycle events
   reported by the verif hook in the pool (Rel, Rec, Reacq) and by the
   application side of the harness (Hold, Unhold, AppRel).  Objects are numbered
   by the harness at first sight; an object that was never seen before is a
   fresh allocation (NewMessage) and starts Live. *)
From Coq Require Import ZArith NArith List Bool.
Import ListNotations.
Open Scope Z_scope.

Inductive lc :=
| Rel (o : Z)                 (* Pool.ReleaseMessage(o) entered *)
| Rec (o : Z)                 (* o was Reset and put back into the pool *)
| Reacq (o : Z) (poison_ok : bool)  (* Pool.AcquireMessage handed out the recycled o; poison pattern intact? *)
| Hold (o : Z)                (* the application legitimately holds o from now on *)
| Unhold (o : Z) (same : bool)(* the hold ends; content unchanged since Hold? *)
| AppRel (o : Z)              (* the application itself is about to release o *)
| Use (o : Z).                (* somebody reads or writes o (an accessor of the message was called, or its body was read) *)

Definition obj (e : lc) : Z :=
  match e with Rel o | Rec o | Reacq o _ | Hold o | Unhold o _ | AppRel o | Use o => o end.

Inductive ostate :=
| Live        (* owned by the library or by the application, not in the pool *)
| Held        (* handed to the application (request in a handler, response of a call, notification) *)
| Releasing   (* the application announced that it releases it *)
| Freed       (* ReleaseMessage entered *)
| Pooled.     (* reset and back in the pool *)

(* result of feeding one event to the per-object automaton: next state or a violation class
   1 double release, 2 released while the application holds it, 3 content changed while held,
   4 written after release (poison broken), 5 handed to the application after release,
   6 pool automaton broken (recycled without release, re-acquired while not pooled, hold mismatch),
   7 used after release: the message is read or written while it is in nobody's hands (between ReleaseMessage
     and the next hand-out by AcquireMessage) *)
Definition auto_step (s : ostate) (e : lc) : ostate + N :=
  match e, s with
  | Rel _, Live => inl Freed
  | Rel _, Releasing => inl Freed
  | Rel _, Held => inr 2%N
  | Rel _, (Freed | Pooled) => inr 1%N
  | Rec _, Freed => inl Pooled
  | Rec _, _ => inr 6%N
  | Reacq _ ok, Pooled => if ok then inl Live else inr 4%N
  | Reacq _ _, _ => inr 6%N
  | Hold _, Live => inl Held
  | Hold _, (Freed | Pooled) => inr 5%N
  | Hold _, _ => inr 6%N
  | Unhold _ same, Held => if same then inl Live else inr 3%N
  | Unhold _ _, _ => inr 6%N
  | AppRel _, (Live | Held) => inl Releasing
  | AppRel _, (Freed | Pooled) => inr 1%N
  | AppRel _, Releasing => inr 1%N
  | Use _, (Freed | Pooled) => inr 7%N
  | Use _, _ => inl s
  end.

Fixpoint run_obj (s : ostate) (t : list lc) : ostate + N :=
  match t with
  | [] => inl s
  | e :: r => match auto_step s e with inl s' => run_obj s' r | inr c => inr c end
  end.

Definition project (o : Z) (t : list lc) : list lc := filter (fun e => obj e =? o) t.

Fixpoint objects (t : list lc) (acc : list Z) : list Z :=
  match t with
  | [] => acc
  | e :: r => if existsb (Z.eqb (obj e)) acc then objects r acc else objects r (obj e :: acc)
  end.

(* class of the first violating object (0 = trace accepted) *)
Fixpoint first_class (t : list lc) (os : list Z) : N :=
  match os with
  | [] => 0%N
  | o :: r => match run_obj Live (project o t) with inl _ => first_class t r | inr c => c end
  end.

Definition check (t : list lc) : N := first_class t (objects t []).

(* number of objects sitting in the pool after the trace *)
Definition pooled_after (t : list lc) : Z :=
  Z.of_nat (length (filter (fun o => match run_obj Live (project o t) with inl Pooled => true | _ => false end) (objects t []))).

(* ---- the library's paths as lifecycle programs over the objects they use ---- *)

(* receive path, request not hijacked: handler holds the request, response writer message and request released *)
Definition path_receive (req resp : Z) : list lc :=
  [Hold req; Unhold req true; Rel resp; Rec resp; Rel req; Rec req].
(* receive path, message hijacked by a waiting caller: only the writer message is released by the library;
   the caller gets the message and releases it itself *)
Definition path_receive_hijacked (msg resp : Z) : list lc :=
  [Rel resp; Rec resp; Hold msg; Unhold msg true; AppRel msg; Rel msg; Rec msg].
(* a confirmable request of the application: the pending entry's private clone is released when the
   entry is consumed; every retransmission uses a temporary copy; the application releases its request *)
Definition path_request (req clone : Z) (tmps : list Z) : list lc :=
  concat (map (fun t => [Rel t; Rec t]) tmps) ++ [Rel clone; Rec clone; AppRel req; Rel req; Rec req].
(* a recycled object handed out again continues as a fresh one *)
Definition path_reuse (o : Z) (p : list lc) : list lc := Reacq o true :: p.

(* ---- further paths (net/blockwise, net/observation, net/client, AsyncPing, response writer) ---- *)

(* the library releases o and the pool takes it back *)
Definition rel (o : Z) : list lc := [Rel o; Rec o].
Definition rel_all (os : list Z) : list lc := concat (map rel os).
(* o is handed to the application (response of a call), which inspects it and releases it itself *)
Definition app_use (o : Z) : list lc := [Hold o; Unhold o true; AppRel o; Rel o; Rec o].
(* o is lent to the application for the duration of a handler / callback *)
Definition handler_use (o : Z) : list lc := [Hold o; Unhold o true].
Definition opt_path {A} (f : A -> list lc) (x : option A) : list lc := match x with Some a => f a | None => [] end.

(* net/client Client.Get/Post/Put/Delete: the library acquires the request and releases it itself
   (`defer c.cc.ReleaseMessage(req)`), so it is gone before the caller sees the response; clone = the pending
   entry's private copy, tmps = the copies made for retransmissions; resp = None when the call fails *)
Definition path_client_call (req clone : Z) (tmps : list Z) (resp : option Z) : list lc :=
  rel_all tmps ++ rel clone ++ rel req ++ opt_path app_use resp.

(* ResponseWriter.SetMessage(new) inside the library (blockwise continueSendingMessage / processReceivedMessage /
   sendEntityIncomplete): the replaced writer message w is released at once, the installed message s is released by
   the receive path after the write, then the received message m *)
Definition path_bw_block (b : Z * Z * Z) : list lc :=
  let '(w, s, m) := b in rel w ++ rel s ++ rel m.

(* blockwise Do of a request whose body exceeds a block (Client.Post/Put): the first-block request is a temporary
   (cloneMessage; `defer ReleaseMessage`), every 2.31 Continue is answered through SetMessage, the final
   response is handed to the caller *)
Definition path_bw_upload (req tmp : Z) (blocks : list (Z * Z * Z)) (resp : option Z) : list lc :=
  concat (map path_bw_block blocks) ++ rel tmp ++ rel req ++ opt_path app_use resp.

(* a block of a block-wise response: sr = the copy of the sent request (getSentRequest; released when
   processReceivedMessage returns), w = replaced writer message, s = the request for the next block *)
Definition path_bw_fetch_block (b : Z * Z * Z * Z) : list lc :=
  let '(w, sr, s, m) := b in rel w ++ rel sr ++ rel s ++ rel m.

(* block-wise download through Client.Get: `cached` is acquired at the first block, lives in
   receivingMessagesCache while the blocks arrive, and is what the caller finally receives and releases;
   (sr, w, m) = the copy of the sent request, the untouched writer message and the received last block *)
Definition path_bw_download (req : Z) (blocks : list (Z * Z * Z * Z)) (last : Z * Z * Z) (cached : Z) : list lc :=
  let '(sr, w, m) := last in
  concat (map path_bw_fetch_block blocks) ++ rel sr ++ rel w ++ rel m ++ rel req ++ app_use cached.

(* the serving side of a block-wise upload: every block but the last is answered 2.31 through SetMessage; the
   reassembled request `cached` is lent to the handler and never released afterwards (left to the GC) *)
Definition path_bw_serve_upload (blocks : list (Z * Z * Z)) (last : Z * Z) (cached : Z) : list lc :=
  let '(w, m) := last in
  concat (map path_bw_block blocks) ++ handler_use cached ++ rel w ++ rel m.

(* the serving side of a block-wise response (startSendingMessage): the handler's complete response `orig` is
   Swap-ped for its first block s WITHOUT a release: orig stays in sendingMessagesCache (left to the GC when the
   entry goes), except for an observe notification, where it is released at once; later blocks go through
   SetMessage (path_bw_block) *)
Definition path_bw_serve_first (m orig s : Z) (observe : bool) : list lc :=
  handler_use m ++ (if observe then rel orig else []) ++ rel s ++ rel m.

(* net/observation: a notification is lent to the application's callback on the receive path, which then
   releases the writer message and the notification *)
Definition path_notification (n w : Z) : list lc := handler_use n ++ rel w ++ rel n.

(* udp AsyncPing: the request IS the pending entry's message (no clone); each retransmission works on a temporary
   copy; the entry's message is released exactly once when the entry is consumed (pong, cancel, expiry);
   w = writer message used while the pong is dispatched to the entry's handler *)
Definition path_async_ping (req : Z) (tmps : list Z) (w : option Z) : list lc :=
  rel_all tmps ++ rel req ++ opt_path rel w.

(* an application handler that replaces the response: with SetMessage the library releases the old writer
   message (inside the handler) and later the new one; with Swap nothing is released, the old message is the
   application's, which releases it itself *)
Definition path_handler_setmessage (m w new : Z) : list lc :=
  [Hold m; Rel w; Rec w; Unhold m true] ++ rel new ++ rel m.
Definition path_handler_swap (m w new : Z) : list lc :=
  [Hold m; Unhold m true] ++ rel new ++ rel m ++ [AppRel w; Rel w; Rec w].

(* the objects a trace mentions *)
Definition objs (t : list lc) : list Z := map obj t.
Definition objs3 (l : list (Z * Z * Z)) : list Z := concat (map (fun b => let '(a, b, c) := b in [a; b; c]) l).
Definition objs4 (l : list (Z * Z * Z * Z)) : list Z := concat (map (fun b => let '(a, b, c, d) := b in [a; b; c; d]) l).
Definition olist (x : option Z) : list Z := match x with Some a => [a] | None => [] end.

(* ================================================================================================
   The response writer's slot (net/responsewriter) and the code that works on it.

   A receive path owns two messages when it starts: the received message m and the message w it put into
   the response writer.  The code between `responsewriter.New` and the deferred `ReleaseMessage(w.Message())`
   acquires further messages and does one of six things with a message it has: install it in the writer
   (SetMessage: the REPLACED message is released at once, the installed one belongs to the writer from then
   on), swap it in (Swap: nothing is released, the replaced message is the code's again), release it by hand,
   lend it to the application (`next(w, o)` with a handler), or let it go without a release (hijacked by a
   waiting caller, stored in a cache, left to the GC).  A writer program is the sequence of these operations;
   `wtrace` is the lifecycle trace it produces, `wdisc` the ownership discipline: every operation applies to
   a message the code HAS (acquired or swapped out, and not yet released, installed or given away).
   Pool/Writer.v proves: a disciplined program produces an accepted trace, whatever it does. *)
Inductive wop :=
| WAcq (o : Z)    (* o := AcquireMessage() / taken out of a cache: a message nobody else touches *)
| WRel (o : Z)    (* cc.ReleaseMessage(o) by hand *)
| WSet (o : Z)    (* w.SetMessage(o) *)
| WSwap (o : Z)   (* old := w.Swap(o) *)
| WLend (o : Z)   (* next(w, o): an application handler holds o for the duration of the call *)
| WGive (o : Z)   (* o leaves the code's hands without a release (hijacked, cached, left to the GC) *)
| WEnd.           (* the receive path's deferred ReleaseMessage(w.Message()) *)

Fixpoint wtrace (cur : Z) (ops : list wop) : list lc :=
  match ops with
  | [] => []
  | WAcq _ :: r => wtrace cur r
  | WRel o :: r => rel o ++ wtrace cur r
  | WSet o :: r => rel cur ++ wtrace o r
  | WSwap o :: r => wtrace o r
  | WLend o :: r => handler_use o ++ wtrace cur r
  | WGive _ :: r => wtrace cur r
  | WEnd :: r => rel cur ++ wtrace cur r
  end.

Definition zmem (o : Z) (l : list Z) : bool := existsb (Z.eqb o) l.
Definition zdel (o : Z) (l : list Z) : list Z := filter (fun x => negb (x =? o)) l.

(* cur = the writer's message, ended = the writer's message has been given back (WEnd), own = what the code has,
   seen = every message that occurred so far *)
Fixpoint wdisc (cur : Z) (ended : bool) (own seen : list Z) (ops : list wop) : bool :=
  match ops with
  | [] => true
  | WAcq o :: r => negb (zmem o seen) && wdisc cur ended (o :: own) (o :: seen) r
  | WRel o :: r => zmem o own && wdisc cur ended (zdel o own) seen r
  | WSet o :: r => negb ended && zmem o own && wdisc o ended (zdel o own) seen r
  | WSwap o :: r => negb ended && zmem o own && wdisc o ended (cur :: zdel o own) seen r
  | WLend o :: r => zmem o own && wdisc cur ended own seen r
  | WGive o :: r => zmem o own && wdisc cur ended (zdel o own) seen r
  | WEnd :: r => negb ended && wdisc cur true own seen r
  end.

(* renaming of the objects of a trace *)
Definition ren (f : Z -> Z) (e : lc) : lc :=
  match e with
  | Rel o => Rel (f o) | Rec o => Rec (f o) | Reacq o b => Reacq (f o) b
  | Hold o => Hold (f o) | Unhold o b => Unhold (f o) b | AppRel o => AppRel (f o) | Use o => Use (f o)
  end.
Definition env_f (env : list Z) (i : Z) : Z := nth (Z.to_nat i) env 0.

(* ---- ProcessReceivedMessageWithHandler with net/blockwise in the dispatch chain (udp/client.Conn.handle ->
   BlockWise.Handle -> handleReceivedMessage -> processReceivedMessage | continueSendingMessage, then
   sendEntityIncomplete on an error of handleReceivedMessage), one received message ----

   What can be observed of one run: which return point was taken (`bw_kind`: the error class reported through
   the errors callback, who was handed a message, what went out), whether a call with the message's token is
   outstanding (then getSentRequest returns a copy that is released when processReceivedMessage returns - but only
   once a block option has been decoded), whether a reassembly entry for the token exists in
   receivingMessagesCache, whether the message written at the end was confirmable (writeMessageAsync then
   makes, stores, deletes and releases a private copy), and whether the object of the received message still
   carries the Hijack flag of an earlier life.
   Objects: 0 = w (the writer's first message), 1 = m (received), 2 = copy of the sent request, 3 = the
   next-block request / 2.31 / next block to send, 4 = the 4.08 of sendEntityIncomplete, 5 = the reassembled
   message (receivingMessagesCache), 6 = the private copy of a confirmable write. *)
Inductive dlv := DLend | DHijack.   (* next(w, o): an application handler / the token handler of a waiting caller (Hijack) *)
Inductive bw_kind :=
| KForward (d : dlv)          (* next(w, r) with the received message itself *)
| KComplete (d : dlv)         (* last block appended: next(w, cached) *)
| KNext                       (* a block stored; request for the next block (or 2.31) installed with SetMessage *)
| KErrEarly                   (* error before the reassembly entry is touched *)
| KErrLate (s_acquired : bool)(* error after it (entry dropped); s_acquired: the next-block request had been acquired *)
| KContNext                   (* continueSendingMessage: next block of OUR body installed with SetMessage *)
| KContErr (s_acquired : bool)(* continueSendingMessage failed (no 4.08) *)
| KSilent                     (* nothing dispatched, nothing written: an empty ACK/RST that Conn.handle drops *)
| KOther.                     (* anything else: the model has no such path *)

Definition bw_deliver (d : dlv) (o : Z) (keep : bool) : list wop :=
  match d with
  | DLend => if keep then [WLend o] else [WLend o; WGive o]   (* a reassembled request is never released: left to the GC *)
  | DHijack => [WGive o]
  end.

Definition bw_receive_ops (k : bw_kind) (sr has_entry wrote_con stale : bool) : option (list wop) :=
  let pre := if sr then [WAcq 2] else [] in
  let post := if sr then [WRel 2] else [] in     (* defer b.cc.ReleaseMessage(sentRequest) *)
  let mk := if has_entry then [] else [WAcq 5; WGive 5] in   (* getCachedReceivedMessage: new entry *)
  let e408 := [WAcq 4; WSet 4] in                (* sendEntityIncomplete *)
  let body :=
    match k with
    | KForward d => Some (pre ++ bw_deliver d 1 true ++ post, match d with DLend => true | DHijack => false end)
    | KComplete d => if has_entry then Some (pre ++ [WAcq 5] ++ bw_deliver d 5 false ++ post, true) else None
    | KNext => Some (pre ++ mk ++ [WAcq 3; WSet 3] ++ post, true)
    | KErrEarly => Some (pre ++ post ++ e408, true)
    | KErrLate sa => Some (pre ++ mk ++ (if sa then [WAcq 3; WRel 3] else []) ++ post ++ e408, true)
    | KContNext => Some ([WAcq 3; WSet 3], true)
    | KContErr sa => Some ((if sa then [WAcq 3; WRel 3] else []), true)
    | KSilent => Some ([], true)
    | KOther => None
    end in
  match body with
  | Some (ops, m_ours) =>
      (* `if !req.IsHijacked() { ReleaseMessage(req) }`: the Hijack flag is never cleared, so a message object that was
         handed to a caller in an EARLIER life (stale) is not released by the receive path either: left to the GC *)
      Some (ops ++ (if wrote_con then [WAcq 6; WRel 6] else []) ++ [WEnd] ++ (if m_ours && negb stale then [WRel 1] else []))
  | None => None
  end.

(* the path over arbitrary objects env = [w; m; sr; s; e; cached; clone] *)
Definition path_bw_receive (k : bw_kind) (sr has_entry wrote_con stale : bool) (env : list Z) : list lc :=
  match bw_receive_ops k sr has_entry wrote_con stale with
  | Some ops => map (ren (env_f env)) (wtrace 0 ops)
  | None => []
  end.

(* the regression this model was extended for: the next-block request is installed in the writer right after it
   was acquired, and the early return "cannot restart blockwise response" still releases it by hand *)
Definition bw_early_install_restart_ops (sr has_entry wrote_con : bool) : list wop :=
  (if sr then [WAcq 2] else []) ++ (if has_entry then [] else [WAcq 5; WGive 5]) ++ [WAcq 3; WSet 3; WRel 3] ++
  (if sr then [WRel 2] else []) ++ [WAcq 4; WSet 4] ++ (if wrote_con then [WAcq 6; WRel 6] else []) ++ [WEnd; WRel 1].

(* receivingMessagesCache as far as the lifecycle depends on it: the tokens that have an entry *)
Definition bw_entries_after (k : bw_kind) (tok : Z) (entries : list Z) : list Z :=
  match k with
  | KNext => if zmem tok entries then entries else tok :: entries
  | KComplete _ | KErrLate _ => zdel tok entries
  | _ => entries
  end.

(* continueSendingMessage failed: BlockWise.Handle deletes the call's entry in sendingMessagesCache although the
   call goes on waiting - from then on getSentRequest finds nothing for its token.  calls are numbered 1, 2, ...
   in the order in which the application started them (0 = no call with the datagram's token is in progress) *)
Definition bw_dead_after (k : bw_kind) (call : Z) (dead : list Z) : list Z :=
  match k with KContErr _ => call :: dead | _ => dead end.
Definition bw_has_sent_request (call : Z) (blk : bool) (dead : list Z) : bool :=
  negb (call =? 0) && blk && negb (zmem call dead).

(* one received datagram as observed: token, the call with this token that is in progress, the datagram carries a
   decodable block option of the kind looked at, return point, the final write was confirmable, the received
   message's object was hijacked in an earlier life, size of receivingMessagesCache afterwards, lifecycle events
   recorded while ProcessReceivedMessageWithHandler ran *)
Inductive bw_step := BwStep (tok call : Z) (blk : bool) (k : bw_kind) (wrote_con stale : bool) (entries : Z) (window : list lc).

(* ================================================================================================
   Accesses to a message (round 3): `Use o`.

   The pool's hook reports every call of an accessor of a message (getters and setters); the harness
   records the call as `Use o` when o is in nobody's hands at that moment (released and not handed out
   again).  Two places of the library where WHEN a message is read decides whether that can happen: *)

(* ---- udp AsyncPing: who finishes the ping ----
   The ping message req belongs to the pending entry (midHandlerContainer).  The entry is consumed - and req
   released - by whoever comes first: the pong / reset of the peer (handleSpecialMessages), the expiry sweep
   (checkMidHandlerContainer) or the cancel function AsyncPing returned; whoever comes later finds no entry and
   does nothing.  The cancel function finds the entry through the message ID it REMEMBERED (a local variable);
   `late_read` is the variant that asks the ping message for it (req.MessageID()), whatever happened to req. *)
Inductive pfin := FPong | FExpiry | FCancel.

Fixpoint ping_fin (req : Z) (late_read consumed : bool) (fs : list pfin) : list lc :=
  match fs with
  | [] => []
  | f :: r => (match f with FCancel => if late_read then [Use req] else [] | _ => [] end) ++
              (if consumed then [] else rel req) ++ ping_fin req late_read true r
  end.

(* the ping is written (the library reads req) while the entry is pending, then the finishers come in any order,
   any number of times *)
Definition path_async_ping_fin (req : Z) (late_read : bool) (fs : list pfin) : list lc :=
  Use req :: ping_fin req late_read false fs.

(* the same, as seen by the goroutine that performs each step (what family K of the harness records): the entry is
   pending with n retransmissions behind it, or gone.  Objects: 0 = the ping message, fresh numbers for the
   temporaries: the writer message acquired for the dispatch of the pong to the entry's handler, the copy a
   retransmission works on.  maxrt = Config.TransmissionMaxRetransmit. *)
Inductive pstate := PPending (retx : nat) | PGone.

Definition ping_step (maxrt : nat) (late_read : bool) (s : pstate) (next : Z) (f : pfin) : pstate * Z * list lc :=
  match s, f with
  | PPending _, FPong => (PGone, next + 1, rel 0 ++ rel next)
  | PPending n, FExpiry => if (maxrt <=? n)%nat then (PGone, next, rel 0) else (PPending (S n), next + 1, rel next)
  | PPending _, FCancel => (PGone, next, (if late_read then [Use 0] else []) ++ rel 0)
  | PGone, FCancel => (PGone, next, if late_read then [Use 0] else [])
  | PGone, _ => (PGone, next, [])
  end.

Fixpoint ping_run (maxrt : nat) (late_read : bool) (s : pstate) (next : Z) (fs : list pfin) : list (list lc) :=
  match fs with
  | [] => []
  | f :: r => let '(s', next', w) := ping_step maxrt late_read s next f in w :: ping_run maxrt late_read s' next' r
  end.

(* one step of a ping as observed: who came, and the lifecycle events of the goroutine that performed the step *)
Inductive ping_obs := PObs (f : pfin) (window : list lc).

(* ---- net/blockwise: a caller gives a call up while receive paths work on its request ----
   BlockWise.Do stores the request r OF THE CALLER in sendingMessagesCache and removes it again when it returns
   (`defer sendingMessagesCache.Delete`, which takes the WRITE lock of the map); after that r is the caller's
   alone: the application releases it (or net/client's Post/Put does, by defer).  A receive path (BlockWise.Handle
   for a message with the call's token) reaches r only through the cache.  It works in sections: take the READ
   lock, look the token up, read r k_in times if the entry is there (getSendingMessageCode; getSentRequest;
   continueSendingMessage -> createSendingMessage: Token, Code, Context, Options, Type, BodySize, Body, Seek, Read),
   give the lock back, and - in the variants this model exists to exclude - read r k_out more times afterwards.
   Every access to shared state is one step; threads are scheduled arbitrarily; a thread that cannot move
   (reader while the writer holds the lock, writer while a reader holds it) stutters.  sync.RWMutex also makes new
   readers wait for a waiting writer: that only removes schedules. *)
Inductive dpc := D0 (* waiting / giving up *) | D1 (* write lock taken *) | D2 (* entry deleted *) | D3 (* unlocked: Do returns *)
               | D4 (* the application announced the release *) | D5 (* ReleaseMessage entered *) | D6 (* recycled *).
Inductive rpc := RIdle | RLocked | RIn (found : bool) (k : nat) | ROut (k : nat).
Record reader := { r_pc : rpc; r_todo : list (nat * nat) }.
Record gstate := { g_d : dpc; g_entry : bool; g_rs : list reader; g_trace : list lc }.

Definition holds (rd : reader) : bool := match r_pc rd with RLocked | RIn _ _ => true | _ => false end.
Definition writer_held (d : dpc) : bool := match d with D1 | D2 => true | _ => false end.

Fixpoint upd {A} (i : nat) (x : A) (l : list A) : list A :=
  match l, i with
  | [], _ => []
  | _ :: r, O => x :: r
  | y :: r, S j => y :: upd j x r
  end.

(* app = the application releases r itself (Do with its own request); false: the library does (Client.Post) *)
Definition step_d (app : bool) (r : Z) (st : gstate) : gstate :=
  match g_d st with
  | D0 => if existsb holds (g_rs st) then st else {| g_d := D1; g_entry := g_entry st; g_rs := g_rs st; g_trace := g_trace st |}
  | D1 => {| g_d := D2; g_entry := false; g_rs := g_rs st; g_trace := g_trace st |}
  | D2 => {| g_d := D3; g_entry := g_entry st; g_rs := g_rs st; g_trace := g_trace st |}
  | D3 => {| g_d := D4; g_entry := g_entry st; g_rs := g_rs st; g_trace := g_trace st ++ (if app then [AppRel r] else []) |}
  | D4 => {| g_d := D5; g_entry := g_entry st; g_rs := g_rs st; g_trace := g_trace st ++ [Rel r] |}
  | D5 => {| g_d := D6; g_entry := g_entry st; g_rs := g_rs st; g_trace := g_trace st ++ [Rec r] |}
  | D6 => st
  end.

Definition set_reader (st : gstate) (i : nat) (rd : reader) (evs : list lc) : gstate :=
  {| g_d := g_d st; g_entry := g_entry st; g_rs := upd i rd (g_rs st); g_trace := g_trace st ++ evs |}.

Definition step_r (r : Z) (i : nat) (st : gstate) : gstate :=
  match nth_error (g_rs st) i with
  | None => st
  | Some rd =>
      match r_pc rd, r_todo rd with
      | RIdle, [] => st
      | RIdle, _ :: _ => if writer_held (g_d st) then st else set_reader st i {| r_pc := RLocked; r_todo := r_todo rd |} []
      | RLocked, [] => st
      | RLocked, (ki, _) :: _ => set_reader st i {| r_pc := RIn (g_entry st) (if g_entry st then ki else 0); r_todo := r_todo rd |} []
      | RIn f (S k), _ => set_reader st i {| r_pc := RIn f k; r_todo := r_todo rd |} [Use r]
      | RIn f O, [] => set_reader st i {| r_pc := RIdle; r_todo := [] |} []
      | RIn f O, (_, ko) :: rest => set_reader st i {| r_pc := ROut (if f then ko else 0); r_todo := rest |} []
      | ROut (S k), _ => set_reader st i {| r_pc := ROut k; r_todo := r_todo rd |} [Use r]
      | ROut O, _ => set_reader st i {| r_pc := RIdle; r_todo := r_todo rd |} []
      end
  end.

(* thread 0 is the caller, thread i + 1 the i-th receive path *)
Definition gstep (app : bool) (r : Z) (st : gstate) (tid : nat) : gstate :=
  match tid with O => step_d app r st | S i => step_r r i st end.

Definition grun (app : bool) (r : Z) (sched : list nat) (st : gstate) : gstate := fold_left (gstep app r) sched st.

Definition ginit (progs : list (list (nat * nat))) : gstate :=
  {| g_d := D0; g_entry := true; g_rs := map (fun p => {| r_pc := RIdle; r_todo := p |}) progs; g_trace := [] |}.

(* the receive path of a 2.31 Continue for the call's token (k = number of accesses createSendingMessage makes):
   as it is, and with the next block built outside the lock (Cache.Load, then createSendingMessage(entry.Data())) *)
Definition handle_continue_prog (k : nat) : list (nat * nat) := [(1%nat, 0%nat); (k, 0%nat)].
Definition handle_continue_unlocked_prog (k : nat) : list (nat * nat) := [(1%nat, 0%nat); (0%nat, k)].

(* ================================================================================================
   net/blockwise: the expiry sweep and the handlers of the blocks of ONE transfer (round 4).

   A partially received block-wise message c lives in an entry of receivingMessagesCache, together with a guard
   (a semaphore of weight 1).  The handler of a block (BlockWise.Handle -> processReceivedMessage) looks the entry
   up (Cache.Load), reads c once (`mg.Acquire(mg.Context(), 1)`: the context of the message), takes the guard,
   works on c (getPayloadFromCachedReceivedMessage / copyToPayloadFromOffset: k accesses) and - when its block
   is the last one - removes the entry and hands c to the application (`next(w, c)`: an application handler
   holds it for the duration of the call; a reassembled request is never released afterwards: left to the GC),
   then gives the guard back.  The handler of a block that finds no entry works on another message.
   The housekeeping sweep (Cache.CheckExpirations) removes the entry when it has expired and runs its onExpire
   callback.  As the code is, the callback leaves c alone (SwKeep: the abandoned message is left to the GC).
   SwRelease is the "leak fix": the callback gives c back to the pool - straight away (guarded = false) or after
   taking the entry's guard (guarded = true).
   Every access to shared state (cache, guard, message) is one step; threads are scheduled arbitrarily; a thread
   that cannot move (the guard is taken) stutters.  Thread 0 is the sweep, thread j + 1 the handler number j;
   handlers are a total map nat -> handler: any number of them, each with its own amount of work.
   Not modelled: a completed message handed to a caller waiting in Do (who releases it: see notes, O13). *)
Inductive sweep_mode := SwKeep | SwRelease (guarded : bool).
Inductive spc := X0 (* about to look at the entry *) | XDel (* entry removed, onExpire about to run *) | XG (* guard taken *)
               | XRel (* ReleaseMessage entered *) | XRec (* recycled *) | XDone.
Inductive hpc := HIdle | HFound (* entry looked up *) | HWait (* waiting for the guard *) | HIn (k : nat) (* guard held, k accesses to go *)
               | HDel (* last block: about to remove the entry *) | HLend (* about to call next(w, c) *) | HHeld (* inside next *)
               | HUnl (* about to give the guard back *) | HDone.
Record handler := { h_pc : hpc; h_k : nat; h_last : bool }.
Record xstate := { x_s : spc; x_entry : bool; x_guard : option nat; x_hs : nat -> handler; x_trace : list lc }.

Definition set_h (hs : nat -> handler) (i : nat) (h : handler) : nat -> handler :=
  fun j => if Nat.eqb j i then h else hs j.
Definition with_pc (h : handler) (pc : hpc) : handler := {| h_pc := pc; h_k := h_k h; h_last := h_last h |}.

Definition step_s (m : sweep_mode) (c : Z) (st : xstate) : xstate :=
  let mk s e g evs := {| x_s := s; x_entry := e; x_guard := g; x_hs := x_hs st; x_trace := x_trace st ++ evs |} in
  match x_s st with
  | X0 => if x_entry st then mk XDel false (x_guard st) [] else mk XDone false (x_guard st) []
  | XDel => match m with
            | SwKeep => mk XDone (x_entry st) (x_guard st) []
            | SwRelease false => mk XRel (x_entry st) (x_guard st) [Rel c]
            | SwRelease true => match x_guard st with None => mk XG (x_entry st) (Some O) [] | Some _ => st end
            end
  | XG => mk XRel (x_entry st) (x_guard st) [Rel c]
  | XRel => mk XRec (x_entry st) (x_guard st) [Rec c]
  | XRec => match m with
            | SwRelease true => mk XDone (x_entry st) None []
            | _ => mk XDone (x_entry st) (x_guard st) []
            end
  | XDone => st
  end.

Definition step_h (c : Z) (i : nat) (st : xstate) : xstate :=
  let h := x_hs st i in
  let mk pc e g evs := {| x_s := x_s st; x_entry := e; x_guard := g; x_hs := set_h (x_hs st) i (with_pc h pc); x_trace := x_trace st ++ evs |} in
  match h_pc h with
  | HIdle => mk (if x_entry st then HFound else HDone) (x_entry st) (x_guard st) []
  | HFound => mk HWait (x_entry st) (x_guard st) [Use c]
  | HWait => match x_guard st with None => mk (HIn (h_k h)) (x_entry st) (Some (S i)) [] | Some _ => st end
  | HIn (S k) => mk (HIn k) (x_entry st) (x_guard st) [Use c]
  | HIn O => mk (if h_last h then HDel else HUnl) (x_entry st) (x_guard st) []
  | HDel => mk HLend false (x_guard st) []
  | HLend => mk HHeld (x_entry st) (x_guard st) [Hold c]
  | HHeld => mk HUnl (x_entry st) (x_guard st) [Unhold c true]
  | HUnl => mk HDone (x_entry st) None []
  | HDone => st
  end.

Definition xstep (m : sweep_mode) (c : Z) (st : xstate) (tid : nat) : xstate :=
  match tid with O => step_s m c st | S i => step_h c i st end.
Definition xrun (m : sweep_mode) (c : Z) (sched : list nat) (st : xstate) : xstate := fold_left (xstep m c) sched st.

(* progs j = (accesses under the guard, the block is the last one) of handler j *)
Definition xinit (progs : nat -> nat * bool) : xstate :=
  {| x_s := X0; x_entry := true; x_guard := None;
     x_hs := fun j => {| h_pc := HIdle; h_k := fst (progs j); h_last := snd (progs j) |}; x_trace := [] |}.

(* what the sweep itself does to the pool, as seen by the goroutine that runs it (family X of the harness) *)
Definition sweep_window (m : sweep_mode) (c : Z) : list lc := match m with SwKeep => [] | SwRelease _ => rel c end.
