(* Accesses to released messages (Pool/Model.v: Use, ping_fin, ping_run, the give-up model):
   - a Use of a message that is not released changes nothing (the harness records only the others), a Use of a
     released message is rejected (class 7);
   - udp AsyncPing: whoever finishes the ping, in whatever order and however often, the trace is accepted when the
     cancel function remembers the message ID; when it asks the ping message for it, every run in which the cancel
     function comes after another finisher is rejected - and every other run is accepted (which is why sequential
     tests that cancel a pending ping see nothing);
   - net/blockwise: a caller that gives a call up while any number of receive paths read its request under the read
     lock of sendingMessagesCache: under every schedule the request is released only after the last read; with
     reads outside the lock there is a schedule with a read after the release. *)
From Coq Require Import ZArith NArith List Bool Lia.
From GoCoap Require Import Pool.Model Pool.Spec Pool.Proofs Pool.Writer Pool.Paths.
Import ListNotations.
Open Scope Z_scope.

(* ---------- 1. Use ---------- *)

Definition released (s : ostate) : bool := match s with Freed | Pooled => true | _ => false end.

Lemma use_step s o : released s = false -> auto_step s (Use o) = inl s.
Proof. destruct s; cbn; intros H; try discriminate; reflexivity. Qed.

Lemma use_step_released s o : released s = true -> auto_step s (Use o) = inr 7%N.
Proof. destruct s; cbn; intros H; try discriminate; reflexivity. Qed.

Lemma use_not_released_run : forall a o b s s1, run_obj s a = inl s1 -> released s1 = false ->
  run_obj s (a ++ Use o :: b) = run_obj s (a ++ b).
Proof.
  intros a o b s s1 H Hr. rewrite (run_obj_app _ _ (Use o :: b) _ H), (run_obj_app _ _ b _ H).
  cbn [run_obj]. rewrite (use_step s1 o Hr). reflexivity.
Qed.

(* the harness leaves out the accesses to messages that are not released: with or without them a trace is accepted
   or not alike *)
Theorem use_not_released_irrelevant : forall a o b s1, run_obj Live (project o a) = inl s1 -> released s1 = false ->
  (accepted (a ++ Use o :: b) <-> accepted (a ++ b)).
Proof.
  intros a o b s1 H Hr.
  assert (E : forall o', run_obj Live (project o' (a ++ Use o :: b)) = run_obj Live (project o' (a ++ b))).
  { intros o'. rewrite !project_app. unfold project at 2. cbn [filter obj]. destruct (Z.eqb_spec o o') as [<-|Hne].
    - apply (use_not_released_run _ o _ Live s1 H Hr).
    - reflexivity. }
  split; intros Hacc o'; destruct (Hacc o') as [s Hs]; exists s; [rewrite <- E|rewrite E]; exact Hs.
Qed.

Theorem use_after_release_rejected : forall o pre s, run_obj Live (project o pre) = inl s -> released s = true ->
  check (pre ++ [Use o]) <> 0%N.
Proof.
  intros o pre s H Hr C. apply check_accepts in C. destruct (C o) as [s' Hs].
  rewrite project_app, (run_obj_app _ _ _ _ H) in Hs. unfold project in Hs. cbn [filter obj] in Hs.
  rewrite Z.eqb_refl in Hs. cbn [run_obj] in Hs. rewrite (use_step_released s o Hr) in Hs. discriminate.
Qed.

(* ... and by the property text as scanned by Spec.v, independently of the automaton *)
Theorem use_after_release_class : forall o pre s, run_obj Live (project o pre) = inl s -> released s = true ->
  c12_class (pre ++ [Use o]) <> 0%N.
Proof.
  intros o pre s H Hr C.
  (* the scan of Spec.v on o's projection: in_pool is set after the release *)
  assert (G : forall t st f, run_obj st t = inl s -> sim st f -> scan f (t ++ [Use o]) <> 0%N).
  { induction t as [|e t IH]; intros st f Hrun Hsim.
    - cbn [run_obj] in Hrun. injection Hrun as ->. cbn [app scan].
      destruct s; try discriminate; cbn [sim] in Hsim; rewrite Hsim; discriminate.
    - cbn [run_obj] in Hrun. destruct (auto_step st e) as [st1|c] eqn:E; [|discriminate].
      cbn [app scan].
      destruct e as [x|x|x ok|x|x same|x|x]; destruct st; cbn [auto_step] in E; try discriminate;
        cbn [sim] in Hsim;
        try (destruct ok; [|discriminate]); try (destruct same; [|discriminate]);
        injection E as <-;
        repeat match goal with H : _ /\ _ |- _ => destruct H end;
        repeat match goal with H : in_pool f = _ |- _ => rewrite H end;
        repeat match goal with H : app_holds f = _ |- _ => rewrite H end;
        repeat match goal with H : app_releasing f = _ |- _ => rewrite H end;
        cbn [andb negb]; rewrite ?andb_false_r;
        apply (IH _ _ Hrun); cbn [sim in_pool app_holds app_releasing]; repeat split; auto. }
  (* c12_class = 0 means the scan of every object that occurs is 0 *)
  assert (S0 : forall t os, spec_first t os = 0%N -> forall x, In x os ->
            scan {| in_pool := false; app_holds := false; app_releasing := false |} (project x t) = 0%N).
  { induction os as [|y os IH]; intros Hz x Hx; [destruct Hx|]. cbn [spec_first] in Hz.
    destruct (N.eqb_spec (scan {| in_pool := false; app_holds := false; app_releasing := false |} (project y t)) 0) as [Hy|Hy].
    - destruct Hx as [<-|Hx]; [exact Hy|exact (IH Hz x Hx)].
    - exfalso. exact (Hy Hz). }
  unfold c12_class in C.
  assert (Hin : In o (objects (pre ++ [Use o]) [])).
  { apply (objects_complete (pre ++ [Use o]) [] (Use o)). apply in_or_app. right. left. reflexivity. }
  specialize (S0 _ _ C o Hin). rewrite project_app in S0. unfold project at 2 in S0. cbn [filter obj] in S0. rewrite Z.eqb_refl in S0.
  apply (G _ Live {| in_pool := false; app_holds := false; app_releasing := false |} H); [split; reflexivity|exact S0].
Qed.

(* ---------- 2. udp AsyncPing: the finishers ---------- *)

Lemma ping_fin_single req late c fs : single req (ping_fin req late c fs).
Proof.
  revert c. induction fs as [|f fs IH]; intros c; [constructor|]. cbn [ping_fin]. unfold single in *.
  apply Forall_app. split; [destruct f, late; repeat constructor|].
  apply Forall_app. split; [destruct c; repeat constructor|apply IH].
Qed.

Lemma ping_fin_gone_nil req fs : ping_fin req false true fs = [].
Proof. induction fs as [|f fs IH]; [reflexivity|]. cbn [ping_fin]. rewrite IH. destruct f; reflexivity. Qed.

Lemma ping_fin_gone_no_cancel req fs : ~ In FCancel fs -> ping_fin req true true fs = [].
Proof.
  induction fs as [|f fs IH]; intros H; [reflexivity|]. cbn [ping_fin]. rewrite IH by (intros Hin; apply H; right; exact Hin).
  destruct f; try reflexivity. exfalso. apply H. left. reflexivity.
Qed.

Lemma path_async_ping_fin_single req late fs : single req (path_async_ping_fin req late fs).
Proof. unfold path_async_ping_fin. constructor; [reflexivity|apply ping_fin_single]. Qed.

(* the ping as it is: accepted whoever finishes it, in whatever order, however often *)
Theorem path_async_ping_fin_ok : forall req fs, accepted (path_async_ping_fin req false fs).
Proof.
  intros req fs. apply (single_accepted req); [apply path_async_ping_fin_single|].
  unfold path_async_ping_fin. destruct fs as [|f fs]; [eexists; reflexivity|].
  cbn [ping_fin]. rewrite ping_fin_gone_nil. destruct f; eexists; reflexivity.
Qed.

Lemma ping_fin_late_rejected req : forall fs, In FCancel fs -> run_obj Pooled (ping_fin req true true fs) = inr 7%N.
Proof.
  induction fs as [|f fs IH]; intros H; [destruct H|]. cbn [ping_fin].
  destruct f; cbn [app]; try reflexivity; (destruct H as [H|H]; [discriminate|exact (IH H)]).
Qed.

Definition flags0 : flags := {| in_pool := false; app_holds := false; app_releasing := false |}.

Lemma objects_known o : forall t acc, single o t -> In o acc -> objects t acc = acc.
Proof.
  induction t as [|e t IH]; intros acc Hs Hin; [reflexivity|]. inversion Hs as [|? ? He Ht]; subst. cbn [objects].
  replace (existsb (Z.eqb (obj e)) acc) with true; [apply IH; assumption|].
  symmetry. apply existsb_exists. exists (obj e). split; [exact Hin|apply Z.eqb_refl].
Qed.

(* the class of a trace about one object is the scan of the trace *)
Lemma c12_class_single o t : single o t -> c12_class t = scan flags0 t.
Proof.
  intros Hs. destruct t as [|e t]; [reflexivity|]. inversion Hs as [|? ? He Ht]; subst.
  unfold c12_class. cbn [objects existsb]. rewrite (objects_known (obj e) t [obj e] Ht (or_introl eq_refl)).
  cbn [spec_first]. rewrite (project_single_same (obj e) (e :: t) Hs). fold flags0.
  destruct (N.eqb_spec (scan flags0 (e :: t)) 0) as [E|E]; [symmetry; exact E|reflexivity].
Qed.

Lemma ping_fin_late_scan req : forall fs f, in_pool f = true -> In FCancel fs -> scan f (ping_fin req true true fs) = 7%N.
Proof.
  induction fs as [|x fs IH]; intros f Hf H; [destruct H|]. cbn [ping_fin].
  destruct x; cbn [app scan]; try (rewrite Hf; reflexivity); (destruct H as [H|H]; [discriminate|exact (IH f Hf H)]).
Qed.

(* the cancel function that asks the ping message for its ID: rejected - by the automaton and by the property text
   as scanned by Spec.v - as soon as it comes after another finisher *)
Theorem ping_late_read_rejected : forall req f fs, In FCancel fs ->
  check (path_async_ping_fin req true (f :: fs)) <> 0%N /\ c12_class (path_async_ping_fin req true (f :: fs)) = 7%N.
Proof.
  intros req f fs H. split.
  - assert (R : run_obj Live (project req (path_async_ping_fin req true (f :: fs))) = inr 7%N).
    { rewrite (project_single_same req _ (path_async_ping_fin_single req true (f :: fs))).
      unfold path_async_ping_fin. cbn [ping_fin].
      assert (P := ping_fin_late_rejected req fs H).
      destruct f; cbn [app rel run_obj auto_step]; exact P. }
    intros C. apply check_accepts in C. destruct (C req) as [s Hs]. rewrite R in Hs. discriminate.
  - rewrite (c12_class_single req _ (path_async_ping_fin_single req true (f :: fs))).
    unfold path_async_ping_fin. cbn [ping_fin].
    assert (P := fun f0 Hf => ping_fin_late_scan req fs f0 Hf H).
    destruct f; cbn [app rel scan flags0 in_pool app_holds app_releasing andb negb]; apply P; reflexivity.
Qed.

(* ... and accepted otherwise: as long as the cancel function is the one that finishes the ping (or is never called
   late) the stale read does not happen - the runs of a sequential test *)
Theorem ping_late_read_unnoticed : forall req f fs, ~ In FCancel fs -> accepted (path_async_ping_fin req true (f :: fs)).
Proof.
  intros req f fs H. apply (single_accepted req); [apply path_async_ping_fin_single|].
  unfold path_async_ping_fin. cbn [ping_fin]. rewrite (ping_fin_gone_no_cancel req fs H).
  destruct f; eexists; reflexivity.
Qed.

(* the steps as the harness sees them (ping_run: one window per step, temporaries numbered from `next`): whatever the
   steps, the windows put together are an accepted trace *)
Definition pgood (s : pstate) (next o : Z) : Prop := (o = 0 /\ s <> PGone) \/ next <= o.

Lemma ping_run_segs maxrt : forall fs s next, 1 <= next ->
  exists os, segs os (concat (ping_run maxrt false s next fs)) /\ NoDup os /\ Forall (pgood s next) os.
Proof.
  induction fs as [|f fs IH]; intros s next Hn.
  - exists []. split; [constructor|]. split; constructor.
  - cbn [ping_run].
    assert (Weak : forall s' os, Forall (pgood s' (next + 1)) os -> Forall (pgood s' next) os).
    { intros s' os H. eapply Forall_impl; [|exact H]. intros o [Ho|Ho]; [left; exact Ho|right; lia]. }
    assert (Gone : forall next' os, Forall (pgood PGone next') os -> forall o, In o os -> next' <= o).
    { intros next' os H o Ho. rewrite Forall_forall in H. destruct (H o Ho) as [[_ Hc]|Hc]; [exfalso; apply Hc; reflexivity|exact Hc]. }
    destruct s as [n|]; destruct f; cbn [ping_step].
    + (* pending, pong *)
      destruct (IH PGone (next + 1) ltac:(lia)) as [os [Hs [Hnd Hg]]]. cbn [concat].
      exists (0 :: next :: os). split; [|split].
      * rewrite <- app_assoc. apply (segs_app [0] _ (segs_rel 0) (next :: os)). apply (segs_app [next] _ (segs_rel next) os). exact Hs.
      * constructor; [intros [H|H]; [lia|specialize (Gone _ _ Hg 0 H); lia]|].
        constructor; [intros H; specialize (Gone _ _ Hg next H); lia|exact Hnd].
      * constructor; [left; split; [reflexivity|discriminate]|]. constructor; [right; lia|].
        eapply Forall_impl; [|exact Hg]. intros o [[_ Hc]|Hc]; [exfalso; apply Hc; reflexivity|right; lia].
    + (* pending, expiry sweep *)
      destruct (maxrt <=? n)%nat.
      * destruct (IH PGone next Hn) as [os [Hs [Hnd Hg]]]. cbn [concat].
        exists (0 :: os). split; [|split].
        -- apply (segs_app [0] _ (segs_rel 0) os). exact Hs.
        -- constructor; [intros H; specialize (Gone _ _ Hg 0 H); lia|exact Hnd].
        -- constructor; [left; split; [reflexivity|discriminate]|].
           eapply Forall_impl; [|exact Hg]. intros o [[_ Hc]|Hc]; [exfalso; apply Hc; reflexivity|right; exact Hc].
      * destruct (IH (PPending (S n)) (next + 1) ltac:(lia)) as [os [Hs [Hnd Hg]]]. cbn [concat].
        exists (next :: os). split; [|split].
        -- apply (segs_app [next] _ (segs_rel next) os). exact Hs.
        -- constructor; [|exact Hnd]. intros H. rewrite Forall_forall in Hg. destruct (Hg next H) as [[Hc _]|Hc]; lia.
        -- constructor; [right; lia|].
           eapply Forall_impl; [|exact Hg]. intros o [[Hc _]|Hc]; [left; split; [exact Hc|discriminate]|right; lia].
    + (* pending, cancel *)
      destruct (IH PGone next Hn) as [os [Hs [Hnd Hg]]]. cbn [concat app].
      exists (0 :: os). split; [|split].
      * apply (segs_app [0] _ (segs_rel 0) os). exact Hs.
      * constructor; [intros H; specialize (Gone _ _ Hg 0 H); lia|exact Hnd].
      * constructor; [left; split; [reflexivity|discriminate]|].
        eapply Forall_impl; [|exact Hg]. intros o [[_ Hc]|Hc]; [exfalso; apply Hc; reflexivity|right; exact Hc].
    + destruct (IH PGone next Hn) as [os [Hs [Hnd Hg]]]. exists os. cbn [concat app]. auto.
    + destruct (IH PGone next Hn) as [os [Hs [Hnd Hg]]]. exists os. cbn [concat app]. auto.
    + destruct (IH PGone next Hn) as [os [Hs [Hnd Hg]]]. exists os. cbn [concat app]. auto.
Qed.

Theorem ping_run_accepted : forall maxrt fs, accepted (concat (ping_run maxrt false (PPending 0) 1 fs)).
Proof.
  intros maxrt fs. destruct (ping_run_segs maxrt fs (PPending 0) 1 ltac:(lia)) as [os [Hs [Hnd _]]].
  exact (segs_accepted os _ Hs Hnd).
Qed.

(* with the stale read a cancel that comes late shows up in its own window *)
Theorem ping_run_late_read_window : forall maxrt next, ping_step maxrt true PGone next FCancel = (PGone, next, [Use 0]).
Proof. reflexivity. Qed.

(* ---------- 3. net/blockwise: giving a call up while receive paths read its request ---------- *)

Lemma Forall_upd {A} (P : A -> Prop) : forall l i x, Forall P l -> P x -> Forall P (upd i x l).
Proof.
  induction l as [|y l IH]; intros i x Hl Hx; [destruct i; constructor|]. inversion Hl; subst.
  destruct i; cbn [upd]; constructor; auto.
Qed.

Lemma nth_error_Forall {A} (P : A -> Prop) l i (x : A) : Forall P l -> nth_error l i = Some x -> P x.
Proof. intros H E. rewrite Forall_forall in H. apply H. exact (nth_error_In l i E). Qed.

Lemma existsb_false_Forall {A} (f : A -> bool) l : existsb f l = false -> Forall (fun x => f x = false) l.
Proof.
  induction l as [|x l IH]; intros H; [constructor|]. cbn [existsb] in H. apply orb_false_iff in H as [H1 H2].
  constructor; [exact H1|exact (IH H2)].
Qed.

(* the state of the caller's request r as a function of how far the caller has got *)
Definition dstate (app : bool) (d : dpc) : ostate :=
  match d with D0 | D1 | D2 | D3 => Live | D4 => if app then Releasing else Live | D5 => Freed | D6 => Pooled end.
Definition entry_of (d : dpc) : bool := match d with D0 | D1 => true | _ => false end.

(* a receive path that found the entry under the read lock keeps the caller at D0; nothing is left to read outside *)
Definition rgood (d : dpc) (rd : reader) : Prop :=
  match r_pc rd with
  | RIn true _ => d = D0
  | RIn false k => k = O
  | ROut k => k = O
  | _ => True
  end /\ Forall (fun p => snd p = O) (r_todo rd).

Record ginv (app : bool) (r : Z) (st : gstate) : Prop := {
  gi_entry : g_entry st = entry_of (g_d st);
  gi_lock : writer_held (g_d st) = true -> Forall (fun rd => holds rd = false) (g_rs st);
  gi_rs : Forall (rgood (g_d st)) (g_rs st);
  gi_run : run_obj Live (g_trace st) = inl (dstate app (g_d st));
  gi_obj : single r (g_trace st) }.

Lemma rgood_nohold d d' rd : rgood d rd -> holds rd = false -> rgood d' rd.
Proof. unfold rgood, holds. destruct (r_pc rd) as [| |[|] k|k]; intros [H1 H2] Hh; try discriminate; split; auto. Qed.

Lemma rgood_notD0 d d' rd : rgood d rd -> d <> D0 -> rgood d' rd.
Proof. unfold rgood. destruct (r_pc rd) as [| |[|] k|k]; intros [H1 H2] Hd; try contradiction; split; auto. Qed.

Lemma Forall_rgood_nohold d d' rs : Forall (rgood d) rs -> Forall (fun rd => holds rd = false) rs -> Forall (rgood d') rs.
Proof.
  induction 1 as [|rd rs Hrd Hrs IH]; intros Hh; [constructor|]. inversion Hh; subst.
  constructor; [exact (rgood_nohold d d' rd Hrd H1)|exact (IH H2)].
Qed.

Lemma Forall_rgood_notD0 d d' rs : Forall (rgood d) rs -> d <> D0 -> Forall (rgood d') rs.
Proof. intros H Hd. eapply Forall_impl; [|exact H]. intros rd Hrd. exact (rgood_notD0 d d' rd Hrd Hd). Qed.

Lemma single_app o a b : single o a -> single o b -> single o (a ++ b).
Proof. intros Ha Hb. apply Forall_app. split; assumption. Qed.

Lemma ginv_step_d app r st : ginv app r st -> ginv app r (step_d app r st).
Proof.
  intros [Ie Il Ir Irun Io]. unfold step_d. destruct (g_d st) eqn:E.
  - destruct (existsb holds (g_rs st)) eqn:X; [constructor; rewrite ?E; assumption|].
    apply existsb_false_Forall in X.
    constructor; cbn [g_d g_entry g_rs g_trace].
    + exact Ie. + intros _. exact X. + exact (Forall_rgood_nohold D0 D1 _ Ir X). + exact Irun. + exact Io.
  - specialize (Il eq_refl). constructor; cbn [g_d g_entry g_rs g_trace].
    + reflexivity. + intros _. exact Il. + exact (Forall_rgood_nohold D1 D2 _ Ir Il). + exact Irun. + exact Io.
  - specialize (Il eq_refl). constructor; cbn [g_d g_entry g_rs g_trace].
    + exact Ie. + discriminate. + exact (Forall_rgood_nohold D2 D3 _ Ir Il). + exact Irun. + exact Io.
  - constructor; cbn [g_d g_entry g_rs g_trace].
    + exact Ie. + discriminate. + apply (Forall_rgood_notD0 D3 D4 _ Ir). discriminate.
    + rewrite (run_obj_app _ _ _ _ Irun). destruct app; reflexivity.
    + apply single_app; [exact Io|destruct app; repeat constructor].
  - constructor; cbn [g_d g_entry g_rs g_trace].
    + exact Ie. + discriminate. + apply (Forall_rgood_notD0 D4 D5 _ Ir). discriminate.
    + rewrite (run_obj_app _ _ _ _ Irun). destruct app; reflexivity.
    + apply single_app; [exact Io|repeat constructor].
  - constructor; cbn [g_d g_entry g_rs g_trace].
    + exact Ie. + discriminate. + apply (Forall_rgood_notD0 D5 D6 _ Ir). discriminate.
    + rewrite (run_obj_app _ _ _ _ Irun). reflexivity.
    + apply single_app; [exact Io|repeat constructor].
  - constructor; rewrite ?E; assumption.
Qed.

(* a reader step that leaves the reader without the lock *)
Lemma ginv_set_nohold app r st i rd : ginv app r st -> holds rd = false -> rgood (g_d st) rd -> ginv app r (set_reader st i rd []).
Proof.
  intros [Ie Il Ir Irun Io] Hh Hg. constructor; cbn [set_reader g_d g_entry g_rs g_trace]; rewrite ?app_nil_r; try assumption.
  - intros W. apply Forall_upd; [exact (Il W)|exact Hh].
  - apply Forall_upd; assumption.
Qed.

Lemma ginv_step_r app r i st : ginv app r st -> ginv app r (step_r r i st).
Proof.
  intros I. unfold step_r. destruct (nth_error (g_rs st) i) as [rd|] eqn:N; [|exact I].
  assert (Hrd := nth_error_Forall _ _ _ _ (gi_rs _ _ _ I) N).
  (* while this reader holds the read lock the writer does not hold the write lock *)
  assert (NoW : holds rd = true -> writer_held (g_d st) = false).
  { intros Hh. destruct (writer_held (g_d st)) eqn:W; [|reflexivity].
    assert (Hf := nth_error_Forall _ _ _ _ (gi_lock _ _ _ I W) N). cbn beta in Hf. rewrite Hh in Hf. discriminate. }
  destruct rd as [pc todo]. unfold rgood in Hrd. cbn [r_pc r_todo] in *. destruct Hrd as [Hpc Htodo].
  destruct pc as [| |f k|k].
  - (* RIdle *) destruct todo as [|p rest]; [exact I|].
    destruct (writer_held (g_d st)) eqn:W; [exact I|].
    destruct I as [Ie Il Ir Irun Io]. constructor; cbn [set_reader g_d g_entry g_rs g_trace]; rewrite ?app_nil_r; try assumption.
    + rewrite W. discriminate.
    + apply Forall_upd; [exact Ir|]. split; [exact Logic.I|exact Htodo].
  - (* RLocked *) destruct todo as [|[ki ko] rest]; [exact I|].
    specialize (NoW eq_refl).
    destruct I as [Ie Il Ir Irun Io]. constructor; cbn [set_reader g_d g_entry g_rs g_trace]; rewrite ?app_nil_r; try assumption.
    + rewrite NoW. discriminate.
    + apply Forall_upd; [exact Ir|]. split; [|exact Htodo]. cbn [r_pc].
      destruct (g_entry st) eqn:En; [|reflexivity].
      rewrite Ie in En. destruct (g_d st); cbn in En, NoW; try discriminate; reflexivity.
  - (* RIn *) destruct k as [|k].
    + destruct todo as [|[ki ko] rest].
      * apply ginv_set_nohold; [exact I|reflexivity|split; [exact Logic.I|constructor]].
      * apply ginv_set_nohold; [exact I|reflexivity|]. inversion Htodo as [|? ? Hko Hrest]; subst. cbn [snd] in Hko.
        split; [cbn [r_pc]; destruct f; [exact Hko|reflexivity]|exact Hrest].
    + (* a read under the lock *)
      destruct f; [|discriminate].
      destruct I as [Ie Il Ir Irun Io]. rewrite Hpc in *.
      constructor; cbn [set_reader g_d g_entry g_rs g_trace].
      * rewrite Hpc. exact Ie.
      * rewrite Hpc. discriminate.
      * rewrite Hpc. apply Forall_upd; [exact Ir|]. split; [reflexivity|exact Htodo].
      * rewrite Hpc. rewrite (run_obj_app _ _ _ _ Irun). reflexivity.
      * apply single_app; [exact Io|repeat constructor].
  - (* ROut *) subst k. apply ginv_set_nohold; [exact I|reflexivity|split; [exact Logic.I|exact Htodo]].
Qed.

Lemma ginv_run app r : forall sched st, ginv app r st -> ginv app r (grun app r sched st).
Proof.
  induction sched as [|tid sched IH]; intros st I; [exact I|]. unfold grun. cbn [fold_left]. apply IH.
  destruct tid; [apply ginv_step_d|apply ginv_step_r]; exact I.
Qed.

Definition locked_only (prog : list (nat * nat)) : Prop := Forall (fun p => snd p = O) prog.

Lemma ginv_init app r progs : Forall locked_only progs -> ginv app r (ginit progs).
Proof.
  intros H. constructor; cbn [ginit g_d g_entry g_rs g_trace]; try reflexivity; try discriminate; try constructor.
  induction H as [|p progs Hp _ IH]; [constructor|]. cbn [map]. constructor; [split; [exact Logic.I|exact Hp]|exact IH].
Qed.

(* any number of receive paths that read the caller's request only under the read lock, a caller that gives up
   whenever it likes, every schedule: the request is never read after it was released *)
Theorem giveup_safe : forall app r progs sched, Forall locked_only progs ->
  accepted (g_trace (grun app r sched (ginit progs))) /\ c12_class (g_trace (grun app r sched (ginit progs))) = 0%N.
Proof.
  intros app r progs sched H. assert (I := ginv_run app r sched _ (ginv_init app r progs H)).
  assert (A : accepted (g_trace (grun app r sched (ginit progs)))).
  { apply (single_accepted r); [exact (gi_obj _ _ _ I)|]. eexists. exact (gi_run _ _ _ I). }
  split; [exact A|exact (accepted_satisfies_property _ A)].
Qed.

(* ... because a caller cannot get past its Delete while a receive path that found the entry is still inside its
   locked section (what the harness sees as "Do is blocked in RWMutex.Lock") *)
Theorem giveup_caller_waits : forall app r progs sched rd k, Forall locked_only progs ->
  In rd (g_rs (grun app r sched (ginit progs))) -> r_pc rd = RIn true k -> g_d (grun app r sched (ginit progs)) = D0.
Proof.
  intros app r progs sched rd k H Hin Hpc. assert (I := ginv_run app r sched _ (ginv_init app r progs H)).
  assert (G := gi_rs _ _ _ I). rewrite Forall_forall in G. destruct (G rd Hin) as [G1 _]. rewrite Hpc in G1. exact G1.
Qed.

Lemma handle_continue_prog_locked k : locked_only (handle_continue_prog k).
Proof. repeat constructor. Qed.

(* the next block built outside the lock: a schedule with a read of the released request, for every k > 0 *)
Theorem giveup_unlocked_refuted : forall app r k, (0 < k)%nat -> exists sched,
  c12_class (g_trace (grun app r sched (ginit [handle_continue_unlocked_prog k]))) = 7%N.
Proof.
  intros app r k Hk. destruct k as [|k]; [lia|].
  exists [1; 1; 1; 1; 1; 1; 1; 1; 0; 0; 0; 0; 0; 1]%nat.
  rewrite (c12_class_single r).
  - destruct app; reflexivity.
  - destruct app; repeat constructor.
Qed.
