(* The hand-over of a response to the waiting caller (Pool/HandOverModel.v):
   - a receive path that does not touch the message after the channel send: under every schedule the trace is
     accepted (the message is released only by the caller, and nobody reads it afterwards);
   - accesses BEFORE the send are harmless whatever their number: the caller cannot have got the message yet;
   - one access after the send is enough for a schedule with a read of the released message (class 7) - the caller
     only has to be scheduled first;
   - and when the receive path happens to be through before the caller moves, nothing is seen, whatever comes
     later (which is why every sequential or lucky test stays green). *)
From Coq Require Import ZArith NArith List Bool Lia.
From GoCoap Require Import Pool.Model Pool.Spec Pool.Proofs Pool.Paths Pool.Use Pool.HandOverModel.
Import ListNotations.
Open Scope Z_scope.

(* the state of c as a function of how far the caller has got *)
Definition ho_cstate (d : ho_cpc) : ostate :=
  match d with HC0 | HC1 | HC3 => Live | HC2 => Held | HC4 => Releasing | HC5 => Freed | HC6 => Pooled end.

Record ho_inv (c : Z) (st : ho_state) : Prop := {
  hi_obj : single c (ho_trace st);
  hi_run : run_obj Live (ho_trace st) = inl (ho_cstate (ho_c st));
  hi_wait : ho_handed (ho_r st) = false -> ho_c st = HC0;       (* the caller cannot overtake the channel send *)
  hi_late : (0 < ho_late (ho_r st))%nat -> ho_c st = HC0 }.     (* accesses still to come: the caller has not moved *)

Lemma ho_inv_init c pre post : ho_inv c (ho_init pre post).
Proof. constructor; cbn; try reflexivity; constructor. Qed.

(* the receive path may always move *)
Lemma ho_inv_step_r c st : ho_inv c st -> ho_inv c (ho_step_r c st).
Proof.
  intros [Io Ir Iw Il]. unfold ho_step_r. destruct (ho_r st) as [[|k] p|[|p]] eqn:E.
  - (* the send *) constructor; cbn [ho_r ho_c ho_trace ho_handed ho_late] in *; try assumption.
    intros; discriminate.
  - (* an access before the send: the caller waits *)
    specialize (Iw eq_refl). constructor; cbn [ho_r ho_c ho_trace ho_handed ho_late] in *.
    + apply single_app; [exact Io|repeat constructor].
    + rewrite (run_obj_app _ _ _ _ Ir). rewrite Iw. reflexivity.
    + intros _. exact Iw.
    + intros _. exact Iw.
  - constructor; rewrite ?E; assumption.
  - (* an access after the send: only while the caller has not moved *)
    assert (C0 : ho_c st = HC0) by (apply Il; cbn; lia).
    constructor; cbn [ho_r ho_c ho_trace ho_handed ho_late] in *.
    + apply single_app; [exact Io|repeat constructor].
    + rewrite (run_obj_app _ _ _ _ Ir). rewrite C0. reflexivity.
    + intros; discriminate.
    + intros _. exact C0.
Qed.

(* the caller may move when the receive path has no access to c left *)
Lemma ho_inv_step_c c st : ho_late (ho_r st) = 0%nat -> ho_inv c st -> ho_inv c (ho_step_c c st).
Proof.
  intros L [Io Ir Iw Il]. unfold ho_step_c. destruct (ho_c st) eqn:E.
  - destruct (ho_handed (ho_r st)) eqn:H; [|constructor; rewrite ?E; try assumption; intros; reflexivity].
    constructor; cbn [ho_r ho_c ho_trace]; try assumption.
    + intros H'. rewrite H in H'. discriminate.
    + intros L'. lia.
  - constructor; cbn [ho_r ho_c ho_trace].
    + apply single_app; [exact Io|repeat constructor].
    + rewrite (run_obj_app _ _ _ _ Ir). reflexivity.
    + intros H. specialize (Iw H). discriminate.
    + intros L'. lia.
  - constructor; cbn [ho_r ho_c ho_trace].
    + apply single_app; [exact Io|repeat constructor].
    + rewrite (run_obj_app _ _ _ _ Ir). reflexivity.
    + intros H. specialize (Iw H). discriminate.
    + intros L'. lia.
  - constructor; cbn [ho_r ho_c ho_trace].
    + apply single_app; [exact Io|repeat constructor].
    + rewrite (run_obj_app _ _ _ _ Ir). reflexivity.
    + intros H. specialize (Iw H). discriminate.
    + intros L'. lia.
  - constructor; cbn [ho_r ho_c ho_trace].
    + apply single_app; [exact Io|repeat constructor].
    + rewrite (run_obj_app _ _ _ _ Ir). reflexivity.
    + intros H. specialize (Iw H). discriminate.
    + intros L'. lia.
  - constructor; cbn [ho_r ho_c ho_trace].
    + apply single_app; [exact Io|repeat constructor].
    + rewrite (run_obj_app _ _ _ _ Ir). reflexivity.
    + intros H. specialize (Iw H). discriminate.
    + intros L'. lia.
  - constructor; rewrite ?E; assumption.
Qed.

Lemma ho_late_step_r c st : (ho_late (ho_r (ho_step_r c st)) <= ho_late (ho_r st))%nat.
Proof. unfold ho_step_r. destruct (ho_r st) as [[|k] p|[|p]] eqn:E; cbn [ho_r ho_late]; rewrite ?E; cbn [ho_late]; lia. Qed.

Lemma ho_late_step_c c st : ho_r (ho_step_c c st) = ho_r st.
Proof. unfold ho_step_c. destruct (ho_c st); try reflexivity. destruct (ho_handed (ho_r st)); reflexivity. Qed.

Lemma ho_inv_run c : forall sched st, ho_late (ho_r st) = 0%nat -> ho_inv c st ->
  ho_inv c (ho_run c sched st) /\ ho_late (ho_r (ho_run c sched st)) = 0%nat.
Proof.
  induction sched as [|tid sched IH]; intros st L I; [split; assumption|]. unfold ho_run. cbn [fold_left].
  destruct tid as [|j]; cbn [ho_step].
  - apply IH; [assert (M := ho_late_step_r c st); lia|exact (ho_inv_step_r c st I)].
  - apply IH; [rewrite ho_late_step_c; exact L|exact (ho_inv_step_c c st L I)].
Qed.

(* steps of the receive path alone *)
Lemma ho_inv_run_r c : forall s1 st, Forall (fun tid => tid = 0%nat) s1 -> ho_inv c st -> ho_inv c (ho_run c s1 st).
Proof.
  induction s1 as [|tid s1 IH]; intros st F I; [exact I|]. inversion F as [|? ? Ht Fr]; subst.
  unfold ho_run. cbn [fold_left ho_step]. apply IH; [exact Fr|exact (ho_inv_step_r c st I)].
Qed.

Lemma ho_inv_accepted c st : ho_inv c st -> accepted (ho_trace st) /\ c12_class (ho_trace st) = 0%N.
Proof.
  intros I. assert (A : accepted (ho_trace st)).
  { apply (single_accepted c); [exact (hi_obj _ _ I)|]. eexists. exact (hi_run _ _ I). }
  split; [exact A|exact (accepted_satisfies_property _ A)].
Qed.

(* The receive path as it is (no access after the send), any number of accesses before it, EVERY schedule: the
   trace is accepted and satisfies the property text. *)
Theorem handover_safe : forall c pre sched,
  accepted (ho_trace (ho_run c sched (ho_init pre 0))) /\ c12_class (ho_trace (ho_run c sched (ho_init pre 0))) = 0%N.
Proof.
  intros c pre sched. apply (ho_inv_accepted c).
  exact (proj1 (ho_inv_run c sched (ho_init pre 0) eq_refl (ho_inv_init c pre 0))).
Qed.

Corollary handover_code_safe : forall c k sched,
  c12_class (ho_trace (ho_run c sched (ho_init (fst (handover_code k)) (snd (handover_code k))))) = 0%N.
Proof. intros c k sched. destruct k; exact (proj2 (handover_safe c _ sched)). Qed.

(* Whatever the program: as long as the receive path has not sent the message, the caller is still waiting - the
   accesses before the send can never be late. *)
Lemma ho_wait_step c st tid : (ho_handed (ho_r st) = false -> ho_c st = HC0) ->
  ho_handed (ho_r (ho_step c st tid)) = false -> ho_c (ho_step c st tid) = HC0.
Proof.
  intros I. destruct tid as [|j]; cbn [ho_step].
  - unfold ho_step_r. destruct (ho_r st) as [[|k] p|[|p]] eqn:E; cbn [ho_r ho_c ho_handed]; try (intros; discriminate).
    + intros _. apply I. reflexivity.
    + rewrite E. cbn. intros; discriminate.
  - unfold ho_step_c. destruct (ho_c st) eqn:E; cbn [ho_r ho_c].
    + destruct (ho_handed (ho_r st)) eqn:H; cbn [ho_r ho_c]; [intros H'; rewrite H in H'; discriminate|intros _; exact E].
    + intros H. specialize (I H). discriminate.
    + intros H. specialize (I H). discriminate.
    + intros H. specialize (I H). discriminate.
    + intros H. specialize (I H). discriminate.
    + intros H. specialize (I H). discriminate.
    + intros H. specialize (I H). discriminate.
Qed.

Theorem handover_caller_waits : forall c pre post sched,
  ho_handed (ho_r (ho_run c sched (ho_init pre post))) = false -> ho_c (ho_run c sched (ho_init pre post)) = HC0.
Proof.
  intros c pre post sched.
  assert (G : forall sched st, (ho_handed (ho_r st) = false -> ho_c st = HC0) ->
              ho_handed (ho_r (ho_run c sched st)) = false -> ho_c (ho_run c sched st) = HC0).
  { induction sched0 as [|tid sched0 IH]; intros st I; [exact I|]. unfold ho_run. cbn [fold_left].
    apply IH. exact (ho_wait_step c st tid I). }
  apply G. intros _. reflexivity.
Qed.

(* ---- one access after the send is enough ---- *)

Lemma ho_run_app c s1 s2 st : ho_run c (s1 ++ s2) st = ho_run c s2 (ho_run c s1 st).
Proof. unfold ho_run. apply fold_left_app. Qed.

Lemma ho_run_cons c tid s st : ho_run c (tid :: s) st = ho_run c s (ho_step c st tid).
Proof. reflexivity. Qed.

Lemma ho_run_pre c : forall pre post tr,
  ho_run c (repeat 0%nat (S pre)) {| ho_r := HoPre pre post; ho_c := HC0; ho_trace := tr |}
  = {| ho_r := HoPost post; ho_c := HC0; ho_trace := tr ++ repeat (Use c) pre |}.
Proof.
  induction pre as [|pre IH]; intros post tr.
  - cbn. rewrite app_nil_r. reflexivity.
  - change (repeat 0%nat (S (S pre))) with (0%nat :: repeat 0%nat (S pre)). rewrite ho_run_cons.
    change (ho_step c {| ho_r := HoPre (S pre) post; ho_c := HC0; ho_trace := tr |} 0)
      with {| ho_r := HoPre pre post; ho_c := HC0; ho_trace := tr ++ [Use c] |}.
    rewrite IH. cbn [repeat]. rewrite <- app_assoc. reflexivity.
Qed.

Lemma scan_uses c f : forall n t, in_pool f = false -> scan f (repeat (Use c) n ++ t) = scan f t.
Proof. induction n as [|n IH]; intros t H; [reflexivity|]. cbn [repeat app scan]. rewrite H. apply IH. exact H. Qed.

Lemma single_repeat_use c n : single c (repeat (Use c) n).
Proof. induction n; constructor; [reflexivity|assumption]. Qed.

Definition ho_bad_sched (pre : nat) : list nat := repeat 0%nat (S pre) ++ [1; 1; 1; 1; 1; 1; 0]%nat.

(* For every number of accesses before the send and every post > 0: the schedule "receive path up to the send, the
   caller until the message is back in the pool, the receive path's next access" reads a released message. *)
Theorem handover_late_read_refuted : forall c pre post, (0 < post)%nat ->
  c12_class (ho_trace (ho_run c (ho_bad_sched pre) (ho_init pre post))) = 7%N.
Proof.
  intros c pre post Hp. destruct post as [|post]; [lia|].
  unfold ho_bad_sched, ho_init. rewrite ho_run_app, ho_run_pre. cbn [app].
  cbn [ho_run fold_left ho_step ho_step_c ho_step_r ho_r ho_c ho_trace ho_handed].
  rewrite (c12_class_single c).
  - repeat rewrite <- app_assoc. rewrite scan_uses; reflexivity.
  - repeat (apply single_app; [|repeat constructor]). apply single_repeat_use.
Qed.

(* ... also when the pool is full and refuses the release (Rel without Rec: the message is nobody's all the same) *)
Definition ho_bad_sched_full (pre : nat) : list nat := repeat 0%nat (S pre) ++ [1; 1; 1; 1; 1; 0]%nat.

Theorem handover_late_read_refuted_full_pool : forall c pre post, (0 < post)%nat ->
  c12_class (ho_trace (ho_run c (ho_bad_sched_full pre) (ho_init pre post))) = 7%N.
Proof.
  intros c pre post Hp. destruct post as [|post]; [lia|].
  unfold ho_bad_sched_full, ho_init. rewrite ho_run_app, ho_run_pre. cbn [app].
  cbn [ho_run fold_left ho_step ho_step_c ho_step_r ho_r ho_c ho_trace ho_handed].
  rewrite (c12_class_single c).
  - repeat rewrite <- app_assoc. rewrite scan_uses; reflexivity.
  - repeat (apply single_app; [|repeat constructor]). apply single_repeat_use.
Qed.

(* ---- ... and it goes unnoticed whenever the receive path is through first ---- *)
Theorem handover_late_read_unnoticed : forall c pre post s1 s2,
  Forall (fun tid => tid = 0%nat) s1 ->
  ho_late (ho_r (ho_run c s1 (ho_init pre post))) = 0%nat ->
  accepted (ho_trace (ho_run c (s1 ++ s2) (ho_init pre post))) /\
  c12_class (ho_trace (ho_run c (s1 ++ s2) (ho_init pre post))) = 0%N.
Proof.
  intros c pre post s1 s2 F L. rewrite ho_run_app. apply (ho_inv_accepted c).
  exact (proj1 (ho_inv_run c s2 _ L (ho_inv_run_r c s1 _ F (ho_inv_init c pre post)))).
Qed.

(* e.g. the schedule in which the receive path runs to its end before the caller is scheduled at all *)
Lemma ho_run_post c : forall post tr d,
  ho_run c (repeat 0%nat post) {| ho_r := HoPost post; ho_c := d; ho_trace := tr |}
  = {| ho_r := HoPost 0; ho_c := d; ho_trace := tr ++ repeat (Use c) post |}.
Proof.
  induction post as [|post IH]; intros tr d.
  - cbn. rewrite app_nil_r. reflexivity.
  - cbn [repeat]. rewrite ho_run_cons.
    change (ho_step c {| ho_r := HoPost (S post); ho_c := d; ho_trace := tr |} 0)
      with {| ho_r := HoPost post; ho_c := d; ho_trace := tr ++ [Use c] |}.
    rewrite IH. rewrite <- app_assoc. reflexivity.
Qed.

Corollary handover_receive_path_first_unnoticed : forall c pre post s2,
  c12_class (ho_trace (ho_run c ((repeat 0%nat (S pre) ++ repeat 0%nat post) ++ s2) (ho_init pre post))) = 0%N.
Proof.
  intros c pre post s2. apply handover_late_read_unnoticed.
  - apply Forall_app. split; apply Forall_forall; intros x Hx; exact (repeat_spec _ _ _ Hx).
  - rewrite ho_run_app. unfold ho_init. rewrite ho_run_pre, ho_run_post. reflexivity.
Qed.
