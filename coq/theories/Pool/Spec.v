(* C12 as stated: (1) a message object is never returned to the pool twice without being
   re-acquired in between; (2) it is never recycled while the application legitimately holds
   it, and (3) its content stays unchanged during that time; (4,5) the library never reads or
   writes a message after releasing it (a write is seen at the latest when the message is handed out again:
   Reacq with a broken poison pattern; a read or write through an accessor is seen when it happens: Use).  Written per object over the observed lifecycle events,
   independently of Pool/Model.v (a simple scan with explicit flags). *)
From Coq Require Import ZArith NArith List Bool.
From GoCoap Require Import Pool.Model.
Import ListNotations.
Open Scope Z_scope.

Record flags := { in_pool : bool; app_holds : bool; app_releasing : bool }.

Fixpoint scan (f : flags) (t : list lc) : N :=
  match t with
  | [] => 0%N
  | e :: r =>
      match e with
      | Rel _ =>
          if in_pool f then 1%N
          else if app_holds f && negb (app_releasing f) then 2%N
          else scan {| in_pool := true; app_holds := false; app_releasing := false |} r
      | Rec _ => scan f r
      | Reacq _ ok => if ok then scan {| in_pool := false; app_holds := false; app_releasing := false |} r else 4%N
      | Hold _ => if in_pool f then 5%N else scan {| in_pool := false; app_holds := true; app_releasing := false |} r
      | Unhold _ same => if same then scan {| in_pool := in_pool f; app_holds := false; app_releasing := app_releasing f |} r else 3%N
      | AppRel _ => if in_pool f then 1%N else scan {| in_pool := false; app_holds := app_holds f; app_releasing := true |} r
      | Use _ => if in_pool f then 7%N else scan f r   (* (4) read or written after it was released *)
      end
  end.

Fixpoint spec_first (t : list lc) (os : list Z) : N :=
  match os with
  | [] => 0%N
  | o :: r => let c := scan {| in_pool := false; app_holds := false; app_releasing := false |} (project o t) in
              if N.eqb c 0 then spec_first t r else c
  end.

Definition c12_class (t : list lc) : N := spec_first t (objects t []).
