(* net/blockwise: the expiry sweep against the handlers of the blocks of one transfer (Pool/Model.v: step_s, step_h,
   xrun).  The partially received message c sits in an entry of receivingMessagesCache with a guard semaphore.
   - As the code is (SwKeep: the onExpire callback leaves the message alone), for ANY number of handlers with any
     amount of work, any of them carrying the last block, and EVERY schedule: at most one handler is past the guard,
     c is lent to the application by one handler at a time, and the trace is accepted (class 0).
   - With the "leak fix" (SwRelease: the callback gives c back to the pool), with or without taking the guard
     first, there is a schedule in which a handler that looked the entry up before the sweep reads c after the
     release (class 7) - for every assignment of work to the handlers; without the guard also one in which the
     handler HOLDS the guard when the sweep comes.
   - ... and the fix goes unnoticed in every run in which no handler is between its lookup and its end when the
     sweep looks at the entry (why the existing tests stay green). *)
From Coq Require Import ZArith NArith List Bool Lia Arith.
From GoCoap Require Import Pool.Model Pool.Spec Pool.Proofs Pool.Writer Pool.Paths Pool.Use.
Import ListNotations.
Open Scope Z_scope.

Definition inside (h : handler) : bool :=
  match h_pc h with HIn _ | HDel | HLend | HHeld | HUnl => true | _ => false end.
Definition lending (h : handler) : bool := match h_pc h with HHeld => true | _ => false end.
Definition quiescent (h : handler) : bool := match h_pc h with HIdle | HDone => true | _ => false end.

(* the state of c as a function of who is past the guard *)
Definition xostate (st : xstate) : ostate :=
  match x_guard st with
  | Some (S j) => if lending (x_hs st j) then Held else Live
  | _ => Live
  end.

Record xinv (c : Z) (st : xstate) : Prop := {
  xi_guard : forall j, inside (x_hs st j) = true <-> x_guard st = Some (S j);
  xi_sweep : x_guard st <> Some O;
  xi_s : x_s st = X0 \/ x_s st = XDel \/ x_s st = XDone;
  xi_run : run_obj Live (x_trace st) = inl (xostate st);
  xi_obj : single c (x_trace st) }.

Lemma set_h_same hs i h : set_h hs i h i = h.
Proof. unfold set_h. rewrite Nat.eqb_refl. reflexivity. Qed.

Lemma set_h_other hs i h j : j <> i -> set_h hs i h j = hs j.
Proof. intros H. unfold set_h. destruct (Nat.eqb_spec j i); [contradiction|reflexivity]. Qed.

Lemma xostate_inside c st i : xinv c st -> inside (x_hs st i) = true ->
  x_guard st = Some (S i) /\ xostate st = if lending (x_hs st i) then Held else Live.
Proof. intros I H. apply (xi_guard _ _ I) in H. unfold xostate. rewrite H. split; reflexivity. Qed.

Lemma xostate_outside c st i : xinv c st -> inside (x_hs st i) = false -> x_guard st <> Some (S i).
Proof. intros I H G. apply (xi_guard _ _ I) in G. rewrite G in H. discriminate. Qed.

Lemma xostate_use c st : run_obj (xostate st) [Use c] = inl (xostate st).
Proof. unfold xostate. destruct (x_guard st) as [[|j]|]; try reflexivity. destruct (lending (x_hs st j)); reflexivity. Qed.

(* a step of handler i that leaves the guard alone and the handler on its side of it *)
Lemma xinv_same_side c st i pc e evs s' :
  xinv c st -> inside (with_pc (x_hs st i) pc) = inside (x_hs st i) ->
  single c evs -> run_obj (xostate st) evs = inl s' ->
  s' = (if inside (x_hs st i) then (if lending (with_pc (x_hs st i) pc) then Held else Live) else xostate st) ->
  xinv c {| x_s := x_s st; x_entry := e; x_guard := x_guard st;
            x_hs := set_h (x_hs st) i (with_pc (x_hs st i) pc); x_trace := x_trace st ++ evs |}.
Proof.
  intros I Hin Hev Hrun Hs'. destruct I as [Ig I0 Is Irun Io].
  constructor; cbn [x_s x_entry x_guard x_hs x_trace].
  - intros j. destruct (Nat.eq_dec j i) as [->|Hne].
    + rewrite set_h_same, Hin. apply Ig.
    + rewrite (set_h_other _ _ _ _ Hne). apply Ig.
  - exact I0.
  - exact Is.
  - rewrite (run_obj_app _ _ _ _ Irun), Hrun. f_equal. subst s'. unfold xostate. cbn [x_guard x_hs].
    destruct (x_guard st) as [[|j]|] eqn:G.
    + exfalso. apply I0. reflexivity.
    + destruct (Nat.eq_dec j i) as [->|Hne].
      * rewrite set_h_same. rewrite (proj2 (Ig i) eq_refl). reflexivity.
      * rewrite (set_h_other _ _ _ _ Hne). destruct (inside (x_hs st i)) eqn:E; [|reflexivity].
        apply Ig in E. injection E as E. exfalso. apply Hne. exact E.
    + destruct (inside (x_hs st i)) eqn:E; [|reflexivity]. apply Ig in E. discriminate.
  - apply single_app; assumption.
Qed.

(* handler i takes the free guard *)
Lemma xinv_acquire c st i k : xinv c st -> inside (x_hs st i) = false -> x_guard st = None ->
  xinv c {| x_s := x_s st; x_entry := x_entry st; x_guard := Some (S i);
            x_hs := set_h (x_hs st) i (with_pc (x_hs st i) (HIn k)); x_trace := x_trace st ++ [] |}.
Proof.
  intros [Ig I0 Is Irun Io] Hout G. constructor; cbn [x_s x_entry x_guard x_hs x_trace]; rewrite ?app_nil_r.
  - intros j. destruct (Nat.eq_dec j i) as [->|Hne].
    + rewrite set_h_same. split; reflexivity.
    + rewrite (set_h_other _ _ _ _ Hne). split; intros H.
      * apply Ig in H. rewrite G in H. discriminate.
      * injection H as H. exfalso. apply Hne. symmetry. exact H.
  - discriminate.
  - exact Is.
  - rewrite Irun. unfold xostate. cbn [x_guard x_hs]. rewrite G, set_h_same. reflexivity.
  - exact Io.
Qed.

(* handler i gives the guard back *)
Lemma xinv_release c st i : xinv c st -> h_pc (x_hs st i) = HUnl ->
  xinv c {| x_s := x_s st; x_entry := x_entry st; x_guard := None;
            x_hs := set_h (x_hs st) i (with_pc (x_hs st i) HDone); x_trace := x_trace st ++ [] |}.
Proof.
  intros I E. assert (Hin : inside (x_hs st i) = true) by (unfold inside; rewrite E; reflexivity).
  destruct (xostate_inside c st i I Hin) as [G Ho]. destruct I as [Ig I0 Is Irun Io].
  constructor; cbn [x_s x_entry x_guard x_hs x_trace]; rewrite ?app_nil_r.
  - intros j. destruct (Nat.eq_dec j i) as [->|Hne].
    + rewrite set_h_same. split; discriminate.
    + rewrite (set_h_other _ _ _ _ Hne). split; intros H; [|discriminate].
      apply Ig in H. rewrite G in H. injection H as H. exfalso. apply Hne. symmetry. exact H.
  - discriminate.
  - exact Is.
  - rewrite Irun, Ho. unfold lending. rewrite E. reflexivity.
  - exact Io.
Qed.

Lemma xinv_step_h c i st : xinv c st -> xinv c (step_h c i st).
Proof.
  intros I. unfold step_h. destruct (h_pc (x_hs st i)) as [| | |[|k]| | | | |] eqn:E.
  - (* HIdle: the lookup *)
    assert (Hout : inside (x_hs st i) = false) by (unfold inside; rewrite E; reflexivity).
    apply (xinv_same_side c st i _ _ [] (xostate st) I).
    + rewrite Hout. unfold inside. cbn [with_pc h_pc]. destruct (x_entry st); reflexivity.
    + constructor.
    + reflexivity.
    + rewrite Hout. reflexivity.
  - (* HFound: mg.Context() *)
    assert (Hout : inside (x_hs st i) = false) by (unfold inside; rewrite E; reflexivity).
    apply (xinv_same_side c st i _ _ [Use c] (xostate st) I).
    + rewrite Hout. reflexivity.
    + repeat constructor.
    + apply xostate_use.
    + rewrite Hout. reflexivity.
  - (* HWait *)
    destruct (x_guard st) eqn:G; [exact I|].
    apply xinv_acquire; [exact I|unfold inside; rewrite E; reflexivity|exact G].
  - (* HIn 0 *)
    assert (Hin : inside (x_hs st i) = true) by (unfold inside; rewrite E; reflexivity).
    destruct (xostate_inside c st i I Hin) as [G Ho].
    apply (xinv_same_side c st i _ _ [] (xostate st) I).
    + rewrite Hin. unfold inside. cbn [with_pc h_pc]. destruct (h_last (x_hs st i)); reflexivity.
    + constructor.
    + reflexivity.
    + rewrite Hin, Ho. unfold lending. cbn [with_pc h_pc]. rewrite E. destruct (h_last (x_hs st i)); reflexivity.
  - (* HIn (S k): an access under the guard *)
    assert (Hin : inside (x_hs st i) = true) by (unfold inside; rewrite E; reflexivity).
    destruct (xostate_inside c st i I Hin) as [G Ho].
    apply (xinv_same_side c st i _ _ [Use c] (xostate st) I).
    + rewrite Hin. reflexivity.
    + repeat constructor.
    + apply xostate_use.
    + rewrite Hin, Ho. unfold lending. cbn [with_pc h_pc]. rewrite E. reflexivity.
  - (* HDel *)
    assert (Hin : inside (x_hs st i) = true) by (unfold inside; rewrite E; reflexivity).
    destruct (xostate_inside c st i I Hin) as [G Ho].
    apply (xinv_same_side c st i _ _ [] (xostate st) I).
    + rewrite Hin. reflexivity.
    + constructor.
    + reflexivity.
    + rewrite Hin, Ho. unfold lending. cbn [with_pc h_pc]. rewrite E. reflexivity.
  - (* HLend: next(w, c) is entered *)
    assert (Hin : inside (x_hs st i) = true) by (unfold inside; rewrite E; reflexivity).
    destruct (xostate_inside c st i I Hin) as [G Ho].
    apply (xinv_same_side c st i _ _ [Hold c] Held I).
    + rewrite Hin. reflexivity.
    + repeat constructor.
    + rewrite Ho. unfold lending. rewrite E. reflexivity.
    + rewrite Hin. reflexivity.
  - (* HHeld: next(w, c) returns *)
    assert (Hin : inside (x_hs st i) = true) by (unfold inside; rewrite E; reflexivity).
    destruct (xostate_inside c st i I Hin) as [G Ho].
    apply (xinv_same_side c st i _ _ [Unhold c true] Live I).
    + rewrite Hin. reflexivity.
    + repeat constructor.
    + rewrite Ho. unfold lending. rewrite E. reflexivity.
    + rewrite Hin. reflexivity.
  - (* HUnl *) apply xinv_release; assumption.
  - exact I.
Qed.

Lemma xinv_step_s c st : xinv c st -> xinv c (step_s SwKeep c st).
Proof.
  intros [Ig I0 Is Irun Io]. unfold step_s. destruct Is as [Es|[Es|Es]]; rewrite Es.
  - destruct (x_entry st); constructor; cbn [x_s x_entry x_guard x_hs x_trace]; rewrite ?app_nil_r; auto.
  - constructor; cbn [x_s x_entry x_guard x_hs x_trace]; rewrite ?app_nil_r; auto.
  - constructor; auto.
Qed.

Lemma xinv_run c : forall sched st, xinv c st -> xinv c (xrun SwKeep c sched st).
Proof.
  induction sched as [|tid sched IH]; intros st I; [exact I|]. unfold xrun. cbn [fold_left]. apply IH.
  destruct tid; [apply xinv_step_s|apply xinv_step_h]; exact I.
Qed.

Lemma xinv_init c progs : xinv c (xinit progs).
Proof.
  constructor; cbn [xinit x_s x_entry x_guard x_hs x_trace]; auto; try discriminate; try constructor.
  - discriminate.
  - discriminate.
Qed.

(* ---------- the code as it is ---------- *)

(* any number of handlers of blocks of the transfer, any amount of work each, any of them carrying the last block,
   the sweep whenever it likes, every schedule: the trace is accepted *)
Theorem expiry_keep_safe : forall c progs sched,
  accepted (x_trace (xrun SwKeep c sched (xinit progs))) /\ c12_class (x_trace (xrun SwKeep c sched (xinit progs))) = 0%N.
Proof.
  intros c progs sched. assert (I := xinv_run c sched _ (xinv_init c progs)).
  assert (A : accepted (x_trace (xrun SwKeep c sched (xinit progs)))).
  { apply (single_accepted c); [exact (xi_obj _ _ I)|]. eexists. exact (xi_run _ _ I). }
  split; [exact A|exact (accepted_satisfies_property _ A)].
Qed.

(* ... because the guard lets one handler through at a time: two handlers past the guard are the same handler, and the
   sweep never holds the guard *)
Theorem expiry_guard_exclusive : forall c progs sched j1 j2,
  let st := xrun SwKeep c sched (xinit progs) in
  inside (x_hs st j1) = true -> inside (x_hs st j2) = true -> j1 = j2.
Proof.
  intros c progs sched j1 j2 st H1 H2. assert (I := xinv_run c sched _ (xinv_init c progs)). fold st in I.
  apply (xi_guard _ _ I) in H1. apply (xi_guard _ _ I) in H2. rewrite H1 in H2. injection H2 as H2. exact H2.
Qed.

(* the window of the sweep: nothing goes back to the pool *)
Theorem expiry_keep_window : forall c, sweep_window SwKeep c = [].
Proof. reflexivity. Qed.

(* ---------- the "leak fix": onExpire releases the message ---------- *)

(* whatever the handlers have to do, with or without the guard taken by the callback: a handler that looked the entry
   up before the sweep reads the message (mg.Context()) after the release *)
Theorem expiry_release_refuted : forall c guarded progs, exists sched,
  c12_class (x_trace (xrun (SwRelease guarded) c sched (xinit progs))) = 7%N.
Proof.
  intros c guarded progs. destruct guarded.
  - exists [1; 0; 0; 0; 0; 0; 1]%nat. rewrite (c12_class_single c); [reflexivity|repeat constructor].
  - exists [1; 0; 0; 0; 1]%nat. rewrite (c12_class_single c); [reflexivity|repeat constructor].
Qed.

(* without the guard: also while a handler HOLDS the guard and is in the middle of its work on the message *)
Theorem expiry_release_under_guard_refuted : forall c progs k, fst (progs O) = S k -> exists sched,
  let st := xrun (SwRelease false) c sched (xinit progs) in
  x_guard st = Some 1%nat /\ c12_class (x_trace st) = 7%N.
Proof.
  intros c progs k Hk. exists [1; 1; 1; 0; 0; 0; 1]%nat. cbv zeta. split.
  - cbn. rewrite Hk. reflexivity.
  - rewrite (c12_class_single c).
    + cbn. rewrite Hk. reflexivity.
    + cbn. rewrite Hk. repeat constructor.
Qed.

(* the window of the sweep shows the release *)
Theorem expiry_release_window : forall c guarded, sweep_window (SwRelease guarded) c = [Rel c; Rec c].
Proof. reflexivity. Qed.

(* ---------- ... and where it goes unnoticed ---------- *)

Lemma step_h_keeps_s c i st : x_s (step_h c i st) = x_s st.
Proof.
  unfold step_h. destruct (h_pc (x_hs st i)) as [| | |[|k]| | | | |]; try reflexivity.
  destruct (x_guard st); reflexivity.
Qed.

Lemma xrun_handlers_only m c : forall s st, ~ In O s -> xrun m c s st = xrun SwKeep c s st /\ x_s (xrun m c s st) = x_s st.
Proof.
  induction s as [|tid s IH]; intros st H; [split; reflexivity|]. unfold xrun. cbn [fold_left].
  destruct tid as [|i]; [exfalso; apply H; left; reflexivity|]. cbn [xstep].
  destruct (IH (step_h c i st) (fun Hin => H (or_intror Hin))) as [E1 E2]. unfold xrun in E1, E2.
  split; [exact E1|rewrite E2; apply step_h_keeps_s].
Qed.

Record qinv (c : Z) (st : xstate) : Prop := {
  q_entry : x_entry st = false;
  q_hs : forall j, quiescent (x_hs st j) = true;
  q_obj : single c (x_trace st);
  q_run : exists s, run_obj Live (x_trace st) = inl s /\
          match x_s st with X0 => False | XDel | XG => s = Live | XRel => s = Freed | XRec => s = Pooled | XDone => True end }.

Lemma qinv_step_h c i st : qinv c st -> qinv c (step_h c i st).
Proof.
  intros [Qe Qh Qo Qr]. assert (Hq := Qh i). unfold quiescent in Hq. unfold step_h.
  destruct (h_pc (x_hs st i)) as [| | |[|k]| | | | |] eqn:E; try discriminate.
  - rewrite Qe. constructor; cbn [x_s x_entry x_guard x_hs x_trace]; rewrite ?app_nil_r; auto.
    intros j. destruct (Nat.eq_dec j i) as [->|Hne]; [rewrite set_h_same; reflexivity|rewrite (set_h_other _ _ _ _ Hne); apply Qh].
  - constructor; auto.
Qed.

Lemma qinv_step_s m c st : qinv c st -> qinv c (step_s m c st).
Proof.
  intros [Qe Qh Qo [s [Qr Qs]]]. unfold step_s. destruct (x_s st) eqn:Es.
  - destruct Qs.
  - subst s. destruct m as [|[|]].
    + constructor; cbn [x_s x_entry x_guard x_hs x_trace]; rewrite ?app_nil_r; auto. exists Live. split; [exact Qr|exact I].
    + destruct (x_guard st).
      * constructor; auto. exists Live. rewrite Es. split; [exact Qr|reflexivity].
      * constructor; cbn [x_s x_entry x_guard x_hs x_trace]; rewrite ?app_nil_r; auto. exists Live. split; [exact Qr|reflexivity].
    + constructor; cbn [x_s x_entry x_guard x_hs x_trace]; auto.
      * apply single_app; [exact Qo|repeat constructor].
      * exists Freed. split; [rewrite (run_obj_app _ _ _ _ Qr); reflexivity|reflexivity].
  - subst s. constructor; cbn [x_s x_entry x_guard x_hs x_trace]; auto.
    + apply single_app; [exact Qo|repeat constructor].
    + exists Freed. split; [rewrite (run_obj_app _ _ _ _ Qr); reflexivity|reflexivity].
  - subst s. constructor; cbn [x_s x_entry x_guard x_hs x_trace]; auto.
    + apply single_app; [exact Qo|repeat constructor].
    + exists Pooled. split; [rewrite (run_obj_app _ _ _ _ Qr); reflexivity|reflexivity].
  - destruct m as [|[|]]; constructor; cbn [x_s x_entry x_guard x_hs x_trace]; rewrite ?app_nil_r; auto;
      exists s; (split; [exact Qr|exact I]).
  - constructor; auto. exists s. rewrite Es. split; [exact Qr|exact I].
Qed.

Lemma qinv_run m c : forall sched st, qinv c st -> qinv c (xrun m c sched st).
Proof.
  induction sched as [|tid sched IH]; intros st Q; [exact Q|]. unfold xrun. cbn [fold_left]. apply IH.
  destruct tid; [apply qinv_step_s|apply qinv_step_h]; exact Q.
Qed.

(* whatever the callback does with the message: when no handler is between its lookup and its end at the moment the
   sweep looks at the entry (s1: handlers only, all of them idle or through afterwards), the trace is accepted
   whatever comes later - transfers that complete before they expire and expired transfers nobody is working on *)
Theorem expiry_release_unnoticed : forall m c progs s1 s2, ~ In O s1 ->
  (forall j, quiescent (x_hs (xrun m c s1 (xinit progs)) j) = true) ->
  accepted (x_trace (xrun m c (s1 ++ O :: s2) (xinit progs))).
Proof.
  intros m c progs s1 s2 H0 Hq. unfold xrun. rewrite fold_left_app. fold (xrun m c s1 (xinit progs)).
  destruct (xrun_handlers_only m c s1 (xinit progs) H0) as [E Es]. rewrite E in *.
  set (st1 := xrun SwKeep c s1 (xinit progs)) in *.
  assert (I : xinv c st1) by (apply xinv_run, xinv_init).
  cbn [fold_left xstep]. fold (xrun m c s2 (step_s m c st1)).
  assert (G : x_guard st1 = None).
  { destruct (x_guard st1) as [[|j]|] eqn:G; [exfalso; exact (xi_sweep _ _ I G)| |reflexivity].
    apply (xi_guard _ _ I) in G. specialize (Hq j). unfold quiescent in Hq. unfold inside in G.
    destruct (h_pc (x_hs st1 j)); discriminate. }
  assert (L : run_obj Live (x_trace st1) = inl Live).
  { rewrite (xi_run _ _ I). unfold xostate. rewrite G. reflexivity. }
  assert (Q : qinv c (step_s m c st1)).
  { unfold step_s. rewrite Es. cbn [xinit x_s]. destruct (x_entry st1);
      constructor; cbn [x_s x_entry x_guard x_hs x_trace]; rewrite ?app_nil_r; auto; try exact (xi_obj _ _ I);
      exists Live; (split; [exact L|try reflexivity; exact Logic.I]). }
  assert (Q2 := qinv_run m c s2 _ Q).
  apply (single_accepted c); [exact (q_obj _ _ Q2)|]. destruct (q_run _ _ Q2) as [s [Hs _]]. exists s. exact Hs.
Qed.
