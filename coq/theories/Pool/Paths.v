(* The further library paths of Pool/Model.v are accepted by the ownership automaton whenever the
   objects they use are pairwise distinct. *)
From Coq Require Import ZArith NArith List Bool Lia.
From GoCoap Require Import Pool.Model Pool.Spec Pool.Proofs Pool.Writer.
Import ListNotations.
Open Scope Z_scope.

(* ---------- traces made of single-object segments ---------- *)

Definition single (o : Z) (t : list lc) : Prop := Forall (fun e => obj e = o) t.

Lemma project_single_same o t : single o t -> project o t = t.
Proof.
  induction 1 as [|e t He Ht IH]; [reflexivity|]. cbn [project filter]. rewrite He, Z.eqb_refl. unfold project in IH. rewrite IH. reflexivity.
Qed.

Lemma project_single_other o o' t : single o t -> o <> o' -> project o' t = [].
Proof.
  intros H Hne. apply project_nil_if_absent. intros e He. unfold single in H. rewrite Forall_forall in H. rewrite (H e He). exact Hne.
Qed.

Lemma single_accepted o t : single o t -> (exists s, run_obj Live t = inl s) -> accepted t.
Proof.
  intros Hs Hr o'. destruct (Z.eq_dec o o') as [<-|Hne].
  - rewrite (project_single_same o t Hs). exact Hr.
  - rewrite (project_single_other o o' t Hs Hne). exists Live. reflexivity.
Qed.

(* segs os t: t is a sequence of single-object segments, each a run of the automaton from Live; os = their objects *)
Inductive segs : list Z -> list lc -> Prop :=
| segs_nil : segs [] []
| segs_cons : forall o s os t, single o s -> (exists st, run_obj Live s = inl st) -> segs os t -> segs (o :: os) (s ++ t).

Lemma segs_objs : forall os t, segs os t -> forall e, In e t -> In (obj e) os.
Proof.
  induction 1 as [|o s os t Hs Hr Hsegs IH]; intros e He; [destruct He|].
  apply in_app_or in He as [He|He].
  - left. unfold single in Hs. rewrite Forall_forall in Hs. symmetry. exact (Hs e He).
  - right. exact (IH e He).
Qed.

Theorem segs_accepted : forall os t, segs os t -> NoDup os -> accepted t.
Proof.
  induction 1 as [|o s os t Hs Hr Hsegs IH]; intros Hnd; [apply accepted_nil|].
  inversion Hnd as [|? ? Hnotin Hnd']; subst.
  apply accepted_app; [exact (single_accepted o s Hs Hr)|exact (IH Hnd')|].
  intros x y Hx Hy E. apply Hnotin. unfold single in Hs. rewrite Forall_forall in Hs.
  rewrite <- (Hs x Hx), E. exact (segs_objs os t Hsegs y Hy).
Qed.

Lemma segs_app : forall os1 t1, segs os1 t1 -> forall os2 t2, segs os2 t2 -> segs (os1 ++ os2) (t1 ++ t2).
Proof.
  induction 1 as [|o s os t Hs Hr Hsegs IH]; intros os2 t2 H2; [exact H2|].
  cbn [app]. rewrite <- app_assoc. constructor; [exact Hs|exact Hr|exact (IH os2 t2 H2)].
Qed.

Lemma segs_one o s : single o s -> (exists st, run_obj Live s = inl st) -> segs [o] s.
Proof. intros Hs Hr. rewrite <- (app_nil_r s). constructor; [exact Hs|exact Hr|constructor]. Qed.

Ltac one_seg := apply segs_one; [repeat constructor|eexists; reflexivity].

Lemma segs_rel o : segs [o] (rel o).               Proof. one_seg. Qed.
Lemma segs_app_use o : segs [o] (app_use o).       Proof. one_seg. Qed.
Lemma segs_handler_use o : segs [o] (handler_use o). Proof. one_seg. Qed.

Lemma segs_rel_all l : segs l (rel_all l).
Proof.
  induction l as [|x l IH]; [constructor|]. unfold rel_all. cbn [map concat]. apply (segs_app [x] _ (segs_rel x) l _ IH).
Qed.

Lemma segs_opt (f : Z -> list lc) (x : option Z) : (forall o, segs [o] (f o)) -> segs (olist x) (opt_path f x).
Proof. intros H. destruct x as [a|]; [apply H|constructor]. Qed.

Lemma segs_blocks3 bs : segs (objs3 bs) (concat (map path_bw_block bs)).
Proof.
  induction bs as [|[[w s] m] bs IH]; [constructor|]. unfold objs3. cbn [map concat path_bw_block].
  apply (segs_app [w; s; m]); [|exact IH].
  apply (segs_app [w] _ (segs_rel w) [s; m]). apply (segs_app [s] _ (segs_rel s) [m]). apply segs_rel.
Qed.

Lemma segs_blocks4 bs : segs (objs4 bs) (concat (map path_bw_fetch_block bs)).
Proof.
  induction bs as [|[[[w sr] s] m] bs IH]; [constructor|]. unfold objs4. cbn [map concat path_bw_fetch_block].
  apply (segs_app [w; sr; s; m]); [|exact IH].
  apply (segs_app [w] _ (segs_rel w) [sr; s; m]). apply (segs_app [sr] _ (segs_rel sr) [s; m]).
  apply (segs_app [s] _ (segs_rel s) [m]). apply segs_rel.
Qed.

(* ---------- the paths ---------- *)

Theorem path_client_call_ok : forall req clone tmps resp,
  NoDup (tmps ++ [clone; req] ++ olist resp) -> accepted (path_client_call req clone tmps resp).
Proof.
  intros req clone tmps resp. apply segs_accepted. unfold path_client_call.
  apply segs_app; [apply segs_rel_all|].
  apply (segs_app [clone] _ (segs_rel clone)). apply (segs_app [req] _ (segs_rel req)).
  apply segs_opt. exact segs_app_use.
Qed.

Theorem path_bw_upload_ok : forall req tmp blocks resp,
  NoDup (objs3 blocks ++ [tmp; req] ++ olist resp) -> accepted (path_bw_upload req tmp blocks resp).
Proof.
  intros req tmp blocks resp. apply segs_accepted. unfold path_bw_upload.
  apply segs_app; [apply segs_blocks3|].
  apply (segs_app [tmp] _ (segs_rel tmp)). apply (segs_app [req] _ (segs_rel req)).
  apply segs_opt. exact segs_app_use.
Qed.

Theorem path_bw_download_ok : forall req blocks sr w m cached,
  NoDup (objs4 blocks ++ [sr; w; m; req; cached]) -> accepted (path_bw_download req blocks (sr, w, m) cached).
Proof.
  intros req blocks sr w m cached. apply segs_accepted. unfold path_bw_download.
  apply segs_app; [apply segs_blocks4|].
  apply (segs_app [sr] _ (segs_rel sr)). apply (segs_app [w] _ (segs_rel w)).
  apply (segs_app [m] _ (segs_rel m)). apply (segs_app [req] _ (segs_rel req)). apply segs_app_use.
Qed.

Theorem path_bw_serve_upload_ok : forall blocks w m cached,
  NoDup (objs3 blocks ++ [cached; w; m]) -> accepted (path_bw_serve_upload blocks (w, m) cached).
Proof.
  intros blocks w m cached. apply segs_accepted. unfold path_bw_serve_upload.
  apply segs_app; [apply segs_blocks3|].
  apply (segs_app [cached] _ (segs_handler_use cached)). apply (segs_app [w] _ (segs_rel w)). apply segs_rel.
Qed.

(* m is lent to the handler and released at the end: two segments of the same object would break `segs`, so
   this one is shown object by object *)
Ltac by_cases o :=
  unfold project; cbn [filter obj app];
  repeat match goal with
  | |- context [?x =? o] => destruct (Z.eqb_spec x o); subst; try contradiction
  end; cbn; eauto.

Theorem path_bw_serve_first_ok : forall m orig s observe,
  NoDup [m; orig; s] -> accepted (path_bw_serve_first m orig s observe).
Proof.
  intros m orig s observe Hnd o. inversion Hnd as [|? ? H1 Hnd1]; subst. inversion Hnd1 as [|? ? H2 _]; subst.
  assert (m <> orig) by (intros ->; apply H1; left; reflexivity).
  assert (m <> s) by (intros ->; apply H1; right; left; reflexivity).
  assert (orig <> s) by (intros ->; apply H2; left; reflexivity).
  unfold path_bw_serve_first, handler_use, rel. destruct observe; by_cases o.
Qed.

Theorem path_notification_ok : forall n w, n <> w -> accepted (path_notification n w).
Proof. intros n w Hne o. unfold path_notification, handler_use, rel. by_cases o. Qed.

Theorem path_async_ping_ok : forall req tmps w,
  NoDup (tmps ++ [req] ++ olist w) -> accepted (path_async_ping req tmps w).
Proof.
  intros req tmps w. apply segs_accepted. unfold path_async_ping.
  apply segs_app; [apply segs_rel_all|]. apply (segs_app [req] _ (segs_rel req)). apply segs_opt. exact segs_rel.
Qed.

Theorem path_handler_setmessage_ok : forall m w new, NoDup [m; w; new] -> accepted (path_handler_setmessage m w new).
Proof.
  intros m w new Hnd o. inversion Hnd as [|? ? H1 Hnd1]; subst. inversion Hnd1 as [|? ? H2 _]; subst.
  assert (m <> w) by (intros ->; apply H1; left; reflexivity).
  assert (m <> new) by (intros ->; apply H1; right; left; reflexivity).
  assert (w <> new) by (intros ->; apply H2; left; reflexivity).
  unfold path_handler_setmessage, rel. by_cases o.
Qed.

Theorem path_handler_swap_ok : forall m w new, NoDup [m; w; new] -> accepted (path_handler_swap m w new).
Proof.
  intros m w new Hnd o. inversion Hnd as [|? ? H1 Hnd1]; subst. inversion Hnd1 as [|? ? H2 _]; subst.
  assert (m <> w) by (intros ->; apply H1; left; reflexivity).
  assert (m <> new) by (intros ->; apply H1; right; left; reflexivity).
  assert (w <> new) by (intros ->; apply H2; left; reflexivity).
  unfold path_handler_swap, rel. by_cases o.
Qed.

(* the defects the mechanism excludes: SetMessage releasing the replaced message twice, and a Swap-ped message
   that the library releases although the application owns (and releases) it *)
Theorem setmessage_double_release_rejected : forall m w new,
  check ([Hold m; Rel w; Rec w; Rel w; Rec w; Unhold m true] ++ rel new ++ rel m) <> 0%N.
Proof.
  intros m w new C. apply check_accepts in C. destruct (C w) as [st Hst]. revert Hst.
  unfold rel. unfold project. cbn [filter obj app].
  rewrite Z.eqb_refl.
  destruct (Z.eqb_spec m w); destruct (Z.eqb_spec new w); subst; cbn; discriminate.
Qed.

(* ---------- every interleaving of library paths over disjoint objects ---------- *)

Inductive lib_path : list lc -> Prop :=
| lp_receive req resp : req <> resp -> lib_path (path_receive req resp)
| lp_receive_hijacked msg resp : msg <> resp -> lib_path (path_receive_hijacked msg resp)
| lp_request req clone tmps : NoDup (req :: clone :: tmps) -> lib_path (path_request req clone tmps)
| lp_client_call req clone tmps resp : NoDup (tmps ++ [clone; req] ++ olist resp) -> lib_path (path_client_call req clone tmps resp)
| lp_bw_upload req tmp blocks resp : NoDup (objs3 blocks ++ [tmp; req] ++ olist resp) -> lib_path (path_bw_upload req tmp blocks resp)
| lp_bw_download req blocks sr w m cached : NoDup (objs4 blocks ++ [sr; w; m; req; cached]) -> lib_path (path_bw_download req blocks (sr, w, m) cached)
| lp_bw_serve_upload blocks w m cached : NoDup (objs3 blocks ++ [cached; w; m]) -> lib_path (path_bw_serve_upload blocks (w, m) cached)
| lp_bw_serve_first m orig s observe : NoDup [m; orig; s] -> lib_path (path_bw_serve_first m orig s observe)
| lp_bw_block w s m : NoDup [w; s; m] -> lib_path (path_bw_block (w, s, m))
| lp_notification n w : n <> w -> lib_path (path_notification n w)
| lp_async_ping req tmps w : NoDup (tmps ++ [req] ++ olist w) -> lib_path (path_async_ping req tmps w)
| lp_handler_setmessage m w new : NoDup [m; w; new] -> lib_path (path_handler_setmessage m w new)
| lp_handler_swap m w new : NoDup [m; w; new] -> lib_path (path_handler_swap m w new)
| lp_bw_receive k sr has wc stale env : NoDup env -> length env = 7%nat -> lib_path (path_bw_receive k sr has wc stale env)
| lp_writer w m ops : w <> m -> wdisc w false [m] [w; m] ops = true -> lib_path (wtrace w ops).

Lemma lib_path_accepted : forall p, lib_path p -> accepted p.
Proof.
  intros p H. destruct H.
  - apply path_receive_ok; assumption.
  - apply path_receive_hijacked_ok; assumption.
  - apply path_request_ok; assumption.
  - apply path_client_call_ok; assumption.
  - apply path_bw_upload_ok; assumption.
  - apply path_bw_download_ok; assumption.
  - apply path_bw_serve_upload_ok; assumption.
  - apply path_bw_serve_first_ok; assumption.
  - apply segs_accepted with (os := objs3 [(w, s, m)]); [|exact H].
    replace (path_bw_block (w, s, m)) with (concat (map path_bw_block [(w, s, m)])) by (cbn [map concat]; apply app_nil_r).
    apply segs_blocks3.
  - apply path_notification_ok; assumption.
  - apply path_async_ping_ok; assumption.
  - apply path_handler_setmessage_ok; assumption.
  - apply path_handler_swap_ok; assumption.
  - apply path_bw_receive_ok; assumption.
  - apply (wdisc_accepted w m); assumption.
Qed.

(* any number of library paths, each on its own objects, run concurrently in any interleaving: the resulting
   trace satisfies the property as stated *)
Theorem lib_paths_interleaved_safe : forall ps t,
  Forall lib_path ps -> pairwise_disjoint ps -> interleave ps t -> c12_class t = 0%N.
Proof.
  intros ps t Hp Hd Hil. apply accepted_satisfies_property.
  apply (interleaving_safe_n ps t Hil Hd). rewrite Forall_forall in *. intros p Hin. apply lib_path_accepted. exact (Hp p Hin).
Qed.
