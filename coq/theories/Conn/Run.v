(* Conn/Run.v -- evaluators for the correspondence shards of C13.  A case is one history run on a
   back-to-back pair of real udp/client.Conn (A = client role, B = server role): per operation the
   abstract events of both sides (harness/c13.go) and the 11 table sizes read on each side. *)
From Coq Require Import ZArith NArith List Bool.
From GoCoap Require Import Base.Cases Base.Bytes Conn.MutexMap Conn.Spec.
From GoCoap Require Conn.Sweep Conn.MidTick Conn.KeepAlive Monitor.Model.
From GoCoap Require Export Conn.Model.
Import ListNotations.
Open Scope Z_scope.

(* kind: 0 = calls in flight, 1 = every call returned and no ping outstanding, 2 = additionally aged
   past every deadline and ticked MAX_RETRANSMIT+1 times, 3 = every call returned, aged past every
   deadline and ticked ONCE *)
Inductive stepobs := St (kind : Z) (evs : list (bool * cev)) (szA szB : list Z) (nlive : Z).
(* Sweep: one pkg/cache.Cache filled with [ents] = (key, deadline in ms, None = zero time), ONE
   CheckExpirations(now); [left] = keys found afterwards (ascending), [fired] = keys whose onExpire
   ran (ascending), [bad] = panics *)
(* Locks: a script of Lock / TryLock / Unlock calls of [n] goroutines on one real udp/client.MutexMap.
   Per command: the atomic sections it consists of ([acts], for the model), then what was read:
   [tab] = (key, reference count) ascending, [thr] = (status, key) per goroutine *)
Inductive lstep := LS (acts : list (nat * Z * bool)) (tab thr : list (Z * Z)).
Module MT := GoCoap.Conn.MidTick.
(* MidRace: exchanges with message-ID continuations on one real udp/client.Conn and housekeeping
   ticks; one tick is interrupted between Range's fetch of its i-th entry and the callback
   (pkg/sync VerifYieldHook) and [mid] happens there.  MObs: the message IDs found in the table *)
Inductive mphase :=
| MEnv (o : MT.envop)
| MTick (now : Z)
| MRace (now : Z) (i : nat) (mid : list MT.envop)
| MObs (lft : list Z).
(* KaTcp: one real tcp/client.Conn with the keep-alive monitor of options.WithKeepAlive's wiring
   (inactivity.NewKeepAlive + NewWithOnActive, sendPing = Conn.AsyncPing) over a pipe; the peer is
   the script.  Per event: [e] for the model (ticks at 3600*k, messages at 0, period 1), what was
   observed -- [eff]: 0 nothing, 1 a Ping frame was written, 2 the connection was declared inactive,
   3 the pong answered the outstanding ping, 4 another message was processed, 5 the ping could not be
   written -- and the length of tokenHandlerContainer [ntok] and whether onInactive has run [cl] *)
Module KA := GoCoap.Conn.KeepAlive.
Module KM := GoCoap.Monitor.Model.
Inductive kobs := KO (e : KM.ev) (eff ntok : Z) (cl : bool).
Inductive case :=
| KaTcp (maxr bad : Z) (ksteps : list kobs)
| Hist (le hang nbad : Z) (steps : list stepobs)
| Sweep (now : Z) (ents : list (Z * option Z)) (left fired : list Z) (bad : Z)
| Locks (n : nat) (bad : Z) (steps : list lstep)
| MidRace (maxrt ack : Z) (bad : Z) (phases : list mphase).

(* transmission parameters the harness configures (harness/c13.go: c13AckMs, c13MaxRt, c13NStart) *)
Definition rcfg : R.cfg := {| R.ack_ms := 140000; R.max_rt := 2; R.nstart := 16 |}.

Definition apply_evs (ab : conn * conn) (evs : list (bool * cev)) : conn * conn :=
  fold_left (fun '(a, b) '(side, e) => if side : bool then (step rcfg a e, b) else (a, step rcfg b e)) evs ab.

Definition zlist_eqb (x y : list Z) : bool :=
  (length x =? length y)%nat && forallb (fun '(a, b) => a =? b) (combine x y).

Fixpoint agrees_steps (ab : conn * conn) (l : list stepobs) : bool :=
  match l with
  | [] => true
  | St _ evs sa sb nl :: r =>
      let ab' := apply_evs ab evs in
      zlist_eqb (sizes (fst ab')) sa && zlist_eqb (sizes (snd ab')) sb &&
      (blen (live (fst ab')) =? nl) && agrees_steps ab' r
  end.

Module S := GoCoap.Conn.Sweep.

(* the model's pass visits the keys in the order of [ents]; the result does not depend on the order
   (Sweep.pass_complete), Go's map order is not observed *)
Definition sweep_model (now : Z) (ents : list (Z * option Z)) : list Z * list Z :=
  let m := map (fun '(k, u) => (k, S.mkE u k)) ents in
  let r := S.check_expirations now (map fst ents) m in
  (S.keys (fst r), map S.e_ptr (snd r)).

(* ---- Locks ---- *)
Fixpoint zinsert (x : Z * Z) (l : list (Z * Z)) : list (Z * Z) :=
  match l with [] => [x] | y :: r => if fst x <=? fst y then x :: l else y :: zinsert x r end.
Definition zsort (l : list (Z * Z)) : list (Z * Z) := fold_right zinsert [] l.
Definition pairs_eqb (x y : list (Z * Z)) : bool :=
  (length x =? length y)%nat && forallb (fun '((a, b), (c, d)) => (a =? c) && (b =? d)) (combine x y).
Definition mm_tab (s : mmap) : list (Z * Z) := zsort (map (fun ke => (fst ke, cnt (heap s (snd ke)))) (tab s)).
Definition mm_thr (s : mmap) : list (Z * Z) :=
  map (fun x => match x with
                | Out => (0, 0) | Waiting k _ => (1, k) | Holding k _ => (2, k)
                | Releasing _ => (3, 0) | Panicked => (4, 0)
                end) (pcs s).
Fixpoint agrees_locks (s : mmap) (l : list lstep) : bool :=
  match l with
  | [] => true
  | LS acts tb th :: r =>
      let s' := exec2 s acts in
      pairs_eqb (mm_tab s') tb && pairs_eqb (mm_thr s') th && agrees_locks s' r
  end.
Fixpoint locks_class (l : list lstep) : N :=
  match l with
  | [] => 0%N
  | LS _ tb th :: r => match locks_step_class tb th with 0%N => locks_class r | c => c end
  end.

(* ---- MidRace ---- *)
(* Go's map order is not observed: the interrupted tick is run for every visiting order of the keys
   the table holds; the candidates that do not show the message IDs observed are dropped *)
Fixpoint insert_all (x : Z) (l : list Z) : list (list Z) :=
  match l with [] => [[x]] | y :: r => (x :: l) :: map (cons y) (insert_all x r) end.
Fixpoint perms (l : list Z) : list (list Z) :=
  match l with [] => [[]] | x :: r => flat_map (insert_all x) (perms r) end.
(* Go: "if a map entry is created during iteration, that entry may be produced during the iteration
   or may be skipped": after [mid] the visits of the message IDs that [mid] registered are optional
   (each at most once), all other visits happen (a key that is gone when its turn comes is a no-op) *)
Definition started_in (mid : list MT.envop) : list Z :=
  fold_right (fun o acc => match o with
                           | MT.Start k _ => if existsb (Z.eqb k) acc then acc else k :: acc
                           | MT.End _ => acc
                           end) [] mid.
Fixpoint subsets (l : list Z) : list (list Z) :=
  match l with [] => [[]] | x :: r => let s := subsets r in s ++ map (cons x) s end.
Definition visit0 (k : Z) : MT.item := MT.Visit k [].
Definition race_scheds (ord : list Z) (i : nat) (mid : list MT.envop) : list (list MT.item) :=
  match skipn i ord with
  | [] => [map visit0 ord ++ map MT.Env mid]          (* fewer entries than i+1: [mid] happens after the pass *)
  | cur :: post =>
      let ns := started_in mid in
      let post' := filter (fun k => negb (existsb (Z.eqb k) ns)) post in
      map (fun extra => map visit0 (firstn i ord) ++ MT.Visit cur mid :: map visit0 post' ++ map visit0 extra)
          (subsets ns)
  end.
Fixpoint zins (x : Z) (l : list Z) : list Z :=
  match l with [] => [x] | y :: r => if x <=? y then x :: l else y :: zins x r end.
Definition zsort1 (l : list Z) : list Z := fold_right zins [] l.
Definition mphase_step (maxrt ack : Z) (cands : list MT.tbl) (p : mphase) : list MT.tbl :=
  match p with
  | MEnv o => map (fun m => MT.env_step m o) cands
  | MTick now => map (fun m => MT.tick (MT.mkC now maxrt ack) (MT.keys m) m) cands
  | MRace now i mid =>
      flat_map (fun m => flat_map (fun ord => map (fun sch => MT.run (MT.mkC now maxrt ack) sch m) (race_scheds ord i mid))
                                  (if (length m <=? 5)%nat then perms (MT.keys m) else [MT.keys m])) cands
  | MObs lft => filter (fun m => zlist_eqb (zsort1 (MT.keys m)) lft) cands
  end.
Definition agrees_mid (maxrt ack : Z) (ph : list mphase) : bool :=
  match fold_left (mphase_step maxrt ack) ph [[]] with [] => false | _ => true end.

(* what the script did, for the Spec: the exchanges ending inside the interrupted tick end before it
   completes, the ones starting inside it count as started after it *)
Definition xev_of_env (o : MT.envop) : xev :=
  match o with MT.Start k e => XStart k (MT.e_dl e) | MT.End k => XEnd k end.
Definition is_start (o : MT.envop) : bool := match o with MT.Start _ _ => true | MT.End _ => false end.
Definition xevs_of (p : mphase) : list xev :=
  match p with
  | MEnv o => [xev_of_env o]
  | MTick now => [XTick now]
  | MRace now _ mid =>
      map xev_of_env (filter (fun o => negb (is_start o)) mid) ++ [XTick now] ++ map xev_of_env (filter is_start mid)
  | MObs lft => [XObs lft]
  end.

(* ---- KaTcp ---- *)
Definition ka_cfg (mr : Z) : KM.cfg := {| KM.period := 1; KM.maxr := mr; KM.ka := true |}.
Definition has_obs (f : KM.obs -> bool) (o : list KM.obs) : bool := existsb f o.
Definition ka_eff (x : KA.kst) (e : KM.ev) (o : list KM.obs) : Z :=
  if KM.closed (fst x) then 0 else
  match e with
  | KM.Pong g _ => if KA.kmem g (snd x) then 3 else 4
  | KM.Recv _ => 4
  | _ =>
      if has_obs (fun y => match y with KM.Ping _ => true | _ => false end) o then 1
      else if has_obs (fun y => match y with KM.Close => true | _ => false end) o then 2
      else if has_obs (fun y => match y with KM.PingFail _ => true | _ => false end) o then 5
      else 0
  end.
Fixpoint agrees_ka (c : KM.cfg) (x : KA.kst) (l : list kobs) : bool :=
  match l with
  | [] => true
  | KO e eff n cl :: r =>
      let '(x1, o) := KA.kstep c x e in
      (ka_eff x e o =? eff) && (blen (snd x1) =? n) && Bool.eqb (KM.closed (fst x1)) cl && agrees_ka c x1 r
  end.
Definition kev_of (k : kobs) : list kev :=
  match k with
  | KO _ eff n _ =>
      (if eff =? 1 then [KPing] else if eff =? 2 then [KClosed] else if eff =? 3 then [KPong]
       else if eff =? 4 then [KOther] else if eff =? 5 then [KPingFail] else []) ++ [KRead n]
  end.

Definition agrees (c : case) : bool :=
  match c with
  | KaTcp mr bad ks => (bad =? 0) && agrees_ka (ka_cfg mr) (KA.kinit 0) ks
  | Hist le hang nbad steps => (hang =? 0) && (nbad =? 0) && agrees_steps (init 0 le, init 0 0) steps
  | Sweep now ents lft fired bad =>
      (bad =? 0) && zlist_eqb (fst (sweep_model now ents)) lft && zlist_eqb (snd (sweep_model now ents)) fired
  | Locks n bad steps => (bad =? 0) && agrees_locks (MutexMap.init n) steps
  | MidRace maxrt ack bad ph => (bad =? 0) && agrees_mid maxrt ack ph
  end.

(* property predicate on the OBSERVED sizes (Spec only).  classes: 1 token continuation left,
   2 message-ID continuation left, 3 per-ID lock left, 4 cached reply after the lifetime,
   5 block-wise send buffer left, 6 block-wise reassembly buffer left, 7 limiter entry left,
   8 observation table differs from the live observations, 9 hang / panic / unexpected result,
   10 an entry of an expiry cache whose deadline has passed survives the housekeeping tick *)
Definition step_class (s : stepobs) : N :=
  match s with
  | St kind _ sa sb nl =>
      if kind =? 1 then match at_rest_class true sa nl with 0%N => at_rest_class false sb 0 | c => c end
      else if kind =? 2 then match closed_class sa nl with 0%N => closed_class sb 0 | c => c end
      else if kind =? 3 then match swept_class sa with 0%N => swept_class sb | c => c end
      else 0%N
  end.

Fixpoint first_class (l : list stepobs) : N :=
  match l with
  | [] => 0%N
  | s :: r => match step_class s with 0%N => first_class r | c => c end
  end.

Definition has_closing (l : list stepobs) : bool := existsb (fun '(St k _ _ _ _) => k =? 2) l.

Definition pclass (c : case) : N :=
  match c with
  | KaTcp _ bad ks => match ka_class (flat_map kev_of ks) with 0%N => if negb (bad =? 0) then 9%N else 0%N | c => c end
  | Hist _ hang nbad steps =>
      (* what the tables read before a hang / an unexpected result show is reported as such *)
      match first_class steps with
      | 0%N => if negb ((hang =? 0) && (nbad =? 0)) then 9%N else if has_closing steps then 0%N else 9%N
      | c => c
      end
  | Sweep now ents lft _ bad => if negb (bad =? 0) then 9%N else sweep_class now ents lft
  | Locks _ bad steps => match locks_class steps with 0%N => if negb (bad =? 0) then 9%N else 0%N | c => c end
  | MidRace _ _ bad ph => match mid_class (flat_map xevs_of ph) with 0%N => if negb (bad =? 0) then 9%N else 0%N | c => c end
  end.

Definition mismatches (cs : list case) : list N := bad_indices (fun c => negb (agrees c)) cs.
Definition property_failures (cs : list case) : list (N * N) := classes pclass cs.
