(* Conn/Run.v -- evaluators for the correspondence shards of C13.  A case is one history run on a
   back-to-back pair of real udp/client.Conn (A = client role, B = server role): per operation the
   abstract events of both sides (harness/c13.go) and the 11 table sizes read on each side. *)
From Coq Require Import ZArith NArith List Bool.
From GoCoap Require Import Base.Cases Base.Bytes Conn.MutexMap Conn.Spec.
From GoCoap Require Conn.Sweep.
From GoCoap Require Export Conn.Model.
Import ListNotations.
Open Scope Z_scope.

(* kind: 0 = calls in flight, 1 = every call returned and no ping outstanding, 2 = additionally aged
   past every deadline and ticked MAX_RETRANSMIT+1 times, 3 = every call returned, aged past every
   deadline and ticked ONCE *)
Inductive stepobs := St (kind : Z) (evs : list (bool * cev)) (szA szB : list Z) (nlive : Z).
(* Sweep: one pkg/cache.Cache filled with [ents] = (key, deadline in ms, None = zero time), ONE
   CheckExpirations(now); [left] = keys found afterwards (ascending), [fired] = keys whose onExpire
   ran (ascending), [bad] = panics *)
Inductive case :=
| Hist (le hang nbad : Z) (steps : list stepobs)
| Sweep (now : Z) (ents : list (Z * option Z)) (left fired : list Z) (bad : Z).

(* transmission parameters the harness configures (harness/c13.go: c13AckMs, c13MaxRt, c13NStart) *)
Definition rcfg : R.cfg := {| R.ack_ms := 140000; R.max_rt := 2; R.nstart := 16 |}.

Definition apply_evs (ab : conn * conn) (evs : list (bool * cev)) : conn * conn :=
  fold_left (fun '(a, b) '(side, e) => if side : bool then (step rcfg a e, b) else (a, step rcfg b e)) evs ab.

Definition zlist_eqb (x y : list Z) : bool :=
  (length x =? length y)%nat && forallb (fun '(a, b) => a =? b) (combine x y).

Fixpoint agrees_steps (ab : conn * conn) (l : list stepobs) : bool :=
  match l with
  | [] => true
  | St _ evs sa sb nl :: r =>
      let ab' := apply_evs ab evs in
      zlist_eqb (sizes (fst ab')) sa && zlist_eqb (sizes (snd ab')) sb &&
      (blen (live (fst ab')) =? nl) && agrees_steps ab' r
  end.

Module S := GoCoap.Conn.Sweep.

(* the model's pass visits the keys in the order of [ents]; the result does not depend on the order
   (Sweep.pass_complete), Go's map order is not observed *)
Definition sweep_model (now : Z) (ents : list (Z * option Z)) : list Z * list Z :=
  let m := map (fun '(k, u) => (k, S.mkE u k)) ents in
  let r := S.check_expirations now (map fst ents) m in
  (S.keys (fst r), map S.e_ptr (snd r)).

Definition agrees (c : case) : bool :=
  match c with
  | Hist le hang nbad steps => (hang =? 0) && (nbad =? 0) && agrees_steps (init 0 le, init 0 0) steps
  | Sweep now ents lft fired bad =>
      (bad =? 0) && zlist_eqb (fst (sweep_model now ents)) lft && zlist_eqb (snd (sweep_model now ents)) fired
  end.

(* property predicate on the OBSERVED sizes (Spec only).  classes: 1 token continuation left,
   2 message-ID continuation left, 3 per-ID lock left, 4 cached reply after the lifetime,
   5 block-wise send buffer left, 6 block-wise reassembly buffer left, 7 limiter entry left,
   8 observation table differs from the live observations, 9 hang / panic / unexpected result,
   10 an entry of an expiry cache whose deadline has passed survives the housekeeping tick *)
Definition step_class (s : stepobs) : N :=
  match s with
  | St kind _ sa sb nl =>
      if kind =? 1 then match at_rest_class true sa nl with 0%N => at_rest_class false sb 0 | c => c end
      else if kind =? 2 then match closed_class sa nl with 0%N => closed_class sb 0 | c => c end
      else if kind =? 3 then match swept_class sa with 0%N => swept_class sb | c => c end
      else 0%N
  end.

Fixpoint first_class (l : list stepobs) : N :=
  match l with
  | [] => 0%N
  | s :: r => match step_class s with 0%N => first_class r | c => c end
  end.

Definition has_closing (l : list stepobs) : bool := existsb (fun '(St k _ _ _ _) => k =? 2) l.

Definition pclass (c : case) : N :=
  match c with
  | Hist _ hang nbad steps =>
      if negb ((hang =? 0) && (nbad =? 0)) then 9%N
      else match first_class steps with
           | 0%N => if has_closing steps then 0%N else 9%N
           | c => c
           end
  | Sweep now ents lft _ bad => if negb (bad =? 0) then 9%N else sweep_class now ents lft
  end.

Definition mismatches (cs : list case) : list N := bad_indices (fun c => negb (agrees c)) cs.
Definition property_failures (cs : list case) : list (N * N) := classes pclass cs.
