(* Conn/ObsFirst.v -- C13, the first response of an Observe registration (net/observation/handler.go
   NewObservation, the branch after <-respObservationChan), on Observe/Model.v [handle_msg]:
   a first response WITHOUT the Observe option means the server did not register the client, so the
   exchange is over and no observation is live -- whatever its code (2.05 Content, 2.03 Valid for a
   conditional registration carrying an ETag, or an error code), the entry is removed before
   NewObservation returns.  Only a 2.05 / 2.03 WITH the option leaves an entry: the live observation. *)
From Coq Require Import ZArith List Bool Lia.
From GoCoap Require Import Observe.Model Observe.Proofs.
Import ListNotations.
Open Scope Z_scope.

Lemma first_response_without_observe : forall dec s m now o,
  tget (crc64 (m_tok m)) (tbl s) = Some o -> o_wait o = true -> dec m = None ->
  let r := handle_msg dec s m now in
  tget (crc64 (o_tok o)) (tbl (fst r)) = None /\
  regs (fst r) = regs s /\
  (forall k, k <> crc64 (o_tok o) -> tget k (tbl (fst r)) = tget k (tbl s)) /\
  (In (RegRet (o_id o) 1) (snd r) \/ In (RegRet (o_id o) 2) (snd r)).
Proof.
  intros dec s m now o Hg Hw Hd. unfold handle_msg. rewrite Hg, Hd, Hw. cbn [want].
  destruct (code_ok (m_code m)); cbn [fst snd tbl regs].
  - split; [apply tget_tdel_same|]. split; [reflexivity|]. split.
    + intros k Hk. apply tget_tdel_other. exact Hk.
    + left. apply in_or_app. right. left. reflexivity.
  - split; [apply tget_tdel_same|]. split; [reflexivity|]. split.
    + intros k Hk. apply tget_tdel_other. exact Hk.
    + right. apply in_or_app. right. left. reflexivity.
Qed.

