(* Conn/Spec.v -- C13 as a predicate on the table sizes OBSERVED on a connection, written from the
   property text only:

     "After all exchanges on a connection have ended - successfully, by error, by cancellation, or
      by expiry once the housekeeping tick has passed their deadline - the connection retains
      nothing for them: no waiting token or message-ID continuations, no block-wise reassembly or
      send buffers, no limiter queue entries, no per-ID locks and no observation entries other than
      observations that are still live.  Cached replies disappear after the exchange lifetime."

   A size vector lists, in this order: token continuations, message-ID continuations, per-ID
   locks, cached replies, block-wise send buffers, block-wise reassembly buffers, limiter endpoint
   entries, limiter queued channels, limiter units taken, limiter semaphore waiters, observation
   entries. *)
From Coq Require Import ZArith NArith List Bool.
Import ListNotations.
Open Scope Z_scope.

Definition sz_at (l : list Z) (i : nat) : Z := nth i l (-1).

(* every application call has returned (success, error or cancellation) and no deadline-less
   exchange (ping) is outstanding: what belongs to calls must be gone at once; what is kept
   for the peer's sake (cached replies, transfers the peer abandoned) may wait for its deadline *)
Definition at_rest_class (own_only : bool) (sz : list Z) (live : Z) : N :=
  (* own_only: every block-wise send buffer of this side belongs to a call of its own application
     (client role), so it must be gone when the calls have returned *)
  if own_only && negb (sz_at sz 4 =? 0) then 5%N
  else if negb (sz_at sz 0 =? 0) then 1%N
  else if negb (sz_at sz 1 =? 0) then 2%N
  else if negb (sz_at sz 2 =? 0) then 3%N
  else if negb ((sz_at sz 6 =? 0) && (sz_at sz 7 =? 0) && (sz_at sz 8 =? 0) && (sz_at sz 9 =? 0)) then 7%N
  else if negb (sz_at sz 10 =? live) then 8%N
  else 0%N.

(* ... and the housekeeping tick has passed every deadline: nothing but live observations *)
Definition closed_class (sz : list Z) (live : Z) : N :=
  match at_rest_class false sz live with
  | 0%N =>
      if negb (sz_at sz 3 =? 0) then 4%N
      else if negb (sz_at sz 4 =? 0) then 5%N
      else if negb (sz_at sz 5 =? 0) then 6%N
      else if negb (length sz =? 11)%nat then 9%N
      else 0%N
  | c => c
  end.

(* every deadline has passed and ONE housekeeping tick has run since ("by expiry once the housekeeping
   tick has passed their deadline"; "cached replies disappear after the exchange lifetime"): what
   is kept only until a deadline -- cached replies, block-wise send and reassembly buffers -- is
   gone after that single tick, however much of it there is.  Message-ID continuations of
   exchanges without a deadline may still be counting retransmissions at this point. *)
Definition swept_class (sz : list Z) : N :=
  if negb (sz_at sz 3 =? 0) then 4%N
  else if negb (sz_at sz 4 =? 0) then 5%N
  else if negb (sz_at sz 5 =? 0) then 6%N
  else 0%N.

(* the same statement for one expiry cache on its own: [ents] = (key, deadline) of the entries held
   before the tick (None: no deadline), [left] = the keys found after ONE CheckExpirations(now).
   No entry whose deadline lies before [now] may be left.  (10 = expired entry survived the tick;
   9 = a key that was never stored.) *)
Fixpoint deadline_of (ents : list (Z * option Z)) (k : Z) : option (option Z) :=
  match ents with [] => None | (k', u) :: r => if k' =? k then Some u else deadline_of r k end.
Definition sweep_class (now : Z) (ents : list (Z * option Z)) (left : list Z) : N :=
  if existsb (fun k => match deadline_of ents k with None => true | _ => false end) left then 9%N
  else if existsb (fun k => match deadline_of ents k with Some (Some u) => u <? now | _ => false end) left then 10%N
  else 0%N.

(* ---- the per-ID lock map on its own ("no per-ID locks" / "reference-counted per-key lock entries") ----
   observed after a step of a lock/try-lock/unlock script: [tab] = (key, reference count) of the
   entries the map holds, [thr] = per thread (status, key): 0 outside, 1 waiting in Lock(key),
   2 holds the lock of key.  An entry may exist only for a key some thread holds or waits for --
   in particular none when every thread is outside.  (3 = per-ID lock left) *)
Definition lock_users (k : Z) (thr : list (Z * Z)) : nat :=
  length (filter (fun sk => ((fst sk =? 1) || (fst sk =? 2)) && (snd sk =? k)) thr).
Definition locks_step_class (tab thr : list (Z * Z)) : N :=
  if existsb (fun kc => Nat.eqb (lock_users (fst kc) thr) 0) tab then 3%N else 0%N.

(* ---- message-ID continuations under housekeeping ticks that interleave with the exchanges ----
   what the script did, in order: an exchange registers a continuation under message ID k (with the
   deadline of its context, None = no deadline); the exchange under k ends (acknowledged, reset,
   given up, cancelled); a housekeeping tick at [now] has completed; the message IDs found in the
   table.  A message ID found must belong to an exchange that has started, has not ended, and whose
   deadline no completed tick has passed.  (2 = message-ID continuation left) *)
Inductive xev := XStart (k : Z) (dl : option Z) | XEnd (k : Z) | XTick (now : Z) | XObs (lft : list Z).

Fixpoint mid_class_from (open : list (Z * option Z * bool)) (tr : list xev) : N :=
  match tr with
  | [] => 0%N
  | XStart k dl :: r => mid_class_from ((k, dl, false) :: open) r
  | XEnd k :: r => mid_class_from (filter (fun x => negb (fst (fst x) =? k)) open) r
  | XTick now :: r =>
      mid_class_from (map (fun x => match snd (fst x) with
                                    | Some d => if d <? now then (fst x, true) else x
                                    | None => x
                                    end) open) r
  | XObs lft :: r =>
      if existsb (fun k => negb (existsb (fun x => (fst (fst x) =? k) && negb (snd x)) open)) lft then 2%N
      else mid_class_from open r
  end.
Definition mid_class (tr : list xev) : N := mid_class_from [] tr.

(* ---- keep-alive pings ("no waiting token or message-ID continuations"; "memory held per peer is
   bounded by live work, not by history") ----
   what was observed on a connection with a keep-alive monitor, in order: the keep-alive sent a ping
   (a new exchange; the ping of the previous round, if still unanswered, is thereby given up by its
   only owner -- ended by cancellation), a ping could not be sent, the outstanding ping was answered
   (ended successfully), the connection was declared inactive, some other message was processed, and
   the number of ping continuations found in the connection's table.  The live work of the
   keep-alive is the ONE ping it still waits for: more continuations than that are state of ended
   exchanges.  (1 = token continuation left) *)
Inductive kev := KPing | KPingFail | KPong | KClosed | KOther | KRead (n : Z).
Fixpoint ka_class_from (live : Z) (tr : list kev) : N :=
  match tr with
  | [] => 0%N
  | KPing :: r => ka_class_from 1 r
  | KPingFail :: r => ka_class_from 0 r
  | KPong :: r => ka_class_from 0 r
  | KClosed :: r => ka_class_from 0 r
  | KOther :: r => ka_class_from live r
  | KRead n :: r => if n <=? live then ka_class_from live r else 1%N
  end.
Definition ka_class (tr : list kev) : N := ka_class_from 0 tr.

(* the same as a proposition on the total *)
Definition total (sz : list Z) : Z := fold_left Z.add sz 0.
