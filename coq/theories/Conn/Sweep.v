(* Conn/Sweep.v -- pkg/cache Cache.CheckExpirations, the expiry sweep shared by the UDP response
   cache (udp/client.messageCache) and by both block-wise caches, as it is written:

     func (c *Cache[K, D]) CheckExpirations(now time.Time) {
         c.Range(func(key K, value *Element[D]) bool {       // pkg/sync.Map.Range: for key, value := range m.data
             if value.IsExpired(now) {                        //   { RUnlock; f(key, value); RLock }
                 c.ReplaceWithFunc(key, func(old, loaded) {   // under the write lock:
                     if loaded && old == value && old.IsExpired(now) { removed = true; return nil, true }
                     return old, !loaded })
                 if removed { value.onExpire(value.Data()) }
             }
             return true                                      // the pass never stops early
         })
     }

   Range produces the bindings of the map in an arbitrary order ([ord]: a list of keys; a key without
   a binding when its turn comes is not produced).  Between reading a binding and the callback's
   ReplaceWithFunc the map is unlocked: other goroutines may store or delete ([mid]).

   Elements are identified by a pointer ([e_ptr]); their deadline does not change (only the verif
   hooks move deadlines, and never during a sweep).  Model and proofs in one file, as MutexMap.v. *)
From Coq Require Import ZArith List Bool Lia.
Import ListNotations.
Open Scope Z_scope.

(* e_until = None: zero time.Time, never expires *)
Record elem := mkE { e_until : option Z; e_ptr : Z }.
Definition tbl := list (Z * elem).

(* Element.IsExpired: !ValidUntil.IsZero() && now.After(ValidUntil) *)
Definition is_expired (now : Z) (e : elem) : bool :=
  match e_until e with None => false | Some u => u <? now end.

Definition opt_eqb (a b : option Z) : bool :=
  match a, b with Some x, Some y => x =? y | None, None => true | _, _ => false end.
Definition elem_eqb (a b : elem) : bool := (e_ptr a =? e_ptr b) && opt_eqb (e_until a) (e_until b).

Fixpoint lookup (m : tbl) (k : Z) : option elem :=
  match m with [] => None | (k', e) :: r => if k' =? k then Some e else lookup r k end.
Definition remove (m : tbl) (k : Z) : tbl := filter (fun kv => negb (fst kv =? k)) m.
Definition put (m : tbl) (k : Z) (e : elem) : tbl := (k, e) :: remove m k.

(* what other goroutines do to the map meanwhile *)
Inductive envop := Put (k : Z) (e : elem) | Del (k : Z).
Definition env_step (m : tbl) (o : envop) : tbl := match o with Put k e => put m k e | Del k => remove m k end.
Definition env_run (ops : list envop) (m : tbl) : tbl := fold_left env_step ops m.

(* the Range callback for the binding (k, v) it was handed; second component: onExpire calls *)
Definition callback (now : Z) (k : Z) (v : elem) (m : tbl) : tbl * list elem :=
  if is_expired now v then
    match lookup m k with
    | Some old => if elem_eqb old v && is_expired now old then (remove m k, [v]) else (m, [])
    | None => (m, [])
    end
  else (m, []).

Inductive item :=
| Visit (k : Z) (mid : list envop)  (* Range reaches key k; [mid] runs between the read and the callback *)
| Env (o : envop).                  (* another goroutine between two iterations *)

Definition step (now : Z) (st : tbl * list elem) (i : item) : tbl * list elem :=
  match i with
  | Env o => (env_step (fst st) o, snd st)
  | Visit k mid =>
      match lookup (fst st) k with
      | None => (env_run mid (fst st), snd st)
      | Some v => let r := callback now k v (env_run mid (fst st)) in (fst r, snd st ++ snd r)
      end
  end.
Definition run (now : Z) (sch : list item) (m : tbl) : tbl * list elem := fold_left (step now) sch (m, []).

(* one undisturbed pass visiting the keys in the order [ord] *)
Definition check_expirations (now : Z) (ord : list Z) (m : tbl) : tbl * list elem :=
  run now (map (fun k => Visit k []) ord) m.

Definition unexpired (now : Z) (kv : Z * elem) : bool := negb (is_expired now (snd kv)).
Definition keys (m : tbl) : list Z := map fst m.
Definition zmem (k : Z) (l : list Z) : bool := existsb (Z.eqb k) l.

(* ================================================================== *)
(* proofs                                                              *)

Lemma opt_eqb_eq a b : opt_eqb a b = true -> a = b.
Proof. destruct a, b; cbn; intros H; try discriminate; [apply Z.eqb_eq in H; subst|]; reflexivity. Qed.

Lemma elem_eqb_eq a b : elem_eqb a b = true -> a = b.
Proof.
  unfold elem_eqb. intros H. apply andb_true_iff in H. destruct H as [H1 H2]. apply Z.eqb_eq in H1. apply opt_eqb_eq in H2.
  destruct a, b; cbn in *; subst; reflexivity.
Qed.

Lemma elem_eqb_refl a : elem_eqb a a = true.
Proof. unfold elem_eqb. rewrite Z.eqb_refl. destruct (e_until a); cbn; [apply Z.eqb_refl|reflexivity]. Qed.

Lemma lookup_in m k e : lookup m k = Some e -> In (k, e) m.
Proof.
  induction m as [|[k' e'] r IH]; cbn; [discriminate|]. destruct (k' =? k) eqn:E.
  - intros H. inversion H; subst. apply Z.eqb_eq in E. subst. left. reflexivity.
  - intros H. right. apply IH. exact H.
Qed.

Lemma lookup_none m k : lookup m k = None -> ~ In k (keys m).
Proof.
  induction m as [|[k' e'] r IH]; cbn; [intros _ []|]. destruct (k' =? k) eqn:E; [discriminate|].
  intros H [H1|H1]; [apply Z.eqb_neq in E; contradiction|exact (IH H H1)].
Qed.

Lemma in_lookup m k e : NoDup (keys m) -> In (k, e) m -> lookup m k = Some e.
Proof.
  induction m as [|[k' e'] r IH]; cbn; intros ND H; [destruct H|]. inversion ND as [|? ? Hn ND']; subst.
  destruct H as [H|H].
  - inversion H; subst. rewrite Z.eqb_refl. reflexivity.
  - destruct (k' =? k) eqn:E; [|apply IH; assumption]. apply Z.eqb_eq in E. subst. exfalso. apply Hn.
    apply (in_map fst) in H. exact H.
Qed.

Lemma nodup_filter (f : Z * elem -> bool) m : NoDup (keys m) -> NoDup (keys (filter f m)).
Proof.
  induction m as [|[k e] r IH]; cbn; intros ND; [constructor|]. inversion ND as [|? ? Hn ND']; subst.
  destruct (f (k, e)); cbn; [constructor; [|apply IH; exact ND']|apply IH; exact ND'].
  intros H. apply Hn. unfold keys in *. apply in_map_iff in H. destruct H as (x & Hx & Hin). apply filter_In in Hin.
  apply in_map_iff. exists x. split; [exact Hx|apply Hin].
Qed.

Lemma filter_filter {A} (f g : A -> bool) l : filter f (filter g l) = filter (fun x => g x && f x) l.
Proof. induction l as [|a r IH]; cbn; [reflexivity|]. destruct (g a); cbn; [destruct (f a); rewrite IH; reflexivity|exact IH]. Qed.

Lemma zmem_in k l : zmem k l = true <-> In k l.
Proof.
  unfold zmem. rewrite existsb_exists. split.
  - intros (x & Hx & E). apply Z.eqb_eq in E. subst. exact Hx.
  - intros H. exists k. split; [exact H|apply Z.eqb_refl].
Qed.

(* ---- 1. one undisturbed pass, any visiting order, any number of entries ---- *)

Definition swept (now : Z) (ord : list Z) (kv : Z * elem) : bool :=
  negb (is_expired now (snd kv) && zmem (fst kv) ord).

Lemma run_fst_acc now sch : forall m ex, fst (fold_left (step now) sch (m, ex)) = fst (fold_left (step now) sch (m, [])).
Proof.
  induction sch as [|i r IH]; intros m ex; [reflexivity|]. cbn [fold_left].
  destruct i as [k mid|o]; cbn [step fst snd].
  - destruct (lookup m k); [|apply IH]. rewrite IH. symmetry. rewrite IH. reflexivity.
  - apply IH.
Qed.

Lemma pass_is_filter now : forall ord m, NoDup (keys m) ->
  fst (check_expirations now ord m) = filter (swept now ord) m.
Proof.
  unfold check_expirations, run.
  induction ord as [|k ord IH]; intros m ND.
  - cbn. symmetry. induction m as [|a r IHm]; [reflexivity|]. cbn. unfold swept at 1. cbn. rewrite andb_false_r. cbn. f_equal.
    apply IHm. inversion ND; assumption.
  - cbn [map fold_left step fst snd env_run].
    destruct (lookup m k) as [v|] eqn:L.
    + unfold callback. destruct (is_expired now v) eqn:Ex.
      * rewrite L, elem_eqb_refl, Ex. cbn [andb fst snd]. rewrite run_fst_acc. rewrite IH by (apply nodup_filter; exact ND).
        unfold remove. rewrite filter_filter. apply filter_ext_in. intros [k' e'] Hin. unfold swept. cbn [fst snd zmem existsb].
        destruct (k' =? k) eqn:E.
        -- apply Z.eqb_eq in E. subst k'. rewrite (in_lookup m k e' ND Hin) in L. inversion L; subst. rewrite Ex. reflexivity.
        -- reflexivity.
      * cbn [fst snd]. rewrite run_fst_acc. rewrite IH by exact ND.
        apply filter_ext_in. intros [k' e'] Hin. unfold swept. cbn [fst snd zmem existsb]. fold (zmem k' ord).
        destruct (k' =? k) eqn:E.
        -- apply Z.eqb_eq in E. subst k'. rewrite (in_lookup m k e' ND Hin) in L. inversion L; subst. rewrite Ex. reflexivity.
        -- reflexivity.
    + cbn [fst snd]. rewrite IH by exact ND.
      apply filter_ext_in. intros [k' e'] Hin. unfold swept. cbn [fst snd zmem existsb]. fold (zmem k' ord).
      destruct (k' =? k) eqn:E; [|reflexivity].
      apply Z.eqb_eq in E. subst k'. exfalso. apply (lookup_none m k L). apply (in_map fst) in Hin. exact Hin.
Qed.

(* a pass that reaches every key leaves exactly the unexpired entries: NO expired entry survives,
   however many there are, and no unexpired entry is dropped *)
Theorem pass_complete : forall now ord m, NoDup (keys m) -> incl (keys m) ord ->
  fst (check_expirations now ord m) = filter (unexpired now) m.
Proof.
  intros now ord m ND Hc. rewrite pass_is_filter by exact ND. apply filter_ext_in. intros [k e] Hin.
  unfold swept, unexpired. cbn [fst snd].
  assert (Hz : zmem k ord = true) by (apply zmem_in; apply Hc; apply (in_map fst) in Hin; exact Hin).
  rewrite Hz, andb_true_r. reflexivity.
Qed.

Corollary pass_leaves_no_expired : forall now ord m k e, NoDup (keys m) -> incl (keys m) ord ->
  In (k, e) (fst (check_expirations now ord m)) -> is_expired now e = false.
Proof.
  intros now ord m k e ND Hc H. rewrite pass_complete in H by assumption. apply filter_In in H. destruct H as [_ H].
  unfold unexpired in H. cbn in H. destruct (is_expired now e); [discriminate|reflexivity].
Qed.

Corollary pass_all_expired_empties : forall now ord m, NoDup (keys m) -> incl (keys m) ord ->
  (forall k e, In (k, e) m -> is_expired now e = true) -> fst (check_expirations now ord m) = [].
Proof.
  intros now ord m ND Hc H. rewrite pass_complete by assumption. clear ND Hc.
  induction m as [|[k e] r IH]; [reflexivity|]. cbn [filter]. unfold unexpired at 1. cbn [snd].
  rewrite (H k e) by (left; reflexivity). cbn [negb]. apply IH. intros k0 e0 Hi. apply (H k0 e0). right. exact Hi.
Qed.

(* ---- 2. a pass interleaved with other goroutines ---- *)

(* key k holds nothing that is expired at [now] *)
Definition clean (now : Z) (k : Z) (m : tbl) : Prop :=
  match lookup m k with Some e => is_expired now e = false | None => True end.

Definition no_put (k : Z) (o : envop) : Prop := match o with Put k' _ => k' <> k | Del _ => True end.
Definition item_no_put (k : Z) (i : item) : Prop :=
  match i with Visit _ mid => Forall (no_put k) mid | Env o => no_put k o end.

Lemma lookup_remove_same m k : lookup (remove m k) k = None.
Proof.
  induction m as [|[k' e] r IH]; cbn; [reflexivity|]. destruct (k' =? k) eqn:E; cbn; [exact IH|]. rewrite E. exact IH.
Qed.

Lemma lookup_remove_other m k k' : k' <> k -> lookup (remove m k') k = lookup m k.
Proof.
  intros Hn. induction m as [|[k0 e] r IH]; cbn; [reflexivity|]. destruct (k0 =? k') eqn:E; cbn.
  - apply Z.eqb_eq in E. subst k0. assert (E2 : k' =? k = false) by (apply Z.eqb_neq; exact Hn). rewrite E2. exact IH.
  - destruct (k0 =? k); [reflexivity|exact IH].
Qed.

(* without a Put on k, the binding of k can only stay or go *)
Lemma env_step_stays k m o : no_put k o -> lookup (env_step m o) k = lookup m k \/ lookup (env_step m o) k = None.
Proof.
  destruct o as [k' e|k']; cbn [env_step no_put]; intros H.
  - left. unfold put. cbn [lookup]. assert (E : k' =? k = false) by (apply Z.eqb_neq; exact H). rewrite E. apply lookup_remove_other. exact H.
  - destruct (Z.eq_dec k' k) as [->|Hn]; [right; apply lookup_remove_same|left; apply lookup_remove_other; exact Hn].
Qed.

Lemma env_run_stays k ops : forall m, Forall (no_put k) ops -> lookup (env_run ops m) k = lookup m k \/ lookup (env_run ops m) k = None.
Proof.
  induction ops as [|o r IH]; intros m H; [left; reflexivity|]. inversion H as [|? ? Ho Hr]; subst. cbn [env_run fold_left].
  destruct (IH (env_step m o) Hr) as [E|E]; [|right; exact E].
  fold (env_run r (env_step m o)) in *. destruct (env_step_stays k m o Ho) as [E2|E2]; [left|right]; congruence.
Qed.

Lemma callback_other now k k' v m : k' <> k -> lookup (fst (callback now k' v m)) k = lookup m k.
Proof.
  intros Hn. unfold callback. destruct (is_expired now v); [|reflexivity]. destruct (lookup m k'); [|reflexivity].
  destruct (elem_eqb e v && is_expired now e); [|reflexivity]. cbn [fst]. apply lookup_remove_other. exact Hn.
Qed.

Lemma callback_clean_keeps now k k' v m : clean now k m -> clean now k (fst (callback now k' v m)).
Proof.
  intros H. destruct (Z.eq_dec k' k) as [->|Hn].
  - unfold callback. destruct (is_expired now v); [|exact H]. destruct (lookup m k) eqn:L; [|exact H].
    destruct (elem_eqb e v && is_expired now e); [|exact H]. cbn [fst]. unfold clean. rewrite lookup_remove_same. exact I.
  - unfold clean. rewrite callback_other by exact Hn. exact H.
Qed.

Lemma clean_stays now k m m' : clean now k m -> (lookup m' k = lookup m k \/ lookup m' k = None) -> clean now k m'.
Proof. unfold clean. intros H [E|E]; rewrite E; [exact H|exact I]. Qed.

Lemma step_clean_keeps now k st i : item_no_put k i -> clean now k (fst st) -> clean now k (fst (step now st i)).
Proof.
  destruct st as [m ex]. destruct i as [k' mid|o]; cbn [step fst snd item_no_put]; intros Hnp Hc.
  - assert (Hc' : clean now k (env_run mid m)) by (eapply clean_stays; [exact Hc|apply env_run_stays; exact Hnp]).
    destruct (lookup m k'); [|exact Hc']. cbn [fst]. apply callback_clean_keeps. exact Hc'.
  - eapply clean_stays; [exact Hc|apply env_step_stays; exact Hnp].
Qed.

Lemma steps_clean_keep now k sch : forall st, Forall (item_no_put k) sch -> clean now k (fst st) -> clean now k (fst (fold_left (step now) sch st)).
Proof.
  induction sch as [|i r IH]; intros st H Hc; [exact Hc|]. inversion H; subst. cbn [fold_left]. apply IH; [assumption|].
  apply step_clean_keeps; assumption.
Qed.

(* the visit of k itself: whatever k held when Range read it, it holds nothing expired afterwards,
   provided nobody stored under k between the read and the callback *)
Lemma visit_cleans now k mid st : Forall (no_put k) mid -> clean now k (fst (step now st (Visit k mid))).
Proof.
  destruct st as [m ex]. cbn [step fst snd]. intros Hnp.
  destruct (env_run_stays k mid m Hnp) as [E|E].
  - destruct (lookup m k) as [v|] eqn:L.
    + cbn [fst]. unfold callback. destruct (is_expired now v) eqn:Ex.
      * rewrite E, elem_eqb_refl, Ex. cbn [andb fst]. unfold clean. rewrite lookup_remove_same. exact I.
      * cbn [fst]. unfold clean. rewrite E. exact Ex.
    + cbn [fst]. unfold clean. rewrite E. exact I.
  - destruct (lookup m k) as [v|] eqn:L.
    + cbn [fst]. apply callback_clean_keeps. unfold clean. rewrite E. exact I.
    + cbn [fst]. unfold clean. rewrite E. exact I.
Qed.

(* Every schedule: once Range has visited key k, and nobody stores under k from that read on, k
   holds no expired element at the end of the pass -- whatever else happens to the map, and
   however many other entries expire in the same pass. *)
Theorem pass_interleaved : forall now pre k mid post m,
  Forall (no_put k) mid -> Forall (item_no_put k) post ->
  clean now k (fst (run now (pre ++ Visit k mid :: post) m)).
Proof.
  intros now pre k mid post m Hm Hp. unfold run. rewrite fold_left_app. cbn [fold_left].
  apply steps_clean_keep; [exact Hp|]. apply visit_cleans. exact Hm.
Qed.

(* onExpire fires once per removed entry of an undisturbed pass *)
Lemma pass_fired_count now : forall ord m ex, NoDup (keys m) ->
  (length (snd (fold_left (step now) (map (fun k => Visit k []) ord) (m, ex))) +
   length (fst (fold_left (step now) (map (fun k => Visit k []) ord) (m, ex))) = length ex + length m)%nat.
Proof.
  induction ord as [|k ord IH]; intros m ex ND; [reflexivity|]. cbn [map fold_left step fst snd env_run].
  destruct (lookup m k) as [v|] eqn:L; [|apply IH; exact ND].
  unfold callback. destruct (is_expired now v) eqn:Ex; cbn [fst snd].
  - rewrite L, elem_eqb_refl, Ex. cbn [andb fst snd]. rewrite IH by (apply nodup_filter; exact ND). rewrite app_length. cbn [length].
    assert (Hl : (length m = S (length (remove m k)))%nat).
    { clear IH. apply lookup_in in L. revert L ND. induction m as [|[k0 e0] r IHm]; intros L ND; [destruct L|]. inversion ND as [|? ? Hn ND']; subst.
      cbn [remove filter fst]. destruct (k0 =? k) eqn:E; cbn [negb length].
      - apply Z.eqb_eq in E. subst k0. f_equal. fold (remove r k). clear -Hn. induction r as [|[k1 e1] r1 IHr]; [reflexivity|]. cbn [remove filter fst].
        destruct (k1 =? k) eqn:E1; cbn [negb].
        + apply Z.eqb_eq in E1. subst. exfalso. apply Hn. left. reflexivity.
        + cbn [length]. f_equal. apply IHr. intros H. apply Hn. right. exact H.
      - destruct L as [L|L]; [inversion L; subst; rewrite Z.eqb_refl in E; discriminate|]. f_equal. apply IHm; assumption. }
    lia.
  - rewrite app_nil_r. apply IH. exact ND.
Qed.

Theorem pass_fires_once_per_removed : forall now ord m, NoDup (keys m) ->
  (length (snd (check_expirations now ord m)) + length (fst (check_expirations now ord m)) = length m)%nat.
Proof. intros now ord m ND. unfold check_expirations, run. rewrite pass_fired_count by exact ND. reflexivity. Qed.
