(* Conn/MutexMap.v -- udp/client/mutexmap.go: the reference-counted per-key lock map that
   handleReq uses to serialise the handling of one message ID.

     Lock(key):   m.ml.Lock; e := m.ma[key] (created when absent); e.cnt++; m.ml.Unlock   -> [Enter]
                  e.el.Lock()  (blocks while the entry's mutex is held)                    -> [Acquire]
     Unlock():    m.ml.Lock; e := m.ma[entry.key] (panic when absent); e.cnt--;
                  if e.cnt < 1 { delete(m.ma, key) }; m.ml.Unlock                           -> [ExitMap]
                  e.el.Unlock()                                                              -> [Release]

     TryLock(key): m.ml.Lock (held for the whole call); e := m.ma[key] (created when absent);
                  if !e.el.TryLock() { return nil, false }; e.cnt++; return e, true          -> [try_step]
                  (one atomic section; handleReq tries first and falls back to Lock)

   Entries live on a heap (a deleted entry may still be referenced by the thread that is about
   to release its mutex); cnt is a uint16.  A thread is a program counter; a schedule is a list
   of (thread, key): the thread performs its next atomic section, the key is used only when the
   thread is outside and calls Lock(key).  A section that is not enabled (Acquire on a held
   mutex) is a no-op, so the quantification over all schedules covers every interleaving.

   Model first, then the invariant and the theorems (all schedules -- with TryLock: of (thread, key,
   try) -- any number of threads below 2^16, the width of the counter). *)
From Coq Require Import ZArith List Bool Lia.
Import ListNotations.
Open Scope Z_scope.
Ltac Zify.zify_post_hook ::= Z.div_mod_to_equations.

Inductive pc :=
| Out                          (* not in Lock/Unlock *)
| Waiting (k : Z) (e : nat)    (* after the map section of Lock, before e.el.Lock() returns *)
| Holding (k : Z) (e : nat)    (* owns the entry's mutex: inside the critical section of the caller *)
| Releasing (e : nat)          (* after the map section of Unlock, before e.el.Unlock() *)
| Panicked.                    (* Unlock found no entry / unlock of an unlocked mutex *)

Record entry := mkE { cnt : Z; locked : bool }.

Record mmap := mkM {
  tab : list (Z * nat);        (* m.ma: key -> entry *)
  heap : nat -> entry;
  next : nat;                  (* next fresh entry *)
  pcs : list pc
}.

Fixpoint lookup (t : list (Z * nat)) (k : Z) : option nat :=
  match t with [] => None | (k', e) :: r => if k =? k' then Some e else lookup r k end.
Fixpoint remove (t : list (Z * nat)) (k : Z) : list (Z * nat) :=
  match t with [] => [] | (k', e) :: r => if k =? k' then remove r k else (k', e) :: remove r k end.

Definition updh (h : nat -> entry) (e : nat) (v : entry) : nat -> entry :=
  fun x => if Nat.eqb x e then v else h x.

Fixpoint updl {A} (t : nat) (v : A) (l : list A) : list A :=
  match l, t with
  | [], _ => []
  | _ :: r, O => v :: r
  | x :: r, S t' => x :: updl t' v r
  end.

Definition u16 (x : Z) : Z := x mod 65536.

Definition init (n : nat) : mmap := mkM [] (fun _ => mkE 0 false) 0 (repeat Out n).

Definition step (s : mmap) (tk : nat * Z) : mmap :=
  let '(t, k) := tk in
  match nth_error (pcs s) t with
  | None => s
  | Some Out =>
      match lookup (tab s) k with
      | Some e =>
          mkM (tab s) (updh (heap s) e (mkE (u16 (cnt (heap s e) + 1)) (locked (heap s e)))) (next s)
              (updl t (Waiting k e) (pcs s))
      | None =>
          let e := next s in
          mkM ((k, e) :: tab s) (updh (heap s) e (mkE (u16 (0 + 1)) false)) (S (next s))
              (updl t (Waiting k e) (pcs s))
      end
  | Some (Waiting k' e) =>
      if locked (heap s e) then s
      else mkM (tab s) (updh (heap s) e (mkE (cnt (heap s e)) true)) (next s) (updl t (Holding k' e) (pcs s))
  | Some (Holding k' e) =>
      match lookup (tab s) k' with
      | None => mkM (tab s) (heap s) (next s) (updl t Panicked (pcs s))
      | Some e' =>
          let c := u16 (cnt (heap s e') - 1) in
          mkM (if c <? 1 then remove (tab s) k' else tab s)
              (updh (heap s) e' (mkE c (locked (heap s e')))) (next s) (updl t (Releasing e') (pcs s))
      end
  | Some (Releasing e') =>
      if locked (heap s e')
      then mkM (tab s) (updh (heap s) e' (mkE (cnt (heap s e')) false)) (next s) (updl t Out (pcs s))
      else mkM (tab s) (heap s) (next s) (updl t Panicked (pcs s))
  | Some Panicked => s
  end.

Definition exec (s : mmap) (sched : list (nat * Z)) : mmap := fold_left step sched s.

(* ------------------------------------------------------------------ *)
(* counting threads                                                   *)

Definition b2z (b : bool) : Z := if b then 1 else 0.
Fixpoint count (p : pc -> bool) (l : list pc) : Z :=
  match l with [] => 0 | x :: r => b2z (p x) + count p r end.

(* between the map section of Lock(k) and the map section of Unlock *)
Definition inside (k : Z) (x : pc) : bool :=
  match x with Waiting k' _ | Holding k' _ => k' =? k | _ => false end.
(* inside the caller's critical section for key k *)
Definition holding (k : Z) (x : pc) : bool :=
  match x with Holding k' _ => k' =? k | _ => false end.
(* owns the mutex of entry e *)
Definition owns (e : nat) (x : pc) : bool :=
  match x with Holding _ e' | Releasing e' => Nat.eqb e' e | _ => false end.
Definition is_out (x : pc) : bool := match x with Out => true | _ => false end.
Definition is_panicked (x : pc) : bool := match x with Panicked => true | _ => false end.

Lemma count_nonneg p l : 0 <= count p l.
Proof. induction l as [|x r IH]; cbn [count]; [lia|]. destruct (p x); cbn [b2z]; lia. Qed.

Lemma count_le_length p l : count p l <= Z.of_nat (length l).
Proof. induction l as [|x r IH]; cbn [count length]; [lia|]. destruct (p x); cbn [b2z]; lia. Qed.

Lemma count_updl p : forall l t x y, nth_error l t = Some x ->
  count p (updl t y l) = count p l - b2z (p x) + b2z (p y).
Proof.
  induction l as [|a r IH]; intros [|t] x y H; cbn in *; try discriminate.
  - inversion H; subst. lia.
  - rewrite (IH t x y H). lia.
Qed.

Lemma length_updl {A} : forall (l : list A) t v, length (updl t v l) = length l.
Proof. induction l as [|a r IH]; intros [|t] v; cbn; auto. Qed.

Lemma nth_updl_same {A} : forall (l : list A) t v x, nth_error l t = Some x -> nth_error (updl t v l) t = Some v.
Proof. induction l as [|a r IH]; intros [|t] v x H; cbn in *; try discriminate; eauto. Qed.

Lemma nth_updl_other {A} : forall (l : list A) t t' v, t <> t' -> nth_error (updl t v l) t' = nth_error l t'.
Proof.
  induction l as [|a r IH]; intros [|t] [|t'] v H; cbn; auto; try congruence.
  all: try (apply IH; congruence).
Qed.

Lemma count_pos_ex p : forall l, 0 < count p l -> exists t x, nth_error l t = Some x /\ p x = true.
Proof.
  induction l as [|a r IH]; cbn [count]; intros H; [lia|].
  destruct (p a) eqn:E.
  - exists O, a. auto.
  - cbn [b2z] in H. destruct (IH ltac:(lia)) as (t & x & Hn & Hp). exists (S t), x. auto.
Qed.

Lemma count_ex_pos p : forall l t x, nth_error l t = Some x -> p x = true -> 0 < count p l.
Proof.
  induction l as [|a r IH]; intros [|t] x H Hp; cbn [nth_error count] in *; try discriminate.
  - inversion H; subst. rewrite Hp. pose proof (count_nonneg p r). cbn [b2z]. lia.
  - pose proof (IH t x H Hp). destruct (p a); cbn [b2z]; lia.
Qed.

Lemma count_zero_all p : forall l, count p l = 0 -> forall t x, nth_error l t = Some x -> p x = false.
Proof.
  intros l H t x Hn. destruct (p x) eqn:E; auto.
  pose proof (count_ex_pos p l t x Hn E). lia.
Qed.

Lemma lookup_remove_same t k : lookup (remove t k) k = None.
Proof. induction t as [|[k' e] r IH]; cbn; auto. destruct (k =? k') eqn:E; cbn; auto. rewrite E. auto. Qed.

Lemma lookup_remove_other t k k' : k <> k' -> lookup (remove t k) k' = lookup t k'.
Proof.
  intros H. induction t as [|[k0 e] r IH]; cbn; auto.
  destruct (k =? k0) eqn:E.
  - apply Z.eqb_eq in E. subst. destruct (k' =? k0) eqn:E2; auto. apply Z.eqb_eq in E2. congruence.
  - cbn. rewrite IH. auto.
Qed.

(* ------------------------------------------------------------------ *)
(* the invariant                                                      *)

Record Inv (s : mmap) : Prop := {
  (* a thread between Enter and ExitMap refers to the entry the map holds for its key *)
  i_ref : forall t k e, nth_error (pcs s) t = Some (Waiting k e) \/ nth_error (pcs s) t = Some (Holding k e) ->
                        lookup (tab s) k = Some e;
  (* the counter of a mapped entry is the number of those threads, and it is positive *)
  i_cnt : forall k e, lookup (tab s) k = Some e -> cnt (heap s e) = count (inside k) (pcs s) /\ 0 < count (inside k) (pcs s);
  (* distinct keys have distinct entries; entries are allocated below next *)
  i_inj : forall k k' e, lookup (tab s) k = Some e -> lookup (tab s) k' = Some e -> k = k';
  i_lt : forall k e, lookup (tab s) k = Some e -> (e < next s)%nat;
  (* an entry's mutex is held by exactly the threads that own it: at most one *)
  i_own : forall e, count (owns e) (pcs s) = b2z (locked (heap s e));
  i_fresh : forall e, (next s <= e)%nat -> locked (heap s e) = false;
  i_nopanic : count is_panicked (pcs s) = 0;
  i_small : Z.of_nat (length (pcs s)) < 65536
}.

Lemma count_repeat_out p n : p Out = false -> count p (repeat Out n) = 0.
Proof. intros H. induction n; cbn; auto. rewrite H. cbn. lia. Qed.

Lemma nth_repeat {A} (x : A) n t y : nth_error (repeat x n) t = Some y -> y = x.
Proof. revert t. induction n; intros [|t] H; cbn in *; try discriminate; [inversion H; auto | eauto]. Qed.

Lemma inv_init n : Z.of_nat n < 65536 -> Inv (init n).
Proof.
  intros Hn. constructor; cbn.
  - intros t k e [H|H]; apply nth_repeat in H; discriminate.
  - intros; discriminate.
  - intros; discriminate.
  - intros; discriminate.
  - intros e. apply count_repeat_out. reflexivity.
  - reflexivity.
  - apply count_repeat_out. reflexivity.
  - rewrite repeat_length. exact Hn.
Qed.

Lemma u16_small x : 0 <= x < 65536 -> u16 x = x.
Proof. intros H. unfold u16. apply Z.mod_small. exact H. Qed.

Ltac dnth t t' := destruct (Nat.eq_dec t t') as [->|?];
  [ erewrite nth_updl_same in * by eassumption | rewrite nth_updl_other in * by assumption ].

Lemma step_inv s tk : Inv s -> Inv (step s tk).
Proof.
  intros I. destruct tk as [t k]. unfold step.
  destruct (nth_error (pcs s) t) as [x|] eqn:Hn; [|exact I].
  pose proof (i_small s I) as Hsmall.
  destruct x as [|k0 e0|k0 e0|e0|].
  - (* Enter k *)
    destruct (lookup (tab s) k) as [e|] eqn:Hl.
    + destruct (i_cnt s I k e Hl) as [Hc Hp].
      pose proof (count_le_length (inside k) (pcs s)) as Hle.
      (* the entering thread is outside, so the count is below the number of threads *)
      assert (Hlt : count (inside k) (pcs s) + 1 <= Z.of_nat (length (pcs s))).
      { pose proof (count_updl (inside k) (pcs s) t Out (Waiting k e) Hn) as HU. cbn in HU. rewrite Z.eqb_refl in HU. cbn in HU.
        pose proof (count_le_length (inside k) (updl t (Waiting k e) (pcs s))) as H2. rewrite length_updl in H2. lia. }
      constructor; cbn.
      * intros t' k' e' H. dnth t t'.
        -- destruct H as [H|H]; inversion H; subst. exact Hl.
        -- apply (i_ref s I t' k' e'). exact H.
      * intros k' e' Hl'. rewrite (count_updl _ _ _ _ _ Hn). cbn.
        unfold updh. destruct (Nat.eqb e' e) eqn:Ee.
        -- apply Nat.eqb_eq in Ee. subst e'. pose proof (i_inj s I k k' e Hl Hl'). subst k'.
           rewrite Z.eqb_refl. cbn. rewrite Hc. rewrite u16_small by lia. lia.
        -- destruct (k =? k') eqn:Ek.
           ++ apply Z.eqb_eq in Ek. subst k'. rewrite Hl in Hl'. inversion Hl'; subst. rewrite Nat.eqb_refl in Ee. discriminate.
           ++ cbn. destruct (i_cnt s I k' e' Hl'). lia.
      * apply (i_inj s I).
      * apply (i_lt s I).
      * intros e'. rewrite (count_updl _ _ _ _ _ Hn). cbn. unfold updh.
        destruct (Nat.eqb e' e) eqn:Ee; cbn; [apply Nat.eqb_eq in Ee; subst e'|]; rewrite (i_own s I); lia.
      * intros e' He'. unfold updh. destruct (Nat.eqb e' e) eqn:Ee; cbn; [|apply (i_fresh s I); exact He'].
        apply Nat.eqb_eq in Ee. subst. apply (i_fresh s I). exact He'.
      * rewrite (count_updl _ _ _ _ _ Hn). cbn. rewrite (i_nopanic s I). lia.
      * rewrite length_updl. exact Hsmall.
    + (* fresh entry *)
      assert (Hz : count (inside k) (pcs s) = 0).
      { destruct (Z.eq_dec (count (inside k) (pcs s)) 0) as [|Hne]; auto.
        pose proof (count_nonneg (inside k) (pcs s)).
        destruct (count_pos_ex (inside k) (pcs s) ltac:(lia)) as (t' & x & Hn' & Hx).
        destruct x; cbn in Hx; try discriminate; apply Z.eqb_eq in Hx; subst;
          [ pose proof (i_ref s I t' k e (or_introl Hn')) | pose proof (i_ref s I t' k e (or_intror Hn')) ]; congruence. }
      constructor; cbn.
      * intros t' k' e' H. dnth t t'.
        -- destruct H as [H|H]; inversion H; subst. rewrite Z.eqb_refl. reflexivity.
        -- pose proof (i_ref s I t' k' e' H) as HR. destruct (k' =? k) eqn:E; auto.
           apply Z.eqb_eq in E. subst. congruence.
      * intros k' e' Hl'. rewrite (count_updl _ _ _ _ _ Hn). cbn. unfold updh.
        destruct (k' =? k) eqn:Ek.
        -- inversion Hl'; subst e'. apply Z.eqb_eq in Ek. subst k'. rewrite Nat.eqb_refl. rewrite Z.eqb_refl. cbn.
           rewrite Hz. try rewrite u16_small by lia. unfold u16. lia.
        -- pose proof (i_lt s I k' e' Hl') as Hlt. destruct (Nat.eqb e' (next s)) eqn:Ee.
           ++ apply Nat.eqb_eq in Ee. lia.
           ++ rewrite Z.eqb_sym. rewrite Ek. cbn. destruct (i_cnt s I k' e' Hl'). lia.
      * intros k1 k2 e'. destruct (k1 =? k) eqn:E1; destruct (k2 =? k) eqn:E2; intros H1 H2.
        -- apply Z.eqb_eq in E1, E2. congruence.
        -- inversion H1; subst. pose proof (i_lt s I k2 _ H2). lia.
        -- inversion H2; subst. pose proof (i_lt s I k1 _ H1). lia.
        -- apply (i_inj s I k1 k2 e' H1 H2).
      * intros k' e'. destruct (k' =? k); intros H.
        -- inversion H; subst. lia.
        -- pose proof (i_lt s I k' e' H). lia.
      * intros e'. rewrite (count_updl _ _ _ _ _ Hn). cbn. unfold updh.
        destruct (Nat.eqb e' (next s)) eqn:Ee; cbn.
        -- apply Nat.eqb_eq in Ee. subst. rewrite (i_own s I (next s)). rewrite (i_fresh s I (next s)); [cbn; lia | lia].
        -- rewrite (i_own s I e'). lia.
      * intros e' He'. unfold updh. destruct (Nat.eqb e' (next s)) eqn:Ee; cbn; auto.
        apply (i_fresh s I). lia.
      * rewrite (count_updl _ _ _ _ _ Hn). cbn. rewrite (i_nopanic s I). lia.
      * rewrite length_updl. exact Hsmall.
  - (* Acquire *)
    destruct (locked (heap s e0)) eqn:Hlk; [exact I|].
    pose proof (i_ref s I t k0 e0 (or_introl Hn)) as Hl0.
    constructor; cbn.
    + intros t' k' e' H. dnth t t'.
      * destruct H as [H|H]; inversion H; subst. exact Hl0.
      * apply (i_ref s I t' k' e'). exact H.
    + intros k' e' Hl'. rewrite (count_updl _ _ _ _ _ Hn). cbn. unfold updh.
      destruct (i_cnt s I k' e' Hl'). destruct (Nat.eqb e' e0) eqn:Ee; cbn; [apply Nat.eqb_eq in Ee; subst e'|]; lia.
    + apply (i_inj s I).
    + apply (i_lt s I).
    + intros e'. rewrite (count_updl _ _ _ _ _ Hn). cbn. unfold updh.
      rewrite Nat.eqb_sym. destruct (Nat.eqb e' e0) eqn:Ee; cbn.
      * apply Nat.eqb_eq in Ee. subst. rewrite (i_own s I e0). rewrite Hlk. cbn. lia.
      * rewrite (i_own s I e'). lia.
    + intros e' He'. unfold updh. destruct (Nat.eqb e' e0) eqn:Ee; cbn; [|apply (i_fresh s I); exact He'].
      apply Nat.eqb_eq in Ee. subst. pose proof (i_lt s I k0 e0 Hl0). lia.
    + rewrite (count_updl _ _ _ _ _ Hn). cbn. rewrite (i_nopanic s I). lia.
    + rewrite length_updl. exact Hsmall.
  - (* ExitMap *)
    pose proof (i_ref s I t k0 e0 (or_intror Hn)) as Hl0. rewrite Hl0.
    destruct (i_cnt s I k0 e0 Hl0) as [Hc Hp].
    pose proof (count_le_length (inside k0) (pcs s)) as Hle.
    assert (Hc1 : u16 (cnt (heap s e0) - 1) = count (inside k0) (pcs s) - 1) by (rewrite Hc; apply u16_small; lia).
    rewrite Hc1.
    constructor; cbn.
    + intros t' k' e' H. dnth t t'.
      * destruct H as [H|H]; inversion H.
      * pose proof (i_ref s I t' k' e' H) as HR.
        destruct (count (inside k0) (pcs s) - 1 <? 1) eqn:Elast; [|exact HR].
        destruct (Z.eq_dec k0 k') as [->|Hne]; [|rewrite lookup_remove_other by exact Hne; exact HR].
        (* another thread inside k0 contradicts count = 1 *)
        exfalso. apply Z.ltb_lt in Elast.
        pose proof (count_updl (inside k') (pcs s) t (Holding k' e0) (Releasing e0) Hn) as HU. cbn in HU. rewrite Z.eqb_refl in HU. cbn in HU.
        assert (Hex : exists x, nth_error (updl t (Releasing e0) (pcs s)) t' = Some x /\ inside k' x = true).
        { destruct H as [H|H]; eexists; (split; [rewrite nth_updl_other by assumption; exact H | cbn; apply Z.eqb_refl]). }
        destruct Hex as (x & Hn2 & Hin).
        pose proof (count_ex_pos _ _ _ _ Hn2 Hin). lia.
    + intros k' e' Hl'. rewrite (count_updl _ _ _ _ _ Hn). cbn.
      assert (Hl'' : lookup (tab s) k' = Some e' /\ (count (inside k0) (pcs s) - 1 <? 1 = true -> k' <> k0)).
      { destruct (count (inside k0) (pcs s) - 1 <? 1); [|split; [exact Hl'|discriminate]].
        destruct (Z.eq_dec k0 k') as [->|Hne]; [rewrite lookup_remove_same in Hl'; discriminate|].
        rewrite lookup_remove_other in Hl' by exact Hne. split; [exact Hl'|congruence]. }
      destruct Hl'' as [Hl2 Hk]. unfold updh. destruct (i_cnt s I k' e' Hl2) as [Hc' Hp'].
      destruct (k0 =? k') eqn:Ek.
      * apply Z.eqb_eq in Ek. subst k'. rewrite Hl0 in Hl2. inversion Hl2; subst e'. rewrite Nat.eqb_refl. cbn.
        destruct (count (inside k0) (pcs s) - 1 <? 1) eqn:E1; [exfalso; apply Hk; auto|]. apply Z.ltb_ge in E1. lia.
      * destruct (Nat.eqb e' e0) eqn:Ee.
        -- apply Nat.eqb_eq in Ee. subst e'. pose proof (i_inj s I k0 k' e0 Hl0 Hl2). apply Z.eqb_neq in Ek. congruence.
        -- cbn. lia.
    + intros k1 k2 e' H1 H2.
      assert (forall kk ee, lookup (if count (inside k0) (pcs s) - 1 <? 1 then remove (tab s) k0 else tab s) kk = Some ee -> lookup (tab s) kk = Some ee) as HW.
      { intros kk ee. destruct (count (inside k0) (pcs s) - 1 <? 1); auto.
        destruct (Z.eq_dec k0 kk) as [->|Hne]; [rewrite lookup_remove_same; discriminate|rewrite lookup_remove_other by exact Hne; auto]. }
      apply (i_inj s I k1 k2 e'); apply HW; assumption.
    + intros k' e' H. apply (i_lt s I k' e').
      destruct (count (inside k0) (pcs s) - 1 <? 1); auto.
      destruct (Z.eq_dec k0 k') as [->|Hne]; [rewrite lookup_remove_same in H; discriminate|rewrite lookup_remove_other in H by exact Hne; auto].
    + intros e'. rewrite (count_updl _ _ _ _ _ Hn). cbn. unfold updh.
      destruct (Nat.eqb e' e0) eqn:Ee; cbn; rewrite (i_own s I e'); try lia.
      apply Nat.eqb_eq in Ee. subst. lia.
    + intros e' He'. unfold updh. destruct (Nat.eqb e' e0) eqn:Ee; cbn; apply (i_fresh s I); auto.
      apply Nat.eqb_eq in Ee. subst. exact He'.
    + rewrite (count_updl _ _ _ _ _ Hn). cbn. rewrite (i_nopanic s I). lia.
    + rewrite length_updl. exact Hsmall.
  - (* Release *)
    assert (Hlk : locked (heap s e0) = true).
    { pose proof (i_own s I e0) as HO. assert (Ho : owns e0 (Releasing e0) = true) by (cbn; apply Nat.eqb_refl).
      pose proof (count_ex_pos _ _ _ _ Hn Ho). destruct (locked (heap s e0)); auto. cbn in HO. lia. }
    rewrite Hlk.
    constructor; cbn.
    + intros t' k' e' H. dnth t t'.
      * destruct H as [H|H]; inversion H.
      * apply (i_ref s I t' k' e'). exact H.
    + intros k' e' Hl'. rewrite (count_updl _ _ _ _ _ Hn). cbn. unfold updh.
      destruct (i_cnt s I k' e' Hl'). destruct (Nat.eqb e' e0) eqn:Ee; cbn; [apply Nat.eqb_eq in Ee; subst e'|]; lia.
    + apply (i_inj s I).
    + apply (i_lt s I).
    + intros e'. rewrite (count_updl _ _ _ _ _ Hn). cbn. unfold updh.
      rewrite Nat.eqb_sym. destruct (Nat.eqb e' e0) eqn:Ee; cbn.
      * apply Nat.eqb_eq in Ee. subst. rewrite (i_own s I e0). rewrite Hlk. cbn. lia.
      * rewrite (i_own s I e'). lia.
    + intros e' He'. unfold updh. destruct (Nat.eqb e' e0) eqn:Ee; cbn; auto. apply (i_fresh s I). exact He'.
    + rewrite (count_updl _ _ _ _ _ Hn). cbn. rewrite (i_nopanic s I). lia.
    + rewrite length_updl. exact Hsmall.
  - exact I.
Qed.

Lemma exec_inv sched : forall s, Inv s -> Inv (exec s sched).
Proof. induction sched as [|a r IH]; intros s I; cbn; auto. apply IH. apply step_inv. exact I. Qed.

(* ------------------------------------------------------------------ *)
(* TryLock                                                            *)

(* TryLock(key) is ONE atomic section: m.ml is held for the whole call.

     m.ml.Lock(); defer m.ml.Unlock()
     e := m.ma[key]  (created when absent)
     if !e.el.TryLock() { return nil, false }     -- taken: nothing is changed, no reference is kept
     e.cnt++                                      -- reference of the new holder
     return e, true

   handleReq calls TryLock first and falls back to Lock when it fails (after asking for a replacement
   reader loop), so a thread that is outside may call either; a failed TryLock leaves it outside. *)
Definition try_step (s : mmap) (t : nat) (k : Z) : mmap :=
  match lookup (tab s) k with
  | Some e =>
      if locked (heap s e) then s
      else mkM (tab s) (updh (heap s) e (mkE (u16 (cnt (heap s e) + 1)) true)) (next s)
               (updl t (Holding k e) (pcs s))
  | None =>
      (* a new entry: its mutex is free, the try succeeds *)
      let e := next s in
      mkM ((k, e) :: tab s) (updh (heap s) e (mkE (u16 (0 + 1)) true)) (S (next s))
          (updl t (Holding k e) (pcs s))
  end.

(* a schedule step with the choice of the call: (thread, key, try).  The flag matters only when the
   thread is outside (it then calls TryLock(key) instead of Lock(key)). *)
Definition step2 (s : mmap) (a : nat * Z * bool) : mmap :=
  let '(t, k, try) := a in
  match nth_error (pcs s) t with
  | Some Out => if try then try_step s t k else step s (t, k)
  | _ => step s (t, k)
  end.

Definition exec2 (s : mmap) (sched : list (nat * Z * bool)) : mmap := fold_left step2 sched s.

Lemma exec_as_exec2 sched : forall s, exec s sched = exec2 s (map (fun tk => (tk, false)) sched).
Proof.
  induction sched as [|[t k] r IH]; intros s; [reflexivity|]. cbn [exec exec2 fold_left map]. fold (exec (step s (t, k)) r).
  rewrite IH. unfold exec2. f_equal. unfold step2. destruct (nth_error (pcs s) t) as [[]|]; reflexivity.
Qed.

(* did TryLock(k) of thread t succeed?  (the thread is outside before the call) *)
Definition try_ok (s : mmap) (k : Z) : bool :=
  match lookup (tab s) k with Some e => negb (locked (heap s e)) | None => true end.

Lemma try_fail_noop s t k : try_ok s k = false -> try_step s t k = s.
Proof. unfold try_ok, try_step. destruct (lookup (tab s) k) as [e|]; [|discriminate]. destruct (locked (heap s e)); [reflexivity|discriminate]. Qed.

Lemma try_step_inv s t k : Inv s -> nth_error (pcs s) t = Some Out -> Inv (try_step s t k).
Proof.
  intros I Hn. unfold try_step. pose proof (i_small s I) as Hsmall.
  destruct (lookup (tab s) k) as [e|] eqn:Hl.
  - destruct (locked (heap s e)) eqn:Hlk; [exact I|].
    destruct (i_cnt s I k e Hl) as [Hc Hp].
    assert (Hlt : count (inside k) (pcs s) + 1 <= Z.of_nat (length (pcs s))).
    { pose proof (count_updl (inside k) (pcs s) t Out (Waiting k e) Hn) as HU. cbn in HU. rewrite Z.eqb_refl in HU. cbn in HU.
      pose proof (count_le_length (inside k) (updl t (Waiting k e) (pcs s))) as H2. rewrite length_updl in H2. lia. }
    constructor; cbn.
    + intros t' k' e' H. dnth t t'.
      * destruct H as [H|H]; inversion H; subst. exact Hl.
      * apply (i_ref s I t' k' e'). exact H.
    + intros k' e' Hl'. rewrite (count_updl _ _ _ _ _ Hn). cbn.
      unfold updh. destruct (Nat.eqb e' e) eqn:Ee.
      * apply Nat.eqb_eq in Ee. subst e'. pose proof (i_inj s I k k' e Hl Hl'). subst k'.
        rewrite Z.eqb_refl. cbn. rewrite Hc. rewrite u16_small by lia. lia.
      * destruct (k =? k') eqn:Ek.
        -- apply Z.eqb_eq in Ek. subst k'. rewrite Hl in Hl'. inversion Hl'; subst. rewrite Nat.eqb_refl in Ee. discriminate.
        -- cbn. destruct (i_cnt s I k' e' Hl'). lia.
    + apply (i_inj s I).
    + apply (i_lt s I).
    + intros e'. rewrite (count_updl _ _ _ _ _ Hn). cbn. unfold updh.
      rewrite Nat.eqb_sym. destruct (Nat.eqb e' e) eqn:Ee; cbn.
      * apply Nat.eqb_eq in Ee. subst. rewrite (i_own s I e). rewrite Hlk. cbn. lia.
      * rewrite (i_own s I e'). lia.
    + intros e' He'. unfold updh. destruct (Nat.eqb e' e) eqn:Ee; cbn; [|apply (i_fresh s I); exact He'].
      apply Nat.eqb_eq in Ee. subst. pose proof (i_lt s I k e Hl). lia.
    + rewrite (count_updl _ _ _ _ _ Hn). cbn. rewrite (i_nopanic s I). lia.
    + rewrite length_updl. exact Hsmall.
  - assert (Hz : count (inside k) (pcs s) = 0).
    { destruct (Z.eq_dec (count (inside k) (pcs s)) 0) as [|Hne]; auto.
      pose proof (count_nonneg (inside k) (pcs s)).
      destruct (count_pos_ex (inside k) (pcs s) ltac:(lia)) as (t' & x & Hn' & Hx).
      destruct x; cbn in Hx; try discriminate; apply Z.eqb_eq in Hx; subst;
        [ pose proof (i_ref s I t' k e (or_introl Hn')) | pose proof (i_ref s I t' k e (or_intror Hn')) ]; congruence. }
    constructor; cbn.
    + intros t' k' e' H. dnth t t'.
      * destruct H as [H|H]; inversion H; subst. rewrite Z.eqb_refl. reflexivity.
      * pose proof (i_ref s I t' k' e' H) as HR. destruct (k' =? k) eqn:E; auto.
        apply Z.eqb_eq in E. subst. congruence.
    + intros k' e' Hl'. rewrite (count_updl _ _ _ _ _ Hn). cbn. unfold updh.
      destruct (k' =? k) eqn:Ek.
      * inversion Hl'; subst e'. apply Z.eqb_eq in Ek. subst k'. rewrite Nat.eqb_refl. rewrite Z.eqb_refl. cbn.
        rewrite Hz. unfold u16. lia.
      * pose proof (i_lt s I k' e' Hl') as Hlt. destruct (Nat.eqb e' (next s)) eqn:Ee.
        -- apply Nat.eqb_eq in Ee. lia.
        -- rewrite Z.eqb_sym. rewrite Ek. cbn. destruct (i_cnt s I k' e' Hl'). lia.
    + intros k1 k2 e'. destruct (k1 =? k) eqn:E1; destruct (k2 =? k) eqn:E2; intros H1 H2.
      * apply Z.eqb_eq in E1, E2. congruence.
      * inversion H1; subst. pose proof (i_lt s I k2 _ H2). lia.
      * inversion H2; subst. pose proof (i_lt s I k1 _ H1). lia.
      * apply (i_inj s I k1 k2 e' H1 H2).
    + intros k' e'. destruct (k' =? k); intros H.
      * inversion H; subst. lia.
      * pose proof (i_lt s I k' e' H). lia.
    + intros e'. rewrite (count_updl _ _ _ _ _ Hn). cbn. unfold updh.
      rewrite Nat.eqb_sym. destruct (Nat.eqb e' (next s)) eqn:Ee; cbn.
      * apply Nat.eqb_eq in Ee. subst. rewrite (i_own s I (next s)). rewrite (i_fresh s I (next s)); [cbn; lia | lia].
      * rewrite (i_own s I e'). lia.
    + intros e' He'. unfold updh. destruct (Nat.eqb e' (next s)) eqn:Ee; cbn.
      * apply Nat.eqb_eq in Ee. lia.
      * apply (i_fresh s I). lia.
    + rewrite (count_updl _ _ _ _ _ Hn). cbn. rewrite (i_nopanic s I). lia.
    + rewrite length_updl. exact Hsmall.
Qed.

Lemma step2_inv s a : Inv s -> Inv (step2 s a).
Proof.
  intros I. destruct a as [[t k] try]. unfold step2.
  destruct (nth_error (pcs s) t) as [x|] eqn:Hn; [|apply step_inv; exact I].
  destruct x; try (apply step_inv; exact I).
  destruct try; [apply try_step_inv; assumption|apply step_inv; exact I].
Qed.

Lemma exec2_inv sched : forall s, Inv s -> Inv (exec2 s sched).
Proof. induction sched as [|a r IH]; intros s I; cbn; auto. apply IH. apply step2_inv. exact I. Qed.

(* a successful TryLock puts the caller into the critical section at once and takes exactly one
   reference; a failed one changes nothing at all (in particular: no reference is left behind) *)
Lemma try_step_result s t k : nth_error (pcs s) t = Some Out ->
  if try_ok s k
  then exists e, nth_error (pcs (try_step s t k)) t = Some (Holding k e) /\ lookup (tab (try_step s t k)) k = Some e
  else try_step s t k = s.
Proof.
  intros Hn. destruct (try_ok s k) eqn:E; [|apply try_fail_noop; exact E].
  unfold try_ok in E. unfold try_step. destruct (lookup (tab s) k) as [e|] eqn:Hl.
  - destruct (locked (heap s e)); [discriminate|]. exists e. cbn. split; [eapply nth_updl_same; exact Hn|exact Hl].
  - exists (next s). cbn. rewrite Z.eqb_refl. split; [eapply nth_updl_same; exact Hn|reflexivity].
Qed.

(* ------------------------------------------------------------------ *)
(* the theorems: every schedule (Lock, TryLock, Unlock) of n < 2^16 threads *)

Section Theorems.
Variable n : nat.
Hypothesis Hn : Z.of_nat n < 65536.
Variable sched : list (nat * Z * bool).
Let s := exec2 (init n) sched.

Lemma reach_inv : Inv s.
Proof. apply exec2_inv. apply inv_init. exact Hn. Qed.

(* the entry for k exists iff its reference count is positive, and the count is the number of
   threads between the map section of Lock(k) and the map section of Unlock *)
Theorem refcount_exact : forall k,
  match lookup (tab s) k with
  | Some e => cnt (heap s e) = count (inside k) (pcs s) /\ 0 < cnt (heap s e)
  | None => count (inside k) (pcs s) = 0
  end.
Proof.
  intros k. pose proof reach_inv as I. destruct (lookup (tab s) k) as [e|] eqn:Hl.
  - destruct (i_cnt s I k e Hl). lia.
  - destruct (Z.eq_dec (count (inside k) (pcs s)) 0) as [|Hne]; auto.
    pose proof (count_nonneg (inside k) (pcs s)).
    destruct (count_pos_ex (inside k) (pcs s) ltac:(lia)) as (t' & x & Hn' & Hx).
    destruct x; cbn in Hx; try discriminate; apply Z.eqb_eq in Hx; subst;
      [ pose proof (i_ref s I t' k e (or_introl Hn')) | pose proof (i_ref s I t' k e (or_intror Hn')) ]; congruence.
Qed.

Theorem entry_iff_referenced : forall k, (exists e, lookup (tab s) k = Some e) <-> 0 < count (inside k) (pcs s).
Proof.
  intros k. pose proof (refcount_exact k) as H. destruct (lookup (tab s) k) as [e|].
  - split; [intros _; lia | intros _; eauto].
  - split; [intros [e He]; discriminate | intros; lia].
Qed.

(* mutual exclusion per key: at most one thread is inside the caller's critical section for k *)
Theorem mutual_exclusion : forall k, count (holding k) (pcs s) <= 1.
Proof.
  intros k. pose proof reach_inv as I.
  destruct (lookup (tab s) k) as [e|] eqn:Hl.
  - (* every holder of k holds entry e, whose mutex has at most one owner *)
    assert (Hle : forall l, (forall t x, nth_error l t = Some x -> holding k x = true -> owns e x = true) ->
                            count (holding k) l <= count (owns e) l).
    { induction l as [|a r IH]; intros H; cbn [count]; [lia|].
      assert (IHr : count (holding k) r <= count (owns e) r) by (apply IH; intros t x Hx; apply (H (S t) x Hx)).
      destruct (holding k a) eqn:Ea; cbn [b2z].
      - rewrite (H O a eq_refl Ea). cbn [b2z]. lia.
      - destruct (owns e a); cbn [b2z]; lia. }
    specialize (Hle (pcs s)). rewrite (i_own s I e) in Hle.
    assert (count (holding k) (pcs s) <= b2z (locked (heap s e))).
    { apply Hle. intros t x Hx Hh. destruct x; cbn in Hh; try discriminate. apply Z.eqb_eq in Hh. subst.
      pose proof (i_ref s I t k e0 (or_intror Hx)) as HR. rewrite Hl in HR. inversion HR; subst. cbn. apply Nat.eqb_refl. }
    destruct (locked (heap s e)); cbn in *; lia.
  - pose proof (refcount_exact k) as H. rewrite Hl in H.
    assert (count (holding k) (pcs s) <= count (inside k) (pcs s)).
    { clear. induction (pcs s) as [|a r IH]; cbn [count]; [lia|]. destruct a; cbn [holding inside b2z]; try lia. destruct (k0 =? k); cbn [b2z]; lia. }
    lia.
Qed.

Theorem never_panics : count is_panicked (pcs s) = 0.
Proof. apply (i_nopanic s reach_inv). Qed.

(* when no thread is between Lock and the map section of Unlock, the map is empty *)
Theorem empty_when_unreferenced : (forall k, count (inside k) (pcs s) = 0) -> tab s = [].
Proof.
  intros H. destruct (tab s) as [|[k e] r] eqn:Ht; auto.
  pose proof (refcount_exact k) as HR. rewrite Ht in HR. cbn in HR. rewrite Z.eqb_refl in HR. specialize (H k). lia.
Qed.

Corollary empty_when_all_out : (forall t x, nth_error (pcs s) t = Some x -> x = Out) -> tab s = [].
Proof.
  intros H. apply empty_when_unreferenced. intros k.
  assert (forall l, (forall t x, nth_error l t = Some x -> x = Out) -> count (inside k) l = 0) as HZ.
  { induction l as [|a r IH]; intros HA; cbn [count]; auto. rewrite (HA O a eq_refl). cbn [inside b2z]. rewrite IH; [lia|]. intros t x Hx. apply (HA (S t) x Hx). }
  apply HZ. exact H.
Qed.
End Theorems.
