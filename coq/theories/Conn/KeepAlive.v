(* Conn/KeepAlive.v -- C13 for the keep-alive pings of a connection (model + proofs).

   net/monitor/inactivity/keepalive.go (KeepAlive.OnInactive / OnActive / checkCancelPing) is
   Monitor/Model.v (C18), imported, not re-modelled: its observations [Ping g] / [PingFail g] /
   [Cancel g] / [Close] are what the keep-alive does to the connection.  Here they are composed with
   the table the continuation of a ping lives in:

     tcp/client/conn.go  AsyncPing: tokenHandlerContainer.LoadOrStore(token.Hash(), handler);
                                    write error -> removeTokenHandler(), error returned;
                                    the returned cancel function = removeTokenHandler
                                    (LoadAndDelete BY TOKEN)
                         handleSignals, case codes.Pong: LoadAndDelete(token) and, when found, the
                                    handler (receivePong) runs; a pong that finds nothing is a
                                    plain received message
     udp/client/conn.go  AsyncPing: the same with midHandlerContainer (message ID)

   The table is the list of the ping generations whose continuation it holds (a generation stands
   for the random token / the message ID of its ping; distinct generations have distinct keys). *)
From Coq Require Import ZArith List Bool Lia.
From GoCoap Require Import Monitor.Model.
Import ListNotations.
Open Scope Z_scope.

Definition ktbl := list Z.
Definition kdel (g : Z) (t : ktbl) : ktbl := filter (fun x => negb (x =? g)) t.
Definition kmem (g : Z) (t : ktbl) : bool := existsb (Z.eqb g) t.

(* what one action of the keep-alive does to the table *)
Definition apply_obs (t : ktbl) (o : obs) : ktbl :=
  match o with
  | Cancel g => kdel g t        (* the stored cancel function: LoadAndDelete *)
  | Ping g => t ++ [g]          (* AsyncPing succeeded: the continuation stays until pong or cancel *)
  | PingFail _ => t             (* stored and removed again inside AsyncPing *)
  | Close => t                  (* onInactive(cc) *)
  end.

Definition kst := (st * ktbl)%type.
Definition kinit (t0 : Z) : kst := (init t0, []).

(* one event on the connection.  A pong is looked up in the table first (handleSignals): only when
   its continuation is there does the receivePong callback run. *)
Definition kstep (c : cfg) (x : kst) (e : ev) : kst * list obs :=
  let '(s, t) := x in
  match e with
  | Pong g tm =>
      if closed s then (x, [])
      else if kmem g t then (fst (step c s (Pong g tm)), kdel g t, [])
      else (fst (step c s (Recv tm)), t, [])
  | _ => let '(s1, o) := step c s e in (s1, fold_left apply_obs o t, o)
  end.

Fixpoint krun (c : cfg) (x : kst) (h : list ev) : kst :=
  match h with [] => x | e :: r => krun c (fst (kstep c x e)) r end.

(* ---- invariant ---- *)
Definition KInv (c : cfg) (x : kst) : Prop :=
  let '(s, t) := x in
  (t = [] \/ exists g, t = [g] /\ pending s = Some g) /\
  (ka c = false -> pending s = None) /\
  (closed s = true -> pending s = None).

Lemma kdel_single : forall g, kdel g [g] = [].
Proof. intro g. unfold kdel. cbn. rewrite Z.eqb_refl. reflexivity. Qed.

Lemma kinv_init : forall c t0, KInv c (kinit t0).
Proof. intros c t0. cbn. repeat split; auto. Qed.

(* the cancel of the stored generation empties the table *)
Lemma cancel_empties : forall s t,
  (t = [] \/ exists g, t = [g] /\ pending s = Some g) ->
  fold_left apply_obs (cancel_obs s) t = [].
Proof.
  intros s t [Ht | [g [Ht Hp]]]; subst t; unfold cancel_obs.
  - destruct (pending s); cbn; reflexivity.
  - rewrite Hp. cbn [fold_left apply_obs]. apply kdel_single.
Qed.

Lemma fold_app_obs : forall a b t, fold_left apply_obs (a ++ b) t = fold_left apply_obs b (fold_left apply_obs a t).
Proof. intros a b t. apply fold_left_app. Qed.

Lemma kinv_on_inactive : forall c s t ok,
  closed s = false -> KInv c (s, t) ->
  KInv c (fst (on_inactive c s ok), fold_left apply_obs (snd (on_inactive c s ok)) t).
Proof.
  intros c s t ok Hcl [H1 [H2 H3]]. unfold on_inactive.
  destruct (ka c) eqn:Hka.
  - unfold ka_on_inactive.
    destruct ((fails s + 1) mod 2 ^ 32 >? maxr c).
    + cbn [fst snd]. rewrite fold_app_obs, (cancel_empties s t H1). cbn.
      repeat split; auto; try (intro Hc; congruence).
    + destruct ok; cbn [fst snd]; rewrite fold_app_obs, (cancel_empties s t H1); cbn.
      * split; [right; eexists; split; reflexivity|]. split; [intro Hc; congruence|].
        intro Hc; cbn in Hc; congruence.
      * repeat split; auto; try (intro Hc; congruence).
  - cbn. specialize (H2 eq_refl). repeat split; auto.
Qed.

Lemma kinv_check : forall c s t now ok,
  closed s = false -> KInv c (s, t) ->
  KInv c (fst (check c s now ok), fold_left apply_obs (snd (check c s now ok)) t).
Proof.
  intros c s t now ok Hcl HI. unfold check.
  destruct (period c =? 0); [exact HI|].
  destruct (now >? last s + period c); [apply kinv_on_inactive; assumption | exact HI].
Qed.

Lemma kinv_notify : forall c s t tm, KInv c (s, t) -> KInv c (notify c s tm, t).
Proof. intros c s t tm HI. exact HI. Qed.

Lemma kinv_pong_cb : forall c s t g, KInv c (s, t) -> KInv c (pong_cb s g, t).
Proof. intros c s t g HI. unfold pong_cb. destruct (token s =? g); exact HI. Qed.

Lemma kinv_step : forall c x e, KInv c x -> KInv c (fst (kstep c x e)).
Proof.
  intros c [s t] e HI. unfold kstep.
  destruct e as [tm | g tm | g | tm ok | tm ok | tm | tm].
  - unfold step. destruct (closed s) eqn:Hcl; cbn [fst fold_left]; [exact HI|]. apply kinv_notify; exact HI.
  - destruct (closed s) eqn:Hcl; [exact HI|].
    destruct (kmem g t) eqn:Hm; cbn [fst].
    + unfold step. rewrite Hcl. cbn [fst].
      destruct HI as [H1 [H2 H3]].
      destruct H1 as [Ht | [g' [Ht Hp]]].
      * subst t. cbn in Hm. discriminate.
      * subst t. cbn in Hm. rewrite orb_false_r in Hm. apply Z.eqb_eq in Hm. subst g'.
        rewrite kdel_single.
        assert (HI' : KInv c (pong_cb (notify c s tm) g, [])).
        { apply kinv_pong_cb. cbn. split; [left; reflexivity|]. split; assumption. }
        exact HI'.
    + unfold step. rewrite Hcl. cbn [fst]. apply kinv_notify; exact HI.
  - unfold step. destruct (closed s) eqn:Hcl; cbn [fst fold_left]; [exact HI|]. apply kinv_pong_cb; exact HI.
  - unfold step. destruct (closed s) eqn:Hcl; [cbn; exact HI|].
    destruct (check c s tm ok) as [s1 o] eqn:Hc. cbn [fst].
    pose proof (kinv_check c s t tm ok Hcl HI) as HK. rewrite Hc in HK. exact HK.
  - unfold step. destruct (closed s) eqn:Hcl; [cbn; exact HI|].
    destruct (check c s (tm + slack) ok) as [s1 o] eqn:Hc.
    pose proof (kinv_check c s t (tm + slack) ok Hcl HI) as HK. rewrite Hc in HK. cbn [fst snd] in HK.
    destruct (closed s1); cbn [fst]; [exact HK|]. apply kinv_notify; exact HK.
  - unfold step. destruct (closed s); cbn; exact HI.
  - unfold step. destruct (closed s); cbn; exact HI.
Qed.

Lemma kinv_run : forall c h x, KInv c x -> KInv c (krun c x h).
Proof.
  intros c h; induction h as [|e r IH]; intros x HI; cbn [krun]; [exact HI|].
  apply IH. apply kinv_step. exact HI.
Qed.

(* ---- C13 for keep-alive pings ---- *)

(* every history of received messages, pongs (current, late, unknown), housekeeping ticks with
   working or failing transport: the table holds at most ONE ping continuation, and it is the one of
   the ping the keep-alive still waits for (whose cancel function it keeps for its next round);
   once the connection has been declared inactive nothing is held *)
Theorem keepalive_table_bounded : forall c t0 h,
  let '(s, t) := krun c (kinit t0) h in
  (length t <= 1)%nat /\
  (forall g, In g t -> pending s = Some g) /\
  (pending s = None -> t = []) /\
  (closed s = true -> t = []).
Proof.
  intros c t0 h. pose proof (kinv_run c h (kinit t0) (kinv_init c t0)) as HI.
  destruct (krun c (kinit t0) h) as [s t]. destruct HI as [H1 [H2 H3]].
  destruct H1 as [Ht | [g [Ht Hp]]]; subst t.
  - repeat split; auto; intros g [].
  - split; [cbn; lia|]. split.
    + intros g' [Hg | []]. subst g'. exact Hp.
    + split; intro Hc.
      * rewrite Hc in Hp; discriminate.
      * rewrite (H3 Hc) in Hp; discriminate.
Qed.

(* a ping that is not answered while other messages arrive is settled by the next round: in every
   reachable state, after ANY number of other messages a tick that finds the connection idle
   leaves exactly the new ping's continuation (or none, when the ping could not be sent or the
   connection is given up) *)
Lemma recv_keeps : forall c s t tm, closed s = false -> fst (kstep c (s, t) (Recv tm)) = (notify c s tm, t).
Proof. intros c s t tm Hcl. unfold kstep, step. rewrite Hcl. reflexivity. Qed.

Theorem keepalive_round_replaces : forall c t0 h tm ok,
  let x := krun c (kinit t0) h in
  let '(s1, t1, o) := kstep c x (Tick tm ok) in
  closed (fst x) = false -> o <> [] ->
  (exists g, In (Ping g) o /\ t1 = [g] /\ pending s1 = Some g) \/
  ((exists g, In (PingFail g) o) /\ t1 = []) \/
  (In Close o /\ ka c = true /\ t1 = []) \/
  (ka c = false /\ t1 = snd x).
Proof.
  intros c t0 h tm ok x.
  pose proof (kinv_run c h (kinit t0) (kinv_init c t0)) as HI. fold x in HI.
  destruct x as [s t]. cbn [fst snd]. unfold kstep, step.
  destruct (closed s) eqn:Hcl; [intros Hc; discriminate|].
  destruct HI as [H1 _].
  unfold check. destruct (period c =? 0); [intros _ Ho; contradiction Ho; reflexivity|].
  destruct (tm >? last s + period c); [|intros _ Ho; contradiction Ho; reflexivity].
  unfold on_inactive. destruct (ka c) eqn:Hka.
  - unfold ka_on_inactive.
    destruct ((fails s + 1) mod 2 ^ 32 >? maxr c).
    + intros _ _. right; right; left. rewrite fold_app_obs, (cancel_empties s t H1). cbn.
      split; [apply in_or_app; right; left; reflexivity|]. split; reflexivity.
    + destruct ok; intros _ _; rewrite fold_app_obs, (cancel_empties s t H1); cbn.
      * left. eexists. split; [apply in_or_app; right; left; reflexivity|]. split; reflexivity.
      * right; left. split; [|reflexivity]. eexists. apply in_or_app; right; left; reflexivity.
  - intros _ _. right; right; right. cbn. split; reflexivity.
Qed.

(* the answer to the outstanding ping removes its continuation: nothing is left *)
Theorem keepalive_pong_empties : forall c t0 h g tm,
  let x := krun c (kinit t0) h in
  In g (snd x) -> closed (fst x) = false ->
  snd (fst (kstep c x (Pong g tm))) = [].
Proof.
  intros c t0 h g tm x Hin Hcl.
  pose proof (kinv_run c h (kinit t0) (kinv_init c t0)) as HI. fold x in HI.
  destruct x as [s t]. cbn [fst snd] in *. destruct HI as [[Ht | [g' [Ht Hp]]] _]; subst t.
  - destruct Hin.
  - destruct Hin as [Hg | []]. subst g'. unfold kstep. rewrite Hcl.
    cbn [kmem existsb]. rewrite Z.eqb_refl. cbn [orb fst snd]. apply kdel_single.
Qed.
