(* Conn/MidTick.v -- the table of pending confirmables of one udp/client.Conn
   (midHandlerContainer : message ID -> *midElement) under the housekeeping tick, INTERLEAVED with
   what the exchanges themselves do to the table.

     CheckExpirations(now):
         cc.midHandlerContainer.Range(func(key, value) bool {     // pkg/sync.Map.Range: for key, value := range m.data
             cc.checkMidHandlerContainer(now, maxRetransmit,      //   { RUnlock; f(key, value); RLock }
                                         acknowledgeTimeout, key, value)
             return true })                                       // the pass never stops early

     checkMidHandlerContainer(now, maxRt, ackTimeout, key, value):
         if value.IsExpired(now, maxRt) {                         // deadline passed, or retransmissions used up
             cc.midHandlerContainer.Delete(key)                   // BY KEY: whatever the key holds now
             value.ReleaseMessage(cc); cc.errors(...); return }
         if !value.Retransmit(now, ackTimeout) { return }         // counts the attempt in the element (in place)
         ... a copy of the message is written (Retx/Model.v); the table is not touched

   Between Range's read of a binding and the callback the map is unlocked; meanwhile
     - an exchange ends by itself: the ACK/RST arrives (handleSpecialMessages: LoadAndDelete(mid)), the
       sender's context ends (writeMessage's deferred clean-up: LoadAndDelete(mid)), the ping is
       cancelled or answered (LoadAndDelete(mid))                                            -> [End k]
     - a new exchange starts: LoadOrStore(mid, element) -- refused when the key is taken      -> [Start k e]

   The error path of GetMessage (the clone of the stored message fails) also deletes by key; a stored
   message always clones, the path is not modelled.  Model first, then the proofs (as MutexMap.v). *)
From Coq Require Import ZArith List Bool Lia.
Import ListNotations.
Open Scope Z_scope.

(* e_dl = None: zero time.Time (AsyncPing, or a context without deadline) *)
Record elem := mkE { e_ptr : Z; e_start : Z; e_dl : option Z; e_rt : Z }.
Record cfg := mkC { now : Z; max_rt : Z; ack : Z }.
Definition tbl := list (Z * elem).

(* midElement.IsExpired: (!deadline.IsZero() && now.After(deadline)) || retransmit >= maxRetransmit *)
Definition is_expired (c : cfg) (e : elem) : bool :=
  match e_dl e with Some d => d <? now c | None => false end || (max_rt c <=? e_rt e).
(* midElement.Retransmit: now.After(start + ackTimeout*(retransmit+1)) *)
Definition retx_due (c : cfg) (e : elem) : bool := e_start e + ack c * (e_rt e + 1) <? now c.

Fixpoint lookup (m : tbl) (k : Z) : option elem :=
  match m with [] => None | (k', e) :: r => if k' =? k then Some e else lookup r k end.
Definition remove (m : tbl) (k : Z) : tbl := filter (fun kv => negb (fst kv =? k)) m.
Definition has (m : tbl) (k : Z) : bool := match lookup m k with Some _ => true | None => false end.
Definition keys (m : tbl) : list Z := map fst m.

(* retransmit.Inc() on the element the tick holds: visible in the table when the key still holds
   that very element *)
Definition bump (m : tbl) (k : Z) (v : elem) : tbl :=
  map (fun kv => if (fst kv =? k) && (e_ptr (snd kv) =? e_ptr v)
                 then (fst kv, mkE (e_ptr v) (e_start v) (e_dl v) (e_rt v + 1)) else kv) m.

(* what the exchanges do to the table *)
Inductive envop := Start (k : Z) (e : elem) | End (k : Z).
Definition env_step (m : tbl) (o : envop) : tbl :=
  match o with
  | Start k e => match lookup m k with Some _ => m | None => (k, e) :: m end
  | End k => remove m k
  end.
Definition env_run (ops : list envop) (m : tbl) : tbl := fold_left env_step ops m.

(* the Range callback for the binding (k, v) it was handed *)
Definition callback (c : cfg) (k : Z) (v : elem) (m : tbl) : tbl :=
  if is_expired c v then remove m k
  else if retx_due c v then bump m k v
  else m.

Inductive item :=
| Visit (k : Z) (mid : list envop)  (* Range reaches key k; [mid] runs between the read and the callback *)
| Env (o : envop).                  (* an exchange starts or ends between two iterations / outside a tick *)

Definition step (c : cfg) (m : tbl) (i : item) : tbl :=
  match i with
  | Env o => env_step m o
  | Visit k mid =>
      match lookup m k with
      | None => env_run mid m          (* no binding: Range does not produce the key *)
      | Some v => callback c k v (env_run mid m)
      end
  end.
Definition run (c : cfg) (sch : list item) (m : tbl) : tbl := fold_left (step c) sch m.

(* one undisturbed tick visiting the keys in the order [ord] *)
Definition tick (c : cfg) (ord : list Z) (m : tbl) : tbl := run c (map (fun k => Visit k []) ord) m.

(* the operations of the exchanges alone, in the order of the schedule *)
Definition env_of_item (i : item) : list envop := match i with Visit _ mid => mid | Env o => [o] end.
Definition env_of (sch : list item) : list envop := flat_map env_of_item sch.

(* ================================================================== *)
(* proofs                                                              *)

Lemma lookup_remove_same m k : lookup (remove m k) k = None.
Proof.
  induction m as [|[k' e] r IH]; cbn; [reflexivity|]. destruct (k' =? k) eqn:E; cbn; [exact IH|]. rewrite E. exact IH.
Qed.

Lemma lookup_remove_other m k k' : k' <> k -> lookup (remove m k') k = lookup m k.
Proof.
  intros Hn. induction m as [|[k0 e] r IH]; cbn; [reflexivity|]. destruct (k0 =? k') eqn:E; cbn.
  - apply Z.eqb_eq in E. subst k0. assert (E2 : k' =? k = false) by (apply Z.eqb_neq; exact Hn). rewrite E2. exact IH.
  - destruct (k0 =? k); [reflexivity|exact IH].
Qed.

Lemma has_remove m k k' : has (remove m k') k = has m k && negb (k' =? k).
Proof.
  unfold has. destruct (k' =? k) eqn:E.
  - apply Z.eqb_eq in E. subst. rewrite lookup_remove_same. rewrite andb_false_r. reflexivity.
  - apply Z.eqb_neq in E. rewrite lookup_remove_other by exact E. rewrite andb_true_r. reflexivity.
Qed.

Lemma has_start m k k' e : has (env_step m (Start k' e)) k = has m k || (k' =? k).
Proof.
  unfold has. cbn [env_step]. destruct (lookup m k') as [v|] eqn:L.
  - destruct (k' =? k) eqn:E; [|rewrite orb_false_r; reflexivity].
    apply Z.eqb_eq in E. subst. rewrite L. reflexivity.
  - cbn [lookup]. destruct (k' =? k); [rewrite orb_true_r; reflexivity|rewrite orb_false_r; reflexivity].
Qed.

Lemma has_end m k k' : has (env_step m (End k')) k = has m k && negb (k' =? k).
Proof. cbn [env_step]. apply has_remove. Qed.

Lemma lookup_bump_has m k v k' : has (bump m k v) k' = has m k'.
Proof.
  unfold has, bump. induction m as [|[k0 e0] r IH]; cbn [map lookup fst snd]; [reflexivity|].
  destruct ((k0 =? k) && (e_ptr e0 =? e_ptr v)); cbn [fst lookup]; destruct (k0 =? k'); try reflexivity; exact IH.
Qed.

Lemma lookup_bump_other m k v k' : k <> k' -> lookup (bump m k v) k' = lookup m k'.
Proof.
  intros Hn. unfold bump. induction m as [|[k0 e0] r IH]; cbn [map lookup fst snd]; [reflexivity|].
  destruct (k0 =? k) eqn:E; cbn [andb].
  - apply Z.eqb_eq in E. subst k0. assert (E2 : k =? k' = false) by (apply Z.eqb_neq; exact Hn).
    destruct (e_ptr e0 =? e_ptr v); cbn [fst lookup]; rewrite E2; exact IH.
  - cbn [lookup]. destruct (k0 =? k'); [reflexivity|exact IH].
Qed.

(* the callback never adds a key *)
Lemma has_callback c k v m k' : has (callback c k v m) k' = true -> has m k' = true.
Proof.
  unfold callback. destruct (is_expired c v).
  - rewrite has_remove. intros H. apply andb_true_iff in H. apply H.
  - destruct (retx_due c v); [rewrite lookup_bump_has|]; auto.
Qed.

Lemma callback_other c k v m k' : k <> k' -> lookup (callback c k v m) k' = lookup m k'.
Proof.
  intros Hn. unfold callback. destruct (is_expired c v); [apply lookup_remove_other; exact Hn|].
  destruct (retx_due c v); [apply lookup_bump_other; exact Hn|reflexivity].
Qed.

(* ---- 1. whatever the interleaving, the tick adds nothing to the table ---- *)

Definition sub (m m' : tbl) : Prop := forall k, has m k = true -> has m' k = true.

Lemma env_step_mono m m' o : sub m m' -> sub (env_step m o) (env_step m' o).
Proof.
  intros H k. destruct o as [k' e|k'].
  - rewrite !has_start. intros Hk. apply orb_true_iff in Hk. apply orb_true_iff. destruct Hk as [Hk|Hk]; [left; apply H; exact Hk|right; exact Hk].
  - rewrite !has_end. intros Hk. apply andb_true_iff in Hk. apply andb_true_iff. split; [apply H|]; apply Hk.
Qed.

Lemma env_run_mono ops : forall m m', sub m m' -> sub (env_run ops m) (env_run ops m').
Proof. induction ops as [|o r IH]; intros m m' H; [exact H|]. cbn [env_run fold_left]. apply IH. apply env_step_mono. exact H. Qed.

Lemma env_run_app a b m : env_run (a ++ b) m = env_run b (env_run a m).
Proof. unfold env_run. apply fold_left_app. Qed.

Lemma step_sub c i m m' : sub m m' -> sub (step c m i) (env_run (env_of_item i) m').
Proof.
  intros H. destruct i as [k mid|o]; cbn [step env_of_item].
  - destruct (lookup m k) as [v|]; [|apply env_run_mono; exact H].
    intros k' Hk. apply has_callback in Hk. revert k' Hk. apply env_run_mono. exact H.
  - cbn [env_run fold_left]. apply env_step_mono. exact H.
Qed.

Lemma run_sub c sch : forall m m', sub m m' -> sub (run c sch m) (env_run (env_of sch) m').
Proof.
  induction sch as [|i r IH]; intros m m' H; [exact H|]. cbn [run fold_left env_of flat_map].
  rewrite env_run_app. apply IH. apply step_sub. exact H.
Qed.

(* Every schedule: a message ID the table holds after ticks interleaved with the exchanges is one
   the exchanges' own operations alone would have left there.  The tick creates no binding. *)
Theorem tick_adds_nothing : forall c sch m k, has (run c sch m) k = true -> has (env_run (env_of sch) m) k = true.
Proof. intros c sch m k. apply run_sub. intros k' H. exact H. Qed.

(* a key the exchanges leave behind was stored by a Start that no End on that key follows *)
Lemma key_from_start : forall tr m k, has (env_run tr m) k = true ->
  (has m k = true /\ ~ In (End k) tr) \/
  (exists tr1 e tr2, tr = tr1 ++ Start k e :: tr2 /\ ~ In (End k) tr2).
Proof.
  induction tr as [|o r IH]; intros m k H; [left; split; [exact H|intros []]|].
  cbn [env_run fold_left] in H. destruct (IH (env_step m o) k H) as [[H1 H2]|(tr1 & e & tr2 & E & H2)].
  - destruct o as [k' e|k'].
    + rewrite has_start in H1. apply orb_true_iff in H1. destruct H1 as [H1|H1].
      * left. split; [exact H1|]. intros [Hc|Hc]; [discriminate|exact (H2 Hc)].
      * apply Z.eqb_eq in H1. subst k'. right. exists [], e, r. split; [reflexivity|exact H2].
    + rewrite has_end in H1. apply andb_true_iff in H1. destruct H1 as [H1 H3]. left. split; [exact H1|].
      intros [Hc|Hc]; [inversion Hc; subst; rewrite Z.eqb_refl in H3; discriminate|exact (H2 Hc)].
  - right. exists (o :: tr1), e, tr2. split; [rewrite E; reflexivity|exact H2].
Qed.

Lemma no_keys_empty (m : tbl) : (forall k, has m k = false) -> m = [].
Proof.
  destruct m as [|[k e] r]; [reflexivity|]. intros H. specialize (H k). unfold has in H. cbn in H. rewrite Z.eqb_refl in H. discriminate.
Qed.

(* Every schedule of housekeeping ticks interleaved with the exchanges (ticks that have fetched an
   entry when its exchange ends, message IDs that are reused meanwhile, ...): when every exchange
   that registered a message-ID continuation has ended, the table is EMPTY -- nothing is left for
   them, and nothing is left in their place. *)
Theorem all_ended_empty : forall c sch,
  (forall k e tr1 tr2, env_of sch = tr1 ++ Start k e :: tr2 -> In (End k) tr2) ->
  run c sch [] = [].
Proof.
  intros c sch H. apply no_keys_empty. intros k. destruct (has (run c sch []) k) eqn:E; [|reflexivity].
  apply tick_adds_nothing in E. apply key_from_start in E. destruct E as [[E _]|(tr1 & e & tr2 & E & Hn)].
  - discriminate.
  - exfalso. apply Hn. apply (H k e tr1 tr2 E).
Qed.

(* ---- 2. an expired entry the tick has fetched is gone, however its exchange ends meanwhile ---- *)

Definition no_start (k : Z) (o : envop) : Prop := match o with Start k' _ => k' <> k | End _ => True end.
Definition item_no_start (k : Z) (i : item) : Prop :=
  match i with Visit _ mid => Forall (no_start k) mid | Env o => no_start k o end.

Lemma env_step_absent k m o : no_start k o -> has m k = false -> has (env_step m o) k = false.
Proof.
  destruct o as [k' e|k']; cbn [no_start]; intros Hn H.
  - rewrite has_start, H. apply Z.eqb_neq. exact Hn.
  - rewrite has_end, H. reflexivity.
Qed.

Lemma env_run_absent k ops : forall m, Forall (no_start k) ops -> has m k = false -> has (env_run ops m) k = false.
Proof.
  induction ops as [|o r IH]; intros m H Hk; [exact Hk|]. inversion H; subst. cbn [env_run fold_left].
  apply IH; [assumption|]. apply env_step_absent; assumption.
Qed.

Lemma step_absent c k m i : item_no_start k i -> has m k = false -> has (step c m i) k = false.
Proof.
  destruct i as [k' mid|o]; cbn [step item_no_start]; intros Hn H.
  - assert (H' : has (env_run mid m) k = false) by (apply env_run_absent; assumption).
    destruct (lookup m k'); [|exact H'].
    destruct (has (callback c k' e (env_run mid m)) k) eqn:E; [|reflexivity]. apply has_callback in E. congruence.
  - apply env_step_absent; assumption.
Qed.

Lemma run_absent c k sch : forall m, Forall (item_no_start k) sch -> has m k = false -> has (run c sch m) k = false.
Proof.
  induction sch as [|i r IH]; intros m H Hk; [exact Hk|]. inversion H; subst. cbn [run fold_left].
  apply IH; [assumption|]. apply step_absent; assumption.
Qed.

(* Every schedule: once Range has handed the tick an entry that is expired at [now], and no new exchange
   takes its message ID from that read on, the message ID holds nothing at the end of the pass --
   whether the entry is still there when the callback runs, or its exchange has ended meanwhile. *)
Theorem expired_fetched_gone : forall c pre k mid post m v,
  lookup (run c pre m) k = Some v -> is_expired c v = true ->
  Forall (no_start k) mid -> Forall (item_no_start k) post ->
  has (run c (pre ++ Visit k mid :: post) m) k = false.
Proof.
  intros c pre k mid post m v L Ex Hm Hp. unfold run. rewrite fold_left_app. cbn [fold_left].
  apply run_absent; [exact Hp|]. fold (run c pre m). cbn [step]. rewrite L. unfold callback. rewrite Ex.
  rewrite has_remove, Z.eqb_refl. apply andb_false_r.
Qed.

(* ---- 3. the undisturbed tick ---- *)

Lemma tick_other c k : forall ord m, ~ In k ord -> lookup (tick c ord m) k = lookup m k.
Proof.
  unfold tick, run. induction ord as [|k' r IH]; intros m Hn; [reflexivity|]. cbn [map fold_left step env_run].
  rewrite IH by (intros H; apply Hn; right; exact H).
  assert (Hne : k' <> k) by (intros ->; apply Hn; left; reflexivity).
  destruct (lookup m k'); [apply callback_other; exact Hne|reflexivity].
Qed.

(* no entry that is expired when the tick starts survives a pass that reaches its key *)
Theorem tick_removes_expired : forall c ord m k v,
  lookup m k = Some v -> is_expired c v = true -> In k ord -> has (tick c ord m) k = false.
Proof.
  intros c ord m k v L Ex Hin.
  assert (Hs : exists o1 o2, ord = o1 ++ k :: o2 /\ ~ In k o1).
  { clear L Ex. induction ord as [|a r IH]; [destruct Hin|]. destruct (Z.eq_dec a k) as [->|Hne].
    - exists [], r. split; [reflexivity|intros []].
    - destruct Hin as [->|Hin]; [congruence|]. destruct (IH Hin) as (o1 & o2 & -> & Hn). exists (a :: o1), o2. split; [reflexivity|].
      intros [H|H]; [congruence|exact (Hn H)]. }
  destruct Hs as (o1 & o2 & -> & Hn1). unfold tick. rewrite map_app. cbn [map].
  apply (expired_fetched_gone c _ k [] _ m v); [|exact Ex|constructor|].
  - fold (tick c o1 m). rewrite tick_other by exact Hn1. exact L.
  - apply Forall_forall. intros i Hi. apply in_map_iff in Hi. destruct Hi as (x & <- & _). cbn. constructor.
Qed.

(* ... and a pass that reaches every key once keeps every entry that is not expired *)
Theorem tick_keeps_unexpired : forall c ord m k v,
  lookup m k = Some v -> is_expired c v = false -> NoDup ord -> has (tick c ord m) k = true.
Proof.
  intros c ord. induction ord as [|a r IH]; intros m k v L Ex ND; [unfold tick, run, has; cbn; rewrite L; reflexivity|].
  inversion ND as [|? ? Hn ND']; subst. destruct (Z.eq_dec a k) as [->|Hne].
  - change (tick c (k :: r) m) with (tick c r (step c m (Visit k []))). unfold has. rewrite tick_other by exact Hn.
    cbn [step env_run fold_left]. rewrite L. unfold callback. rewrite Ex.
    fold (has (if retx_due c v then bump m k v else m) k). destruct (retx_due c v); [rewrite lookup_bump_has|]; unfold has; rewrite L; reflexivity.
  - change (tick c (a :: r) m) with (tick c r (step c m (Visit a []))). apply (IH _ k v); [|exact Ex|exact ND'].
    cbn [step env_run fold_left]. destruct (lookup m a); [rewrite callback_other by exact Hne|]; exact L.
Qed.
