(* Conn/Proofs.v -- C13: quiescent => empty, per component and for the product. *)
From Coq Require Import ZArith NArith List Bool Lia.
From GoCoap Require Import Base.Bytes Conn.MutexMap Conn.Model Conn.Spec.
From GoCoap Require Dedup.Proofs Retx.Proofs Limiter.Proofs Blockwise.Proofs Blockwise.Config.
Import ListNotations.
Open Scope Z_scope.

Module DP := GoCoap.Dedup.Proofs.
Module RP := GoCoap.Retx.Proofs.
Module LP := GoCoap.Limiter.Proofs.
Module BP := GoCoap.Blockwise.Proofs.
Module BC := GoCoap.Blockwise.Config.

(* ================================================================== *)
(* 1. response cache (Dedup): gone after the exchange lifetime          *)

Definition d_quiet (e : D.ev) : Prop :=
  match e with D.Req _ _ _ _ _ _ => False | D.Age ms => 0 <= ms | D.Tick => True
             | D.Drop _ _ | D.Ping _ | D.Send _ _ _ _ _ => True (* never touch the response cache *) end.

Definition left_le (B : Z) (c : list (Z * D.entry)) : Prop := Forall (fun '(_, en) => D.e_left en <= B) c.

Lemma d_quiet_step s e B : d_quiet e -> left_le B (D.cache s) -> left_le (B - DP.age_of e) (D.cache (fst (D.step s e))).
Proof.
  intros Hq Hb. destruct e as [typ mid tok code ro b | ms | | typ mid | mid | typ tok code o p]; cbn [d_quiet DP.age_of] in *;
    [contradiction| | |replace (B - 0) with B by lia; exact Hb..].
  - cbn [D.step fst D.cache]. unfold left_le in *.
    induction Hb as [|[k0 e0] c H _ IH]; cbn [map]; constructor; [cbn [D.e_left]; lia|exact IH].
  - cbn [D.step fst D.cache]. unfold left_le in *. replace (B - 0) with B by lia.
    induction Hb as [|[k0 e0] c H _ IH]; cbn [filter]; [constructor|].
    destruct (negb (D.expired e0)); [constructor; assumption|exact IH].
Qed.

Lemma d_quiet_run evs : forall s B, Forall d_quiet evs -> left_le B (D.cache s) ->
  left_le (B - DP.total_age evs) (D.cache (DP.final s evs)).
Proof.
  induction evs as [|e evs IH]; intros s B Hq Hb; cbn [DP.total_age].
  - replace (B - 0) with B by lia. exact Hb.
  - inversion Hq; subst. rewrite DP.final_cons.
    replace (B - (DP.age_of e + DP.total_age evs)) with (B - DP.age_of e - DP.total_age evs) by lia.
    apply IH; [assumption|]. apply d_quiet_step; assumption.
Qed.

Lemma tick_clears c : left_le (-1) c -> filter (fun '(_, en) => negb (D.expired en)) c = [].
Proof.
  unfold left_le. induction 1 as [|[k0 e0] c H _ IH]; cbn [filter]; [reflexivity|].
  unfold D.expired. destruct (D.e_left e0 <? 0) eqn:E; cbn [negb]; [exact IH|]. apply Z.ltb_ge in E. lia.
Qed.

Lemma left_le_weaken B B' c : B <= B' -> left_le B c -> left_le B' c.
Proof. unfold left_le. intros HB H. induction H as [|[k0 e0] c H _ IH]; constructor; [lia|exact IH]. Qed.

(* from EVERY reachable state: once more than LIFETIME has passed without a new request, the next
   housekeeping tick leaves the response cache empty *)
Theorem cache_expires : forall own0 pre quiet,
  DP.ages_ok pre -> Forall d_quiet quiet -> D.LIFETIME < DP.total_age quiet ->
  D.cache (DP.final (DP.final (DP.final (D.init own0) pre) quiet) [D.Tick]) = [].
Proof.
  intros own0 pre quiet Hp Hq Hage.
  set (s := DP.final (D.init own0) pre).
  assert (Hab : DP.all_bounded (D.cache s)) by (apply DP.run_all_bounded; [constructor|exact Hp]).
  pose proof (d_quiet_run quiet s D.LIFETIME Hq Hab) as Hb.
  rewrite DP.final_cons, DP.final_nil. cbn [D.step fst D.cache].
  apply tick_clears. eapply left_le_weaken; [|exact Hb]. lia.
Qed.

(* the same for an arbitrary state whose entries respect the lifetime (used by the composition) *)
Lemma cache_expires_from s d : DP.all_bounded (D.cache s) -> D.LIFETIME < d ->
  D.cache (fst (D.step (fst (D.step s (D.Age d))) D.Tick)) = [].
Proof.
  intros Hab Hd.
  pose proof (d_quiet_step s (D.Age d) D.LIFETIME ltac:(cbn; pose proof DP.lifetime_nonneg; lia) Hab) as Hb. cbn [DP.age_of] in Hb.
  cbn [D.step fst D.cache] in *. apply tick_clears. eapply left_le_weaken; [|exact Hb]. lia.
Qed.

(* ================================================================== *)
(* 2. pending confirmables (Retx)                                       *)

(* every pending entry belongs to a request that is still waiting for its acknowledgement *)
Definition pend_owned (s : R.st) : Prop :=
  forall p, In p (R.pending s) -> exists q, In q (R.reqs s) /\ R.q_id q = R.p_id p /\ R.is_wait_ack (R.q_st q) = true.

Lemma in_set_status_inv l id f q : In q (R.set_status l id f) ->
  exists q0, In q0 l /\ q = (if R.q_id q0 =? id then f q0 else q0).
Proof. unfold R.set_status. intros H. apply in_map_iff in H. destruct H as (q0 & <- & Hin). eauto. Qed.

Lemma in_set_status_fwd l id f q : In q l -> In (if R.q_id q =? id then f q else q) (R.set_status l id f).
Proof. intros H. unfold R.set_status. apply in_map_iff. eauto. Qed.

Lemma pend_owned_admit c : forall fuel s acc, pend_owned s -> pend_owned (fst (R.admit_waiters fuel c s acc)).
Proof.
  induction fuel as [|f IH]; intros s acc H; cbn [R.admit_waiters]; [exact H|].
  destruct (R.held s <? R.nstart c); [|exact H].
  destruct (R.first_waiting (R.reqs s)) as [q|] eqn:Ef; [|exact H].
  apply IH. destruct (RP.first_waiting_in _ _ Ef) as [Hin Hw].
  intros p Hp. cbn [R.pending R.reqs] in *. apply in_app_or in Hp. destruct Hp as [Hp|[<-|[]]].
  - destruct (H p Hp) as (q1 & Hq1 & Hid & Hst).
    exists (if R.q_id q1 =? R.q_id q then R.with_st q1 R.WaitAck else q1). split; [exact (in_set_status_fwd _ (R.q_id q) (fun x => R.with_st x R.WaitAck) q1 Hq1)|].
    destruct (R.q_id q1 =? R.q_id q); cbn; auto.
  - exists (R.with_st q R.WaitAck). split.
    + pose proof (in_set_status_fwd _ (R.q_id q) (fun x => R.with_st x R.WaitAck) q Hin) as HI. rewrite Z.eqb_refl in HI. exact HI.
    + cbn. auto.
Qed.

Lemma settle_list_keeps_ack l : forall q, In q l -> R.is_wait_ack (R.q_st q) = true -> In q (fst (R.settle_list l)).
Proof.
  induction l as [|a r IH]; intros q Hin Hst; [contradiction|].
  cbn [R.settle_list]. destruct (R.settle_rq a) as [a' ra] eqn:Ea. destruct (R.settle_list r) as [r' rb] eqn:Er. cbn [fst].
  destruct Hin as [<-|Hin].
  - left. unfold R.settle_rq in Ea. destruct (R.q_st a); try discriminate; inversion Ea; auto.
  - right. specialize (IH q Hin Hst). try rewrite Er in IH. exact IH.
Qed.

Lemma pend_owned_settle s : pend_owned s -> pend_owned (fst (R.settle s)).
Proof.
  intros H. unfold R.settle. destruct (R.settle_list (R.reqs s)) as [l ret] eqn:E. cbn [fst].
  intros p Hp. cbn [R.pending R.reqs] in *. destruct (H p Hp) as (q & Hq & Hid & Hst).
  exists q. split; [|auto]. pose proof (settle_list_keeps_ack _ q Hq Hst) as HK. rewrite E in HK. exact HK.
Qed.

Lemma in_del_pend l id p : In p (R.del_pend l id) -> In p l /\ R.p_id p <> id.
Proof.
  unfold R.del_pend. intros H. apply filter_In in H. destruct H as [H1 H2]. split; [exact H1|].
  apply negb_true_iff in H2. apply Z.eqb_neq in H2. exact H2.
Qed.

Lemma pend_owned_wake s id : pend_owned s -> pend_owned (R.wake s id).
Proof.
  intros H. unfold R.wake. destruct (R.has_pend (R.pending s) id); [|exact H].
  intros p Hp. cbn [R.pending R.reqs] in *. apply in_del_pend in Hp. destruct Hp as [Hp Hne].
  destruct (H p Hp) as (q & Hq & Hid & Hst). exists q. split; [|auto].
  pose proof (in_set_status_fwd _ id (fun q0 => if R.is_wait_ack (R.q_st q0) then R.with_st q0 R.WaitResp else q0) q Hq) as HI.
  assert (E : R.q_id q =? id = false) by (apply Z.eqb_neq; congruence). rewrite E in HI. exact HI.
Qed.

Lemma pend_owned_deliver s id code : pend_owned s -> pend_owned (R.deliver s id code).
Proof.
  intros H p Hp. cbn [R.deliver R.pending R.reqs] in *. destruct (H p Hp) as (q & Hq & Hid & Hst).
  set (f := fun q0 => if R.is_done (R.q_st q0) then q0 else match R.q_buf q0 with Some _ => q0 | None => R.with_buf q0 code end).
  exists (if R.q_id q =? id then f q else q). split; [exact (in_set_status_fwd _ id f q Hq)|].
  destruct (R.q_id q =? id); [|auto]. unfold f. destruct (R.is_done (R.q_st q)); [auto|]. destruct (R.q_buf q); cbn; auto.
Qed.

Lemma tick_all_in c : forall l p', In p' (fst (R.tick_all c l)) -> exists p b, In p l /\ R.tick_entry c p = (Some p', b).
Proof.
  induction l as [|p r IH]; intros p' H; cbn [R.tick_all] in H; [contradiction|].
  destruct (R.tick_all c r) as [r' e'] eqn:Er. destruct (R.tick_entry c p) as [[p1|] b] eqn:Et.
  - destruct b; cbn [fst] in H; (destruct H as [<-|H]; [exists p; eexists; split; [left; reflexivity|exact Et]|]);
      destruct (IH p' H) as (p0 & b0 & Hin & He); exists p0, b0; split; auto; right; exact Hin.
  - cbn [fst] in H. destruct (IH p' H) as (p0 & b0 & Hin & He). exists p0, b0. split; auto. right. exact Hin.
Qed.

Lemma pend_owned_step c s e : pend_owned s -> pend_owned (fst (R.step c s e)).
Proof.
  intros H. destruct e as [id tok dl | ms | | id | id | id code | id code pmid | id]; cbn [R.step].
  - (* Send *)
    match goal with |- context [R.admit_all c ?s1] => set (s1' := s1) end.
    assert (H1 : pend_owned s1').
    { intros p Hp. cbn [R.pending R.reqs] in *. destruct (H p Hp) as (q & Hq & Hr). exists q. split; [apply in_or_app; left; exact Hq|exact Hr]. }
    pose proof (pend_owned_admit c (S (length (R.reqs s1'))) s1' [] H1) as H2. unfold R.admit_all.
    destruct (R.admit_waiters (S (length (R.reqs s1'))) c s1' []) as [s2 em]. exact H2.
  - (* Age *)
    cbn [fst]. intros p Hp. cbn [R.pending R.reqs] in *. apply in_map_iff in Hp. destruct Hp as (p0 & <- & Hp0).
    cbn [R.p_id]. exact (H p0 Hp0).
  - (* Tick *)
    destruct (R.tick_all c (R.pending s)) as [l em] eqn:Et. cbn [fst]. intros p Hp. cbn [R.pending R.reqs] in *.
    pose proof (tick_all_in c (R.pending s) p) as HT. rewrite Et in HT. destruct (HT Hp) as (p0 & b & Hin & He).
    destruct (RP.tick_entry_keep c p0 p b He) as [Hid _]. rewrite Hid. exact (H p0 Hin).
  - (* Ack *)
    pose proof (pend_owned_settle _ (pend_owned_wake s id H)) as H2.
    destruct (R.settle (R.wake s id)) as [s2 ret]. cbn [fst] in H2.
    pose proof (pend_owned_admit c (S (length (R.reqs s2))) s2 [] H2) as H3. unfold R.admit_all.
    destruct (R.admit_waiters (S (length (R.reqs s2))) c s2 []) as [s3 em]. exact H3.
  - (* Rst *)
    pose proof (pend_owned_settle _ (pend_owned_wake s id H)) as H2.
    destruct (R.settle (R.wake s id)) as [s2 ret]. cbn [fst] in H2.
    pose proof (pend_owned_admit c (S (length (R.reqs s2))) s2 [] H2) as H3. unfold R.admit_all.
    destruct (R.admit_waiters (S (length (R.reqs s2))) c s2 []) as [s3 em]. exact H3.
  - (* Piggy *)
    pose proof (pend_owned_settle _ (pend_owned_deliver _ id code (pend_owned_wake s id H))) as H2.
    destruct (R.settle (R.deliver (R.wake s id) id code)) as [s2 ret]. cbn [fst] in H2.
    pose proof (pend_owned_admit c (S (length (R.reqs s2))) s2 [] H2) as H3. unfold R.admit_all.
    destruct (R.admit_waiters (S (length (R.reqs s2))) c s2 []) as [s3 em]. exact H3.
  - (* Sep *)
    pose proof (pend_owned_settle _ (pend_owned_deliver _ id code H)) as H2.
    destruct (R.settle (R.deliver s id code)) as [s2 ret]. exact H2.
  - (* Cancel *)
    destruct (R.find_rq (R.reqs s) id) as [q|]; [|exact H].
    destruct (R.is_done (R.q_st q)); [exact H|].
    match goal with |- context [R.admit_all c ?s1] => set (s1' := s1) end.
    assert (H1 : pend_owned s1').
    { intros p Hp. cbn [R.pending R.reqs] in *. apply in_del_pend in Hp. destruct Hp as [Hp Hne].
      destruct (H p Hp) as (q1 & Hq1 & Hid & Hst). exists q1. split; [|auto].
      pose proof (in_set_status_fwd _ id (fun x => R.with_st x (R.Done 1)) q1 Hq1) as HI.
      assert (E : R.q_id q1 =? id = false) by (apply Z.eqb_neq; congruence). rewrite E in HI. exact HI. }
    pose proof (pend_owned_admit c (S (length (R.reqs s1'))) s1' [] H1) as H2. unfold R.admit_all.
    destruct (R.admit_waiters (S (length (R.reqs s1'))) c s1' []) as [s2 em]. exact H2.
Qed.

Lemma pend_owned_run c evs : forall s, pend_owned s -> pend_owned (RP.final c s evs).
Proof.
  induction evs as [|e evs IH]; intros s H; [exact H|]. rewrite RP.final_cons. apply IH. apply pend_owned_step. exact H.
Qed.

Definition all_returned (s : R.st) : Prop := forall q, In q (R.reqs s) -> R.is_done (R.q_st q) = true.

(* when every call has returned, the pending table is empty -- for every history *)
Theorem pending_empty : forall c evs,
  let s := RP.final c R.init evs in all_returned s -> R.pending s = [].
Proof.
  intros c evs s Hd. assert (H : pend_owned s) by (apply pend_owned_run; intros p []).
  destruct (R.pending s) as [|p r] eqn:E; [reflexivity|].
  destruct (H p ltac:(rewrite E; left; reflexivity)) as (q & Hq & _ & Hst). specialize (Hd q Hq).
  destruct (R.q_st q); discriminate.
Qed.

(* an entry whose retransmissions are exhausted or whose deadline has passed does not survive a tick *)
Definition p_expired (c : R.cfg) (p : R.pend) : Prop :=
  (exists d, R.p_dl p = Some d /\ d < 0) \/ R.max_rt c <= R.p_count p.

Lemma tick_entry_expired c p : p_expired c p -> R.tick_entry c p = (None, false).
Proof.
  intros [(d & Hd & Hlt)|Hc]; unfold R.tick_entry.
  - rewrite Hd. assert (E : d <? 0 = true) by (apply Z.ltb_lt; exact Hlt). rewrite E. reflexivity.
  - assert (E : R.p_count p >=? R.max_rt c = true) by (apply Z.geb_le; exact Hc). rewrite E. rewrite orb_true_r. reflexivity.
Qed.

Theorem tick_removes_expired : forall c s p',
  In p' (R.pending (fst (R.step c s R.Tick))) ->
  exists p b, In p (R.pending s) /\ ~ p_expired c p /\ R.tick_entry c p = (Some p', b).
Proof.
  intros c s p' H. cbn [R.step] in H. destruct (R.tick_all c (R.pending s)) as [l em] eqn:Et. cbn [fst R.pending] in H.
  pose proof (tick_all_in c (R.pending s) p') as HT. rewrite Et in HT. destruct (HT H) as (p & b & Hin & He).
  exists p, b. repeat split; auto. intros Hx. rewrite (tick_entry_expired c p Hx) in He. discriminate.
Qed.

(* entries without a caller (AsyncPing) and without a deadline: once ACK_TIMEOUT*(MAX_RETRANSMIT+1)
   has passed, every tick either removes an entry or counts one more retransmission, so
   MAX_RETRANSMIT+1 ticks empty the list *)
Definition ripe (c : R.cfg) (k : Z) (p : R.pend) : Prop :=
  k <= R.p_count p /\ R.ack_ms c * (R.max_rt c + 1) < R.p_elapsed p.

Lemma tick_all_ripe c k : 0 <= R.ack_ms c -> forall l, Forall (ripe c k) l -> Forall (ripe c (k + 1)) (fst (R.tick_all c l)).
Proof.
  intros Hack. induction l as [|p r IH]; intros H; cbn [R.tick_all]; [constructor|].
  inversion H as [|? ? [Hk He] Hr]; subst. specialize (IH Hr).
  destruct (R.tick_all c r) as [r' e']. cbn [fst] in IH.
  unfold R.tick_entry.
  destruct ((match R.p_dl p with Some d => d <? 0 | None => false end) || (R.p_count p >=? R.max_rt c)) eqn:Ex; [exact IH|].
  apply orb_false_iff in Ex. destruct Ex as [_ Ec].
  assert (Hc : R.p_count p < R.max_rt c) by (destruct (R.p_count p >=? R.max_rt c) eqn:E; [discriminate|]; rewrite Z.geb_leb in E; apply Z.leb_gt in E; lia).
  assert (Hlt : R.ack_ms c * (R.p_count p + 1) <? R.p_elapsed p = true) by (apply Z.ltb_lt; nia).
  rewrite Hlt. cbn [fst]. constructor; [|exact IH]. split; cbn [R.p_count R.p_elapsed]; [lia|exact He].
Qed.

Fixpoint ticks (c : R.cfg) (n : nat) (l : list R.pend) : list R.pend :=
  match n with O => l | S n' => ticks c n' (fst (R.tick_all c l)) end.

Lemma ticks_ripe c : 0 <= R.ack_ms c -> forall n k l, Forall (ripe c k) l -> Forall (ripe c (k + Z.of_nat n)) (ticks c n l).
Proof.
  intros Hack. induction n as [|n IH]; intros k l H; cbn [ticks].
  - replace (k + Z.of_nat 0) with k by lia. exact H.
  - replace (k + Z.of_nat (S n)) with (k + 1 + Z.of_nat n) by lia. apply IH. apply tick_all_ripe; assumption.
Qed.

Lemma ripe_all_gone c l : Forall (ripe c (R.max_rt c)) l -> fst (R.tick_all c l) = [].
Proof.
  induction l as [|p r IH]; intros H; cbn [R.tick_all]; [reflexivity|].
  inversion H as [|? ? [Hk He] Hr]; subst. specialize (IH Hr). destruct (R.tick_all c r) as [r' e']. cbn [fst] in IH. subst r'.
  rewrite (tick_entry_expired c p); [reflexivity|]. right. exact Hk.
Qed.

Theorem pending_exhausts : forall c l, 0 <= R.ack_ms c -> 0 <= R.max_rt c ->
  Forall (fun p => 0 <= R.p_count p /\ R.ack_ms c * (R.max_rt c + 1) < R.p_elapsed p) l ->
  ticks c (S (Z.to_nat (R.max_rt c))) l = [].
Proof.
  intros c l Hack Hm H.
  assert (H0 : Forall (ripe c 0) l) by (eapply Forall_impl; [|exact H]; intros p [? ?]; split; assumption).
  pose proof (ticks_ripe c Hack (Z.to_nat (R.max_rt c)) 0 l H0) as HR.
  rewrite Z2Nat.id in HR by exact Hm. cbn [Z.add] in HR.
  assert (forall n l0, ticks c (S n) l0 = fst (R.tick_all c (ticks c n l0))) as Hs.
  { induction n as [|n IHn]; intros l0; [reflexivity|]. cbn [ticks] in *. rewrite <- IHn. reflexivity. }
  rewrite Hs. apply ripe_all_gone. exact HR.
Qed.

(* ---- 2b. the pending table under transport faults: the outcome of session.WriteMessage for a
   retransmitted copy has no influence on the table ---- *)

Lemma tick_all_w_tbl c w : forall l, tick_w_tbl c w l = fst (R.tick_all c l).
Proof.
  unfold tick_w_tbl. induction l as [|p r IH]; [reflexivity|]. cbn [tick_all_w R.tick_all].
  destruct (tick_all_w c w r) as [[r' e'] n']. destruct (R.tick_all c r) as [r2 e2]. cbn [fst] in IH. subst r2.
  destruct (R.tick_entry c p) as [[p'|] [|]]; cbn [fst]; try reflexivity. destruct (w (R.p_id p')); reflexivity.
Qed.

(* the copies that reach the wire are the model's retransmissions whose write did not fail, and one
   error is reported per failed write *)
Definition wire_ok (w : Z -> bool) (e : R.emit) : bool := match e with R.Copy id => negb (w id) | R.BareAck _ => true end.

Lemma tick_all_w_wire c w : forall l,
  snd (fst (tick_all_w c w l)) = filter (wire_ok w) (snd (R.tick_all c l)) /\
  snd (tick_all_w c w l) = blen (filter (fun e => negb (wire_ok w e)) (snd (R.tick_all c l))).
Proof.
  induction l as [|p r [IH1 IH2]]; [split; reflexivity|]. cbn [tick_all_w R.tick_all].
  destruct (tick_all_w c w r) as [[r' e'] n']. destruct (R.tick_all c r) as [r2 e2]. cbn [fst snd] in IH1, IH2. subst e' n'.
  destruct (R.tick_entry c p) as [[p'|] [|]]; cbn [fst snd]; try (split; reflexivity).
  cbn [filter wire_ok]. destruct (w (R.p_id p')); cbn [fst snd negb]; split; try reflexivity.
  unfold blen. cbn [length]. lia.
Qed.

Corollary tick_all_w_no_fault c l : fst (tick_all_w c (fun _ => false) l) = R.tick_all c l.
Proof.
  pose proof (tick_all_w_tbl c (fun _ => false) l) as H1. destruct (tick_all_w_wire c (fun _ => false) l) as [H2 _].
  unfold tick_w_tbl in H1. destruct (tick_all_w c (fun _ => false) l) as [[a b] n]. destruct (R.tick_all c l) as [a2 b2]. cbn [fst snd] in *. subst.
  f_equal. induction b2 as [|e r IH]; [reflexivity|]. cbn [filter]. destruct e; cbn [wire_ok negb]; f_equal; exact IH.
Qed.

Fixpoint ticks_w (c : R.cfg) (ws : list (Z -> bool)) (l : list R.pend) : list R.pend :=
  match ws with [] => l | w :: r => ticks_w c r (tick_w_tbl c w l) end.

Lemma ticks_w_ticks c : forall ws l, ticks_w c ws l = ticks c (length ws) l.
Proof. induction ws as [|w r IH]; intros l; [reflexivity|]. cbn [ticks_w ticks length]. rewrite tick_all_w_tbl. apply IH. Qed.

(* ... so entries without caller and deadline are exhausted by MAX_RETRANSMIT+1 ticks whatever the
   transport does to the retransmitted copies *)
Theorem pending_exhausts_faults : forall c ws l, 0 <= R.ack_ms c -> 0 <= R.max_rt c ->
  length ws = S (Z.to_nat (R.max_rt c)) ->
  Forall (fun p => 0 <= R.p_count p /\ R.ack_ms c * (R.max_rt c + 1) < R.p_elapsed p) l ->
  ticks_w c ws l = [].
Proof. intros c ws l Hack Hm Hl H. rewrite ticks_w_ticks, Hl. apply pending_exhausts; assumption. Qed.

(* ================================================================== *)
(* 3. token continuations: every exit path of doInternal removes its entry *)

Definition trun (s : toks) (l : list tact) : toks := fold_left tstep l s.

Definition tok_owned (s : toks) : Prop := forall tok r, In (tok, r) (ttab s) -> tst s r = TWait tok.

Lemma in_tremove l k tok r : In (tok, r) (tremove l k) -> In (tok, r) l /\ tok <> k.
Proof.
  unfold tremove. intros H. apply filter_In in H. destruct H as [H1 H2]. split; [exact H1|].
  cbn [fst] in H2. apply negb_true_iff in H2. apply Z.eqb_neq in H2. exact H2.
Qed.

Lemma tok_owned_step s a : tok_owned s -> tok_owned (tstep s a).
Proof.
  intros H. destruct a as [r tok | tok | r]; cbn [tstep].
  - destruct (tst s r) eqn:Er; try exact H.
    destruct (tassoc (ttab s) tok).
    + intros tok' r' Hin. cbn [ttab tst] in *. unfold tset. destruct (r' =? r) eqn:E.
      * apply Z.eqb_eq in E. subst. rewrite (H tok' r Hin) in Er. discriminate.
      * apply H. exact Hin.
    + intros tok' r' Hin. cbn [ttab tst] in *. unfold tset. destruct Hin as [Heq|Hin].
      * inversion Heq; subst. rewrite Z.eqb_refl. reflexivity.
      * destruct (r' =? r) eqn:E; [|apply H; exact Hin].
        apply Z.eqb_eq in E. subst. rewrite (H tok' r Hin) in Er. discriminate.
  - intros tok' r' Hin. cbn [ttab tst] in *. apply in_tremove in Hin. apply H. apply Hin.
  - destruct (tst s r) eqn:Er; try exact H.
    intros tok' r' Hin. cbn [ttab tst] in *. apply in_tremove in Hin. destruct Hin as [Hin Hne].
    unfold tset. destruct (r' =? r) eqn:E; [|apply H; exact Hin].
    apply Z.eqb_eq in E. subst. rewrite (H tok' r Hin) in Er. inversion Er. congruence.
Qed.

Lemma tok_owned_run l : forall s, tok_owned s -> tok_owned (trun s l).
Proof. induction l as [|a r IH]; intros s H; cbn; [exact H|]. apply IH. apply tok_owned_step. exact H. Qed.

(* for every schedule of registrations, deliveries and returns: an entry of the token table belongs
   to a call that has registered and not yet returned; so when every call has returned the table is
   empty, and a call that has returned owns no entry *)
Theorem tokens_owned : forall l tok r, In (tok, r) (ttab (trun toks0 l)) -> tst (trun toks0 l) r = TWait tok.
Proof. intros l. apply tok_owned_run. intros tok r []. Qed.

Theorem tokens_gone : forall l, (forall r tok, tst (trun toks0 l) r <> TWait tok) -> ttab (trun toks0 l) = [].
Proof.
  intros l H. destruct (ttab (trun toks0 l)) as [|[tok r] rest] eqn:E; [reflexivity|].
  exfalso. apply (H r tok). apply tokens_owned. rewrite E. left. reflexivity.
Qed.

Theorem exit_removes_own_entry : forall l r tok, tst (trun toks0 l) r = TWait tok ->
  forall tok', ~ In (tok', r) (ttab (tstep (trun toks0 l) (TExit r))).
Proof.
  intros l r tok Hst tok' Hin. cbn [tstep] in Hin. rewrite Hst in Hin. cbn [ttab] in Hin.
  apply in_tremove in Hin. destruct Hin as [Hin Hne]. pose proof (tokens_owned l tok' r Hin) as H2. congruence.
Qed.

(* ================================================================== *)
(* 4. block-wise caches (Blockwise.Model): completion, error, expiry   *)

Lemma complete_removes : forall p d e p' e' rets, B.complete p d e = (p', e', rets) ->
  forall i t, In (i, t) p -> existsb (fun m => B.mtok m =? t) d = true -> B.tget (B.sending e') t = None.
Proof.
  induction p as [|[i0 t0] r IH]; intros d e p' e' rets H i t Hin Hex; [contradiction|].
  cbn [B.complete] in H. destruct (existsb (fun m => B.mtok m =? t0) d) eqn:E0.
  - destruct (B.complete r d (B.with_sending e (B.tdel (B.sending e) t0))) as [[p1 e1] r1] eqn:Ec. inversion H; subst.
    destruct Hin as [Heq|Hin].
    + inversion Heq; subst.
      (* later deletions only remove *)
      assert (forall p d e p' e' rets, B.complete p d e = (p', e', rets) -> forall k, B.tget (B.sending e) k = None -> B.tget (B.sending e') k = None) as Hmono.
      { clear. induction p as [|[i0 t0] r IH]; intros d e p' e' rets H k Hk; cbn [B.complete] in H; [inversion H; subst; exact Hk|].
        destruct (existsb (fun m => B.mtok m =? t0) d).
        - destruct (B.complete r d (B.with_sending e (B.tdel (B.sending e) t0))) as [[p1 e1] r1] eqn:Ec. inversion H; subst.
          eapply IH; [exact Ec|]. cbn [B.sending B.with_sending].
          destruct (Z.eq_dec t0 k) as [->|Hne]; [apply BP.tget_tdel_same|rewrite BP.tget_tdel_other by exact Hne; exact Hk].
        - destruct (B.complete r d e) as [[p1 e1] r1] eqn:Ec. inversion H; subst. eapply IH; [exact Ec|exact Hk]. }
      eapply Hmono; [exact Ec|]. cbn [B.sending B.with_sending]. apply BP.tget_tdel_same.
    + eapply IH; [exact Ec|exact Hin|exact Hex].
  - destruct (B.complete r d e) as [[p1 e1] r1] eqn:Ec. inversion H; subst.
    destruct Hin as [Heq|Hin]; [inversion Heq; subst; congruence|]. eapply IH; [exact Ec|exact Hin|exact Hex].
Qed.

(* a Do call that gives up (context done) removes the entry it registered *)
Theorem timeout_removes : forall c w i t,
  find (fun p => Nat.eqb (fst p) i) (B.pending w) = Some (i, t) ->
  B.tget (B.sending (B.wa (fst (B.step c w (BC.Timeout i))))) t = None.
Proof.
  intros c w i t H. cbn [B.step]. rewrite H. cbn [fst B.wa B.with_pending B.with_a B.sending B.with_sending].
  apply BP.tget_tdel_same.
Qed.

(* a Do call that fails at once leaves the sending cache as it found it *)
Theorem do_start_error_neutral : forall e r e', B.do_start e r = (e', None) ->
  forall k, B.tget (B.sending e') k = B.tget (B.sending e) k.
Proof.
  intros e r e' H k. unfold B.do_start in H. destruct (B.tget (B.sending e) (B.mtok r)) eqn:Et.
  - inversion H; subst. reflexivity.
  - destruct (blen (B.mbody r) <=? Block.Model.size (B.eszx e)); [discriminate|].
    destruct (negb (B.is_upload (B.mcode r))); [|discriminate]. inversion H; subst.
    cbn [B.sending B.with_sending]. rewrite Z.eqb_refl. destruct (Z.eq_dec (B.mtok r) k) as [<-|Hne].
    + rewrite BP.tget_tdel_same. symmetry. exact Et.
    + rewrite !BP.tget_tdel_other by exact Hne. reflexivity.
Qed.

(* the expiry sweep with every deadline passed empties both caches of the side *)
Theorem expire_clears : forall c w atB,
  let w' := fst (B.step c w (BC.Expire atB)) in
  if atB then B.sending (B.wb w') = [] /\ B.receiving (B.wb w') = []
  else B.sending (B.wa w') = [] /\ B.receiving (B.wa w') = [].
Proof. intros c w [|]; cbn; split; reflexivity. Qed.

(* ================================================================== *)
(* 5. limiter: reachable states of the composite are states of Limiter.Model *)

Lemma settle_is_run : forall fuel l, exists tr, L.settle_gen true fuel l = L.run l tr.
Proof.
  induction fuel as [|f IH]; intros l; cbn [L.settle_gen]; [exists []; reflexivity|].
  destruct (L.first_enabled l (L.arr l)) as [a|]; [|exists []; reflexivity].
  destruct (IH (L.step_gen true l a)) as [tr Htr]. exists (a :: tr). rewrite Htr. reflexivity.
Qed.

Lemma run_app l t1 t2 : L.run (L.run l t1) t2 = L.run l (t1 ++ t2).
Proof. unfold L.run. rewrite fold_left_app. reflexivity. Qed.

(* every reachable state, every endpoint key: an entry of endpointQueues exists only for calls that
   have NOT returned -- its counter is the number of arrived requests that own a slot of the key
   (at least one, none of them returned), its queue lists exactly the requests still inside
   acquireEndpoint without a slot.  In particular a slot handed to a waiter that has already taken
   <-ctx.Done() (status CancelG) is still counted for that waiter, i.e. it is not lost. *)
Theorem limiter_entries_owned : forall limit epl tr k cnt q,
  let l := L.run (L.new_lim limit epl) tr in
  L.tab l k = Some (cnt, q) ->
  cnt = Z.of_nat (length (LP.selK LP.holds_ep (L.keyof l) (L.st l) (L.arr l) k)) /\ 1 <= cnt /\
  q = LP.selK LP.waits_ep (L.keyof l) (L.st l) (L.arr l) k /\
  (exists r, In r (L.arr l) /\ L.keyof l r = k /\ LP.holds_ep (L.st l r) = true /\ forall e, L.st l r <> L.Done e).
Proof.
  intros limit epl tr k cnt q l Htb.
  pose proof (LP.reach_inv limit epl tr) as HI. fold l in HI. destruct HI as (_ & HE & _).
  destruct (LP.E_entry_queue _ _ _ _ _ _ _ _ HE Htb) as (Hq & Hc & Hc1 & _).
  split; [exact Hc|]. split; [exact Hc1|]. split; [exact Hq|].
  destruct (LP.selK LP.holds_ep (L.keyof l) (L.st l) (L.arr l) k) as [|r rs] eqn:E; [cbn in Hc; lia|].
  assert (Hr : In r (LP.selK LP.holds_ep (L.keyof l) (L.st l) (L.arr l) k)) by (rewrite E; left; reflexivity).
  apply LP.selK_in in Hr. destruct Hr as (Ha & Hk & Hh). exists r. repeat split; try assumption.
  intros e He. rewrite He in Hh. discriminate.
Qed.

(* the cancelled waiter that was handed a slot while it was delayed between the select of
   acquireEndpoint and cancelEndpoint: its two remaining sections return the slot -- to the head of
   the queue if somebody waits, else the counter drops (entry deleted at 0) -- and the call returns *)
Theorem limiter_handover_returned : forall limit epl tr r,
  let l := L.run (L.new_lim limit epl) tr in
  L.st l r = L.CancelG ->
  let l2 := L.step (L.step l (L.CancelSec r)) (L.ReleaseEp r) in
  L.st l2 r = L.Done L.ErrEp /\
  exists cnt q, L.tab l (L.keyof l r) = Some (cnt, q) /\ 1 <= cnt /\ ~ In r q /\
    match q with
    | w :: rest => L.tab l2 (L.keyof l r) = Some (cnt, rest) /\ L.st l2 w = L.grant_ep (L.st l w)
    | [] => L.tab l2 (L.keyof l r) = (if cnt - 1 =? 0 then None else Some (cnt - 1, []))
    end.
Proof.
  intros limit epl tr r l Hs l2.
  destruct (LP.cancel_granted_passes_own_slot limit epl tr r Hs) as (_ & _ & _ & _ & _ & Hd & _ & _ & _ & (cnt & q & Htb & Hc & Hn & Hm) & _).
  split; [exact Hd|]. exists cnt, q. split; [exact Htb|]. split; [exact Hc|]. split; [exact Hn|].
  destruct q as [|w rest]; [exact (proj1 Hm)|]. destruct Hm as (H1 & H2 & _). split; assumption.
Qed.

(* ================================================================== *)
(* 6. per-ID lock map inside the composite: one handler thread, Lock ... Unlock per datagram *)

Lemma inv_all_out_empty s : Inv s -> (forall t x, nth_error (pcs s) t = Some x -> x = Out) -> tab s = [].
Proof.
  intros I H. destruct (tab s) as [|[k e] r] eqn:Ht; auto.
  assert (Hl : lookup (tab s) k = Some e) by (rewrite Ht; cbn; rewrite Z.eqb_refl; reflexivity).
  destruct (i_cnt s I k e Hl) as [_ Hp].
  destruct (count_pos_ex (inside k) (pcs s) Hp) as (t & x & Hn & Hx). rewrite (H t x Hn) in Hx. discriminate.
Qed.

Definition mx_idle (s : mmap) : Prop := Inv s /\ pcs s = [Out; Out].

Lemma step2_false s t k : step2 s (t, k, false) = MutexMap.step s (t, k).
Proof. unfold step2. destruct (nth_error (pcs s) t) as [[]|]; reflexivity. Qed.

Lemma step_out_pcs s t k : nth_error (pcs s) t = Some Out -> exists e, pcs (MutexMap.step s (t, k)) = updl t (Waiting k e) (pcs s).
Proof. intros H. unfold MutexMap.step. rewrite H. destruct (lookup (tab s) k); eexists; reflexivity. Qed.

Lemma step_wait_pcs s t k k' e : Inv s -> nth_error (pcs s) t = Some (Waiting k e) -> count (owns e) (pcs s) = 0 ->
  pcs (MutexMap.step s (t, k')) = updl t (Holding k e) (pcs s).
Proof.
  intros I H Hc. unfold MutexMap.step. rewrite H. rewrite (i_own s I e) in Hc.
  destruct (locked (heap s e)); [cbn in Hc; lia|reflexivity].
Qed.

Lemma step_hold_pcs s t k k' e : Inv s -> nth_error (pcs s) t = Some (Holding k e) ->
  pcs (MutexMap.step s (t, k')) = updl t (Releasing e) (pcs s).
Proof.
  intros I H. unfold MutexMap.step. rewrite H. rewrite (i_ref s I t k e (or_intror H)). reflexivity.
Qed.

Lemma step_rel_pcs s t k' e : Inv s -> nth_error (pcs s) t = Some (Releasing e) ->
  pcs (MutexMap.step s (t, k')) = updl t Out (pcs s).
Proof.
  intros I H. unfold MutexMap.step. rewrite H.
  assert (Ho : owns e (Releasing e) = true) by (cbn; apply Nat.eqb_refl).
  pose proof (count_ex_pos _ _ _ _ H Ho) as Hp. rewrite (i_own s I e) in Hp.
  destruct (locked (heap s e)); [reflexivity|cbn in Hp; lia].
Qed.

(* TryLock on a key nobody holds or waits for succeeds *)
Lemma try_free_pcs s t k : Inv s -> nth_error (pcs s) t = Some Out -> count (inside k) (pcs s) = 0 ->
  exists e, pcs (step2 s (t, k, true)) = updl t (Holding k e) (pcs s).
Proof.
  intros I H Hc. unfold step2. rewrite H. unfold try_step.
  destruct (lookup (tab s) k) as [e|] eqn:Hl; [|eexists; reflexivity].
  destruct (i_cnt s I k e Hl) as [_ Hp]. lia.
Qed.

(* TryLock on a key that is held fails and changes nothing *)
Lemma try_taken_noop s t t0 k e : Inv s -> nth_error (pcs s) t = Some Out -> nth_error (pcs s) t0 = Some (Holding k e) ->
  step2 s (t, k, true) = s.
Proof.
  intros I H H0. unfold step2. rewrite H. apply try_fail_noop. unfold try_ok.
  rewrite (i_ref s I t0 k e (or_intror H0)).
  assert (Ho : owns e (Holding k e) = true) by (cbn; apply Nat.eqb_refl).
  pose proof (count_ex_pos _ _ _ _ H0 Ho) as Hp. rewrite (i_own s I e) in Hp.
  destruct (locked (heap s e)); [reflexivity|cbn in Hp; lia].
Qed.

Lemma all_out2 (l : list pc) : l = [Out; Out] -> forall t x, nth_error l t = Some x -> x = Out.
Proof. intros -> [|[|[|t]]] x Hx; cbn in Hx; inversion Hx; reflexivity. Qed.

Lemma mx_cycle s k : mx_idle s -> mx_idle (lock_cycle s k) /\ tab (lock_cycle s k) = [].
Proof.
  intros [I Hp]. unfold lock_cycle. cbn [exec2 fold_left].
  assert (T0 : tab s = []) by (apply inv_all_out_empty; [exact I|apply all_out2; exact Hp]).
  set (s1 := step2 s (O, k, true)). assert (I1 : Inv s1) by (apply step2_inv; exact I).
  destruct (try_free_pcs s O k I ltac:(rewrite Hp; reflexivity) ltac:(rewrite Hp; reflexivity)) as [e E1].
  fold s1 in E1. rewrite Hp in E1. cbn [updl] in E1.
  rewrite !step2_false.
  set (s2 := MutexMap.step s1 (O, k)). assert (I2 : Inv s2) by (apply step_inv; exact I1).
  assert (E2 : pcs s2 = [Releasing e; Out]).
  { unfold s2. rewrite (step_hold_pcs s1 O k k e I1); rewrite E1; reflexivity. }
  set (s3 := MutexMap.step s2 (O, k)). assert (I3 : Inv s3) by (apply step_inv; exact I2).
  assert (E3 : pcs s3 = [Out; Out]).
  { unfold s3. rewrite (step_rel_pcs s2 O k e I2); rewrite E2; reflexivity. }
  split; [split; assumption|].
  apply inv_all_out_empty; [exact I3|apply all_out2; exact E3].
Qed.

(* the contended pair of copies: both handlers leave, nothing stays in the lock map *)
Lemma mx_cycle_contended s k : mx_idle s -> mx_idle (lock_cycle_contended s k) /\ tab (lock_cycle_contended s k) = [].
Proof.
  intros [I Hp]. unfold lock_cycle_contended. cbn [exec2 fold_left].
  set (s1 := step2 s (0%nat, k, true)). assert (I1 : Inv s1) by (apply step2_inv; exact I).
  destruct (try_free_pcs s 0%nat k I ltac:(rewrite Hp; reflexivity) ltac:(rewrite Hp; reflexivity)) as [e E1].
  fold s1 in E1. rewrite Hp in E1. cbn [updl] in E1.
  (* the copy's TryLock fails *)
  rewrite (try_taken_noop s1 1%nat 0%nat k e I1) by (rewrite E1; reflexivity).
  rewrite !step2_false.
  (* ... it enters Lock and waits *)
  set (s2 := MutexMap.step s1 (1%nat, k)). assert (I2 : Inv s2) by (apply step_inv; exact I1).
  destruct (step_out_pcs s1 1%nat k ltac:(rewrite E1; reflexivity)) as [e' E2]. fold s2 in E2. rewrite E1 in E2. cbn [updl] in E2.
  (* the first handler unlocks *)
  set (s3 := MutexMap.step s2 (0%nat, k)). assert (I3 : Inv s3) by (apply step_inv; exact I2).
  assert (E3 : pcs s3 = [Releasing e; Waiting k e']).
  { unfold s3. rewrite (step_hold_pcs s2 0%nat k k e I2); rewrite E2; reflexivity. }
  set (s4 := MutexMap.step s3 (0%nat, k)). assert (I4 : Inv s4) by (apply step_inv; exact I3).
  assert (E4 : pcs s4 = [Out; Waiting k e']).
  { unfold s4. rewrite (step_rel_pcs s3 0%nat k e I3); rewrite E3; reflexivity. }
  (* the copy acquires, is answered from the cache, unlocks *)
  set (s5 := MutexMap.step s4 (1%nat, k)). assert (I5 : Inv s5) by (apply step_inv; exact I4).
  assert (E5 : pcs s5 = [Out; Holding k e']).
  { unfold s5. rewrite (step_wait_pcs s4 1%nat k k e' I4); rewrite E4; reflexivity. }
  set (s6 := MutexMap.step s5 (1%nat, k)). assert (I6 : Inv s6) by (apply step_inv; exact I5).
  assert (E6 : pcs s6 = [Out; Releasing e']).
  { unfold s6. rewrite (step_hold_pcs s5 1%nat k k e' I5); rewrite E5; reflexivity. }
  set (s7 := MutexMap.step s6 (1%nat, k)). assert (I7 : Inv s7) by (apply step_inv; exact I6).
  assert (E7 : pcs s7 = [Out; Out]).
  { unfold s7. rewrite (step_rel_pcs s6 1%nat k e' I6); rewrite E6; reflexivity. }
  split; [split; assumption|].
  apply inv_all_out_empty; [exact I7|apply all_out2; exact E7].
Qed.

(* ================================================================== *)
(* 7. observation table = live observations                            *)

Definition idof (x : Z * O.obs) : nat := O.o_id (snd x).

Lemma in_otdel k : forall t k' o, In (k', o) (O.tdel k t) <-> In (k', o) t /\ k' <> k.
Proof.
  induction t as [|[k0 o0] r IH]; intros k' o; cbn [O.tdel]; [cbn; tauto|].
  destruct (k0 =? k) eqn:E.
  - apply Z.eqb_eq in E. subst k0. rewrite IH. cbn [In]. split.
    + intros [H1 H2]. split; auto.
    + intros [[H|H] H2]; [inversion H; subst; congruence|split; auto].
  - apply Z.eqb_neq in E. cbn [In]. rewrite IH. split.
    + intros [H|[H1 H2]]; [inversion H; subst; split; auto|split; auto].
    + intros [[H|H] H2]; [left; exact H|right; split; auto].
Qed.

Lemma nodup_map_otdel {A} (f : Z * O.obs -> A) k : forall t, NoDup (map f t) -> NoDup (map f (O.tdel k t)).
Proof.
  induction t as [|[k0 o0] r IH]; intros H; cbn [O.tdel]; [exact H|].
  cbn [map] in H. inversion H as [|? ? Hn Hr]; subst. destruct (k0 =? k); [apply IH; exact Hr|].
  cbn [map]. constructor; [|apply IH; exact Hr].
  intros Hin. apply Hn. apply in_map_iff in Hin. destruct Hin as ([k1 o1] & Hf & Hi). apply in_otdel in Hi.
  apply in_map_iff. exists (k1, o1). split; [exact Hf|apply Hi].
Qed.

Lemma otget_in k : forall t o, O.tget k t = Some o -> In (k, o) t.
Proof.
  induction t as [|[k0 o0] r IH]; intros o H; cbn [O.tget] in H; [discriminate|].
  destruct (k0 =? k) eqn:E; [apply Z.eqb_eq in E; inversion H; subst; left; reflexivity|right; apply IH; exact H].
Qed.

Lemma otget_none k : forall t, O.tget k t = None -> forall o, ~ In (k, o) t.
Proof.
  induction t as [|[k0 o0] r IH]; intros H o Hin; cbn [O.tget] in H; [contradiction|].
  destruct (k0 =? k) eqn:E; [discriminate|]. destruct Hin as [Heq|Hin]; [inversion Heq; subst; rewrite Z.eqb_refl in E; discriminate|].
  exact (IH H o Hin).
Qed.

Lemma nodup_fst_unique (t : list (Z * O.obs)) : NoDup (map fst t) -> forall k o1 o2, In (k, o1) t -> In (k, o2) t -> o1 = o2.
Proof.
  induction t as [|[k0 o0] r IH]; intros H k o1 o2 H1 H2; [contradiction|].
  cbn [map fst] in H. inversion H as [|? ? Hn Hr]; subst.
  destruct H1 as [E1|H1]; destruct H2 as [E2|H2].
  - congruence.
  - inversion E1; subst. exfalso. apply Hn. apply in_map_iff. exists (k, o2). auto.
  - inversion E2; subst. exfalso. apply Hn. apply in_map_iff. exists (k, o1). auto.
  - eapply IH; eauto.
Qed.

Lemma nodup_id_unique (t : list (Z * O.obs)) : NoDup (map idof t) -> forall x y, In x t -> In y t -> idof x = idof y -> x = y.
Proof.
  induction t as [|a r IH]; intros H x y Hx Hy E; [contradiction|].
  cbn [map] in H. inversion H as [|? ? Hn Hr]; subst.
  destruct Hx as [<-|Hx]; destruct Hy as [<-|Hy]; auto.
  - exfalso. apply Hn. rewrite E. apply in_map. exact Hy.
  - exfalso. apply Hn. rewrite <- E. apply in_map. exact Hx.
Qed.

Lemma in_remove_nat x l y : In y (remove_nat x l) <-> In y l /\ y <> x.
Proof.
  unfold remove_nat. rewrite filter_In. split; intros [H1 H2]; split; auto.
  - apply negb_true_iff in H2. apply Nat.eqb_neq in H2. exact H2.
  - apply negb_true_iff. apply Nat.eqb_neq. exact H2.
Qed.

Lemma remove_nat_notin x l : ~ In x l -> remove_nat x l = l.
Proof.
  unfold remove_nat. induction l as [|a r IH]; intros H; cbn [filter]; [reflexivity|].
  destruct (Nat.eqb a x) eqn:E; cbn [negb].
  - apply Nat.eqb_eq in E. subst. exfalso. apply H. left. reflexivity.
  - rewrite IH; [reflexivity|]. intros Hin. apply H. right. exact Hin.
Qed.

Lemma nodup_remove_nat x l : NoDup l -> NoDup (remove_nat x l).
Proof. intros H. unfold remove_nat. apply NoDup_filter. exact H. Qed.

Record OInv (s : O.st) (lv : list nat) : Prop := {
  oi_keys : NoDup (map fst (O.tbl s));
  oi_ent : forall k o, In (k, o) (O.tbl s) -> O.crc64 (O.o_tok o) = k /\ (O.o_id o < length (O.regs s))%nat;
  oi_ids : NoDup (map idof (O.tbl s));
  oi_lv : NoDup lv;
  oi_live : forall id, In id lv <-> exists k o, In (k, o) (O.tbl s) /\ O.o_id o = id /\ O.o_wait o = false
}.

Lemma oinv0 : OInv O.st0 [].
Proof.
  constructor; cbn [O.st0 O.tbl O.regs map].
  - constructor.
  - intros k o [].
  - constructor.
  - constructor.
  - intros id. split; [intros [] | intros (k & o & [] & _)].
Qed.

(* deleting the entry (k, o0) and forgetting its id *)
Lemma oinv_delete s lv k o0 rs : OInv s lv -> O.tget k (O.tbl s) = Some o0 -> (length (O.regs s) <= length rs)%nat ->
  OInv (O.mkSt (O.tdel k (O.tbl s)) rs) (remove_nat (O.o_id o0) lv).
Proof.
  intros I Hg Hlen. pose proof (otget_in _ _ _ Hg) as Hin0. constructor; cbn [O.tbl O.regs].
  - apply nodup_map_otdel. apply (oi_keys _ _ I).
  - intros k1 o1 H. apply in_otdel in H. destruct (oi_ent _ _ I k1 o1 (proj1 H)). split; [assumption|lia].
  - apply nodup_map_otdel. apply (oi_ids _ _ I).
  - apply nodup_remove_nat. apply (oi_lv _ _ I).
  - intros id. rewrite in_remove_nat. rewrite (oi_live _ _ I id). split.
    + intros [(k1 & o1 & Hin & Hid & Hw) Hne]. exists k1, o1. repeat split; auto. apply in_otdel. split; [exact Hin|].
      intros ->. pose proof (nodup_fst_unique _ (oi_keys _ _ I) k o1 o0 Hin Hin0). subst. congruence.
    + intros (k1 & o1 & Hin & Hid & Hw). apply in_otdel in Hin. destruct Hin as [Hin Hk]. split; [exists k1, o1; auto|].
      intros E. subst id. assert ((k1, o1) = (k, o0)) as EE by (apply (nodup_id_unique _ (oi_ids _ _ I)); auto).
      inversion EE. congruence.
Qed.

(* replacing the entry at k by one with the same id and token *)
Lemma oinv_replace s lv k o0 o2 lv' : OInv s lv -> O.tget k (O.tbl s) = Some o0 ->
  O.o_id o2 = O.o_id o0 -> O.o_tok o2 = O.o_tok o0 -> NoDup lv' ->
  (forall id, In id lv' <-> (In id lv /\ id <> O.o_id o0) \/ (id = O.o_id o0 /\ O.o_wait o2 = false)) ->
  OInv (O.mkSt (O.tset k o2 (O.tbl s)) (O.regs s)) lv'.
Proof.
  intros I Hg Hid Htok Hnd Hlv. pose proof (otget_in _ _ _ Hg) as Hin0.
  destruct (oi_ent _ _ I k o0 Hin0) as [Hk Hlt].
  constructor; cbn [O.tbl O.regs]; unfold O.tset.
  - cbn [map fst]. constructor; [|apply nodup_map_otdel; apply (oi_keys _ _ I)].
    intros H. apply in_map_iff in H. destruct H as ([k1 o1] & Hf & Hi). cbn in Hf. subst. apply in_otdel in Hi. destruct Hi. congruence.
  - intros k1 o1 [H|H].
    + inversion H; subst. rewrite Htok, Hid. auto.
    + apply in_otdel in H. apply (oi_ent _ _ I k1 o1 (proj1 H)).
  - cbn [map]. constructor; [|apply nodup_map_otdel; apply (oi_ids _ _ I)].
    intros H. apply in_map_iff in H. destruct H as ([k1 o1] & Hf & Hi). unfold idof in Hf. cbn [snd] in Hf. apply in_otdel in Hi. destruct Hi as [Hi Hne].
    assert ((k1, o1) = (k, o0)) as EE by (apply (nodup_id_unique _ (oi_ids _ _ I)); auto; unfold idof; cbn [snd]; congruence).
    inversion EE. congruence.
  - exact Hnd.
  - intros id. rewrite Hlv. rewrite (oi_live _ _ I id). split.
    + intros [[(k1 & o1 & Hin & Hi & Hw) Hne]|[-> Hw]].
      * exists k1, o1. repeat split; auto. right. apply in_otdel. split; [exact Hin|].
        intros ->. pose proof (nodup_fst_unique _ (oi_keys _ _ I) k o1 o0 Hin Hin0). subst. congruence.
      * exists k, o2. repeat split; auto. left. reflexivity.
    + intros (k1 & o1 & [H|H] & Hi & Hw).
      * inversion H; subst. right. split; [congruence|exact Hw].
      * apply in_otdel in H. destruct H as [Hin Hne]. left. split; [exists k1, o1; auto|].
        intros E. subst id. assert ((k1, o1) = (k, o0)) as EE by (apply (nodup_id_unique _ (oi_ids _ _ I)); auto).
        inversion EE. congruence.
Qed.

Lemma want_same o sq now : O.o_id (fst (O.want o sq now)) = O.o_id o /\ O.o_tok (fst (O.want o sq now)) = O.o_tok o /\
  O.o_wait (fst (O.want o sq now)) = O.o_wait o.
Proof. unfold O.want. destruct sq as [v|]; [|auto]. destruct (O.valid (O.o_seq o) v (O.o_last o) now); cbn; auto. Qed.

Lemma oinv_step s lv e : OInv s lv -> OInv (fst (O.step O.observe_wire s e)) (live_after s lv e).
Proof.
  intros I. destruct e as [tok | m now | id code | id |]; cbn [O.step live_after].
  - (* registration *)
    unfold O.reg. destruct tok as [|b tok'].
    + cbn [fst]. constructor; cbn [O.tbl O.regs]; try apply I.
      intros k o H. destruct (oi_ent _ _ I k o H). split; [assumption|rewrite app_length; lia].
    + set (tok := b :: tok'). destruct (O.tget (O.crc64 tok) (O.tbl s)) as [o0|] eqn:Eg; cbn [fst].
      * (* token in use: refused, table and live set untouched *)
        constructor; cbn [O.tbl O.regs]; try apply I.
        intros k o H. destruct (oi_ent _ _ I k o H). split; [assumption|rewrite app_length; lia].
      * (* fresh entry, still waiting for its first response *)
        constructor; cbn [O.tbl O.regs]; unfold O.tset.
        -- cbn [map fst]. constructor; [|apply nodup_map_otdel; apply (oi_keys _ _ I)].
           intros H. apply in_map_iff in H. destruct H as ([k1 o1] & Hf & Hi). cbn in Hf. subst. apply in_otdel in Hi. destruct Hi. congruence.
        -- intros k1 o1 [H|H].
           ++ inversion H; subst. cbn [O.o_tok O.o_id]. rewrite app_length. cbn. split; [reflexivity|lia].
           ++ apply in_otdel in H. destruct (oi_ent _ _ I k1 o1 (proj1 H)). split; [assumption|rewrite app_length; lia].
        -- cbn [map]. constructor; [|apply nodup_map_otdel; apply (oi_ids _ _ I)].
           intros H. apply in_map_iff in H. destruct H as ([k1 o1] & Hf & Hi). unfold idof in Hf. cbn [snd O.o_id] in Hf.
           apply in_otdel in Hi. destruct (oi_ent _ _ I k1 o1 (proj1 Hi)). lia.
        -- apply (oi_lv _ _ I).
        -- intros id. rewrite (oi_live _ _ I id). split.
           ++ intros (k1 & o1 & Hin & Hi & Hw). exists k1, o1. repeat split; auto. right. apply in_otdel. split; [exact Hin|].
              intros ->. exact (otget_none _ _ Eg o1 Hin).
           ++ intros (k1 & o1 & [H|H] & Hi & Hw); [inversion H; subst; cbn in Hw; discriminate|].
              apply in_otdel in H. exists k1, o1. repeat split; auto. apply H.
  - (* message *)
    unfold O.handle_msg. destruct (O.tget (O.crc64 (O.m_tok m)) (O.tbl s)) as [o|] eqn:Eg; [|cbn [fst]; exact I].
    pose proof (want_same o (O.observe_wire m) now) as (Wid & Wtok & Wwait).
    destruct (O.want o (O.observe_wire m) now) as [o1 deliver] eqn:Ew. cbn [fst] in Wid, Wtok, Wwait.
    destruct (oi_ent _ _ I _ o (otget_in _ _ _ Eg)) as [Hk _].
    assert (Hnotin : O.o_wait o = true -> ~ In (O.o_id o) lv).
    { intros Hw Hin. apply (oi_live _ _ I) in Hin. destruct Hin as (k1 & o2 & Hin & Hi & Hw2).
      assert ((k1, o2) = (O.crc64 (O.m_tok m), o)) as EE by (apply (nodup_id_unique _ (oi_ids _ _ I)); auto; apply otget_in; exact Eg).
      inversion EE; subst. congruence. }
    destruct (O.o_wait o) eqn:Ewait.
    + destruct (O.code_ok (O.m_code m)).
      * destruct (O.observe_wire m) as [v|] eqn:Esq; cbn [fst].
        -- eapply oinv_replace; [exact I|exact Eg|cbn; exact Wid|cbn; exact Wtok| |].
           ++ constructor; [apply Hnotin; reflexivity|apply (oi_lv _ _ I)].
           ++ intros id. cbn [In O.set_wait O.o_wait]. split.
              ** intros [<-|H]; [right; auto|left; split; [exact H|]]. intros ->. apply (Hnotin eq_refl). exact H.
              ** intros [[H _]|[-> _]]; auto.
        -- rewrite Hk. pose proof (oinv_delete s lv _ o (O.regs s) I Eg (le_n _)) as HD.
           rewrite (remove_nat_notin _ _ (Hnotin eq_refl)) in HD. exact HD.
      * cbn [fst]. rewrite Hk. pose proof (oinv_delete s lv _ o (O.regs s) I Eg (le_n _)) as HD.
        rewrite (remove_nat_notin _ _ (Hnotin eq_refl)) in HD. exact HD.
    + cbn [fst]. eapply oinv_replace; [exact I|exact Eg|cbn; exact Wid|cbn; exact Wtok|apply (oi_lv _ _ I)|].
      intros id. cbn [O.set_wait O.o_wait]. split.
      * intros H. destruct (Nat.eq_dec id (O.o_id o)) as [->|Hne]; [right; auto|left; auto].
      * intros [[H _]|[-> _]]; [exact H|]. apply (oi_live _ _ I). exists (O.crc64 (O.m_tok m)), o. repeat split; auto. apply otget_in. exact Eg.
  - (* cancel *)
    unfold O.cancel. destruct (nth_error (O.regs s) id) as [tok|]; [|cbn [fst]; exact I].
    destruct (O.tget (O.crc64 tok) (O.tbl s)) as [o|] eqn:Eg; cbn [fst]; [|exact I].
    apply oinv_delete; [exact I|exact Eg|lia].
  - (* cancel whose deregistration exchange fails *)
    unfold O.cancel_err, O.cancel_with. destruct (nth_error (O.regs s) id) as [tok|]; [|cbn [fst]; exact I].
    destruct (O.tget (O.crc64 tok) (O.tbl s)) as [o|] eqn:Eg; cbn [fst]; [|exact I].
    apply oinv_delete; [exact I|exact Eg|lia].
  - (* a message that does not reach the observation handler *)
    cbn [fst]. exact I.
Qed.

Definition orun (sl : O.st * list nat) (evs : list O.ev) : O.st * list nat :=
  fold_left (fun '(s, lv) e => (fst (O.step O.observe_wire s e), live_after s lv e)) evs sl.

Lemma oinv_run evs : forall s lv, OInv s lv -> OInv (fst (orun (s, lv) evs)) (snd (orun (s, lv) evs)).
Proof.
  induction evs as [|e r IH]; intros s lv I; [exact I|]. cbn [orun fold_left]. apply IH. apply oinv_step. exact I.
Qed.

Definition no_waiting (s : O.st) : Prop := forall k o, In (k, o) (O.tbl s) -> O.o_wait o = false.

Lemma oinv_sizes s lv : OInv s lv -> no_waiting s -> length (O.tbl s) = length lv.
Proof.
  intros I Hw. rewrite <- (map_length idof (O.tbl s)).
  apply Nat.le_antisymm; apply NoDup_incl_length.
  - apply (oi_ids _ _ I).
  - intros id Hin. apply in_map_iff in Hin. destruct Hin as ([k o] & Hf & Hi). apply (oi_live _ _ I).
    exists k, o. repeat split; auto. apply (Hw k o Hi).
  - apply (oi_lv _ _ I).
  - intros id Hin. apply (oi_live _ _ I) in Hin. destruct Hin as (k & o & Hi & Hid & _).
    apply in_map_iff. exists (k, o). split; auto.
Qed.

Lemma otget_otdel_same k : forall t, O.tget k (O.tdel k t) = None.
Proof.
  induction t as [|[k' o] r IH]; cbn [O.tdel O.tget]; [reflexivity|].
  destruct (k' =? k) eqn:E; [exact IH|]. cbn [O.tget]. rewrite E. exact IH.
Qed.

(* Observation.Cancel whose deregistration exchange FAILS (the peer stays silent until the context
   ends, the write is refused, the limiter rejects the request): from every state satisfying the
   invariant, the table and the live set are those of a Cancel that was answered (with any code);
   nothing is kept under the token of the cancelled registration; table = live observations goes on *)
Theorem cancel_outcome_irrelevant : forall s lv id, OInv s lv ->
  let s' := fst (O.step O.observe_wire s (O.ECancelErr id)) in
  let lv' := live_after s lv (O.ECancelErr id) in
  (forall code, O.tbl s' = O.tbl (fst (O.step O.observe_wire s (O.ECancel id code))) /\
                lv' = live_after s lv (O.ECancel id code)) /\
  (forall tok, nth_error (O.regs s) id = Some tok -> O.tget (O.crc64 tok) (O.tbl s') = None) /\
  OInv s' lv' /\ (no_waiting s' -> length (O.tbl s') = length lv').
Proof.
  intros s lv id I s' lv'.
  split.
  { intros code. unfold s', lv'. cbn [O.step live_after]. unfold O.cancel_err, O.cancel_with, O.cancel.
    destruct (nth_error (O.regs s) id) as [tok|]; [|split; reflexivity].
    destruct (O.tget (O.crc64 tok) (O.tbl s)); split; reflexivity. }
  split.
  { intros tok Hn. unfold s'. cbn [O.step]. unfold O.cancel_err, O.cancel_with. rewrite Hn.
    destruct (O.tget (O.crc64 tok) (O.tbl s)) eqn:Eg; cbn [fst O.tbl]; [apply otget_otdel_same|exact Eg]. }
  assert (I' : OInv s' lv') by (apply oinv_step; exact I).
  split; [exact I'|apply oinv_sizes; exact I'].
Qed.

(* for every history of registrations, messages and cancellations: the ids of the table entries
   that are past their first response are exactly the live registrations (added by a successful
   registration, removed by cancel / failed registration / eviction); with no registration in
   flight the table has as many entries as there are live observations *)
Theorem observations_are_live : forall evs,
  let '(s, lv) := orun (O.st0, []) evs in
  OInv s lv /\ (no_waiting s -> length (O.tbl s) = length lv).
Proof.
  intros evs. pose proof (oinv_run evs O.st0 [] oinv0) as I. destruct (orun (O.st0, []) evs) as [s lv].
  cbn [fst snd] in I. split; [exact I|apply oinv_sizes; exact I].
Qed.

(* ================================================================== *)
(* 8. composition                                                      *)

Section Composition.
Variable c : R.cfg.
Variables lt le : Z.

Record CInv (s : conn) : Prop := {
  ci_dd : DP.all_bounded (D.cache (dd s));
  ci_rx : pend_owned (rx s);
  ci_tk : tok_owned (tk s);
  ci_pg : Forall (fun p => 0 <= R.p_count p /\ 0 <= R.p_elapsed p) (pg s);
  ci_lm : exists tr, lm s = L.run (L.new_lim lt le) tr;
  ci_ob : OInv (ob s) (live s);
  ci_mx : mx_idle (mx s) /\ tab (mx s) = []
}.

Definition ev_ok (e : cev) : Prop := match e with AgeAll ms => 0 <= ms | _ => True end.

Lemma cinv_init : CInv (Model.init lt le).
Proof.
  constructor; cbn.
  - constructor.
  - intros p [].
  - intros tok r [].
  - constructor.
  - exists []. reflexivity.
  - exact oinv0.
  - split; [split; [apply inv_init; cbn; lia|reflexivity]|reflexivity].
Qed.

Lemma lm_step_reach l a : (exists tr, l = L.run (L.new_lim lt le) tr) -> exists tr, L.step l a = L.run (L.new_lim lt le) tr.
Proof. intros [tr ->]. exists (tr ++ [a]). rewrite <- run_app. reflexivity. Qed.

Ltac simp := cbn [dd rx tk pg bs br lm ob mx live with_dd with_rx with_tk with_pg with_bs with_br with_lm with_ob with_mx rstep ostep].

(* a tick with a failing transport changes the connection exactly as a tick with a working one *)
Lemma step_tickw s b : Model.step c s (TickAllW b) = Model.step c s TickAll.
Proof.
  cbn [Model.step]. unfold pstep, rstep. simp. cbn [R.step R.pending R.reqs]. rewrite !tick_all_w_tbl.
  destruct (R.tick_all c (pg s)); destruct (R.tick_all c (R.pending (rx s))). reflexivity.
Qed.

Lemma cinv_step s e : CInv s -> ev_ok e -> CInv (Model.step c s e).
Proof.
  intros I He. destruct e; try rewrite step_tickw; cbn [Model.step ev_ok] in *.
  - (* EIn *)
    destruct (ci_mx s I) as [Hidle _]. destruct (mx_cycle (mx s) mid Hidle) as [H1 H2].
    destruct (locks_mid typ).
    + constructor; simp; try apply I; [|split; assumption].
      apply DP.step_all_bounded; [apply I|unfold DP.age_ok; cbn [DP.age_of]; lia].
    + constructor; simp; try apply I.
      apply DP.step_all_bounded; [apply I|unfold DP.age_ok; cbn [DP.age_of]; lia].
  - (* EInCont *)
    destruct (ci_mx s I) as [Hidle _]. destruct (mx_cycle_contended (mx s) mid Hidle) as [H1 H2].
    constructor; simp; try apply I; [|split; assumption].
    apply DP.step_all_bounded; [apply DP.step_all_bounded; [apply I|]|]; unfold DP.age_ok; cbn [DP.age_of]; lia.
  - constructor; simp; try apply I; [apply pend_owned_step; apply I|apply tok_owned_step; apply I].
  - constructor; simp; try apply I; [apply pend_owned_step; apply I|do 2 apply tok_owned_step; apply I].
  - constructor; simp; try apply I. apply pend_owned_step; apply I.
  - constructor; simp; try apply I. apply pend_owned_step; apply I.
  - constructor; simp; try apply I; [apply pend_owned_step; apply I|apply tok_owned_step; apply I].
  - constructor; simp; try apply I. apply lm_step_reach. apply I.
  - constructor; simp; try apply I. apply lm_step_reach. apply I.
  - constructor; simp; try apply I. apply lm_step_reach. apply I.
  - constructor; simp; try apply I. destruct (ci_lm s I) as [tr Htr]. destruct (settle_is_run SETTLE_FUEL (lm s)) as [tr2 H2].
    exists (tr ++ tr2). unfold L.settle. rewrite H2, Htr. apply run_app.
  - constructor; simp; try apply I. apply oinv_step. apply I.
  - constructor; simp; try apply I. apply oinv_step. apply I.
  - constructor; simp; try apply I. apply oinv_step. apply I.
  - constructor; simp; apply I.
  - constructor; simp; apply I.
  - constructor; simp; apply I.
  - constructor; simp; apply I.
  - constructor; simp; apply I.
  - constructor; simp; try apply I. apply Forall_app. split; [apply I|]. constructor; [cbn; lia|constructor].
  - constructor; simp; try apply I. unfold R.del_pend. apply RP.filter_Forall. apply I.
  - (* AgeAll *)
    constructor; simp; try apply I.
    + apply (DP.step_all_bounded (dd s) (D.Age ms)); [apply I|exact He].
    + apply (pend_owned_step c (rx s) (R.Age ms)). apply I.
    + pose proof (ci_pg s I) as HP. induction HP as [|p r [H1 H2] _ IH]; cbn [map]; constructor; [cbn; lia|exact IH].
  - (* TickAll *)
    constructor; simp; try apply I.
    + apply (DP.step_all_bounded (dd s) D.Tick); [apply I|unfold DP.age_ok; cbn [DP.age_of]; lia].
    + apply (pend_owned_step c (rx s) R.Tick). apply I.
    + unfold pstep. cbn [R.step R.pending R.reqs]. destruct (R.tick_all c (pg s)) as [l em] eqn:Et. cbn [fst R.pending].
      apply Forall_forall. intros p' Hp'. pose proof (tick_all_in c (pg s) p') as HT. rewrite Et in HT.
      destruct (HT Hp') as (p & b & Hin & Hte). pose proof (ci_pg s I) as HP. rewrite Forall_forall in HP. destruct (HP p Hin) as [H1 H2].
      destruct (RP.tick_entry_keep c p p' b Hte) as [_ Hc].
      unfold R.tick_entry in Hte. destruct ((match R.p_dl p with Some d => d <? 0 | None => false end) || (R.p_count p >=? R.max_rt c)); [discriminate|].
      destruct (R.ack_ms c * (R.p_count p + 1) <? R.p_elapsed p); inversion Hte; subst; cbn; lia.
  - (* TickAllW: same state as TickAll (step_tickw) *)
    constructor; simp; try apply I.
    + apply (DP.step_all_bounded (dd s) D.Tick); [apply I|unfold DP.age_ok; cbn [DP.age_of]; lia].
    + apply (pend_owned_step c (rx s) R.Tick). apply I.
    + unfold pstep. cbn [R.step R.pending R.reqs]. destruct (R.tick_all c (pg s)) as [l em] eqn:Et. cbn [fst R.pending].
      apply Forall_forall. intros p' Hp'. pose proof (tick_all_in c (pg s) p') as HT. rewrite Et in HT.
      destruct (HT Hp') as (p & b & Hin & Hte). pose proof (ci_pg s I) as HP. rewrite Forall_forall in HP. destruct (HP p Hin) as [H1 H2].
      destruct (RP.tick_entry_keep c p p' b Hte) as [_ Hc].
      unfold R.tick_entry in Hte. destruct ((match R.p_dl p with Some d => d <? 0 | None => false end) || (R.p_count p >=? R.max_rt c)); [discriminate|].
      destruct (R.ack_ms c * (R.p_count p + 1) <? R.p_elapsed p); inversion Hte; subst; cbn; lia.
  - (* ObCancelErr *)
    constructor; simp; try apply I. apply oinv_step. apply I.
  - (* LmAct *)
    constructor; simp; try apply I. apply lm_step_reach. apply I.
  - (* LmSettleHold *)
    constructor; simp; try apply I. destruct (ci_lm s I) as [tr Htr]. destruct (LP.settle_hold_is_run SETTLE_FUEL hold (lm s)) as [tr2 H2].
    exists (tr ++ tr2). rewrite H2, Htr. apply run_app.
Qed.

Lemma cinv_run evs : forall s, CInv s -> Forall ev_ok evs -> CInv (Model.run c s evs).
Proof.
  induction evs as [|e r IH]; intros s I H; [exact I|]. inversion H; subst. cbn [Model.run fold_left]. apply IH; [apply cinv_step; assumption|assumption].
Qed.

(* every call has returned and no registration is in flight *)
Definition calls_done (s : conn) : Prop :=
  all_returned (rx s) /\ (forall r tok, tst (tk s) r <> TWait tok) /\ LP.all_done (lm s) /\ no_waiting (ob s).

(* ageing past every deadline, MAX_RETRANSMIT+1 housekeeping ticks, block-wise sweep *)
Definition nticks (n : nat) (s : conn) : conn := Model.run c s (repeat TickAll n).
Definition closing (d : Z) (s : conn) : conn :=
  Model.step c (nticks (S (Z.to_nat (R.max_rt c))) (Model.step c s (AgeAll d))) BwExpire.

Lemma tick_fields s :
  let s' := Model.step c s TickAll in
  tk s' = tk s /\ lm s' = lm s /\ ob s' = ob s /\ mx s' = mx s /\ live s' = live s /\
  pg s' = fst (R.tick_all c (pg s)) /\
  R.pending (rx s') = fst (R.tick_all c (R.pending (rx s))) /\
  D.cache (dd s') = filter (fun '(_, en) => negb (D.expired en)) (D.cache (dd s)).
Proof.
  cbn [Model.step]. simp. unfold pstep. cbn [R.step R.pending R.reqs D.step fst D.cache].
  destruct (R.tick_all c (pg s)); destruct (R.tick_all c (R.pending (rx s))). cbn [fst R.pending]. repeat split; reflexivity.
Qed.

Lemma nticks_S n s : nticks (S n) s = nticks n (Model.step c s TickAll).
Proof. reflexivity. Qed.

Lemma nticks_static n : forall s,
  tk (nticks n s) = tk s /\ lm (nticks n s) = lm s /\ ob (nticks n s) = ob s /\ mx (nticks n s) = mx s /\ live (nticks n s) = live s /\
  pg (nticks n s) = ticks c n (pg s) /\
  (R.pending (rx s) = [] -> R.pending (rx (nticks n s)) = []) /\
  ((0 < n)%nat -> left_le (-1) (D.cache (dd s)) -> D.cache (dd (nticks n s)) = []).
Proof.
  induction n as [|n IH]; intros s.
  - cbn. repeat split; auto. intros H; lia.
  - rewrite nticks_S. destruct (tick_fields s) as (F1 & F2 & F3 & F4 & F5 & F6 & F7 & F8).
    set (s' := Model.step c s TickAll) in *.
    destruct (IH s') as (H1 & H2 & H3 & H4 & H5 & H6 & H7 & H8).
    repeat split; try congruence.
    + rewrite H6, F6. reflexivity.
    + intros Hp. apply H7. rewrite F7, Hp. reflexivity.
    + intros _ Hl. destruct n as [|n'].
      * change (nticks 0 s') with s'. rewrite F8. apply tick_clears. exact Hl.
      * apply H8; [lia|]. rewrite F8. rewrite (tick_clears _ Hl). constructor.
Qed.

(* the closing sequence with an arbitrary transport fault per tick *)
Definition closing_w (d : Z) (ws : list bool) (s : conn) : conn :=
  Model.step c (Model.run c (Model.step c s (AgeAll d)) (map TickAllW ws)) BwExpire.

Lemma run_tickw : forall ws s, Model.run c s (map TickAllW ws) = nticks (length ws) s.
Proof.
  induction ws as [|w r IH]; intros s; [reflexivity|]. cbn [map length]. rewrite nticks_S. rewrite <- step_tickw with (b := w).
  unfold Model.run. cbn [fold_left]. apply IH.
Qed.

Lemma closing_w_closing d ws s : length ws = S (Z.to_nat (R.max_rt c)) -> closing_w d ws s = closing d s.
Proof. intros H. unfold closing_w, closing. rewrite run_tickw, H. reflexivity. Qed.

Lemma filter_none {A} (f : A -> bool) l : (forall x, f x = false) -> filter f l = [].
Proof. intros H. induction l as [|a r IH]; cbn; [reflexivity|]. rewrite H. exact IH. Qed.

Theorem all_empty : forall s d, 0 <= R.ack_ms c -> 0 <= R.max_rt c ->
  CInv s -> calls_done s -> D.LIFETIME < d -> R.ack_ms c * (R.max_rt c + 1) < d ->
  sizes (closing d s) = [0; 0; 0; 0; 0; 0; 0; 0; 0; 0; blen (live s)] /\ live (closing d s) = live s.
Proof.
  intros s d Hack Hmr I (Hret & Htok & Hlim & Hnw) Hd1 Hd2.
  assert (Hd0 : 0 <= d) by (pose proof DP.lifetime_nonneg; lia).
  set (s1 := Model.step c s (AgeAll d)).
  assert (Hp0 : R.pending (rx s) = []).
  { destruct (R.pending (rx s)) as [|p r] eqn:E; [reflexivity|].
    destruct (ci_rx s I p ltac:(rewrite E; left; reflexivity)) as (q & Hq & _ & Hst). specialize (Hret q Hq). destruct (R.q_st q); discriminate. }
  destruct (nticks_static (S (Z.to_nat (R.max_rt c))) s1) as (H1 & H2 & H3 & H4 & H5 & H6 & H7 & H8).
  unfold closing. fold s1. set (s2 := nticks (S (Z.to_nat (R.max_rt c))) s1) in *.
  assert (Etk : ttab (tk s) = []).
  { destruct (ttab (tk s)) as [|[tok r] rest] eqn:E; [reflexivity|]. exfalso. apply (Htok r tok). apply (ci_tk s I). rewrite E. left. reflexivity. }
  assert (Epg : pg s2 = []).
  { rewrite H6. apply pending_exhausts; [exact Hack|exact Hmr|]. unfold s1. cbn [Model.step]. simp. unfold pstep. cbn [R.step fst R.pending R.reqs].
    pose proof (ci_pg s I) as HP. induction HP as [|p r [Ha Hb] _ IH]; cbn [map]; constructor; [cbn [R.p_count R.p_elapsed]; lia|exact IH]. }
  assert (Erx : R.pending (rx s2) = []).
  { apply H7. unfold s1. cbn [Model.step]. simp. cbn [R.step fst R.pending]. rewrite Hp0. reflexivity. }
  assert (Edd : D.cache (dd s2) = []).
  { apply H8; [lia|]. unfold s1. cbn [Model.step]. simp.
    pose proof (d_quiet_step (dd s) (D.Age d) D.LIFETIME ltac:(cbn; exact Hd0) (ci_dd s I)) as Hb. cbn [DP.age_of] in Hb.
    eapply left_le_weaken; [|exact Hb]. lia. }
  destruct (ci_lm s I) as [tr Htr].
  assert (Hidle : (forall k, L.tab (lm s) k = None) /\ L.held (lm s) = 0 /\ L.semq (lm s) = []).
  { rewrite Htr. apply LP.idle. rewrite <- Htr. exact Hlim. }
  destruct Hidle as (Ht & Hh & Hq).
  assert (Els : lm s2 = lm s) by (rewrite H2; reflexivity).
  assert (Eob : ob s2 = ob s) by (rewrite H3; reflexivity).
  assert (Emx : mx s2 = mx s) by (rewrite H4; reflexivity).
  assert (Elv : live s2 = live s) by (rewrite H5; reflexivity).
  assert (Etk2 : tk s2 = tk s) by (rewrite H1; reflexivity).
  split; [|cbn; exact Elv].
  unfold sizes, n_tokens, n_mids, n_mutex, n_cache, n_limkeys, n_limqueued. cbn [Model.step tk rx pg mx dd bs br lm ob with_bs with_br].
  rewrite Etk2, Etk, Erx, Epg, Emx, (proj2 (ci_mx s I)), Edd, Els, Eob, Hh, Hq.
  assert (Hf : filter (fun k => match L.tab (lm s) k with Some _ => true | None => false end) (lim_keys (lm s)) = []) by (apply filter_none; intros k; rewrite Ht; reflexivity).
  rewrite Hf.
  assert (Hfold : forall l a, fold_left (fun a0 k => a0 + match L.tab (lm s) k with Some (_, q) => blen q | None => 0 end) l a = a).
  { induction l as [|k r IHl]; intros a; cbn [fold_left]; [reflexivity|]. rewrite Ht. rewrite IHl. lia. }
  rewrite Hfold. unfold blen at 1 2 3 4 5 6 7 8 9 10. cbn [length Z.of_nat Z.add].
  unfold blen. rewrite (oinv_sizes _ _ (ci_ob s I) Hnw). reflexivity.
Qed.
End Composition.
