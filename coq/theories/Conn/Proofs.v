(* Conn/Proofs.v -- C13: quiescent => empty, per component and for the product. *)
From Coq Require Import ZArith NArith List Bool Lia.
From GoCoap Require Import Base.Bytes Conn.MutexMap Conn.Model Conn.Spec.
Import ListNotations.
Open Scope Z_scope.
