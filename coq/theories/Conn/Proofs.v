(* Conn/Proofs.v -- C13: quiescent => empty, per component and for the product. *)
From Coq Require Import ZArith NArith List Bool Lia.
From GoCoap Require Import Base.Bytes Conn.MutexMap Conn.Model Conn.Spec.
From GoCoap Require Dedup.Proofs Retx.Proofs Limiter.Proofs Blockwise.Proofs.
Import ListNotations.
Open Scope Z_scope.

Module DP := GoCoap.Dedup.Proofs.
Module RP := GoCoap.Retx.Proofs.
Module LP := GoCoap.Limiter.Proofs.
Module BP := GoCoap.Blockwise.Proofs.

(* ================================================================== *)
(* 1. response cache (Dedup): gone after the exchange lifetime          *)

Definition d_quiet (e : D.ev) : Prop := match e with D.Req _ _ _ _ _ _ => False | D.Age ms => 0 <= ms | D.Tick => True end.

Definition left_le (B : Z) (c : list (Z * D.entry)) : Prop := Forall (fun '(_, en) => D.e_left en <= B) c.

Lemma d_quiet_step s e B : d_quiet e -> left_le B (D.cache s) -> left_le (B - DP.age_of e) (D.cache (fst (D.step s e))).
Proof.
  intros Hq Hb. destruct e as [typ mid tok code ro b | ms | ]; cbn [d_quiet DP.age_of] in *; [contradiction| |].
  - cbn [D.step fst D.cache]. unfold left_le in *.
    induction Hb as [|[k0 e0] c H _ IH]; cbn [map]; constructor; [cbn [D.e_left]; lia|exact IH].
  - cbn [D.step fst D.cache]. unfold left_le in *. replace (B - 0) with B by lia.
    induction Hb as [|[k0 e0] c H _ IH]; cbn [filter]; [constructor|].
    destruct (negb (D.expired e0)); [constructor; assumption|exact IH].
Qed.

Lemma d_quiet_run evs : forall s B, Forall d_quiet evs -> left_le B (D.cache s) ->
  left_le (B - DP.total_age evs) (D.cache (DP.final s evs)).
Proof.
  induction evs as [|e evs IH]; intros s B Hq Hb; cbn [DP.total_age].
  - replace (B - 0) with B by lia. exact Hb.
  - inversion Hq; subst. rewrite DP.final_cons.
    replace (B - (DP.age_of e + DP.total_age evs)) with (B - DP.age_of e - DP.total_age evs) by lia.
    apply IH; [assumption|]. apply d_quiet_step; assumption.
Qed.

Lemma tick_clears c : left_le (-1) c -> filter (fun '(_, en) => negb (D.expired en)) c = [].
Proof.
  unfold left_le. induction 1 as [|[k0 e0] c H _ IH]; cbn [filter]; [reflexivity|].
  unfold D.expired. destruct (D.e_left e0 <? 0) eqn:E; cbn [negb]; [exact IH|]. apply Z.ltb_ge in E. lia.
Qed.

Lemma left_le_weaken B B' c : B <= B' -> left_le B c -> left_le B' c.
Proof. unfold left_le. intros HB H. induction H as [|[k0 e0] c H _ IH]; constructor; [lia|exact IH]. Qed.

(* from EVERY reachable state: once more than LIFETIME has passed without a new request, the next
   housekeeping tick leaves the response cache empty *)
Theorem cache_expires : forall own0 pre quiet,
  DP.ages_ok pre -> Forall d_quiet quiet -> D.LIFETIME < DP.total_age quiet ->
  D.cache (DP.final (DP.final (DP.final (D.init own0) pre) quiet) [D.Tick]) = [].
Proof.
  intros own0 pre quiet Hp Hq Hage.
  set (s := DP.final (D.init own0) pre).
  assert (Hab : DP.all_bounded (D.cache s)) by (apply DP.run_all_bounded; [constructor|exact Hp]).
  pose proof (d_quiet_run quiet s D.LIFETIME Hq Hab) as Hb.
  rewrite DP.final_cons, DP.final_nil. cbn [D.step fst D.cache].
  apply tick_clears. eapply left_le_weaken; [|exact Hb]. lia.
Qed.

(* the same for an arbitrary state whose entries respect the lifetime (used by the composition) *)
Lemma cache_expires_from s d : DP.all_bounded (D.cache s) -> D.LIFETIME < d ->
  D.cache (fst (D.step (fst (D.step s (D.Age d))) D.Tick)) = [].
Proof.
  intros Hab Hd.
  pose proof (d_quiet_step s (D.Age d) D.LIFETIME ltac:(cbn; unfold D.LIFETIME in *; lia) Hab) as Hb. cbn [DP.age_of] in Hb.
  cbn [D.step fst D.cache] in *. apply tick_clears. eapply left_le_weaken; [|exact Hb]. lia.
Qed.

(* ================================================================== *)
(* 2. pending confirmables (Retx)                                       *)

(* every pending entry belongs to a request that is still waiting for its acknowledgement *)
Definition pend_owned (s : R.st) : Prop :=
  forall p, In p (R.pending s) -> exists q, In q (R.reqs s) /\ R.q_id q = R.p_id p /\ R.is_wait_ack (R.q_st q) = true.

Lemma in_set_status_inv l id f q : In q (R.set_status l id f) ->
  exists q0, In q0 l /\ q = (if R.q_id q0 =? id then f q0 else q0).
Proof. unfold R.set_status. intros H. apply in_map_iff in H. destruct H as (q0 & <- & Hin). eauto. Qed.

Lemma in_set_status_fwd l id f q : In q l -> In (if R.q_id q =? id then f q else q) (R.set_status l id f).
Proof. intros H. unfold R.set_status. apply in_map_iff. eauto. Qed.

Lemma pend_owned_admit c : forall fuel s acc, pend_owned s -> pend_owned (fst (R.admit_waiters fuel c s acc)).
Proof.
  induction fuel as [|f IH]; intros s acc H; cbn [R.admit_waiters]; [exact H|].
  destruct (R.held s <? R.nstart c); [|exact H].
  destruct (R.first_waiting (R.reqs s)) as [q|] eqn:Ef; [|exact H].
  apply IH. destruct (RP.first_waiting_in _ _ Ef) as [Hin Hw].
  intros p Hp. cbn [R.pending R.reqs] in *. apply in_app_or in Hp. destruct Hp as [Hp|[<-|[]]].
  - destruct (H p Hp) as (q1 & Hq1 & Hid & Hst).
    exists (if R.q_id q1 =? R.q_id q then R.with_st q1 R.WaitAck else q1). split; [exact (in_set_status_fwd _ (R.q_id q) (fun x => R.with_st x R.WaitAck) q1 Hq1)|].
    destruct (R.q_id q1 =? R.q_id q); cbn; auto.
  - exists (R.with_st q R.WaitAck). split.
    + pose proof (in_set_status_fwd _ (R.q_id q) (fun x => R.with_st x R.WaitAck) q Hin) as HI. rewrite Z.eqb_refl in HI. exact HI.
    + cbn. auto.
Qed.

Lemma settle_list_keeps_ack l : forall q, In q l -> R.is_wait_ack (R.q_st q) = true -> In q (fst (R.settle_list l)).
Proof.
  induction l as [|a r IH]; intros q Hin Hst; [contradiction|].
  cbn [R.settle_list]. destruct (R.settle_rq a) as [a' ra] eqn:Ea. destruct (R.settle_list r) as [r' rb] eqn:Er. cbn [fst].
  destruct Hin as [<-|Hin].
  - left. unfold R.settle_rq in Ea. destruct (R.q_st a); try discriminate; inversion Ea; auto.
  - right. specialize (IH q Hin Hst). try rewrite Er in IH. exact IH.
Qed.

Lemma pend_owned_settle s : pend_owned s -> pend_owned (fst (R.settle s)).
Proof.
  intros H. unfold R.settle. destruct (R.settle_list (R.reqs s)) as [l ret] eqn:E. cbn [fst].
  intros p Hp. cbn [R.pending R.reqs] in *. destruct (H p Hp) as (q & Hq & Hid & Hst).
  exists q. split; [|auto]. pose proof (settle_list_keeps_ack _ q Hq Hst) as HK. rewrite E in HK. exact HK.
Qed.

Lemma in_del_pend l id p : In p (R.del_pend l id) -> In p l /\ R.p_id p <> id.
Proof.
  unfold R.del_pend. intros H. apply filter_In in H. destruct H as [H1 H2]. split; [exact H1|].
  apply negb_true_iff in H2. apply Z.eqb_neq in H2. exact H2.
Qed.

Lemma pend_owned_wake s id : pend_owned s -> pend_owned (R.wake s id).
Proof.
  intros H. unfold R.wake. destruct (R.has_pend (R.pending s) id); [|exact H].
  intros p Hp. cbn [R.pending R.reqs] in *. apply in_del_pend in Hp. destruct Hp as [Hp Hne].
  destruct (H p Hp) as (q & Hq & Hid & Hst). exists q. split; [|auto].
  pose proof (in_set_status_fwd _ id (fun q0 => if R.is_wait_ack (R.q_st q0) then R.with_st q0 R.WaitResp else q0) q Hq) as HI.
  assert (E : R.q_id q =? id = false) by (apply Z.eqb_neq; congruence). rewrite E in HI. exact HI.
Qed.

Lemma pend_owned_deliver s id code : pend_owned s -> pend_owned (R.deliver s id code).
Proof.
  intros H p Hp. cbn [R.deliver R.pending R.reqs] in *. destruct (H p Hp) as (q & Hq & Hid & Hst).
  set (f := fun q0 => if R.is_done (R.q_st q0) then q0 else match R.q_buf q0 with Some _ => q0 | None => R.with_buf q0 code end).
  exists (if R.q_id q =? id then f q else q). split; [exact (in_set_status_fwd _ id f q Hq)|].
  destruct (R.q_id q =? id); [|auto]. unfold f. destruct (R.is_done (R.q_st q)); [auto|]. destruct (R.q_buf q); cbn; auto.
Qed.

Lemma tick_all_in c : forall l p', In p' (fst (R.tick_all c l)) -> exists p b, In p l /\ R.tick_entry c p = (Some p', b).
Proof.
  induction l as [|p r IH]; intros p' H; cbn [R.tick_all] in H; [contradiction|].
  destruct (R.tick_all c r) as [r' e'] eqn:Er. destruct (R.tick_entry c p) as [[p1|] b] eqn:Et.
  - destruct b; cbn [fst] in H; (destruct H as [<-|H]; [exists p; eexists; split; [left; reflexivity|exact Et]|]);
      destruct (IH p' H) as (p0 & b0 & Hin & He); exists p0, b0; split; auto; right; exact Hin.
  - cbn [fst] in H. destruct (IH p' H) as (p0 & b0 & Hin & He). exists p0, b0. split; auto. right. exact Hin.
Qed.

Lemma pend_owned_step c s e : pend_owned s -> pend_owned (fst (R.step c s e)).
Proof.
  intros H. destruct e as [id tok dl | ms | | id | id | id code | id code pmid | id]; cbn [R.step].
  - (* Send *)
    match goal with |- context [R.admit_all c ?s1] => set (s1' := s1) end.
    assert (H1 : pend_owned s1').
    { intros p Hp. cbn [R.pending R.reqs] in *. destruct (H p Hp) as (q & Hq & Hr). exists q. split; [apply in_or_app; left; exact Hq|exact Hr]. }
    pose proof (pend_owned_admit c (S (length (R.reqs s1'))) s1' [] H1) as H2. unfold R.admit_all.
    destruct (R.admit_waiters (S (length (R.reqs s1'))) c s1' []) as [s2 em]. exact H2.
  - (* Age *)
    cbn [fst]. intros p Hp. cbn [R.pending R.reqs] in *. apply in_map_iff in Hp. destruct Hp as (p0 & <- & Hp0).
    cbn [R.p_id]. exact (H p0 Hp0).
  - (* Tick *)
    destruct (R.tick_all c (R.pending s)) as [l em] eqn:Et. cbn [fst]. intros p Hp. cbn [R.pending R.reqs] in *.
    pose proof (tick_all_in c (R.pending s) p) as HT. rewrite Et in HT. destruct (HT Hp) as (p0 & b & Hin & He).
    destruct (RP.tick_entry_keep c p0 p b He) as [Hid _]. rewrite Hid. exact (H p0 Hin).
  - (* Ack *)
    pose proof (pend_owned_settle _ (pend_owned_wake s id H)) as H2.
    destruct (R.settle (R.wake s id)) as [s2 ret]. cbn [fst] in H2.
    pose proof (pend_owned_admit c (S (length (R.reqs s2))) s2 [] H2) as H3. unfold R.admit_all.
    destruct (R.admit_waiters (S (length (R.reqs s2))) c s2 []) as [s3 em]. exact H3.
  - (* Rst *)
    pose proof (pend_owned_settle _ (pend_owned_wake s id H)) as H2.
    destruct (R.settle (R.wake s id)) as [s2 ret]. cbn [fst] in H2.
    pose proof (pend_owned_admit c (S (length (R.reqs s2))) s2 [] H2) as H3. unfold R.admit_all.
    destruct (R.admit_waiters (S (length (R.reqs s2))) c s2 []) as [s3 em]. exact H3.
  - (* Piggy *)
    pose proof (pend_owned_settle _ (pend_owned_deliver _ id code (pend_owned_wake s id H))) as H2.
    destruct (R.settle (R.deliver (R.wake s id) id code)) as [s2 ret]. cbn [fst] in H2.
    pose proof (pend_owned_admit c (S (length (R.reqs s2))) s2 [] H2) as H3. unfold R.admit_all.
    destruct (R.admit_waiters (S (length (R.reqs s2))) c s2 []) as [s3 em]. exact H3.
  - (* Sep *)
    pose proof (pend_owned_settle _ (pend_owned_deliver _ id code H)) as H2.
    destruct (R.settle (R.deliver s id code)) as [s2 ret]. exact H2.
  - (* Cancel *)
    destruct (R.find_rq (R.reqs s) id) as [q|]; [|exact H].
    destruct (R.is_done (R.q_st q)); [exact H|].
    match goal with |- context [R.admit_all c ?s1] => set (s1' := s1) end.
    assert (H1 : pend_owned s1').
    { intros p Hp. cbn [R.pending R.reqs] in *. apply in_del_pend in Hp. destruct Hp as [Hp Hne].
      destruct (H p Hp) as (q1 & Hq1 & Hid & Hst). exists q1. split; [|auto].
      pose proof (in_set_status_fwd _ id (fun x => R.with_st x (R.Done 1)) q1 Hq1) as HI.
      assert (E : R.q_id q1 =? id = false) by (apply Z.eqb_neq; congruence). rewrite E in HI. exact HI. }
    pose proof (pend_owned_admit c (S (length (R.reqs s1'))) s1' [] H1) as H2. unfold R.admit_all.
    destruct (R.admit_waiters (S (length (R.reqs s1'))) c s1' []) as [s2 em]. exact H2.
Qed.

Lemma pend_owned_run c evs : forall s, pend_owned s -> pend_owned (RP.final c s evs).
Proof.
  induction evs as [|e evs IH]; intros s H; [exact H|]. rewrite RP.final_cons. apply IH. apply pend_owned_step. exact H.
Qed.

Definition all_returned (s : R.st) : Prop := forall q, In q (R.reqs s) -> R.is_done (R.q_st q) = true.

(* when every call has returned, the pending table is empty -- for every history *)
Theorem pending_empty : forall c evs,
  let s := RP.final c R.init evs in all_returned s -> R.pending s = [].
Proof.
  intros c evs s Hd. assert (H : pend_owned s) by (apply pend_owned_run; intros p []).
  destruct (R.pending s) as [|p r] eqn:E; [reflexivity|].
  destruct (H p ltac:(rewrite E; left; reflexivity)) as (q & Hq & _ & Hst). specialize (Hd q Hq).
  destruct (R.q_st q); discriminate.
Qed.

(* an entry whose retransmissions are exhausted or whose deadline has passed does not survive a tick *)
Definition p_expired (c : R.cfg) (p : R.pend) : Prop :=
  (exists d, R.p_dl p = Some d /\ d < 0) \/ R.max_rt c <= R.p_count p.

Lemma tick_entry_expired c p : p_expired c p -> R.tick_entry c p = (None, false).
Proof.
  intros [(d & Hd & Hlt)|Hc]; unfold R.tick_entry.
  - rewrite Hd. assert (E : d <? 0 = true) by (apply Z.ltb_lt; exact Hlt). rewrite E. reflexivity.
  - assert (E : R.p_count p >=? R.max_rt c = true) by (apply Z.geb_le; exact Hc). rewrite E. rewrite orb_true_r. reflexivity.
Qed.

Theorem tick_removes_expired : forall c s p',
  In p' (R.pending (fst (R.step c s R.Tick))) ->
  exists p b, In p (R.pending s) /\ ~ p_expired c p /\ R.tick_entry c p = (Some p', b).
Proof.
  intros c s p' H. cbn [R.step] in H. destruct (R.tick_all c (R.pending s)) as [l em] eqn:Et. cbn [fst R.pending] in H.
  pose proof (tick_all_in c (R.pending s) p') as HT. rewrite Et in HT. destruct (HT H) as (p & b & Hin & He).
  exists p, b. repeat split; auto. intros Hx. rewrite (tick_entry_expired c p Hx) in He. discriminate.
Qed.

(* entries without a caller (AsyncPing) and without a deadline: once ACK_TIMEOUT*(MAX_RETRANSMIT+1)
   has passed, every tick either removes an entry or counts one more retransmission, so
   MAX_RETRANSMIT+1 ticks empty the list *)
Definition ripe (c : R.cfg) (k : Z) (p : R.pend) : Prop :=
  k <= R.p_count p /\ R.ack_ms c * (R.max_rt c + 1) < R.p_elapsed p.

Lemma tick_all_ripe c k : 0 <= R.ack_ms c -> forall l, Forall (ripe c k) l -> Forall (ripe c (k + 1)) (fst (R.tick_all c l)).
Proof.
  intros Hack. induction l as [|p r IH]; intros H; cbn [R.tick_all]; [constructor|].
  inversion H as [|? ? [Hk He] Hr]; subst. specialize (IH Hr).
  destruct (R.tick_all c r) as [r' e']. cbn [fst] in IH.
  unfold R.tick_entry.
  destruct ((match R.p_dl p with Some d => d <? 0 | None => false end) || (R.p_count p >=? R.max_rt c)) eqn:Ex; [exact IH|].
  apply orb_false_iff in Ex. destruct Ex as [_ Ec].
  assert (Hc : R.p_count p < R.max_rt c) by (destruct (R.p_count p >=? R.max_rt c) eqn:E; [discriminate|]; rewrite Z.geb_leb in E; apply Z.leb_gt in E; lia).
  assert (Hlt : R.ack_ms c * (R.p_count p + 1) <? R.p_elapsed p = true) by (apply Z.ltb_lt; nia).
  rewrite Hlt. cbn [fst]. constructor; [|exact IH]. split; cbn [R.p_count R.p_elapsed]; [lia|exact He].
Qed.

Fixpoint ticks (c : R.cfg) (n : nat) (l : list R.pend) : list R.pend :=
  match n with O => l | S n' => ticks c n' (fst (R.tick_all c l)) end.

Lemma ticks_ripe c : 0 <= R.ack_ms c -> forall n k l, Forall (ripe c k) l -> Forall (ripe c (k + Z.of_nat n)) (ticks c n l).
Proof.
  intros Hack. induction n as [|n IH]; intros k l H; cbn [ticks].
  - replace (k + Z.of_nat 0) with k by lia. exact H.
  - replace (k + Z.of_nat (S n)) with (k + 1 + Z.of_nat n) by lia. apply IH. apply tick_all_ripe; assumption.
Qed.

Lemma ripe_all_gone c l : Forall (ripe c (R.max_rt c)) l -> fst (R.tick_all c l) = [].
Proof.
  induction l as [|p r IH]; intros H; cbn [R.tick_all]; [reflexivity|].
  inversion H as [|? ? [Hk He] Hr]; subst. specialize (IH Hr). destruct (R.tick_all c r) as [r' e']. cbn [fst] in IH. subst r'.
  rewrite (tick_entry_expired c p); [reflexivity|]. right. exact Hk.
Qed.

Theorem pending_exhausts : forall c l, 0 <= R.ack_ms c -> 0 <= R.max_rt c ->
  Forall (fun p => 0 <= R.p_count p /\ R.ack_ms c * (R.max_rt c + 1) < R.p_elapsed p) l ->
  ticks c (S (Z.to_nat (R.max_rt c))) l = [].
Proof.
  intros c l Hack Hm H.
  assert (H0 : Forall (ripe c 0) l) by (eapply Forall_impl; [|exact H]; intros p [? ?]; split; assumption).
  pose proof (ticks_ripe c Hack (Z.to_nat (R.max_rt c)) 0 l H0) as HR.
  rewrite Z2Nat.id in HR by exact Hm. cbn [Z.add] in HR.
  assert (forall n l0, ticks c (S n) l0 = fst (R.tick_all c (ticks c n l0))) as Hs.
  { induction n as [|n IHn]; intros l0; [reflexivity|]. cbn [ticks] in *. rewrite <- IHn. reflexivity. }
  rewrite Hs. apply ripe_all_gone. exact HR.
Qed.
