(* Conn/Model.v -- the per-exchange tables of one udp/client.Conn as the product of the
   component models, driven by one event alphabet:

     response cache        Dedup.Model   (handleReq: cache lookup / store, Age, Tick)
     pending confirmables  Retx.Model    (prepareWriteMessage / CheckExpirations / wake / cancel)
       + token continuations (doInternal: registered before the write, removed when the call returns:
         a request of the Retx model has its continuation exactly while it is not Done)
       + AsyncPing entries  (pending entries without a caller and without a deadline; same tick rule)
     per-ID lock map       Conn.MutexMap (handleReq: TryLock(mid), else Lock(mid) ... Unlock)
     block-wise caches     Blockwise.Model tables (tput / tdel on sending / receiving, expiry sweep)
     limiter               Limiter.Model (endpoint queues + total semaphore)
     observations          Observe.Model (registration, first response, notifications, cancel)

   plus the ghost [live]: the registrations that are live observations (registered successfully,
   not cancelled, not evicted).  No proofs here. *)
From Coq Require Import ZArith NArith List Bool.
From GoCoap Require Import Base.Bytes.
From GoCoap Require Dedup.Model Retx.Model Blockwise.Model Limiter.Model Observe.Model.
From GoCoap Require Import Conn.MutexMap.
Import ListNotations.
Open Scope Z_scope.

Module D := GoCoap.Dedup.Model.
Module R := GoCoap.Retx.Model.
Module B := GoCoap.Blockwise.Model.
Module L := GoCoap.Limiter.Model.
Module O := GoCoap.Observe.Model.


(* ---- doInternal as a program over the token table (tokenHandlerContainer) ----
   TReg r tok : LoadOrStore(token.Hash(), continuation); when the key exists the call returns
                ErrKeyAlreadyExists at once and stores nothing
   TDeliver tok: handle(): LoadAndDelete(token) -- the response is handed to the continuation
   TExit r     : the call returns (write error, context done, connection closed, or response
                received); the deferred LoadAndDelete(token.Hash()) runs -- it deletes BY TOKEN *)
Inductive tstat := TNot | TWait (tok : Z) | TRet.
Record toks := mkT { ttab : list (Z * Z); tst : Z -> tstat }.
Inductive tact := TReg (r tok : Z) | TDeliver (tok : Z) | TExit (r : Z).

Fixpoint tassoc (l : list (Z * Z)) (k : Z) : option Z :=
  match l with [] => None | (k', v) :: r => if k =? k' then Some v else tassoc r k end.
Definition tremove (l : list (Z * Z)) (k : Z) : list (Z * Z) := filter (fun kv => negb (fst kv =? k)) l.
Definition tset (f : Z -> tstat) (r : Z) (v : tstat) : Z -> tstat := fun x => if x =? r then v else f x.

Definition tstep (s : toks) (a : tact) : toks :=
  match a with
  | TReg r tok =>
      match tst s r with
      | TNot => match tassoc (ttab s) tok with
                | Some _ => mkT (ttab s) (tset (tst s) r TRet)
                | None => mkT ((tok, r) :: ttab s) (tset (tst s) r (TWait tok))
                end
      | _ => s
      end
  | TDeliver tok => mkT (tremove (ttab s) tok) (tst s)
  | TExit r =>
      match tst s r with
      | TWait tok => mkT (tremove (ttab s) tok) (tset (tst s) r TRet)
      | _ => s
      end
  end.
Definition toks0 : toks := mkT [] (fun _ => TNot).

Record conn := mkConn {
  dd : D.st;            (* response cache *)
  rx : R.st;            (* requests and pending confirmables *)
  tk : toks;            (* token continuations *)
  pg : list R.pend;     (* AsyncPing entries of the pending table *)
  bs : B.tbl;           (* sendingMessagesCache *)
  br : B.tbl;           (* receivingMessagesCache *)
  lm : L.lim;
  ob : O.st;
  mx : mmap;
  live : list nat
}.

Inductive cev :=
(* a datagram reaches handleReq: for the peer's CON/NON TryLock(mid) (free: taken at once); cache
   lookup; handler (answers or not); store; Unlock.  An ACK/RST takes no per-ID lock. *)
| EIn (typ code mid : Z) (answered : bool)
(* two copies of one CON/NON datagram, the second reaching handleReq (on a replacement reader loop)
   while the handler of the first is still running: its TryLock(mid) fails, it asks for a
   replacement loop and waits in Lock(mid); when the first has stored its reply and unlocked, the
   second gets the lock and is answered from the cache *)
| EInCont (typ code mid : Z) (answered : bool)
(* a request call (doInternal + writeMessage) and what ends it *)
| RxSend (r : Z) | RxPiggy (r : Z) | RxAck (r : Z) | RxRst (r : Z) | RxCancel (r : Z)
(* limiter: Do is called / its context is cancelled / the wrapped function returns / run to rest *)
| LmArrive (r k : Z) | LmCancel (r : Z) | LmFinish (r : Z) | LmSettle
(* observation handler *)
| ObReg (tok : list Z) | ObMsg (tok : list Z) (code : Z) (o : option (list Z)) (tag : Z) | ObCancel (id : Z) (code : Z)
(* block-wise caches: LoadOrStore / Delete of the entry of a token; sweep with every entry expired *)
| BwPutS (t : Z) | BwDelS (t : Z) | BwPutR (t : Z) | BwDelR (t : Z) | BwExpire
(* AsyncPing: entry stored / removed by pong or by the cancel function *)
| PingStart (id : Z) | PingEnd (id : Z)
(* virtual time for every deadline of the connection; one CheckExpirations *)
| AgeAll (ms : Z) | TickAll
(* one CheckExpirations while the transport is down (down = true): every session.WriteMessage of a
   retransmitted copy returns an error *)
| TickAllW (down : bool)
(* Observation.Cancel whose deregistration exchange FAILS (peer silent until the context ends, write
   error, request refused): cleanUp is Cancel's first statement, so the entry goes whatever becomes of
   the exchange *)
| ObCancelErr (id : Z)
(* limiter at the granularity of its atomic sections: ONE action of one goroutine (e.g. the select of
   acquireEndpoint taking <-ctx.Done()), and "everybody runs to rest except the goroutines in [hold]"
   (a cancelled waiter delayed between that select and cancelEndpoint, while a concurrent
   releaseEndpoint hands its slot to it) *)
| LmAct (a : L.act)
| LmSettleHold (hold : list N).

Definition dummy_msg (t : Z) : B.msg :=
  {| B.mcode := 0; B.mtok := t; B.mb1 := None; B.mb2 := None; B.ms1 := None; B.ms2 := None;
     B.metag := None; B.mobs := None; B.mother := []; B.mbody := [] |}.

Definition with_dd (s : conn) (x : D.st) := mkConn x (rx s) (tk s) (pg s) (bs s) (br s) (lm s) (ob s) (mx s) (live s).
Definition with_rx (s : conn) (x : R.st) := mkConn (dd s) x (tk s) (pg s) (bs s) (br s) (lm s) (ob s) (mx s) (live s).
Definition with_tk (s : conn) (x : toks) := mkConn (dd s) (rx s) x (pg s) (bs s) (br s) (lm s) (ob s) (mx s) (live s).
Definition with_pg (s : conn) (x : list R.pend) := mkConn (dd s) (rx s) (tk s) x (bs s) (br s) (lm s) (ob s) (mx s) (live s).
Definition with_bs (s : conn) (x : B.tbl) := mkConn (dd s) (rx s) (tk s) (pg s) x (br s) (lm s) (ob s) (mx s) (live s).
Definition with_br (s : conn) (x : B.tbl) := mkConn (dd s) (rx s) (tk s) (pg s) (bs s) x (lm s) (ob s) (mx s) (live s).
Definition with_lm (s : conn) (x : L.lim) := mkConn (dd s) (rx s) (tk s) (pg s) (bs s) (br s) x (ob s) (mx s) (live s).
Definition with_ob (s : conn) (x : O.st) (lv : list nat) := mkConn (dd s) (rx s) (tk s) (pg s) (bs s) (br s) (lm s) x (mx s) lv.
Definition with_mx (s : conn) (x : mmap) := mkConn (dd s) (rx s) (tk s) (pg s) (bs s) (br s) (lm s) (ob s) x (live s).

Definition rstep (c : R.cfg) (s : conn) (e : R.ev) : conn := with_rx s (fst (R.step c (rx s) e)).
(* the ping entries obey the rules of the pending table: run them through the same step *)
Definition pstep (c : R.cfg) (l : list R.pend) (e : R.ev) : list R.pend :=
  R.pending (fst (R.step c {| R.reqs := []; R.pending := l |} e)).

(* checkMidHandlerContainer with the outcome of session.WriteMessage.  Retransmit() counts the
   attempt BEFORE the copy is written; a write error is reported through cc.errors and changes
   nothing in the table.  [wfail id]: the write of the copy of entry id fails.  Result: the entries
   kept, the copies that reached the wire, the number of write errors reported. *)
Fixpoint tick_all_w (c : R.cfg) (wfail : Z -> bool) (l : list R.pend) : list R.pend * list R.emit * Z :=
  match l with
  | [] => ([], [], 0)
  | p :: r =>
      let '(r', e', n') := tick_all_w c wfail r in
      match R.tick_entry c p with
      | (None, _) => (r', e', n')
      | (Some p', true) =>
          if wfail (R.p_id p') then (p' :: r', e', n' + 1) else (p' :: r', R.Copy (R.p_id p') :: e', n')
      | (Some p', false) => (p' :: r', e', n')
      end
  end.
Definition tick_w_tbl (c : R.cfg) (wfail : Z -> bool) (l : list R.pend) : list R.pend := fst (fst (tick_all_w c wfail l)).

Definition remove_nat (x : nat) (l : list nat) : list nat := filter (fun y => negb (Nat.eqb y x)) l.

(* ghost: which registrations are live observations after an event of the observation handler *)
Definition live_after (s : O.st) (lv : list nat) (e : O.ev) : list nat :=
  match e with
  | O.EReg tok =>
      match tok with
      | [] => lv
      | _ => lv     (* a fresh entry still waits for its first response; a token in use is refused and
                       the holder of the key stays (the clean-up is installed only after LoadOrStore) *)
      end
  | O.EMsg m _ =>
      match O.tget (O.crc64 (O.m_tok m)) (O.tbl s) with
      | Some o => if O.o_wait o
                  then if O.code_ok (O.m_code m)
                       then match O.observe_wire m with Some _ => O.o_id o :: lv | None => lv end
                       else lv
                  else lv
      | None => lv
      end
  | O.ECancel id _ =>
      (* cleanUp deletes BY TOKEN: whoever holds the key of registration id's token leaves the table *)
      match nth_error (O.regs s) id with
      | Some tok => match O.tget (O.crc64 tok) (O.tbl s) with
                    | Some o => remove_nat (O.o_id o) lv
                    | None => lv
                    end
      | None => lv
      end
  | O.ECancelErr id =>
      (* Cancel whose deregistration exchange fails: cleanUp has run all the same (C08, round 2) *)
      match nth_error (O.regs s) id with
      | Some tok => match O.tget (O.crc64 tok) (O.tbl s) with
                    | Some o => remove_nat (O.o_id o) lv
                    | None => lv
                    end
      | None => lv
      end
  | O.EQuiet => lv
  end.

Definition ostep (s : conn) (e : O.ev) : conn :=
  with_ob s (fst (O.step O.observe_wire (ob s) e)) (live_after (ob s) (live s) e).

Definition SETTLE_FUEL : nat := 64.

(* handleReq's use of the per-ID lock map (two handler threads: reader loop and its replacement) *)
Definition locks_mid (typ : Z) : bool := (typ =? 0) || (typ =? 1).
(* uncontended: TryLock succeeds; Unlock = ExitMap, Release *)
Definition lock_cycle (m : mmap) (mid : Z) : mmap :=
  exec2 m [(0, mid, true); (0, mid, false); (0, mid, false)]%nat.
(* contended: thread 0 TryLock ok; thread 1 TryLock fails, Lock enters and waits; thread 0 Unlock;
   thread 1 acquires, Unlock *)
Definition lock_cycle_contended (m : mmap) (mid : Z) : mmap :=
  exec2 m [(0, mid, true); (1, mid, true); (1, mid, false); (0, mid, false); (0, mid, false);
           (1, mid, false); (1, mid, false); (1, mid, false)]%nat.

Definition step (c : R.cfg) (s : conn) (e : cev) : conn :=
  match e with
  | EIn typ code mid ans =>
      let s1 := if locks_mid typ then with_mx s (lock_cycle (mx s) mid) else s in
      with_dd s1 (fst (D.step (dd s1) (D.Req typ mid [] code [] (if ans then D.BResp 69 [] [] else D.BNone))))
  | EInCont typ code mid ans =>
      let s1 := with_mx s (lock_cycle_contended (mx s) mid) in
      let rq := D.Req typ mid [] code [] (if ans then D.BResp 69 [] [] else D.BNone) in
      let s2 := with_dd s1 (fst (D.step (dd s1) rq)) in
      with_dd s2 (fst (D.step (dd s2) rq))
  | RxSend r => with_tk (rstep c s (R.Send r [] None)) (tstep (tk s) (TReg r r))
  | RxPiggy r => with_tk (rstep c s (R.Piggy r 69)) (tstep (tstep (tk s) (TDeliver r)) (TExit r))
  | RxAck r => rstep c s (R.Ack r)
  | RxRst r => rstep c s (R.Rst r)
  | RxCancel r => with_tk (rstep c s (R.Cancel r)) (tstep (tk s) (TExit r))
  | LmArrive r k => with_lm s (L.step (lm s) (L.Arrive (Z.to_N r) (Z.to_N k)))
  | LmCancel r => with_lm s (L.step (lm s) (L.Cancel (Z.to_N r)))
  | LmFinish r => with_lm s (L.step (lm s) (L.Finish (Z.to_N r)))
  | LmSettle => with_lm s (L.settle SETTLE_FUEL (lm s))
  | ObReg tok => ostep s (O.EReg tok)
  | ObMsg tok code o tag => ostep s (O.EMsg (O.mkMsg tok code o tag) 0)
  | ObCancel id code => ostep s (O.ECancel (Z.to_nat id) code)
  | BwPutS t => with_bs s (B.tput (bs s) t (dummy_msg t))
  | BwDelS t => with_bs s (B.tdel (bs s) t)
  | BwPutR t => with_br s (B.tput (br s) t (dummy_msg t))
  | BwDelR t => with_br s (B.tdel (br s) t)
  | BwExpire => with_br (with_bs s []) []
  | PingStart id => with_pg s (pg s ++ [{| R.p_id := id; R.p_elapsed := 0; R.p_dl := None; R.p_count := 0 |}])
  | PingEnd id => with_pg s (R.del_pend (pg s) id)
  | AgeAll ms =>
      let s1 := with_dd s (fst (D.step (dd s) (D.Age ms))) in
      with_pg (rstep c s1 (R.Age ms)) (pstep c (pg s1) (R.Age ms))
  | TickAll =>
      let s1 := with_dd s (fst (D.step (dd s) D.Tick)) in
      with_pg (rstep c s1 R.Tick) (pstep c (pg s1) R.Tick)
  | TickAllW down =>
      let s1 := with_dd s (fst (D.step (dd s) D.Tick)) in
      let w := fun _ : Z => down in
      with_pg (with_rx s1 {| R.reqs := R.reqs (rx s1); R.pending := tick_w_tbl c w (R.pending (rx s1)) |})
              (tick_w_tbl c w (pg s1))
  | ObCancelErr id => ostep s (O.ECancelErr (Z.to_nat id))
  | LmAct a => with_lm s (L.step (lm s) a)
  | LmSettleHold hold => with_lm s (L.settle_hold SETTLE_FUEL hold (lm s))
  end.

Definition run (c : R.cfg) (s : conn) (evs : list cev) : conn := fold_left (step c) evs s.

Definition init (limit epl : Z) : conn :=
  mkConn (D.init 0) R.init toks0 [] [] [] (L.new_lim limit epl) O.st0 (MutexMap.init 2) [].

(* ---- table sizes, in the order the harness reads them ---- *)
Definition n_tokens (s : conn) : Z := blen (ttab (tk s)).
Definition n_mids (s : conn) : Z := blen (R.pending (rx s)) + blen (pg s).
Definition n_mutex (s : conn) : Z := blen (tab (mx s)).
Definition n_cache (s : conn) : Z := blen (D.cache (dd s)).

Fixpoint nodupN (l : list N) : list N :=
  match l with [] => [] | x :: r => if L.mem x r then nodupN r else x :: nodupN r end.
Definition lim_keys (l : L.lim) : list N := nodupN (map (L.keyof l) (L.arr l)).
Definition n_limkeys (s : conn) : Z :=
  blen (filter (fun k => match L.tab (lm s) k with Some _ => true | None => false end) (lim_keys (lm s))).
Definition n_limqueued (s : conn) : Z :=
  fold_left (fun a k => a + match L.tab (lm s) k with Some (_, q) => blen q | None => 0 end) (lim_keys (lm s)) 0.

Definition sizes (s : conn) : list Z :=
  [n_tokens s; n_mids s; n_mutex s; n_cache s; blen (bs s); blen (br s);
   n_limkeys s; n_limqueued s; L.held (lm s); blen (L.semq (lm s)); blen (O.tbl (ob s))].

Definition total_size (s : conn) : Z := fold_left Z.add (sizes s) 0.
